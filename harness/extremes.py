"""Operands of extreme but representable magnitude (shared by C01, C02, C10): the squared Frobenius norm under- or overflows the dtype although the
norm itself and every entry are ordinary normal numbers. The truncating routines square the singular values (`rank_chop`: np.linalg.norm(s) == 0,
np.abs(s)**2; callers: tn.linalg.norm(S) * eps), so such operands are cut to (almost) rank 1. Errors are measured after an EXACT rescaling by a power
of two in float64, so the measurement itself cannot over- or underflow."""
import numpy as np
import ttgen

KEY_UNDER = "extreme magnitude (the squared norm underflows): %s cuts the operand to rank 1, error far above eps"
KEY_OVER = "extreme magnitude (the squared norm overflows for the leading singular values only): %s discards the smaller singular values, error far above eps"

def _cases(rng, torch):
    """(label, dtype, exponent k with scale 2**k, kind) - data: an exactly rank-3 6x6x6 tensor with singular values 1, 0.5, 1e-2 per unfolding (well above eps = 1e-6)"""
    return [("float64, ordinary scale (control)", torch.float64, 0, "control"), ("float32, ordinary scale (control)", torch.float32, 0, "control"),
            ("float64 * 2**-560 (norm 5e-169)", torch.float64, -560, "under"), ("float32 * 2**-80 (norm 1e-24)", torch.float32, -80, "under"),
            ("complex128 * 2**-560", torch.complex128, -560, "under"),
            ("float64 * 2**514 (norm 7e154)", torch.float64, 514, "over"), ("float32 * 2**66 (norm 1e20)", torch.float32, 66, "over")]

def _data(rng, torch, dtype):
    n = 6
    Q = [np.linalg.qr(np.array([[rng.gauss(0, 1) for _ in range(3)] for _ in range(n)]))[0] for _ in range(3)]
    A = sum(w * np.einsum("i,j,k->ijk", Q[0][:, t], Q[1][:, t], Q[2][:, t]) for t, w in enumerate((1.0, 0.5, 1e-2)))
    A = torch.tensor(A, dtype=torch.float64)
    if dtype.is_complex: A = A * complex(0.6, 0.8)
    return A

def _full64(torch, x, k):
    """dense value of x * 2**-k in double precision (the first core is rescaled exactly before the contraction)"""
    wide = torch.complex128 if x.cores[0].is_complex() else torch.float64
    cs = [c.detach().to(wide).resolve_conj().resolve_neg().numpy() for c in x.cores]
    cs[0] = np.ldexp(cs[0].real, -k) + (1j * np.ldexp(cs[0].imag, -k) if np.iscomplexobj(cs[0]) else 0)
    return ttgen.ref_full(cs)

def run(V, rng, torch, torchtt, ops, dist, label_ops):
    """ops: list of (name, f(operand) -> TT, operand is the dense array (True) or a TT (False), map of the dense reference or None);
    label_ops: how the routines of this property are named in the finding"""
    eps = 1e-6
    for label, dtype, k, kind in _cases(rng, torch):
        A = _data(rng, torch, dtype)                                    # norm ~ 1.1, double precision
        ref = A.numpy()
        for name, f, wants_dense, refmap in ops:
            desc = {"extreme_magnitude": label, "operation": name, "eps": eps, "dtype": str(dtype)}
            key = {"under": KEY_UNDER % label_ops, "over": KEY_OVER % label_ops, "control": "ordinary magnitude (control of the extreme-magnitude block): %s is off" % name}[kind]
            try:
                if wants_dense:
                    src = (torch.tensor(np.ldexp(ref.real, k)) + (1j * torch.tensor(np.ldexp(ref.imag, k)) if dtype.is_complex else 0)).to(dtype)
                    y = f(src)
                else:
                    x0 = torchtt.TT(A.to(torch.complex128 if dtype.is_complex else torch.float64), eps=1e-14)
                    cs = [c.clone() for c in x0.cores]; cs[1] = torch.tensor(np.ldexp(cs[1].real.numpy(), k)) + (1j * torch.tensor(np.ldexp(cs[1].imag.numpy(), k)) if dtype.is_complex else 0)
                    x = torchtt.TT([c.to(dtype) for c in cs]); x = x + x if name.startswith("round") else x   # round: stored with doubled ranks
                    y = f(x)
                got = _full64(torch, y, k)
                want = refmap(ref) if refmap else ref
                if name.startswith("round"): want = 2 * want
                err = float(np.sqrt((np.abs(got.reshape(-1) - want.reshape(-1)) ** 2).sum()) / np.sqrt((np.abs(want) ** 2).sum()))
                tol = 20 * eps + (1e-5 if dtype == torch.float32 else 1e-12)
                if not (err <= tol):
                    V.fail(key, dict(desc, relative_error=err, ranks=[int(r) for r in y.R]))
            except Exception as ex:
                V.fail("extreme magnitude: %s raises %s" % (name, type(ex).__name__), dict(desc, exc=str(ex)[:200]))
            dist["extreme magnitude: " + kind] = dist.get("extreme magnitude: " + kind, 0) + 1
