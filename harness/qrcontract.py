"""The orthogonalisation primitives behind every gauge (torchtt._decomposition.QR, lr_orthogonal, rl_orthogonal) on unfoldings that are very tall and
badly conditioned (a long mode next to a small rank, nearly parallel columns): Q has orthonormal columns to round-off, Q R reproduces the matrix, and the
cores returned by the sweeps have orthonormal unfoldings. Shared by C02, C07 and C16 (rounding accuracy, norm, tangent-space projector all rest on it)."""
import numpy as np

def run(V, rng, torch, torchtt, tier, dist, label):
    from torchtt._decomposition import QR, lr_orthogonal, rl_orthogonal
    n_ = 0
    for j in range(6 if tier == "quick" else 60):
        rows = [96, 200, 640, 64][j % 4]; cols = [2, 3, 2, 3][j % 4]; dt = [torch.float64, torch.float64, torch.float32, torch.complex128][j % 4] if j % 8 < 6 else torch.float64
        tol = 1e-4 if dt == torch.float32 else 1e-11
        g = lambda *shp: torch.tensor(np.array([rng.gauss(0, 1) for _ in range(int(np.prod(shp)))]).reshape(shp)).to(dt)
        base = g(rows, 1)
        ratio = [4e-7, 1e-5, 1e-3, 1e-6][j % 4] if dt != torch.float32 else 1e-3
        A = torch.cat([base] + [base + ratio * g(rows, 1) for _ in range(cols - 1)], 1)            # columns nearly parallel: sigma_2 / sigma_1 ~ ratio
        desc = {"qr_contract": True, "rows": rows, "cols": cols, "dtype": str(dt), "column_separation": ratio}
        try:
            Q, R = QR(A)
            e_orth = float((Q.conj().T @ Q - torch.eye(Q.shape[1], dtype=dt)).abs().max()); e_rec = float((Q @ R - A).abs().max() / A.abs().max())
            if not (e_orth <= tol and e_rec <= tol): V.fail("%s: QR of a tall, badly conditioned unfolding: Q is not orthonormal / Q R is not the matrix" % label, dict(desc, orthogonality_defect=e_orth, reconstruction_defect=e_rec))
            # the same through the sweeps: a TT whose first core is that unfolding
            c2 = g(cols, 3, 2); c3 = g(2, 3, 1)
            x = torchtt.TT([A.reshape(1, rows, cols), c2, c3])
            for nm, sweep, left in (("lr_orthogonal", lr_orthogonal, True), ("rl_orthogonal", rl_orthogonal, False)):
                cs, Rk = sweep([c.clone() for c in x.cores], list(x.R), False)
                for k_, c_ in (enumerate(cs[:-1]) if left else enumerate(cs[1:], 1)):
                    U_ = c_.reshape(-1, c_.shape[-1]) if left else c_.reshape(c_.shape[0], -1).conj().T
                    d_ = float((U_.conj().T @ U_ - torch.eye(U_.shape[1], dtype=dt)).abs().max())
                    if not (d_ <= tol): V.fail("%s: %s leaves a core whose unfolding is not orthonormal (tall, badly conditioned core)" % (label, nm), dict(desc, core=k_, orthogonality_defect=d_)); break
                y = torchtt.TT(cs)
                nx = float(x.full().abs().pow(2).sum().sqrt()); e_ = float((y.full() - x.full()).abs().pow(2).sum().sqrt())
                if not (e_ <= tol * nx): V.fail("%s: %s changed the tensor (tall, badly conditioned core)" % (label, nm), dict(desc, rel=e_ / nx))
        except Exception as ex:
            V.fail("%s: QR contract raises %s" % (label, type(ex).__name__), dict(desc, exc=str(ex)[:200]))
        n_ += 1
    dist["QR / sweeps on tall, badly conditioned unfoldings"] = n_
