"""Fail-closed translator: torchtt/_decomposition.py:rank_chop (python / numpy)  ->  Coq (coq/Translated/RankChopSrc.v).

The function is re-translated from the CURRENT source on every run of the C01 / C02 / C17 checks; Translated/RankChopSrcP.v then proves that the translated
function equals the hand-written model (Model/RankChop.v) for all inputs.  The translation works on the squared singular values q = |s|^2, thr2 = eps^2 and
pos = (eps > 0); it knows a small vocabulary of numpy idioms (Translated/NumpyPrims.v gives their meaning) and refuses everything else.
`s = s / smax` and `eps = eps / smax` with smax = np.max(np.abs(s)) - accepted only after the early return on smax == 0, so that smax > 0 - become a
multiplication of q / thr2 by a positive parameter c (= 1 / smax^2; the theorem holds for EVERY c > 0, whichever of the two has been rescaled is
tracked separately, so a rescaling of only one of them yields a definition that is not provably equal to the model)."""
import ast, os

class Unsupported(Exception):
    pass

def _is_np(node, *path):
    """node is the attribute chain np.<path>"""
    for name in reversed(path):
        if not (isinstance(node, ast.Attribute) and node.attr == name): return False
        node = node.value
    return isinstance(node, ast.Name) and node.id == "np"

def _rev_slice(sl):
    return (isinstance(sl, ast.Slice) and sl.lower is None and sl.upper is None and isinstance(sl.step, ast.UnaryOp)
            and isinstance(sl.step.op, ast.USub) and isinstance(sl.step.operand, ast.Constant) and sl.step.operand.value == 1)

def _minus_one(sl):
    return isinstance(sl, ast.UnaryOp) and isinstance(sl.op, ast.USub) and isinstance(sl.operand, ast.Constant) and sl.operand.value == 1

def expr(node, env):
    """returns (kind, coq text). kinds: svec, svec_rev (the raw singular values, only usable under abs / **2), qvec (list T), boolvec, T, nat, bool, eps, zero, norm"""
    if isinstance(node, ast.Name):
        if node.id == "s": return ("svec", None)
        if node.id == "eps": return ("eps", None)
        if env.get(node.id) == "smax": return ("smax", None)
        if node.id in env: return (env[node.id], "v_" + node.id)
        raise Unsupported("unknown name %s" % node.id)
    if isinstance(node, ast.Constant):
        if isinstance(node.value, bool): raise Unsupported("boolean constant")
        if isinstance(node.value, int): return ("nat", str(node.value))
        if isinstance(node.value, float) and node.value == 0.0: return ("zero", None)
        raise Unsupported("constant %r" % (node.value,))
    if isinstance(node, ast.Attribute):
        if isinstance(node.value, ast.Name) and node.value.id == "s" and node.attr == "size": return ("nat", "(length q)")
        raise Unsupported("attribute %s" % ast.dump(node))
    if isinstance(node, ast.Subscript):
        k, t = expr(node.value, env)
        if _rev_slice(node.slice):
            if k == "svec": return ("svec_rev", None)
            if k == "qvec": return ("qvec", "(np_rev %s)" % t)
            raise Unsupported("[::-1] of a %s" % k)
        if _minus_one(node.slice) and k == "qvec": return ("T", "(np_last %s)" % t)
        raise Unsupported("subscript %s" % ast.dump(node.slice))
    if isinstance(node, ast.Call):
        if len(node.keywords) or len(node.args) != 1: raise Unsupported("call with keywords / several arguments")
        k, t = expr(node.args[0], env)
        if _is_np(node.func, "abs") and k in ("svec", "svec_rev"): return (k, None)
        if _is_np(node.func, "max") and k == "svec":
            if env.get("__s_scaled"): raise Unsupported("np.max(np.abs(s)) of the rescaled s")
            return ("smax", None)
        if _is_np(node.func, "cumsum") and k == "qvec": return ("qvec", "(np_cumsum %s)" % t)
        if _is_np(node.func, "linalg", "norm") and k == "svec": return ("norm", None)
        if _is_np(node.func, "argmax") and k == "boolvec": return ("nat", "(np_argmax %s)" % t)
        raise Unsupported("call %s on a %s" % (ast.dump(node.func), k))
    if isinstance(node, ast.BinOp):
        lk, lt = expr(node.left, env)
        if isinstance(node.op, ast.Pow):
            if not (isinstance(node.right, ast.Constant) and node.right.value == 2 and isinstance(node.right.value, int)): raise Unsupported("power other than 2")
            qq = "(map (omul c) q)" if env.get("__s_scaled") else "q"
            if lk == "svec": return ("qvec", qq)
            if lk == "svec_rev": return ("qvec", "(np_rev %s)" % qq)
            if lk == "eps": return ("T", "(omul c thr2)" if env.get("__eps_scaled") else "thr2")
            raise Unsupported("square of a %s" % lk)
        rk, rt = expr(node.right, env)
        if isinstance(node.op, ast.Sub) and lk == "nat" and rk == "nat": return ("nat", "(%s - %s)" % (lt, rt))
        raise Unsupported("binary operation %s on %s, %s" % (type(node.op).__name__, lk, rk))
    if isinstance(node, ast.Compare):
        if len(node.ops) != 1: raise Unsupported("chained comparison")
        op = node.ops[0]; lk, lt = expr(node.left, env); rk, rt = expr(node.comparators[0], env)
        if lk == "norm" and rk == "zero" and isinstance(op, ast.Eq): return ("bool", "(oleb (sumT q) oz)")       # ||s|| == 0  <=>  sum |s_i|^2 <= 0
        if lk == "smax" and rk == "zero" and isinstance(op, ast.Eq): return ("smax_is_zero", "(np_all_zero q)")   # max |s_i| == 0  <=>  every |s_i|^2 <= 0
        if lk == "eps" and rk == "zero" and isinstance(op, ast.LtE): return ("bool", "(negb pos)")
        if lk == "qvec" and rk == "T" and isinstance(op, ast.Lt): return ("boolvec", "(np_lt_vec %s %s)" % (lt, rt))
        if lk == "nat" and rk == "nat":
            if isinstance(op, ast.Gt): return ("bool", "(Nat.ltb %s %s)" % (rt, lt))
            if isinstance(op, ast.GtE): return ("bool", "(Nat.leb %s %s)" % (rt, lt))
            if isinstance(op, ast.Lt): return ("bool", "(Nat.ltb %s %s)" % (lt, rt))
            if isinstance(op, ast.LtE): return ("bool", "(Nat.leb %s %s)" % (lt, rt))
            if isinstance(op, ast.Eq): return ("bool", "(Nat.eqb %s %s)" % (lt, rt))
        if lk == "T" and rk == "T":
            if isinstance(op, ast.GtE): return ("bool", "(oleb %s %s)" % (rt, lt))
            if isinstance(op, ast.Gt): return ("bool", "(oltb %s %s)" % (rt, lt))
            if isinstance(op, ast.LtE): return ("bool", "(oleb %s %s)" % (lt, rt))
            if isinstance(op, ast.Lt): return ("bool", "(oltb %s %s)" % (lt, rt))
        raise Unsupported("comparison %s between %s and %s" % (type(op).__name__, lk, rk))
    if isinstance(node, ast.IfExp):
        ck, ct = expr(node.test, env); ak, at = expr(node.body, env); bk, bt = expr(node.orelse, env)
        if ck == "bool" and ak == bk == "nat": return ("nat", "(if %s then %s else %s)" % (ct, at, bt))
        raise Unsupported("conditional expression over %s / %s / %s" % (ck, ak, bk))
    raise Unsupported("expression %s" % type(node).__name__)

def block(stmts, env):
    if not stmts: raise Unsupported("the function can end without a return")
    st, rest = stmts[0], stmts[1:]
    if isinstance(st, ast.Expr) and isinstance(st.value, ast.Constant) and isinstance(st.value.value, str):
        return block(rest, env)                                             # docstring
    if isinstance(st, ast.Return):
        k, t = expr(st.value, env)
        if k != "nat": raise Unsupported("return of a %s" % k)
        return t
    if isinstance(st, ast.If):
        if st.orelse or len(st.body) != 1 or not isinstance(st.body[0], ast.Return): raise Unsupported("if statement other than an early return")
        ck, ct = expr(st.test, env); vk, vt = expr(st.body[0].value, env)
        if ck not in ("bool", "smax_is_zero") or vk != "nat": raise Unsupported("early return over %s / %s" % (ck, vk))
        env2 = dict(env)
        if ck == "smax_is_zero" and not env.get("__s_scaled"): env2["__smax_pos"] = True      # below this point max |s_i| > 0
        return "if %s then %s\n  else %s" % (ct, vt, block(rest, env2))
    if isinstance(st, ast.Assign):
        if len(st.targets) != 1 or not isinstance(st.targets[0], ast.Name): raise Unsupported("assignment target")
        tgt = st.targets[0].id
        if tgt in ("s", "eps"):
            # the only re-binding of an argument that is understood: division by smax, known to be positive
            v = st.value
            if not (isinstance(v, ast.BinOp) and isinstance(v.op, ast.Div) and isinstance(v.left, ast.Name) and v.left.id == tgt): raise Unsupported("re-binding of %s" % tgt)
            if expr(v.right, env)[0] != "smax": raise Unsupported("division of %s by something other than max|s|" % tgt)
            if not env.get("__smax_pos"): raise Unsupported("division by max|s| before the early return on max|s| == 0")
            if env.get("__%s_scaled" % tgt): raise Unsupported("%s rescaled twice" % tgt)
            env2 = dict(env); env2["__%s_scaled" % tgt] = True
            return block(rest, env2)
        k, t = expr(st.value, env)
        if k == "smax":
            env2 = dict(env); env2[tgt] = "smax"
            return block(rest, env2)
        if k not in ("nat", "qvec", "T", "bool", "boolvec"): raise Unsupported("assignment of a %s" % k)
        env2 = dict(env); env2[st.targets[0].id] = k
        return "let v_%s := %s in\n  %s" % (st.targets[0].id, t, block(rest, env2))
    raise Unsupported("statement %s" % type(st).__name__)

HEADER = """(* GENERATED by harness/translate.py from %s (function rank_chop) - do not edit.  q = |s|^2 elementwise, thr2 = eps^2, pos = (eps > 0), c = 1 / max|s|^2 (any positive number). *)
From Coq Require Import List Arith Bool.
From TT Require Import OrdRing RankChop NumpyPrims.
Import ListNotations.
Section Src.
Context {T : Type} {OO : OrdOps T}.
Definition rank_chop_src (c : T) (q : list T) (pos : bool) (thr2 : T) : nat :=
  %s.
End Src.
"""

def translate_rank_chop(repo):
    path = os.path.join(repo, "torchtt", "_decomposition.py")
    tree = ast.parse(open(path).read())
    fns = [n for n in tree.body if isinstance(n, ast.FunctionDef) and n.name == "rank_chop"]
    if len(fns) != 1: raise Unsupported("rank_chop not found exactly once")
    f = fns[0]
    if [a.arg for a in f.args.args] != ["s", "eps"] or f.args.vararg or f.args.kwarg or f.args.kwonlyargs or f.args.defaults or f.decorator_list:
        raise Unsupported("signature of rank_chop")
    return HEADER % ("torchtt/_decomposition.py", block(f.body, {}))

if __name__ == "__main__":
    import sys
    print(translate_rank_chop(sys.argv[1] if len(sys.argv) > 1 else "/repo"))

def obligation(V, pid):
    """re-translate rank_chop from the current source, compile the translation and the proof that it equals the model; a failure is reported as a broken proof
    obligation of `pid` (the check's exhaustive comparison of rank_chop with the model then looks for a concrete failing input)"""
    import shutil, subprocess, common
    gen = os.path.join(common.BUILD, "translated_" + pid)
    os.makedirs(gen, exist_ok=True)
    src_dir = os.path.join(common.VERIF, "coq", "Translated")
    try:
        text = translate_rank_chop(common.REPO)
    except (Unsupported, SyntaxError, OSError) as ex:
        V.fail("translated-source obligation broken: torchtt/_decomposition.py:rank_chop is no longer in the fragment the translator understands",
               {"translator": "harness/translate.py", "reason": "%s: %s" % (type(ex).__name__, str(ex)[:300]),
                "what_no_longer_checks": "theorem rank_chop_src_is_model (the translated source equals Model/RankChop.v)"}, failing_input=False)
        return {"translated": False}
    for f in ("NumpyPrims.v", "RankChopSrcP.v"): shutil.copy(os.path.join(src_dir, f), os.path.join(gen, f))
    open(os.path.join(gen, "RankChopSrc.v"), "w").write(text)
    coq = os.path.join(common.VERIF, "coq")
    flags = ["-Q", os.path.join(coq, "Base"), "TT", "-Q", os.path.join(coq, "Model"), "TT", "-Q", os.path.join(coq, "Proofs"), "TT", "-Q", gen, "TT"]
    log = ""
    ok = True
    for f in ("NumpyPrims.v", "RankChopSrc.v", "RankChopSrcP.v"):
        r = subprocess.run(["timeout", "300", "coqc"] + flags + [f], cwd=gen, stdout=subprocess.PIPE, stderr=subprocess.STDOUT, text=True)
        log += r.stdout
        if r.returncode != 0: ok = False; break
    closed = "Closed under the global context" in log
    if not ok or not closed:
        V.fail("translated-source obligation broken: the function translated from the current source of rank_chop is no longer proved equal to the model",
               {"translator": "harness/translate.py", "generated_definition": text[text.find("Definition"):][:900], "coq_log": log[-1200:],
                "what_no_longer_checks": "theorem rank_chop_src_is_model (Translated/RankChopSrcP.v)"}, failing_input=False)
    return {"translated": True, "translated_source_theorem": "rank_chop_src_is_model", "translated_source_theorem_checked": bool(ok and closed),
            "translated_definition": text[text.find("Definition"):].strip()[:900]}
