"""Generic driver for value-level (V-kind) properties: expressions are run on the implementation,
on dense arrays with torch (the property's right-hand side), and on the Coq model + Coq dense spec."""
import random, time, json
import numpy as np
import common, ttgen, expr, coqrun

CODE_BITS = "1 ranks, 2 shape, 4 value (impl vs model); 8 kind/error class; 16 shape, 32 value (impl vs Coq dense spec)"

def dense_equiv(e, dtype, expect_kind=None):
    """The property on one case: the implementation's result equals the same expression on dense arrays.
    returns (impl observation, list of failure strings)"""
    vi = expr.run_impl(e, dtype)
    oi = expr.observe_impl(vi)
    fails = []
    if expr.operands_intact(e, dtype):
        fails.append("an operand was modified by the operation (cores / R / N of a literal operand changed)")
    vd = expr.run_dense(e, dtype)
    if isinstance(vd, BaseException):
        oi["dense_exc"] = type(vd).__name__ + ": " + str(vd)[:120]
        if oi["kind"] != "E":
            fails.append("returned a value although the dense expression raises %s" % type(vd).__name__)
        return oi, fails
    if oi["kind"] == "E":
        fails.append("raises %s on an input with a valid dense counterpart" % oi["cls"])
        return oi, fails
    od = expr.observe_impl(vd)
    dn = od.get("dense_raw")
    if oi["kind"] in ("T", "M"):
        shp = (oi.get("M", []) + oi["N"]) if oi["kind"] == "M" else oi["N"]
        if od["kind"] != "D":
            fails.append("TT result but dense expression gives kind %s" % od["kind"])
        elif shp != list(dn.shape):
            fails.append("shape %s != dense shape %s" % (shp, list(dn.shape)))
        elif oi.get("dense_raw") is None or not np.array_equal(oi["dense_raw"], dn):
            fails.append("dense value differs from the dense expression")
        if od["kind"] == "D" and oi["core_dtypes"] != [str(dn.dtype)]:
            fails.append("dtype %s != dense dtype %s" % (oi["core_dtypes"], dn.dtype))
        if oi.get("full_shape") != shp:
            fails.append("full() has shape %s, expected %s" % (oi.get("full_shape"), shp))
        elif not oi.get("full_matches_cores"):
            fails.append("full() differs from the contraction of the cores")
    elif oi["kind"] in ("D", "S"):
        a = oi["dense_raw"]
        if od["kind"] not in ("D", "S"):
            fails.append("dense/scalar result but dense expression gives kind %s" % od["kind"])
        else:
            if list(np.shape(a)) != list(np.shape(dn)):
                fails.append("shape %s != dense shape %s" % (list(np.shape(a)), list(np.shape(dn))))
            elif not np.array_equal(a, dn):
                fails.append("value differs from the dense expression")
            if oi["kind"] == "D" and od["kind"] == "D" and oi["dtype"] != od["dtype"]:
                fails.append("dtype %s != dense dtype %s" % (oi["dtype"], od["dtype"]))
    elif oi["kind"] == "N":
        if od["kind"] != "N": fails.append("returned None")
    else:
        fails.append("unexpected result kind %s" % oi["kind"])
    return oi, fails

def default_key(e, oi, fails):
    def k(a):
        d = a.desc()
        if isinstance(d, dict):
            if "tt" in d: return "tt"
            if "ttm" in d: return "ttm"
            if "scalar" in d: return "scalar:" + d["scalar"]
            if "dense" in d: return "dense"
            if "op" in d: return d["op"]
        return str(d)
    return "%s(%s): %s" % (e.name, ",".join(k(a) for a in e.args), "; ".join(sorted(set(f.split(" != ")[0][:70] for f in fails))))

def run(pid, tier, seed, gen_case, n_quick, n_thorough, rule, nontrivial, dtypes, evaluate=dense_equiv,
        key_of=default_key, extra_imports="", extra_cases=None, post=None):
    """gen_case(rng, cplx) -> (expr, category, carrier-or-None).  dtypes: list of (torch dtype, carrier)."""
    t0 = time.time()
    rng = random.Random(seed)
    V = common.Verdict(pid)
    n = n_quick if tier == "quick" else n_thorough
    ok_make, log = common.coq_make()
    ok_prop, obligations, plog = common.property_obligations(pid) if ok_make else (False, [], log)
    forb = common.grep_forbidden()
    if not ok_make or not ok_prop or forb or not obligations or not all(o[1] for o in obligations):
        V.fail("proof-obligation-broken", {"theorems_not_checked": [o for o in obligations if not o[1]], "forbidden": forb,
                                            "log": (plog if ok_make else log)[-2000:]}, failing_input=False)
    cases, dist = [], {}
    for c in (extra_cases(rng) if extra_cases else []):
        cases.append(c)
    for i in range(n):
        dtype, car = dtypes[i % len(dtypes)]
        expr.CUR_DTYPE[0] = str(dtype)                 # generators may choose scalars that are exact in this dtype only
        e, cat, car2 = gen_case(rng, car)
        cases.append((e, cat, dtype, car2 or car))
    # every category of the generator is represented in EVERY run, whatever the seed: rare categories (probability below 1/n) are drawn from a second
    # stream until each category seen within 12000 draws has at least two cases (generation is cheap, only the kept cases are evaluated)
    n_main = len(cases)
    have = {}
    for ci_, (_, cat, dt_, _) in enumerate(cases):
        if ci_ % 3 != 2: have[(cat, str(dt_))] = have.get((cat, str(dt_)), 0) + 1          # (cases that will run under the float64 default do not count: some effects hide there)
    rng_cov = random.Random(seed * 7919 + 13)
    added = 0
    for i in range(12000):
        if added >= 150: break
        dtype, car = dtypes[i % len(dtypes)]
        expr.CUR_DTYPE[0] = str(dtype)
        e, cat, car2 = gen_case(rng_cov, car)
        if have.get((cat, str(dtype)), 0) < 1:            # every (category, dtype) pair at least once: complex-only effects (conjugation) need the complex cases of a category
            cases.append((e, cat, dtype, car2 or car)); have[(cat, str(dtype))] = 1; added += 1
    results = []
    import torch as _torch
    dflt0 = _torch.get_default_dtype()
    for ci, (e, cat, dtype, car) in enumerate(cases):
        # torch's default dtype is module-level state the library must not depend on: every third case is evaluated under float64 as default
        _torch.set_default_dtype(_torch.float64 if (ci % 3 == 2 and ci < n_main) else dflt0)      # (the coverage extras run under the standard default)
        try:
            results.append(evaluate(e, dtype))
        finally:
            _torch.set_default_dtype(dflt0)
        dist[cat] = dist.get(cat, 0) + 1
    dist["evaluated under default dtype float64"] = len([1 for ci in range(len(cases)) if ci % 3 == 2 and ci < n_main])
    codes = [None] * len(cases)
    unrep = set()
    if ok_make:
        for car in (coqrun.Z, coqrun.ZI, coqrun.QC):
            idxs, cs = [], []
            for i, c in enumerate(cases):
                if c[3] is not car: continue
                o = expr.obs_coq(results[i][0], car)
                if o is None:
                    unrep.add(i); continue
                idxs.append(i); cs.append((c[0].coq(car), o))
            out = coqrun.eval_codes("%s_%s" % (pid, car.name), car.name, cs, extra_imports=extra_imports)
            for i, c in zip(idxs, out):
                codes[i] = c
    structures, nontriv = set(), set()
    n_model_ok = 0
    for i, ((e, cat, dtype, car), (oi, fails)) in enumerate(zip(cases, results)):
        sk = json.dumps([e.desc(), str(dtype)], sort_keys=True, default=str)
        structures.add(sk)
        if nontrivial(e, cat):
            nontriv.add(sk)
        code = codes[i]
        rep = {"expr": e.to_json(), "dtype": str(dtype), "carrier": car.name, "impl": expr.strip_raw(oi),
               "property_failures": fails, "model_code": code, "code_bits": CODE_BITS}
        if fails:
            V.fail(key_of(e, oi, fails), rep, failing_input=True)
        elif i in unrep:
            V.fail("result not exactly representable: " + e.name, rep, failing_input=True)
        elif code is None:
            pass  # model could not be built (proof build broken): already reported
        elif code != 0:
            rep["model_obs"] = coqrun.eval_show(pid + "_show", car.name, e.coq(car), extra_imports)
            V.fail("correspondence(model/impl) code=%d %s" % (code, default_key(e, oi, ["-"])), rep, failing_input=bool(code & (1 | 2 | 4 | 16 | 32)))
        else:
            n_model_ok += 1
    extra_cov = post(V, rng, tier) if post else {}
    nviol = V.finish()
    step = max(1, len(cases) // 5)
    cov = {"obligations": len(obligations), "discharged": sum(1 for o in obligations if o[1]),
           "checker_cmd": "make -C coq (coq_makefile, full .vo build) && coqc Properties/%s.v (Print Assumptions per theorem)" % pid,
           "trusted_base": common.TRUSTED_BASE,
           "theorems": [{"name": o[0], "ok": o[1], "assumptions": o[2]} for o in obligations],
           "evaluations": len(cases), "distinct_nontrivial": len(nontriv), "distinct_structures": len(structures),
           "rule": rule, "distribution": dist, "model_agreements": n_model_ok,
           "known_findings_reproduced": V.known_hit,
           "samples": [cases[i][0].desc() for i in range(0, len(cases), step)][:5]}
    cov.update(extra_cov or {})
    common.write_evidence(pid, tier, seed, cov, time.time() - t0, nviol, common.TRUSTED_BASE)
    return 1 if nviol else 0
