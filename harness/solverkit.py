"""Shared pieces of the iterative-routine checks (C11 C12 C13 C17): operand generators, rank_chop spies, integrity snapshots."""
import math, random
import numpy as np
import history

def _imp():
    import torch, torchtt
    return torch, torchtt

def rand_tt_float(rng, N, R, dtype, decay=False, cplx=False):
    torch, torchtt = _imp()
    cores = []
    for k in range(len(N)):
        shp = (R[k], N[k], R[k + 1])
        a = np.array([rng.gauss(0, 1) for _ in range(int(np.prod(shp)))]).reshape(shp)
        if cplx: a = a + 1j * np.array([rng.gauss(0, 1) for _ in range(int(np.prod(shp)))]).reshape(shp)
        if decay:
            a = a * np.array([(0.25 if decay is True else float(decay)) ** j for j in range(shp[2])]).reshape(1, 1, -1)
        cores.append(torch.tensor(a, dtype=dtype))
    return torchtt.TT(cores)

def rand_ttm_float(rng, M, N, R, dtype, decay=False, cplx=False):
    torch, torchtt = _imp()
    cores = []
    for k in range(len(N)):
        shp = (R[k], M[k], N[k], R[k + 1])
        a = np.array([rng.gauss(0, 1) for _ in range(int(np.prod(shp)))]).reshape(shp)
        if cplx: a = a + 1j * np.array([rng.gauss(0, 1) for _ in range(int(np.prod(shp)))]).reshape(shp)
        if decay:
            a = a * np.array([(0.25 if decay is True else float(decay)) ** j for j in range(shp[3])]).reshape(1, 1, 1, -1)
        cores.append(torch.tensor(a, dtype=dtype))
    return torchtt.TT(cores)

def ranks(rng, d, rmax):
    return [1] + [rng.randint(1, rmax) for _ in range(d - 1)] + [1]

class ChopSpy:
    """records every rank_chop call made through the given modules"""
    def __init__(self, modules):
        import torchtt._decomposition as D
        self.mods, self.orig, self.rec = modules, D.rank_chop, []
    def __enter__(self):
        def spy(s, eps):
            r = self.orig(s, eps); self.rec.append((np.array(s, copy=True), float(eps), int(r))); return r
        self.saved = [(m, m.rank_chop) for m in self.mods if hasattr(m, "rank_chop")]
        for m, _ in self.saved: m.rank_chop = spy
        return self
    def __exit__(self, *a):
        for m, f in self.saved: m.rank_chop = f

class OracleSpy:
    """QR and SVD are oracles of the model (trusted base): this records when one of them, called through the given modules, returns non-finite
    factors for a FINITE input (seen with torch.linalg.qr on single-precision rank-deficient matrices with entries near 1e-20) - a failure of the
    numerical library under the code, not of the code; a call that then raises is counted, not reported"""
    def __init__(self, modules):
        self.mods, self.failed, self.saved = modules, [], []
    def __enter__(self):
        torch, _ = _imp()
        def wrap(f, name):
            def g(M, *a, **k):
                out = f(M, *a, **k)
                try:
                    if bool(torch.isfinite(M).all()) and not all(bool(torch.isfinite(o).all()) for o in out if torch.is_tensor(o)):
                        self.failed.append((name, tuple(M.shape), str(M.dtype)))
                except Exception:
                    pass
                return out
            return g
        for m in self.mods:
            for nm in ("QR", "SVD"):
                if hasattr(m, nm):
                    self.saved.append((m, nm, getattr(m, nm))); setattr(m, nm, wrap(getattr(m, nm), nm))
        return self
    def __exit__(self, *a):
        for m, nm, f in self.saved: setattr(m, nm, f)

def intact(snaps, objs):
    out = []
    for nm, (s, o) in zip(snaps.keys(), zip(snaps.values(), objs)):
        d = s.diff(o)
        if d: out.append("%s: %s" % (nm, d[0]))
    return out
