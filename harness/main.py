#!/venv/bin/python
import sys, os, importlib, argparse
sys.path.insert(0, os.path.dirname(os.path.abspath(__file__)))
os.environ.setdefault("PYTHONHASHSEED", "0")
import common
sys.path.insert(0, common.REPO)

def main():
    ap = argparse.ArgumentParser()
    ap.add_argument("pid")
    ap.add_argument("--tier", default=None)
    ap.add_argument("--replay", default=None)
    a = ap.parse_args()
    seed, tier = common.seed_and_tier(a.tier)
    import warnings
    warnings.filterwarnings("ignore")
    if a.replay:
        import replay
        sys.exit(replay.run(a.pid, a.replay))
    if not os.environ.get("VERIF_DEFAULT_DTYPE") and tier == "thorough":
        os.environ["VERIF_DEFAULT_DTYPE"] = "float64"          # the thorough tier runs with the other common default (scientific users set float64); the quick tier toggles per case where it can
    if os.environ.get("VERIF_DEFAULT_DTYPE"):
        # module-level state of torch that the library must not depend on: the whole check can be run under another default dtype
        import torch
        torch.set_default_dtype(getattr(torch, os.environ["VERIF_DEFAULT_DTYPE"]))
    if os.environ.get("VERIF_DUMP_AFTER"):
        import faulthandler
        faulthandler.dump_traceback_later(int(os.environ["VERIF_DUMP_AFTER"]), repeat=True)       # where a long run spends its time (diagnostics only)
    mod = importlib.import_module("checks." + a.pid.lower())
    try:
        rc = mod.run(tier, seed, replay=a.replay)
    except Exception as ex:
        # the harness itself could not run against the code as it is now (an instrumentation point - a module attribute it wraps, an
        # internal signature it calls - no longer exists): the correspondence is broken, the property is no longer shown to hold
        import traceback, json, time
        tb = traceback.format_exc()
        os.makedirs(common.REPLAYS, exist_ok=True)
        path = os.path.join(common.REPLAYS, "%s-harness-%s.json" % (a.pid, common.sha([a.pid, type(ex).__name__, str(ex)[:200]])))
        json.dump({"property": a.pid, "key": "correspondence broken: the check could not be run against the current code (%s)" % type(ex).__name__,
                   "failing_input_found": False, "replay": {"exception": type(ex).__name__, "message": str(ex)[:500], "traceback": tb[-3000:],
                   "what_no_longer_checks": "the model/implementation correspondence of %s (instrumentation or internal entry point missing or changed)" % a.pid}}, open(path, "w"), indent=1)
        print("VIOLATION property=%s replay=%s no-failing-input-found" % (a.pid, path))
        try:
            common.write_evidence(a.pid, tier, seed, {"obligations": 0, "discharged": 0, "checker_cmd": "./check %s" % a.pid, "trusted_base": common.TRUSTED_BASE,
                                  "harness_error": "%s: %s" % (type(ex).__name__, str(ex)[:300])}, 0.0, 1, common.TRUSTED_BASE)
        except Exception:
            pass
        rc = 1
    print("%s tier=%s seed=%d exit=%d" % (a.pid, tier, seed, rc))
    sys.exit(rc)

if __name__ == "__main__":
    main()
