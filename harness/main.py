#!/venv/bin/python
import sys, os, importlib, argparse
sys.path.insert(0, os.path.dirname(os.path.abspath(__file__)))
os.environ.setdefault("PYTHONHASHSEED", "0")
import common
sys.path.insert(0, common.REPO)

def main():
    ap = argparse.ArgumentParser()
    ap.add_argument("pid")
    ap.add_argument("--tier", default=None)
    ap.add_argument("--replay", default=None)
    a = ap.parse_args()
    seed, tier = common.seed_and_tier(a.tier)
    import warnings
    warnings.filterwarnings("ignore")
    if a.replay:
        import replay
        sys.exit(replay.run(a.pid, a.replay))
    mod = importlib.import_module("checks." + a.pid.lower())
    rc = mod.run(tier, seed, replay=a.replay)
    print("%s tier=%s seed=%d exit=%d" % (a.pid, tier, seed, rc))
    sys.exit(rc)

if __name__ == "__main__":
    main()
