"""Generators of TT structures with small-integer cores, and conversion to torchtt objects."""
import os, sys, itertools
import numpy as np

def _imp():
    import torch, torchtt
    return torch, torchtt

SIZES = [1, 2, 3, 4, 5, 7]

def rand_shape(rng, d, distinct=True, sizes=SIZES, p_one=0.15):
    if distinct and d <= len(sizes) - 1:
        pool = [s for s in sizes if s != 1]
        rng.shuffle(pool)
        N = pool[:d]
        for k in range(d):
            if rng.random() < p_one:
                N[k] = 1
        return N
    return [rng.choice(sizes) for _ in range(d)]

def rand_ranks(rng, d, rmax=3, p_one=0.25):
    return [1] + [1 if rng.random() < p_one else rng.randint(2, rmax) for _ in range(d - 1)] + [1]

def rand_core(rng, shape, cplx=False, lo=-3, hi=3, density=0.8):
    n = int(np.prod(shape))
    while True:
        vals = [rng.randint(lo, hi) if rng.random() < density else 0 for _ in range(n)]
        if any(vals):
            break
    a = np.array(vals, dtype=np.int64).reshape(shape)
    if cplx:
        vi = [rng.randint(lo, hi) if rng.random() < density * 0.6 else 0 for _ in range(n)]
        a = a.astype(np.complex128) + 1j * np.array(vi, dtype=np.int64).reshape(shape)
    return a

def rand_tt_cores(rng, N, R, cplx=False, lo=-3, hi=3):
    return [rand_core(rng, (R[k], N[k], R[k + 1]), cplx, lo, hi) for k in range(len(N))]

def rand_ttm_cores(rng, M, N, R, cplx=False, lo=-2, hi=2):
    return [rand_core(rng, (R[k], M[k], N[k], R[k + 1]), cplx, lo, hi) for k in range(len(N))]

def ref_full(cores):
    """Independent dense reconstruction of a TT tensor / TT matrix from its cores (numpy, exact on integers).
    Result shape: N1..Nd for tensors, M1..Md x N1..Nd for operators."""
    cores = [np.asarray(c) for c in cores]
    if cores[0].ndim == 3:
        t = cores[0][0]                       # n0 x r
        for c in cores[1:]:
            t = np.tensordot(t, c, axes=([-1], [0]))
        return t[..., 0]
    else:
        t = cores[0][0]                       # m0 x n0 x r
        for c in cores[1:]:
            t = np.tensordot(t, c, axes=([-1], [0]))
        t = t[..., 0]
        d = len(cores)
        return np.transpose(t, [2 * k for k in range(d)] + [2 * k + 1 for k in range(d)])

def to_torch(a, dtype):
    torch, _ = _imp()
    return torch.tensor(np.asarray(a), dtype=dtype)

def mk_tt(cores, dtype):
    torch, torchtt = _imp()
    return torchtt.TT([to_torch(c, dtype) for c in cores])

def np_dtype_is_complex(dtype):
    torch, _ = _imp()
    return dtype in (torch.complex64, torch.complex128)

def exact_ints(arr):
    """numpy array (real or complex) -> flat list of python ints (or [re, im] pairs); None if not integral."""
    a = np.asarray(arr)
    flat = a.reshape(-1)
    if np.iscomplexobj(flat):
        re, im = flat.real, flat.imag
        if not (np.all(np.isfinite(re)) and np.all(np.isfinite(im))):
            return None
        if np.any(re != np.round(re)) or np.any(im != np.round(im)):
            return None
        return [[int(x), int(y)] for x, y in zip(re, im)]
    flat = flat.astype(np.float64)
    if not np.all(np.isfinite(flat)) or np.any(flat != np.round(flat)):
        return None
    return [int(x) for x in flat]
