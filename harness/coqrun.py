"""Evaluate model cases inside Coq (vm_compute): write cases files, run coqc in parallel, parse result codes."""
import os, re, subprocess, shutil, time
from concurrent.futures import ThreadPoolExecutor
from common import COQ, BUILD, COQFLAGS, NPROC

HEADER = """From Coq Require Import List ZArith Arith QArith Qcanon.
Import ListNotations.
From TT Require Import RingSig Instances Dual SumN Mat Dense Core Struct Index Expr %s.
Notation DZ := (dual Z).
"""

from fractions import Fraction
import numpy as np

class Carrier:
    """How values are written for a Coq ring instance. conv() returns None when the data are not exactly representable."""
    def __init__(self, name): self.name = name
    def conv(self, arr):
        a = np.asarray(arr).reshape(-1)
        if self.name == "DZ":
            raise RuntimeError("dual data are built with dual_lit")
        if self.name == "ZI":
            a = a.astype(np.complex128)
            re_, im = a.real, a.imag
            if not (np.all(np.isfinite(re_)) and np.all(np.isfinite(im))): return None
            if np.any(re_ != np.round(re_)) or np.any(im != np.round(im)): return None
            return [(int(x), int(y)) for x, y in zip(re_, im)]
        if np.iscomplexobj(a):
            if np.any(a.imag != 0): return None
            a = a.real
        a = a.astype(np.float64)
        if not np.all(np.isfinite(a)): return None
        if self.name == "Z":
            if np.any(a != np.round(a)): return None
            return [int(x) for x in a]
        return [Fraction(float(x)) for x in a]
    def one(self, v):
        if self.name == "DZ": return "(mkDual (%d)%%Z (%d)%%Z)" % (int(v[0]), int(v[1]))
        if self.name == "ZI": return "(%d,%d)%%Z" % (int(v[0]), int(v[1]))
        if self.name == "Z": return "(%d)%%Z" % int(v)
        f = Fraction(v)
        return "(qf (%d) %d)" % (f.numerator, f.denominator)
    def lit(self, vals):
        if self.name == "DZ": return "[" + ";".join("mkDual (%d)%%Z (%d)%%Z" % (int(a), int(b)) for a, b in vals) + "]"
        if self.name == "ZI": return "[" + ";".join("(%d,%d)" % (int(a), int(b)) for a, b in vals) + "]%Z"
        if self.name == "Z": return "[" + ";".join(str(int(v)) for v in vals) + "]%Z"
        return "[" + ";".join("qf (%d) %d" % (Fraction(v).numerator, Fraction(v).denominator) for v in vals) + "]"
    def scalar_value(self, v):
        """python scalar -> carrier value"""
        if self.name == "ZI":
            z = complex(v); return (int(z.real), int(z.imag))
        if self.name == "Z": return int(v)
        return Fraction(v) if not isinstance(v, float) else Fraction(float(v))

Z, ZI, QC, DZ = Carrier("Z"), Carrier("ZI"), Carrier("Qc"), Carrier("DZ")

def nlist(vals):
    return "[" + ";".join(str(int(v)) for v in vals) + "]%nat"

def nnlist(vals):
    return "[" + ";".join(nlist(v) for v in vals) + "]"

def run_files(tag, texts, timeout=900):
    """texts: list of .v file bodies. Returns list of stdout strings (or raises)."""
    d = os.path.join(BUILD, "cases", tag)
    shutil.rmtree(d, ignore_errors=True)
    os.makedirs(d)
    paths = []
    for i, t in enumerate(texts):
        p = os.path.join(d, "cases_%s_%d.v" % (tag, i))
        open(p, "w").write(t)
        paths.append(p)
    def one(p):
        cmd = "ulimit -s unlimited 2>/dev/null || ulimit -s 1000000 2>/dev/null; exec timeout %d coqc %s -Q '%s' Cases '%s'" % (timeout, " ".join(COQFLAGS), d, p)
        r = subprocess.run(["bash", "-c", cmd], cwd=COQ, stdout=subprocess.PIPE, stderr=subprocess.STDOUT, text=True)
        return r.returncode, r.stdout
    with ThreadPoolExecutor(max_workers=NPROC) as ex:
        outs = list(ex.map(one, paths))
    for (rc, out), p in zip(outs, paths):
        if rc != 0:
            raise RuntimeError("coqc failed on %s:\n%s" % (p, out[-3000:]))
    return [o for _, o in outs]

def eval_codes(tag, carrier, cases, extra_imports="", shard=None, fn="check1"):
    """cases: list of (exp_str, obs_str); carrier 'Z' or 'ZI'. Returns list of int codes (model evaluation in Coq)."""
    if not cases:
        return []
    if shard is None:
        shard = max(8, min(150, -(-len(cases) // (2 * NPROC))))
    texts = []
    bounds, cur, size = [], 0, 0
    for i, c in enumerate(cases):                    # shards of at most `shard` cases and ~60 kB of literal text
        size += len(c[0]) + len(c[1])
        if i - cur + 1 >= shard or size > 60000:
            bounds.append((cur, i + 1)); cur, size = i + 1, 0
    if cur < len(cases): bounds.append((cur, len(cases)))
    for (s, e_) in bounds:
        chunk = cases[s:e_]
        body = HEADER % extra_imports
        body += "Definition cases : list (exp %s * obs %s) := [\n" % (carrier, carrier)
        body += ";\n".join("(%s,\n %s)" % c for c in chunk)
        body += "].\n"
        body += "Eval vm_compute in (map (fun c => %s (fst c) (snd c)) cases).\n" % fn
        texts.append(body)
    outs = run_files(tag, texts)
    codes = []
    for o, (s, e_) in zip(outs, bounds):
        m = re.search(r"=\s*\[(.*?)\]\s*:\s*list nat", o, flags=re.S)
        if not m:
            raise RuntimeError("cannot parse coq output: " + o[-2000:])
        body = m.group(1).strip()
        cs = [int(x) for x in re.findall(r"\d+", body)] if body else []
        n = e_ - s
        if len(cs) != n:
            raise RuntimeError("expected %d codes, got %d: %s" % (n, len(cs), o[-500:]))
        codes += cs
    return codes

def eval_show(tag, carrier, exp_str, extra_imports=""):
    """Print the model's observation of one expression (for replays)."""
    body = HEADER % extra_imports
    body += "Eval vm_compute in (observe (eval (R:=%s) [] (%s))).\n" % (carrier, exp_str)
    body += "Eval vm_compute in (observe (deval (R:=%s) [] (%s))).\n" % (carrier, exp_str)
    try:
        outs = run_files(tag, [body], timeout=120)
        return re.sub(r"\s+", " ", outs[0])[:4000]
    except Exception as e:
        return "model evaluation failed: %s" % e


def eval_nat_lists(tag, imports, defs, exprs, shard=400, timeout=900):
    """Evaluate Coq expressions of type `list nat` (one per case) with vm_compute; returns a list of python int lists.
    imports: 'From TT Require Import ...' line(s); defs: extra definitions text."""
    if not exprs:
        return []
    texts = []
    for s in range(0, len(exprs), shard):
        chunk = exprs[s:s + shard]
        body = "From Coq Require Import List ZArith Arith Bool.\nImport ListNotations.\n" + imports + "\n" + defs + "\n"
        body += "Definition cases : list (list nat) := [\n" + ";\n".join(chunk) + "].\n"
        body += "Eval vm_compute in cases.\n"
        texts.append(body)
    outs = run_files(tag, texts, timeout=timeout)
    res = []
    for o, s in zip(outs, range(0, len(exprs), shard)):
        m = re.search(r"=\s*(\[.*\])\s*:\s*list \(list nat\)", o, flags=re.S)
        if not m:
            raise RuntimeError("cannot parse coq output: " + o[-2000:])
        txt = m.group(1)
        inner = re.findall(r"\[([0-9;\s]*)\]", txt[1:-1]) if txt.strip() != "[]" else []
        vals = [[int(x) for x in re.findall(r"\d+", g)] for g in inner]
        n = min(shard, len(exprs) - s)
        if len(vals) != n:
            raise RuntimeError("expected %d results, got %d: %s" % (n, len(vals), o[-600:]))
        res += vals
    return res

class NotExact(ValueError):
    """an implementation value that should be an exact integer (integer data, ring operations only) is not"""

def zlist(vals):
    out = []
    for v in vals:
        if isinstance(v, (int, np.integer)) and not isinstance(v, bool):
            out.append("(%d)" % int(v)); continue
        fv = float(v)
        if fv != fv or fv in (float("inf"), float("-inf")) or fv != int(fv): raise NotExact("value %r is not an exact integer" % (v,))
        out.append("(%d)" % int(fv))
    return "[" + ";".join(out) + "]%Z"
