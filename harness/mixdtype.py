"""Mixed-dtype operands and scalars that are not dyadic (shared by C03: TT tensors, C04: TT matrices).
Cores hold small integers (exact in every floating dtype), so a binary operation on operands of two dtypes must give EXACTLY the dense result
in torch's promoted dtype, whichever operand is on the left; non-dyadic scalars (0.1, -1/3, pi) are compared with the dense result to a few ulps
of the operand's dtype."""
import itertools, math
import numpy as np

def run_block(V, rng, torch, torchtt, ttm, dist, n_pairs):
    dts = [torch.float32, torch.float64, torch.complex64, torch.complex128]
    def mk(dt, N, M, R):
        cs = []
        for k in range(len(N)):
            shp = (R[k], M[k], N[k], R[k + 1]) if ttm else (R[k], N[k], R[k + 1])
            a = np.array([rng.randint(-2, 2) for _ in range(int(np.prod(shp)))], dtype=np.float64).reshape(shp)
            if dt in (torch.complex64, torch.complex128): a = a + 1j * np.array([rng.randint(-1, 1) for _ in range(int(np.prod(shp)))]).reshape(shp)
            cs.append(torch.tensor(a, dtype=dt))
        return torchtt.TT(cs)
    pairs = [(a, b) for a, b in itertools.product(dts, dts) if a != b]
    rng.shuffle(pairs)
    ops = (("+", lambda u, v: u + v), ("-", lambda u, v: u - v), ("*", lambda u, v: u * v))
    for (a, b) in pairs[:n_pairs]:
        d = rng.choice([1, 2, 3]); N = [rng.choice([1, 2, 3]) for _ in range(d)]; M = [rng.choice([1, 2]) for _ in range(d)]
        x = mk(a, N, M, [1] + [rng.choice([1, 2]) for _ in range(d - 1)] + [1]); y = mk(b, N, M, [1] + [rng.choice([1, 2]) for _ in range(d - 1)] + [1])
        pd = torch.promote_types(a, b)
        for name, op in ops:
            desc = {"mixed_dtype": True, "ttm": ttm, "op": name, "left": str(a), "right": str(b), "N": N, "M": M if ttm else None,
                    "x": [c.tolist() if not c.is_complex() else str(c.tolist()) for c in x.cores], "y": [c.tolist() if not c.is_complex() else str(c.tolist()) for c in y.cores]}
            try:
                xf0, yf0 = x.full().clone(), y.full().clone()
                r = op(x, y)
                ref = op(xf0.to(pd), yf0.to(pd))
                if any(c.dtype != pd for c in r.cores): V.fail("mixed dtypes: %s of %s and %s does not have the promoted dtype" % (name, "operators" if ttm else "tensors", "..."), dict(desc, got=[str(c.dtype) for c in r.cores], want=str(pd)))
                elif list(r.full().shape) != list(ref.shape) or not torch.equal(r.full(), ref): V.fail("mixed dtypes: %s differs from the dense result in the promoted dtype" % name, desc)
                if not (torch.equal(x.full(), xf0) and torch.equal(y.full(), yf0)) or x.cores[0].dtype != a or y.cores[0].dtype != b: V.fail("mixed dtypes: %s changed an operand" % name, desc)
            except Exception as ex:
                V.fail("mixed dtypes: %s raises %s" % (name, type(ex).__name__), dict(desc, exc=str(ex)[:200]))
        dist["mixed dtype pair"] = dist.get("mixed dtype pair", 0) + 1
    # operands of two dtypes AND different structure: trailing-dimension / size-1 broadcasting (tensors), Kronecker product (tensors and operators)
    for j, (a, b) in enumerate(pairs[:n_pairs]):
        d = rng.choice([2, 3]); N = [rng.choice([2, 3]) for _ in range(d)]; M = [rng.choice([1, 2]) for _ in range(d)]
        x = mk(a, N, M, [1] + [rng.choice([1, 2]) for _ in range(d - 1)] + [1])
        pd = torch.promote_types(a, b)
        if not ttm:
            k = rng.choice(list(range(1, d + 1))); Ny = [n_ if (rng.random() < 0.6 or k == d) else 1 for n_ in N[d - k:]]
            if k == d and Ny == N: Ny[rng.randrange(d)] = 1
            y = mk(b, Ny, Ny, [1] + [rng.choice([1, 2]) for _ in range(k - 1)] + [1])
            for name, op in ops:
                desc = {"mixed_dtype_broadcast": True, "op": name, "left": str(a), "right": str(b), "N": N, "N_right": Ny}
                try:
                    r = op(x, y); ref = op(x.full().to(pd), y.full().to(pd))
                    if any(c.dtype != pd for c in r.cores): V.fail("mixed dtypes, broadcasting: %s does not have the promoted dtype in every core" % name, dict(desc, got=[str(c.dtype) for c in r.cores], want=str(pd)))
                    elif list(r.full().shape) != list(ref.shape) or not torch.equal(r.full(), ref): V.fail("mixed dtypes, broadcasting: %s differs from the dense result in the promoted dtype" % name, desc)
                except Exception as ex:
                    V.fail("mixed dtypes, broadcasting: %s raises %s" % (name, type(ex).__name__), dict(desc, exc=str(ex)[:200]))
            dist["mixed dtype pair, broadcasting"] = dist.get("mixed dtype pair, broadcasting", 0) + 1
        d2 = rng.choice([1, 2]); N2 = [rng.choice([2, 3]) for _ in range(d2)]; M2 = [rng.choice([1, 2]) for _ in range(d2)]
        y = mk(b, N2, M2, [1] + [rng.choice([1, 2]) for _ in range(d2 - 1)] + [1])
        for name, op in (("**", lambda u, v: u ** v), ("kron", lambda u, v: torchtt.kron(u, v))):
            desc = {"mixed_dtype_kron": True, "ttm": ttm, "op": name, "left": str(a), "right": str(b), "N": N, "N_right": N2}
            try:
                r = op(x, y); ref = torch.tensordot(x.full().to(pd), y.full().to(pd), dims=0)
                if ttm: ref = ref.permute(list(range(d)) + list(range(2 * d, 2 * d + d2)) + list(range(d, 2 * d)) + list(range(2 * d + d2, 2 * d + 2 * d2)))
                if any(c.dtype != pd for c in r.cores): V.fail("mixed dtypes: Kronecker product (%s) does not have the promoted dtype in every core" % name, dict(desc, got=[str(c.dtype) for c in r.cores], want=str(pd)))
                elif list(r.full().shape) != list(ref.shape) or not torch.equal(r.full(), ref): V.fail("mixed dtypes: Kronecker product (%s) differs from the dense result in the promoted dtype" % name, desc)
                else:
                    rr = (r + r).full()                      # and the result is usable as an operand
                    if not torch.equal(rr, 2 * ref): V.fail("mixed dtypes: the Kronecker product (%s) is not usable as an operand" % name, desc)
            except Exception as ex:
                V.fail("mixed dtypes: Kronecker product (%s) raises %s" % (name, type(ex).__name__), dict(desc, exc=str(ex)[:200]))
        dist["mixed dtype pair, Kronecker"] = dist.get("mixed dtype pair, Kronecker", 0) + 1
    # a scalar that is exactly zero and of a wider kind than the operand: the dtype of the result is the dtype of the dense product, exactly as for every other value
    zs = [("0j", lambda: 0j), ("np.complex128(0)", lambda: np.complex128(0)), ("torch.tensor(0j)", lambda: torch.tensor(0j)), ("torch.tensor([0.], float64)", lambda: torch.tensor([0.0], dtype=torch.float64)),
          ("torch.tensor([0j])", lambda: torch.tensor([0j], dtype=torch.complex128)), ("0.0", lambda: 0.0), ("0", lambda: 0)]
    for nm, mkz in zs:
        for dt in (torch.float32, torch.float64, torch.complex64):
            d = rng.choice([1, 2, 3]); N = [rng.choice([1, 2, 3]) for _ in range(d)]; M = [rng.choice([1, 2]) for _ in range(d)]
            x = mk(dt, N, M, [1] + [rng.choice([1, 2]) for _ in range(d - 1)] + [1])
            for name, op in (("x*0", lambda u, z: u * z), ("0*x", lambda u, z: z * u)):
                if name == "0*x" and nm.startswith("torch"): continue          # tensor * TT is torch's own dispatch, not the library's
                z = mkz(); desc = {"zero_scalar": nm, "ttm": ttm, "op": name, "dtype": str(dt), "N": N, "M": M if ttm else None}
                try:
                    r = op(x, z); want = (x.full() * z).dtype
                    if any(c.dtype != want for c in r.cores): V.fail("zero scalar of a wider kind: %s does not have the dtype of the dense product" % name, dict(desc, got=[str(c.dtype) for c in r.cores], want=str(want)))
                    elif list(r.full().shape) != list(x.full().shape) or bool((r.full() != 0).any()): V.fail("zero scalar: %s is not the zero tensor of the operand's shape" % name, desc)
                except Exception as ex:
                    V.fail("zero scalar: %s raises %s" % (name, type(ex).__name__), dict(desc, exc=str(ex)[:200]))
            dist["zero scalar of a wider kind"] = dist.get("zero scalar of a wider kind", 0) + 1
    # scalars that are not exactly representable in single precision
    for s in (0.1, -1.0 / 3.0, math.pi, torch.tensor(0.3, dtype=torch.float64), np.float64(0.7), np.int64(4), np.int32(-2), np.float32(0.5), np.uint8(2), np.float16(0.25)):
        for dt in (torch.float64, torch.complex128):
            d = rng.choice([1, 2, 3]); N = [rng.choice([1, 2, 3]) for _ in range(d)]; M = [rng.choice([1, 2]) for _ in range(d)]
            x = mk(dt, N, M, [1] + [rng.choice([1, 2]) for _ in range(d - 1)] + [1])
            xf = x.full().clone(); sv = float(s)
            for name, op in (("x+s", lambda u: u + s), ("s+x", lambda u: s + u), ("x-s", lambda u: u - s), ("s-x", lambda u: s - u), ("x*s", lambda u: u * s), ("s*x", lambda u: s * u), ("x/s", lambda u: u / s)):
                desc = {"non_dyadic_scalar": True, "ttm": ttm, "op": name, "scalar": repr(s), "dtype": str(dt), "N": N, "M": M if ttm else None}
                try:
                    r = op(x)
                    ref = {"x+s": xf + sv, "s+x": sv + xf, "x-s": xf - sv, "s-x": sv - xf, "x*s": xf * sv, "s*x": sv * xf, "x/s": xf / sv}[name]
                    err = float((r.full() - ref).abs().max()); scale = float(ref.abs().max()) + abs(sv)
                    if r.cores[0].dtype != dt: V.fail("non-dyadic scalar: %s changes the dtype" % name, dict(desc, got=str(r.cores[0].dtype)))
                    elif not (err <= 1e-14 * scale): V.fail("non-dyadic scalar: %s differs from the dense result beyond double round-off" % name, dict(desc, abs_err=err))
                except Exception as ex:
                    V.fail("non-dyadic scalar: %s raises %s" % (name, type(ex).__name__), dict(desc, exc=str(ex)[:200]))
            dist["non-dyadic scalar"] = dist.get("non-dyadic scalar", 0) + 1
    # complex scalars of every kind (python complex, numpy complex128 / complex64) on real and complex operands: the result is complex, the imaginary part counts
    for s in (1 - 2j, np.complex128(2 - 1j), np.complex64(1 + 2j), np.complex64(-0.5j)):
        for dt in (torch.float64, torch.complex128):
            d = rng.choice([1, 2, 3]); N = [rng.choice([1, 2, 3]) for _ in range(d)]; M = [rng.choice([1, 2]) for _ in range(d)]
            x = mk(dt, N, M, [1] + [rng.choice([1, 2]) for _ in range(d - 1)] + [1])
            xf = x.full().to(torch.complex128).clone(); sv = complex(s)
            for name, op in (("x*s", lambda u: u * s), ("s*x", lambda u: s * u), ("x+s", lambda u: u + s), ("s-x", lambda u: s - u), ("x/s", lambda u: u / s)):
                desc = {"complex_scalar": True, "ttm": ttm, "op": name, "scalar": repr(s), "dtype": str(dt), "N": N, "M": M if ttm else None}
                try:
                    r = op(x)
                    ref = {"x*s": xf * sv, "s*x": sv * xf, "x+s": xf + sv, "s-x": sv - xf, "x/s": xf / sv}[name]
                    err = float((r.full().to(torch.complex128) - ref).abs().max()); scale = float(ref.abs().max()) + abs(sv)
                    if not r.full().is_complex(): V.fail("complex scalar: %s on a %s operand returns a real result" % (name, "complex" if dt.is_complex else "real"), dict(desc, got=str(r.cores[0].dtype)))
                    elif not (err <= 1e-14 * scale): V.fail("complex scalar: %s differs from the dense result (imaginary part lost?)" % name, dict(desc, abs_err=err))
                except Exception as ex:
                    V.fail("complex scalar: %s raises %s" % (name, type(ex).__name__), dict(desc, exc=str(ex)[:200]))
            dist["complex scalar"] = dist.get("complex scalar", 0) + 1
