"""Read - mutate - read probe shared by several checks (C02, C03, C04, C07, C08, C09): an object is read through its public methods (which may fill caches / set
flags), then changed by a documented in-place operation or an in-place edit of one of its core tensors, then read again: every read-out of the SECOND round
must be the read-out of the object as it is NOW, computed independently from its current cores."""
import numpy as np
import ttgen

def _dense(x):
    return ttgen.ref_full([c.detach().resolve_conj().resolve_neg().numpy() for c in x.cores])

def readouts(torch, torchtt, x, rows, extras=()):
    """what the public API says about x (a dict of numpy arrays / floats)"""
    out = {"full": x.full().detach().resolve_conj().resolve_neg().numpy()}
    out["numpy"] = np.asarray(x.numpy())
    out["sum"] = np.asarray(x.sum().detach().resolve_conj().resolve_neg().numpy() if hasattr(x.sum(), "detach") else x.sum())
    out["norm2"] = float(abs(x.norm(True)))
    out["norm"] = float(abs(x.norm()))
    if x.is_ttm:
        out["t"] = x.t().full().detach().resolve_conj().resolve_neg().numpy()
    else:
        out["mask"] = x.apply_mask(torch.tensor(rows)).detach().resolve_conj().resolve_neg().numpy()
        out["dot"] = np.asarray(torchtt.dot(x, x).detach().resolve_conj().resolve_neg().numpy())
    out["round"] = x.round(1e-13).full().detach().resolve_conj().resolve_neg().numpy()
    r = x.round(0.3)
    out["round(0.3) within 0.3 |x|"] = r.full().detach().resolve_conj().resolve_neg().numpy()
    if x.cores[0].dtype in (torch.float64, torch.complex128):
        out["round(1e-10) ranks"] = [int(v) for v in x.round(1e-10).R]
    out["clone"] = x.clone().full().detach().resolve_conj().resolve_neg().numpy()
    out["neg"] = (-x).full().detach().resolve_conj().resolve_neg().numpy()
    for nm, f, _r in extras: out[nm] = f(x)
    return out

def reference(x, rows, extras=()):
    D = _dense(x)
    ref = {"full": D, "numpy": D, "sum": np.asarray(D.sum()), "norm2": float((np.abs(D) ** 2).sum()), "norm": float(np.sqrt((np.abs(D) ** 2).sum())),
           "round": D, "clone": D, "neg": -D}
    if x.is_ttm:
        d = len(x.N); ref["t"] = D.transpose(list(range(d, 2 * d)) + list(range(d)))
        ref["_tens"] = D.transpose([i for k in range(d) for i in (k, d + k)]); ref["_unfold_rows"] = [int(m) * int(n) for m, n in zip(x.M, x.N)]
    else:
        ref["mask"] = np.array([D[tuple(r)] for r in rows]); ref["dot"] = np.asarray((D * np.conj(D)).sum())
        ref["_tens"] = D; ref["_unfold_rows"] = [int(n) for n in x.N]
    for nm, _f, r in extras: ref[nm] = r(D, x)
    return ref

def compare(got, ref, tol):
    bad = []
    D = np.asarray(ref["full"]); nD = float(np.sqrt((np.abs(D) ** 2).sum()))
    g = np.asarray(got["round(0.3) within 0.3 |x|"])
    if g.shape != D.shape or not float(np.sqrt((np.abs(g - D) ** 2).sum())) <= 0.3 * nD * (1 + 1e-6) + 1e-12: bad.append("round(0.3) within 0.3 |x|")
    if "round(1e-10) ranks" in got:
        # exact unfolding ranks of the CURRENT value (float64 data, small integer entries: a generous rank tolerance is safe)
        nrow = ref["_unfold_rows"]; R = got["round(1e-10) ranks"]; T = ref["_tens"]
        for k in range(1, len(nrow)):
            M = T.reshape(int(np.prod(nrow[:k])), -1)
            ex = int(np.linalg.matrix_rank(M, tol=1e-7 * max(nD, 1e-300))) if M.size else 0
            if len(R) != len(nrow) + 1 or R[k] > max(ex, 1): bad.append("round(1e-10) ranks (rank %d at bond %d, the unfolding has rank %d)" % (R[k] if len(R) == len(nrow) + 1 else -1, k, ex)); break
    for k, v in ref.items():
        if k.startswith("_"): continue
        g = np.asarray(got[k]); v = np.asarray(v)
        if g.shape != v.shape: bad.append("%s (shape %s instead of %s)" % (k, g.shape, v.shape)); continue
        scale = max(1.0, float(np.abs(v).max()) if v.size else 1.0)
        if not (float(np.abs(g - v).max()) if v.size else 0.0) <= tol * scale: bad.append(k)
    return bad

MUTATIONS = ("set_core same shape", "set_core new mode size", "in-place edit of a core tensor", "in-place edit of a core tensor through a view")

def probe(V, rng, torch, torchtt, x, label, desc, extras=(), mutations=None):
    """x: a freshly built object that nothing else refers to. Reports through V.fail; returns the number of read-outs compared"""
    d = len(x.N); dtype = x.cores[0].dtype
    tol = 1e-4 if dtype in (torch.float32, torch.complex64) else 1e-10
    rows = [[rng.randrange(int(n)) for n in x.N] for _ in range(3)]
    n = 0
    try:
        got0 = readouts(torch, torchtt, x, rows, extras)
        bad0 = compare(got0, reference(x, rows, extras), tol)
        if bad0: V.fail("%s: read-outs of a fresh object differ from the dense value of its cores: %s" % (label, ", ".join(bad0[:3])), dict(desc, readouts=bad0)); return 0
        for mut in (mutations or MUTATIONS):
            k = rng.randrange(d); c = x.cores[k]
            if mut == "set_core same shape":
                x.set_core(k, torch.tensor(ttgen.rand_core(rng, tuple(c.shape), dtype.is_complex), dtype=dtype))
            elif mut == "set_core new mode size":
                shp = list(c.shape); shp[-2] = shp[-2] + 1
                x.set_core(k, torch.tensor(ttgen.rand_core(rng, tuple(shp), dtype.is_complex), dtype=dtype))
            elif mut == "in-place edit of a core tensor":
                with torch.no_grad(): x.cores[k].mul_(2.0)
            else:
                with torch.no_grad(): x.cores[k][..., 0].add_(1.0)
            rows = [[rng.randrange(int(n_)) for n_ in x.N] for _ in range(3)]
            got = readouts(torch, torchtt, x, rows, extras)
            bad = compare(got, reference(x, rows, extras), tol)
            n += len(got)
            if bad:
                V.fail("%s: after %s the object is read as it WAS, not as it is: %s" % (label, mut, ", ".join(bad[:3])), dict(desc, mutation=mut, core=k, stale_readouts=bad))
                return n
    except Exception as ex:
        V.fail("%s: read - mutate - read probe raises %s" % (label, type(ex).__name__), dict(desc, exc=str(ex)[:200]))
    return n

def run_block(V, rng, torch, torchtt, label, kinds, n, extras=(), mutations=None, N=None):
    """n objects of the given kinds through the probe; returns the number of read-outs compared"""
    import history
    total = 0
    for j in range(n):
        kind = kinds[j % len(kinds)]
        dtype = [torch.float64, torch.complex128, torch.float64, torch.float32][j % 4]
        d = rng.choice([2, 3, 3, 4])
        if N: d = len(N)
        try:
            if kind == "cores": x = history.rand_tt(rng, dtype, d=d, N=list(N) if N else None)
            elif kind == "ttm": x = history.rand_tt(rng, dtype, ttm=True, d=(len(N) if N else min(d, 3)), N=list(N) if N else None, M=list(N) if N else None)
            elif kind == "svd":                       # built from a dense array (TT-SVD): left-orthogonal cores by construction
                N = [rng.choice([2, 3]) for _ in range(d)]
                A = np.array([rng.gauss(0, 1) for _ in range(int(np.prod(N)))]).reshape(N)
                x = torchtt.TT(torch.tensor(A).to(dtype), eps=1e-12) if j % 2 == 0 else torchtt.TT(A.astype(np.float64), eps=1e-12)
            elif kind == "svd-ttm":
                M_ = [rng.choice([2, 3]) for _ in range(2)]; N_ = [rng.choice([2, 3]) for _ in range(2)]
                A = np.array([rng.gauss(0, 1) for _ in range(int(np.prod(M_ + N_)))]).reshape(M_ + N_)
                x = torchtt.TT(torch.tensor(A).to(dtype), [(m_, n_) for m_, n_ in zip(M_, N_)], eps=1e-12)
            else:                                     # the result of arithmetic on two operands
                a = history.rand_tt(rng, dtype, d=d); b = history.rand_tt(rng, dtype, N=[int(v) for v in a.N])
                x = a + b if j % 2 == 0 else a * b
            desc = {"probe": "read-mutate-read", "kind": kind, "ttm": bool(x.is_ttm), "N": [int(v) for v in x.N], "R": [int(v) for v in x.R], "dtype": str(dtype)}
        except Exception as ex:
            V.fail("%s: building an object for the read - mutate - read probe raises %s" % (label, type(ex).__name__), {"kind": kind, "exc": str(ex)[:200]}); continue
        total += probe(V, rng, torch, torchtt, x, label, desc, extras, mutations)
    return total
