"""C03 - TT-tensor arithmetic equals dense arithmetic entry for entry."""
from fractions import Fraction
import ttgen, expr, coqrun, exprcheck
from expr import Lit3, Scal, NoneE, Op, Dense
import numpy as np

PID = "C03"

def gen_tt(rng, d=None, cplx=False, rmax=3, N=None, mult=1):
    d = d or rng.choice([1, 2, 2, 3, 3, 4, 5])
    N = N or ttgen.rand_shape(rng, d)
    R = ttgen.rand_ranks(rng, len(N), rmax)
    cores = ttgen.rand_tt_cores(rng, N, R, cplx)
    cores[0] = cores[0] * mult
    return Lit3(cores)

def gen_case(rng, car):
    cplx = car is coqrun.ZI
    r = rng.random()
    if r < 0.28:      # same-shape binary
        x = gen_tt(rng, cplx=cplx)
        N = [c.shape[1] for c in x.cores]
        y = gen_tt(rng, cplx=cplx, N=N)
        return Op(rng.choice(["OAdd", "OSub", "OMul"]), [x, y]), "binary", None
    if r < 0.52:      # broadcasting: shorter right operand and/or size-1 modes
        x = gen_tt(rng, d=rng.choice([2, 3, 4, 5]), cplx=cplx)
        N = [c.shape[1] for c in x.cores]
        k = rng.randint(1, len(N))
        Ny = [n if rng.random() < 0.6 else 1 for n in N[len(N) - k:]]
        y = gen_tt(rng, cplx=cplx, N=Ny)
        return Op(rng.choice(["OAdd", "OSub", "OMul"]), [x, y]), "bcast", None
    if r < 0.72:      # scalars of every kind, from either side
        x = gen_tt(rng, cplx=cplx)
        op = rng.choice(["OAdd", "ORAdd", "OSub", "ORSub", "OMul", "ORMul"])
        kinds = ["int", "float", "npf64", "npf32", "npi64", "t0", "t1"] + (["complex"] if cplx else [])
        if op not in ("OSub", "ORSub"): kinds.append("bool")      # torch has no tensor - bool
        if rng.random() < 0.2: kinds = ["npu8", "npi32", "tu8", "ti64"]      # integer scalars of other widths, unsigned included
        kind = rng.choice(kinds)
        v = rng.choice([0, 1, 2, -3, 5]) if kind != "bool" else rng.choice([0, 1])
        if kind in ("npu8", "tu8"): v = abs(v)
        if cplx and kind in ("complex", "t0", "t1") and rng.random() < 0.5:
            v = complex(v, rng.choice([1, -2]))
        return Op(op, [x, Scal(kind, v)]), ("scalar-zero-factor" if v == 0 and op in ("OMul", "ORMul") else "scalar"), None
    if r < 0.735 and not cplx:      # a REAL operand with a scalar of a wider type: complex scalars (python, numpy, 0-d tensor); the result is complex
        x = gen_tt(rng, cplx=False)
        op = rng.choice(["OAdd", "ORAdd", "OSub", "ORSub", "OMul", "ORMul"])
        kind = rng.choice(["complex", "npc128", "tc0"])
        if kind == "tc0" and op in ("ORAdd", "ORSub", "ORMul"): kind = "complex"      # tensor.__op__(TT) is torch's business
        return Op(op, [x, Scal(kind, complex(rng.choice([0, 1, 2, -3]), rng.choice([1, -2, 3])))]), "scalar-complex-on-real", coqrun.ZI
    if r < 0.76:      # tiny (dyadic) scalars: |c| <= 1e-8 is not zero; wide ones: ~30 significant bits, exact in float64 only
        x = gen_tt(rng, cplx=False)
        if rng.random() < 0.5:
            c = expr.wide_dyadic(rng)
            return Op(rng.choice(["OAdd", "ORAdd", "OSub", "ORSub", "OMul", "ORMul"]), [x, Scal(rng.choice(["float", "npf64", "t0"]), c, coq_value=Fraction(c))]), "scalar-wide", coqrun.QC
        c = rng.choice([2.0 ** -40, -2.0 ** -35, 2.0 ** -60])
        return Op(rng.choice(["OMul", "ORMul"]), [x, Scal(rng.choice(["float", "npf64", "t0"]), c, coq_value=Fraction(c))]), "scalar-tiny", coqrun.QC
    if r < 0.82:      # factories: ones, zeros, rank-one tensors, meshgrid (the same vector object may serve several axes)
        k = rng.random()
        d = rng.choice([1, 2, 3, 4])
        if k < 0.12: return Op("OOnes", [], [[rng.choice([1, 2, 3, 4]) for _ in range(d)]]), "factory:ones", None
        if k < 0.2: return Op("OOnes", [], [[rng.choice([1, 2, 3]) for _ in range(d)], [rng.choice([1, 2, 3, 4]) for _ in range(d)]]), "factory:ones-operator", None      # ones([(m1,n1),..]), rectangular
        if k < 0.32: return Op("OZeros", [], [[rng.choice([1, 2, 3, 4]) for _ in range(d)]]), "factory:zeros", None
        if k < 0.4: return Op("OZeros", [], [[rng.choice([1, 2, 3]) for _ in range(d)], [rng.choice([1, 2, 3, 4]) for _ in range(d)]]), "factory:zeros-operator", None
        vecs = [Dense(ttgen.rand_core(rng, (rng.choice([1, 2, 3, 4]),), cplx, -3, 3)) for _ in range(d)]
        if d >= 2 and rng.random() < 0.5:
            i, j = rng.sample(range(d), 2); vecs[j] = vecs[i]         # the same object on two axes
        if k < 0.5: return Op("ORank1", vecs), "factory:rank1", None
        if k < 0.6:       # the documented matrix form: a list of matrices gives the rank-one TT MATRIX (columns [n,1] and rows [1,n] included)
            mats = [Dense(ttgen.rand_core(rng, (rng.choice([1, 2, 3]), rng.choice([1, 2, 3])), cplx, -3, 3)) for _ in range(d)]
            return Op("ORank1", mats), "factory:rank1-matrices", None
        return Op("OMeshgrid", vecs, [[rng.randrange(d)]]), "factory:meshgrid", None
    if r < 0.88:      # division by a scalar: dyadic data, model over Qc
        x = gen_tt(rng, cplx=False, mult=rng.choice([1, 2, 4]))
        kind = rng.choice(["int", "float", "npf64", "npi64", "t0", "t1"])
        s = rng.choice([2, 4, -2, 1, 8]) if kind in ("int", "npi64") else rng.choice([2, 4, -2, 0.5, -0.25])
        return Op("ODiv", [x, Scal(kind, s, coq_value=1 / Fraction(s))]), "div", coqrun.QC
    if r < 0.90:
        return Op(rng.choice(["ONeg", "OPos"]), [gen_tt(rng, cplx=cplx)]), "unary", None
    if r < 0.95:      # an operand is used again after an operation on it: (x op s) op2 x, (x op y) op2 x  (the SAME object)
        x = gen_tt(rng, cplx=False, mult=rng.choice([2, 4]))
        k = rng.random()
        if k < 0.4:
            s = rng.choice([2, 4, -2])
            inner, car2 = Op("ODiv", [x, Scal(rng.choice(["int", "float", "t0"]), s, coq_value=1 / Fraction(s))]), coqrun.QC
        elif k < 0.7:
            inner, car2 = Op(rng.choice(["OMul", "ORMul", "OAdd", "OSub", "ORSub"]), [x, Scal(rng.choice(["int", "float"]), rng.choice([0, 2, -3]))]), None
        else:
            y = gen_tt(rng, cplx=False, N=[c.shape[1] for c in x.cores])
            inner, car2 = Op(rng.choice(["OAdd", "OSub", "OMul"]), [x, y]), None
        args = [inner, x] if rng.random() < 0.5 else [x, inner]
        return Op(rng.choice(["OAdd", "OSub", "OMul"]), args), "reuse", car2
    x = gen_tt(rng, d=rng.choice([1, 2, 3]), cplx=cplx)
    if rng.random() < 0.2:
        return (Op("OKron", [x, NoneE()]) if rng.random() < 0.5 else Op("OKron", [NoneE(), x])), "kron", None      # x ** None and None ** x (the accumulation idiom)
    return Op("OKron", [x, gen_tt(rng, d=rng.choice([1, 2]), cplx=cplx)]), "kron", None

def nontrivial(e, cat):
    if cat in ("exhaustive-structure", "bcast", "scalar", "scalar-zero-factor", "div", "scalar-tiny", "scalar-wide", "scalar-complex-on-real") or cat.startswith("factory"):
        return True
    return any(isinstance(a, Lit3) and any(c.shape[2] > 1 for c in a.cores[:-1]) for a in e.args)

RULE = ("random structured expressions (order 1..5, pairwise-distinct mode sizes, singleton modes, distinct rank profiles on both operands, "
        "every broadcast alignment, scalar kinds int/float/bool/complex/numpy/0-d/1-element tensor incl. zero, float64/float32/complex128) with "
        "small-integer (dyadic for division) cores so every value is exact; non-trivial = some interior rank > 1 on a TT operand or a "
        "broadcast/scalar branch; distinct = distinct (expression structure, dtype) key")

def exhaustive_structures(rng):
    """thorough tier: EVERY structure of x (op) y for orders 1..3, mode sizes in {1,2,3}, every trailing alignment of a shorter y and every
    subset of its modes collapsed to size 1, op in + - *; ranks and values random (rank 1 and 2 both occur)"""
    import itertools, torch
    out = []
    for d in (1, 2, 3):
        for N in itertools.product((1, 2, 3), repeat=d):
            for k in range(1, d + 1):
                for mask in itertools.product((False, True), repeat=k):
                    Ny = [1 if m else n for m, n in zip(mask, N[d - k:])]
                    for op in ("OAdd", "OSub", "OMul"):
                        x = Lit3(ttgen.rand_tt_cores(rng, list(N), ttgen.rand_ranks(rng, d, 2), False))
                        y = Lit3(ttgen.rand_tt_cores(rng, Ny, ttgen.rand_ranks(rng, k, 2), False))
                        out.append((Op(op, [x, y]), "exhaustive-structure", torch.float64, coqrun.Z))
    return out

def _mixed_block(V, rng, tier):
    """operands of two dtypes (exact, promoted dtype, either order) and scalars that are not dyadic - see harness/mixdtype.py"""
    import torch, torchtt, mixdtype
    dist = {}
    mixdtype.run_block(V, rng, torch, torchtt, False, dist, 12 if tier == "quick" else 120)
    dist_op = {}
    mixdtype.run_block(V, rng, torch, torchtt, True, dist_op, 4 if tier == "quick" else 40)      # scalars and operators: the same contract
    dist.update({"operators: " + k: v for k, v in dist_op.items()})
    import staleprobe
    n_stale = staleprobe.run_block(V, rng, torch, torchtt, "full / numpy / arithmetic", ["cores", "arith", "svd", "arith"], 8 if tier == "quick" else 80)
    return {"mixed_dtype_and_non_dyadic_scalar_cases": dist, "read_mutate_read_probe_readouts": n_stale}

def run(tier, seed, replay=None):
    import torch
    dtypes = [(torch.float64, coqrun.Z), (torch.float64, coqrun.Z), (torch.float32, coqrun.Z), (torch.complex128, coqrun.ZI)]
    return exprcheck.run(PID, tier, seed, gen_case, 400, 6000, RULE + ("; thorough tier additionally enumerates EVERY structure x (op) y of order 1..3 with mode "
                         "sizes 1..3, all trailing alignments and size-1 collapses of y" if tier == "thorough" else ""), nontrivial, dtypes,
                         extra_cases=exhaustive_structures if tier == "thorough" else None, post=_mixed_block)
