"""C12 - AMEn solve returns a solution with relative residual at most eps."""
import time, random, json, math
import numpy as np
import common, coqrun, proofcheck, history, solverkit

PID = "C12"
CONST = 50.0

def gen_system(rng, torch, torchtt, N=None):
    d = rng.choice([2, 2, 3, 3, 4, 5])
    N_ = [rng.choice([2, 3, 4, 5, 6, 8, 12]) for _ in range(d)]
    while int(np.prod(N_)) > 3000: N_[N_.index(max(N_))] = 2
    if N is None: N = N_
    else: d = len(N)
    kind = rng.choice(["spd", "diagdom", "laplace"])
    dt = torch.float64
    I = torchtt.eye(N, dtype=dt)
    if kind == "laplace":
        A = None
        for k in range(d):
            L = torch.zeros(N[k], N[k], dtype=dt)
            for i in range(N[k]):
                L[i, i] = 2.0
                if i > 0: L[i, i - 1] = -1.0
                if i < N[k] - 1: L[i, i + 1] = -1.0
            cores = [torch.eye(n, dtype=dt).reshape(1, n, n, 1) for n in N]
            cores[k] = L.reshape(1, N[k], N[k], 1)
            T = torchtt.TT(cores)
            A = T if A is None else A + T
        A = A + I * rng.choice([0.5, 1.0])
    else:
        r = rng.choice([1, 2, 3])
        P = solverkit.rand_ttm_float(rng, N, N, [1] + [r] * (d - 1) + [1], dt)
        P = P / P.norm() * math.sqrt(float(np.prod(N)))          # entries of order 1/sqrt(size)...
        if kind == "spd":
            A = (P.t() @ P).round(1e-12) * 0.3 + I * 2.0
        else:
            A = P * (0.3 / math.sqrt(float(np.prod(N)))) * math.sqrt(float(np.prod(N))) * 0.05 + I * 3.0
    A = A.round(1e-13)
    b = solverkit.rand_tt_float(rng, N, solverkit.ranks(rng, d, rng.choice([1, 2, 3, 4])), dt)
    return A, b, N, kind

def run(tier, seed, replay=None):
    import torch, torchtt
    t0 = time.time()
    rng = random.Random(seed)
    V = common.Verdict(PID)
    ok_make, obl = proofcheck.obligations(PID, V)
    n = 36 if tier == "quick" else 600
    dist, samples = {}, []
    # the rank-search loop of the model against a direct transcription of the Python loop, exhaustively for n <= 7
    search_cases, search_want = [], []
    for nn in range(1, 8 if tier == "quick" else 10):
        for mask in range(1 << (nn - 1) if nn > 1 else 1):
            ok = [bool(mask >> j & 1) for j in range(nn - 1)]            # ok[r-1] for r = 1..n-1
            r = 0
            for r in range(nn - 1, 0, -1):
                if not ok[r - 1]: break
            r += 1
            lit = "(fun r => nth (r - 1) %s false)" % ("[" + ";".join("true" if v else "false" for v in ok) + "]")
            search_cases.append("[rank_search %s %d]" % (lit, nn)); search_want.append(r)
    n_search = 0
    if ok_make:
        res = coqrun.eval_nat_lists("C12_s", "From TT Require Import Skel.", "", search_cases, shard=200)
        for c, got, want in zip(search_cases, res, search_want):
            if got[0] != want: V.fail("correspondence(model/impl) rank search loop", {"case": c, "model": got[0], "python_loop": want}, failing_input=False)
            else: n_search += 1
    # the local iterative solver's own contract: restarting never makes the residual worse, a 'converged' answer meets the threshold
    import torchtt._iterative_solvers as IS
    class _Op:
        def __init__(self, A): self.A = A
        def matvec(self, v): return self.A @ v.reshape(-1, 1)
    n_loc = 0
    for t in range(8 if tier == "quick" else 80):
        m = rng.choice([60, 90, 120])
        L = torch.zeros(m, m, dtype=torch.float64)
        for i_ in range(m):
            L[i_, i_] = 2.0 + rng.choice([0.0, 0.01])
            if i_ > 0: L[i_, i_ - 1] = -1.0
            if i_ < m - 1: L[i_, i_ + 1] = -1.0 + (0.3 if rng.random() < 0.3 else 0.0)
        bvec = torch.tensor([[rng.gauss(0, 1)] for _ in range(m)], dtype=torch.float64)
        thr = rng.choice([1e-8, 1e-10])
        try:
            x1, c1, k1 = IS.gmres(_Op(L), bvec, torch.zeros_like(bvec), m, 40, thr)
            x4, c4, k4 = IS.gmres_restart(_Op(L), bvec, torch.zeros_like(bvec), m, 40, thr, 4)
        except Exception as ex:
            V.fail("gmres raises %s" % type(ex).__name__, {"size": m, "exc": str(ex)[:200]}); continue
        r1 = float((L @ x1 - bvec).norm() / bvec.norm()); r4 = float((L @ x4 - bvec).norm() / bvec.norm())
        n_loc += 1
        if not (r4 <= r1 * (1 + 1e-6) + 1e-14):
            V.fail("gmres_restart: the residual after restarts is larger than after the first cycle", {"size": m, "threshold": thr, "one_cycle": r1, "restarted": r4})
        if c4 and not (r4 <= 10 * thr):
            V.fail("gmres_restart reports convergence with a residual above the threshold", {"size": m, "threshold": thr, "restarted": r4})
    dist["local gmres contract"] = n_loc
    # the plane rotation of GMRES: for every sign / phase of the pivot the pair (c, s) is unitary and annihilates the second entry
    # ([c s; -conj(s) c] applied to (v1, v2) gives (r, 0)); then GMRES with a full Krylov space on small systems of every definiteness
    n_rot = 0
    for t in range(40 if tier == "quick" else 400):
        cplx_ = t % 4 == 3
        mk_ = (lambda: complex(rng.gauss(0, 1), rng.gauss(0, 1))) if cplx_ else (lambda: rng.gauss(0, 1))
        v1, v2 = mk_(), mk_()
        if t % 5 == 0: v1 = -abs(v1) if not cplx_ else -v1
        if t % 11 == 0: v2 = v2 * 1e-9
        a1, a2 = (np.complex128(v1), np.complex128(v2)) if cplx_ else (np.float64(v1), np.float64(v2))
        try:
            c_, s_ = IS.givens_rotation(a1, a2)
            unit = abs(abs(c_) ** 2 + abs(s_) ** 2 - 1.0); ann = abs(-np.conj(s_) * a1 + c_ * a2) / max(abs(a1), abs(a2))
            if not (unit <= 1e-12 and ann <= 1e-12):
                V.fail("givens_rotation: the rotation is not unitary / does not annihilate the second entry", {"v1": str(v1), "v2": str(v2), "c": str(c_), "s": str(s_), "unit_defect": float(unit), "annihilation_defect": float(ann)})
        except Exception as ex:
            V.fail("givens_rotation raises %s" % type(ex).__name__, {"v1": str(v1), "v2": str(v2), "exc": str(ex)[:200]})
        n_rot += 1
    dist["givens rotation contract"] = n_rot
    n_def = 0
    for t in range(12 if tier == "quick" else 120):
        m = rng.choice([5, 8, 12]); kind_ = ["positive definite", "negative definite", "indefinite, diagonally dominant", "negative Laplacian"][t % 4]
        G_ = torch.tensor([[rng.gauss(0, 1) for _ in range(m)] for _ in range(m)], dtype=torch.float64)
        if kind_ == "positive definite": L = G_ @ G_.T / m + 2 * torch.eye(m, dtype=torch.float64)
        elif kind_ == "negative definite": L = -(G_ @ G_.T / m + 2 * torch.eye(m, dtype=torch.float64))
        elif kind_ == "indefinite, diagonally dominant": L = 0.1 * G_ + torch.diag(torch.tensor([3.0 * (-1) ** k_ for k_ in range(m)], dtype=torch.float64))
        else: L = -(2 * torch.eye(m, dtype=torch.float64) - torch.diag(torch.ones(m - 1, dtype=torch.float64), 1) - torch.diag(torch.ones(m - 1, dtype=torch.float64), -1))
        bvec = torch.tensor([[rng.gauss(0, 1)] for _ in range(m)], dtype=torch.float64)
        try:
            xg, cg, kg = IS.gmres_restart(_Op(L), bvec, torch.zeros_like(bvec), m, m, 1e-10, 2)
            rg = float((L @ xg - bvec).norm() / bvec.norm())
            if not (rg <= 1e-8): V.fail("gmres_restart with a full Krylov space does not solve a small well-conditioned system [%s]" % kind_, {"size": m, "rel_residual": rg, "reported_converged": bool(cg)})
        except Exception as ex:
            V.fail("gmres raises %s" % type(ex).__name__, {"size": m, "kind": kind_, "exc": str(ex)[:200]})
        n_def += 1
    dist["local gmres on systems of every definiteness"] = n_def
    # BiCGSTAB: the same kind of contract; its stopping tests must be relative (right-hand sides of any magnitude) and a
    # near-breakdown restart must restart the search direction too
    n_bi = 0
    for t in range(16 if tier == "quick" else 160):
        m = rng.choice([20, 40, 80])
        P_ = torch.tensor([[rng.gauss(0, 1) for _ in range(m)] for _ in range(m)], dtype=torch.float64) / math.sqrt(m)
        L = P_.T @ P_ + 2.0 * torch.eye(m, dtype=torch.float64)
        sc = rng.choice([1.0, 1e-6, 1e-9, 1e5])
        bvec = sc * torch.tensor([[rng.gauss(0, 1)] for _ in range(m)], dtype=torch.float64)
        thr = rng.choice([1e-4, 1e-8, 1e-10])
        try:
            torch.manual_seed(t)
            xb, flag, nit, relres = IS.BiCGSTAB_reset(_Op(L), bvec, torch.zeros_like(bvec), thr, 200)
        except Exception as ex:
            V.fail("BiCGSTAB_reset raises %s" % type(ex).__name__, {"size": m, "exc": str(ex)[:200]}); continue
        rb = float((L @ xb.reshape(-1, 1) - bvec).norm() / bvec.norm())
        n_bi += 1
        if not (rb <= 10 * thr):
            V.fail("BiCGSTAB_reset: well-conditioned SPD system, 200 iterations allowed, residual above the threshold", {"size": m, "threshold": thr, "rhs_scale": sc, "rel_residual": rb, "iterations": int(nit)})
    dist["local bicgstab contract"] = n_bi
    # ---- the frame identity (C12_entry_frame / _setc / _setc_add) on the implementation, exactly (integer cores): the dense value as a
    #      function of one core is  L_k (x) G_k (x) R_k  with the interfaces of the OTHER cores, and it is additive in that core
    n_frame = 0
    for j in range(40 if tier == "quick" else 400):
        d = rng.choice([1, 2, 3, 4, 5]); N = [rng.choice([1, 2, 3, 4]) for _ in range(d)]
        Rr = [1] + [rng.randint(1, 3) for _ in range(d - 1)] + [1]
        ic = lambda shp: torch.tensor(np.array([rng.randint(-3, 3) for _ in range(int(np.prod(shp)))]).reshape(shp), dtype=torch.float64)
        cores = [ic((Rr[k], N[k], Rr[k + 1])) for k in range(d)]
        k = rng.randrange(d); c1, c2 = ic(tuple(cores[k].shape)), ic(tuple(cores[k].shape))
        desc = {"N": N, "R": Rr, "core": k}
        try:
            x = torchtt.TT([c.clone() for c in cores])
            def with_core(c):
                y = x.clone(); y.set_core(k, c.clone()); return y.full()
            f1, f2, f12 = with_core(c1), with_core(c2), with_core(c1 + c2)
            L = torch.ones(1, 1, dtype=torch.float64)
            for c in cores[:k]: L = torch.tensordot(L, c, dims=([-1], [0]))
            Rt = torch.ones(1, 1, dtype=torch.float64)
            for c in reversed(cores[k + 1:]): Rt = torch.tensordot(c, Rt, dims=([-1], [0]))
            Lm = L.reshape(-1, Rr[k]); Rm = Rt.reshape(Rr[k + 1], -1)
            frame = torch.einsum('ap,piq,qb->aib', Lm, c1, Rm).reshape(N)
            n_frame += 1
            if not torch.equal(f12, f1 + f2): V.fail("frame: the dense value is not additive in a single core (set_core)", desc)
            if not torch.equal(f1, frame): V.fail("frame: full() after set_core differs from L_k x G_k x R_k built from the other cores", desc)
            if not torch.equal(x.full(), torchtt.TT([c.clone() for c in cores]).full()): V.fail("frame: set_core on a clone changed the original", desc)
        except Exception as ex:
            V.fail("frame identity check raises %s" % type(ex).__name__, dict(desc, exc=str(ex)[:200]))
    dist["frame identity (exact)"] = n_frame
    # ---- exact correspondence of the interface recursions and of the local operator with Model/Local.v: the helper functions of torchtt/solvers.py
    # (_compute_phi_fwd_A, _compute_phi_bck_A, _compute_phi_fwd_rhs, _compute_phi_bck_rhs, _local_product, _LinearOp.matvec) on small-integer data
    import torchtt.solvers as SV
    rng_l = random.Random(seed + 53)
    lcases, lmeta = [], []
    def ia(shape): return np.array([rng_l.randint(-2, 2) for _ in range(int(np.prod(shape)))], dtype=np.float64).reshape(shape)
    def zl(a_): return coqrun.zlist(np.asarray(a_).reshape(-1))
    def o3(a_): return "(%d%%nat,%d%%nat,%d%%nat,%s)" % (a_.shape[0], a_.shape[1], a_.shape[2], zl(a_))
    def o4(a_): return "(%d%%nat,%d%%nat,%d%%nat,%d%%nat,%s)" % (a_.shape[0], a_.shape[1], a_.shape[2], a_.shape[3], zl(a_))
    T_ = lambda a_: torch.tensor(a_, dtype=torch.float64)
    for j in range(36 if tier == "quick" else 360):
        ra, rb, rs, rS = [rng_l.choice([1, 2, 3]) for _ in range(4)]; m_, n_ = rng_l.choice([1, 2, 3]), rng_l.choice([1, 2, 3])
        la, lb = rng_l.choice([1, 2, 3]), rng_l.choice([1, 2])         # ranks of the left train may differ from those of the right one (z / x interfaces of the enrichment)
        kind_ = ["phi_fwd", "phi_bck", "phib_fwd", "phib_bck", "local_product", "linop"][j % 6]
        try:
            if kind_ in ("phi_fwd", "phi_bck"):
                a_, c_, b_ = ia((la, m_, lb)), ia((rs, m_, n_, rS)), ia((ra, n_, rb))
                if kind_ == "phi_fwd":
                    P_ = ia((la, rs, ra)); out = SV._compute_phi_fwd_A(T_(P_), T_(a_), T_(c_), T_(b_))
                    lcases.append("[check_phi_fwd (R:=Z) %d %d %s %s %s %s %s]" % (rs, ra, zl(P_), o3(a_), o4(c_), o3(b_), zl(out.numpy())))
                else:
                    P_ = ia((lb, rS, rb)); out = SV._compute_phi_bck_A(T_(P_), T_(a_), T_(c_), T_(b_))
                    lcases.append("[check_phi_bck (R:=Z) %d %d %s %s %s %s %s]" % (rS, rb, zl(P_), o3(a_), o4(c_), o3(b_), zl(out.numpy())))
            elif kind_ in ("phib_fwd", "phib_bck"):
                bc_, x_ = ia((rs, n_, rS)), ia((ra, n_, rb))
                if kind_ == "phib_fwd":
                    P_ = ia((rs, ra)); out = SV._compute_phi_fwd_rhs(T_(P_), T_(bc_), T_(x_))
                    lcases.append("[check_phib_fwd (R:=Z) %d %s %s %s %s]" % (ra, zl(P_), o3(bc_), o3(x_), zl(out.numpy())))
                else:
                    P_ = ia((rS, rb)); out = SV._compute_phi_bck_rhs(T_(P_), T_(bc_), T_(x_))
                    lcases.append("[check_phib_bck (R:=Z) %d %s %s %s %s]" % (rb, zl(P_), o3(bc_), o3(x_), zl(out.numpy())))
            else:
                n_ = m_                                               # the local operator is square
                PL_, PR_, c_, x_ = ia((ra, rs, ra)), ia((rb, rS, rb)), ia((rs, m_, n_, rS)), ia((ra, n_, rb))
                if kind_ == "local_product":
                    out = SV._local_product(T_(PR_), T_(PL_), T_(c_), T_(x_), list(x_.shape))
                else:
                    out = SV._LinearOp(T_(PL_), T_(PR_), T_(c_), list(x_.shape), None).matvec(T_(x_).reshape(-1, 1), False)
                lcases.append("[check_local_product (R:=Z) %d %d %s %s %d %d %s %s %s]" % (rs, ra, zl(PL_), o4(c_), rS, rb, zl(PR_), o3(x_), zl(out.numpy())))
            lmeta.append({"local_correspondence": kind_, "case": j})
        except Exception as ex:
            V.fail("local correspondence: %s raises %s" % (kind_, type(ex).__name__), {"kind": kind_, "exc": str(ex)[:200]}, failing_input=False)
    # whole-train composition, as amen_solve composes the helpers (backward recursions from the right end, forward ones from the left end, the local
    # product and 'br,bmB,BR->rmR' at position k) on integer trains with b := A @ x: Model/Local.v check_chain evaluates phiF / phiB / phibF / phibB /
    # local_product / local_rhs on the same cores; and the conclusion of theorem C12_product_solution_stationary is read off the implementation:
    # local_product(x_k) == local right-hand side, exactly
    n_chain = 0
    for j in range(10 if tier == "quick" else 100):
        d_ = rng_l.choice([2, 3, 3, 4]); k_ = rng_l.randrange(d_); Ns = [rng_l.choice([1, 2, 3]) for _ in range(d_)]
        rx = [1] + [rng_l.choice([1, 2]) for _ in range(d_ - 1)] + [1]; rA = [1] + [rng_l.choice([1, 2]) for _ in range(d_ - 1)] + [1]
        try:
            xc = [ia((rx[i], Ns[i], rx[i + 1])) for i in range(d_)]; Ac = [ia((rA[i], Ns[i], Ns[i], rA[i + 1])) for i in range(d_)]
            xt, At = torchtt.TT([T_(c) for c in xc]), torchtt.TT([T_(c) for c in Ac])
            bt = At @ xt; bc = [c.numpy() for c in bt.cores]
            PhA, Phb = [None] * (d_ + 1), [None] * (d_ + 1)
            PhA[0] = torch.ones((1, 1, 1), dtype=torch.float64); PhA[d_] = torch.ones((1, 1, 1), dtype=torch.float64)
            Phb[0] = torch.ones((1, 1), dtype=torch.float64); Phb[d_] = torch.ones((1, 1), dtype=torch.float64)
            for i in range(k_):
                PhA[i + 1] = SV._compute_phi_fwd_A(PhA[i], T_(xc[i]), T_(Ac[i]), T_(xc[i])); Phb[i + 1] = SV._compute_phi_fwd_rhs(Phb[i], T_(bc[i]), T_(xc[i]))
            for i in range(d_ - 1, k_, -1):
                PhA[i] = SV._compute_phi_bck_A(PhA[i + 1], T_(xc[i]), T_(Ac[i]), T_(xc[i])); Phb[i] = SV._compute_phi_bck_rhs(Phb[i + 1], T_(bc[i]), T_(xc[i]))
            lp = SV._local_product(PhA[k_ + 1], PhA[k_], T_(Ac[k_]), T_(xc[k_]), list(xc[k_].shape))
            rhs_ = torch.einsum('br,bmB,BR->rmR', Phb[k_], T_(bc[k_]), Phb[k_ + 1])
            dsc = {"local_correspondence": "chain", "case": len(lcases), "d": d_, "k": k_, "N": Ns, "rx": rx, "rA": rA}
            if not torch.equal(lp.reshape(-1), rhs_.reshape(-1)):
                V.fail("stationarity: with b = A @ x (integer cores) the local product applied to the k-th core of x differs from the local right-hand side", dict(dsc, lp=lp.reshape(-1).tolist()[:20], rhs=rhs_.reshape(-1).tolist()[:20]))
            l3 = lambda cs: "[" + ";".join(o3(c) for c in cs) + "]"; l4 = lambda cs: "[" + ";".join(o4(c) for c in cs) + "]"
            lcases.append("[check_chain (R:=Z) %s %s %s %s %s %s %s %s %s %s %s]" % (l3(xc[:k_]), l3(xc[k_ + 1:]), l4(Ac[:k_]), l4(Ac[k_ + 1:]), o4(Ac[k_]), o3(xc[k_]),
                          l3(bc[:k_]), l3(bc[k_ + 1:]), o3(bc[k_]), zl(lp.numpy()), zl(rhs_.numpy())))
            lmeta.append(dsc); n_chain += 1
        except Exception as ex:
            V.fail("local correspondence: chain raises %s" % type(ex).__name__, {"kind": "chain", "exc": str(ex)[:200]}, failing_input=False)
    dist["whole-train interface composition + stationarity (exact)"] = n_chain
    n_local = 0
    if ok_make and lcases:
        try:
            codes = coqrun.eval_nat_lists("C12_local", "From TT Require Import RingSig Instances Core Local.", "", lcases, shard=60)
            for dsc, c in zip(lmeta, codes):
                if c != [0]: V.fail("correspondence(model/impl): %s of torchtt/solvers.py differs from Model/Local.v" % dsc["local_correspondence"], dict(dsc, model_code=c, expr=lcases[lmeta.index(dsc)][:1500]))
                else: n_local += 1
        except Exception as ex:
            V.fail("local correspondence: the model could not be evaluated", {"exc": str(ex)[:300]}, failing_input=False)
    dist["local operator / interface recursions exact"] = n_local
    # ---- tiny systems whose first local right-hand side vanishes exactly (zero-sum last core of b, default start): the local tolerance is
    # eps*||rhs|| = 0 and the small local system is solved exactly after a few Krylov steps - every local solver must survive that
    rng_t = random.Random(seed + 17)
    for Nt in ([2, 3], [3, 2], [2, 2, 3], [2, 3], [3, 3]):
        for ls_, lname in ((1, "gmres"), (2, "bicgstab")):
            dt_ = torch.float64; dd = len(Nt)
            P = solverkit.rand_ttm_float(rng_t, Nt, Nt, [1] + [2] * (dd - 1) + [1], dt_)
            P = P / P.norm() * math.sqrt(float(np.prod(Nt)))
            A_ = ((P.t() @ P).round(1e-12) * 0.3 + torchtt.eye(Nt, dtype=dt_) * 2.0).round(1e-13)
            b_ = solverkit.rand_tt_float(rng_t, Nt, [1] * (dd + 1), dt_)
            cs_ = [c.clone() for c in b_.cores]; cs_[-1] = torch.zeros_like(cs_[-1]); cs_[-1][0, 0, 0] = 1.0; cs_[-1][0, 1, 0] = -1.0
            b_ = torchtt.TT(cs_)
            sd_ = rng_t.randrange(1 << 30); torch.manual_seed(sd_)
            desc = {"tiny_zero_sum": True, "N": Nt, "local_solver": lname, "torch_seed": sd_, "A": [c.tolist() for c in A_.cores], "b": [c.tolist() for c in b_.cores]}
            try:
                x_ = torchtt.solvers.amen_solve(A_, b_, eps=1e-10, nswp=40, max_full=0, local_solver=ls_, verbose=False, use_cpp=False)
                res_ = float((A_ @ x_ - b_).norm() / b_.norm())
                if not res_ <= CONST * 1e-10: V.fail("residual exceeds %g*eps [tiny zero-sum %s]" % (CONST, lname), dict(desc, rel_residual=res_))
            except Exception as ex:
                V.fail("amen_solve raises %s [tiny zero-sum %s]" % (type(ex).__name__, lname), dict(desc, exc=str(ex)[:200]))
            dist["tiny zero-sum " + lname] = dist.get("tiny zero-sum " + lname, 0) + 1
            # the exact solution as initial guess (every local residual vanishes): the call returns, with the guess
            import signal
            def _alarm(sig_, frm_): raise TimeoutError("no return within 120 s")
            xs_ = torchtt.ones(Nt, dtype=dt_) * 0.5; As_ = torchtt.eye(Nt, dtype=dt_) * 2.0; bs_ = torchtt.ones(Nt, dtype=dt_)
            old_h = signal.signal(signal.SIGALRM, _alarm); signal.alarm(120)
            try:
                xr_ = torchtt.solvers.amen_solve(As_, bs_, x0=xs_, eps=1e-8, nswp=10, max_full=0, local_solver=ls_, verbose=False, use_cpp=False)
                res_ = float((As_ @ xr_ - bs_).norm() / bs_.norm())
                if not res_ <= CONST * 1e-8: V.fail("residual exceeds %g*eps [exact guess %s]" % (CONST, lname), {"N": Nt, "local_solver": lname, "rel_residual": res_, "A": "2*eye", "b": "ones", "x0": "0.5*ones"})
            except TimeoutError as ex:
                V.fail("amen_solve does not return when the guess is the exact solution [%s]" % lname, {"N": Nt, "local_solver": lname, "A": "2*eye", "b": "ones", "x0": "0.5*ones", "max_full": 0})
            except Exception as ex:
                V.fail("amen_solve raises %s [exact guess %s]" % (type(ex).__name__, lname), {"N": Nt, "local_solver": lname, "exc": str(ex)[:200]})
            finally:
                signal.alarm(0); signal.signal(signal.SIGALRM, old_h)
            dist["exact guess " + lname] = dist.get("exact guess " + lname, 0) + 1
    for i in range(n):
        A, b, N, kind = gen_system(rng, torch, torchtt, N={10: [5, 4], 14: [6, 7, 5]}.get(i))          # (cases 10, 14: small modes, every local problem is solved directly)
        eps = rng.choice([1e-10, 1e-8, 1e-6, 1e-4, 1e-3])
        pure_lap = i in (18, 22)
        if pure_lap:
            # engineered: the UNSHIFTED discrete Laplacian (h^-2 scaling) of order 3 / 4 with a smooth right-hand side whose solution is not exactly low rank: the norm
            # corrections of the sweep (nrmsc) are of order 1e-2 .. 1e-3 here - a residual test normalised with the wrong one of them is off by that factor
            N = [12, 12, 12] if i == 18 else [6, 8, 10, 12]; kind = "laplace-unshifted"
            A = None
            for k_ in range(len(N)):
                cs_ = [torch.eye(n_, dtype=torch.float64).reshape(1, n_, n_, 1) for n_ in N]
                L_ = (2 * torch.eye(N[k_], dtype=torch.float64) - torch.diag(torch.ones(N[k_] - 1, dtype=torch.float64), 1) - torch.diag(torch.ones(N[k_] - 1, dtype=torch.float64), -1)) * (N[k_] + 1) ** 2
                cs_[k_] = L_.reshape(1, N[k_], N[k_], 1); T_ = torchtt.TT(cs_); A = T_ if A is None else A + T_
            A = A.round(1e-14)
            gr_ = [torch.linspace(0, 1, n_ + 2, dtype=torch.float64)[1:-1] for n_ in N]
            r1_ = lambda f_: torchtt.TT([f_(g_).reshape(1, -1, 1) for g_ in gr_])
            b = r1_(lambda g_: torch.sin(math.pi * g_)) + 0.5 * r1_(lambda g_: torch.exp(-g_)) + 0.3 * r1_(lambda g_: 1 + g_ ** 2)
            eps = 1e-8
        prec = rng.choice([None, None, "c", "r"])
        max_full = rng.choice([0, 500])
        local = rng.choice(["gmres", "bicgstab"]) if max_full == 0 else None
        if i % 5 == 4:                        # every fifth case: BiCGSTAB, no preconditioner, tight tolerance
            max_full, local, prec, eps = 0, "bicgstab", None, rng.choice([1e-10, 1e-8])
        band = None
        if kind == "laplace" and max_full == 0 and (rng.random() < 0.6 or i % 7 == 3):      # the documented band_diagonal option (the cores of this family are tridiagonal)
            band = rng.choice([1, 2])
        zero_sum = (rng.random() < 0.15 or i in (2, 6, 10, 14)) and not pure_lap
        if zero_sum:                          # a right-hand side whose last core sums to zero along its mode: the projection on the default (all-ones) guess vanishes exactly
            cs_ = [c.clone() for c in b.cores]; cs_[-1] = torch.zeros_like(cs_[-1])
            for p_ in range(cs_[-1].shape[0]): cs_[-1][p_, 0, 0] = float(p_ + 1); cs_[-1][p_, 1, 0] = -float(p_ + 1)
            b = torchtt.TT(cs_)
        gk = rng.choice(["none", "none", "none", "random", "random", "zeros", "0*b", "b", "random*1e6", "random*1e-9", "zero-core", "loose-solution", "loose-solution"])
        if pure_lap: gk = "none"; prec = None; max_full = 500; local = None; band = None; zero_sum = False
        if i in (2, 6):                       # engineered: zero-sum right-hand side, default start, iterative local solves (the local right-hand side of the first core vanishes: tolerance 0)
            gk = "none"; max_full = 0; local = "bicgstab" if i == 2 else "gmres"; prec = None; band = None
        if i in (10, 14):                     # ... and with the direct local solve (an interface of the right-hand side vanishes exactly: its norm must not be divided by), without / with preconditioner
            gk = "none"; max_full = 500; local = None; prec = None if i == 10 else "c"; band = None
        if i in (3, 11, 19) and not pure_lap:  # engineered, every run: a guess whose relative residual is 0.3 sqrt(eps) (between eps and sqrt(eps): good, not good enough)
            gk = "scaled-solution"; eps = min(eps, 1e-6)
        guess = None
        if gk != "none":
            guess = solverkit.rand_tt_float(rng, N, solverkit.ranks(rng, len(N), 3), torch.float64)
            if gk == "zeros": guess = torchtt.zeros(N, dtype=torch.float64)
            elif gk == "0*b": guess = 0 * b
            elif gk == "b": guess = b.clone()
            elif gk == "loose-solution":          # refinement: the solution of a looser solve (relative residual between eps and sqrt(eps)) as the guess of the tight one
                try: guess = torchtt.solvers.amen_solve(A, b, eps=min(3e-2, 0.3 * math.sqrt(eps)), nswp=30, verbose=False, use_cpp=False)
                except Exception: pass
            elif gk == "scaled-solution":
                try: guess = (1.0 + 0.3 * math.sqrt(eps)) * torchtt.solvers.amen_solve(A, b, eps=0.1 * eps, nswp=40, verbose=False, use_cpp=False)
                except Exception: pass
            elif gk == "random*1e6": guess = 1e6 * guess
            elif gk == "random*1e-9": guess = 1e-9 * guess
            elif gk == "zero-core":
                cs = [c.clone() for c in guess.cores]; k0 = rng.randrange(len(cs)); cs[k0] = torch.zeros_like(cs[k0]); guess = torchtt.TT(cs)
        dist["guess:" + gk] = dist.get("guess:" + gk, 0) + 1
        sd = rng.randrange(1 << 30); torch.manual_seed(sd)
        desc = {"N": N, "family": kind, "rank_A": [int(r) for r in A.R], "rank_b": [int(r) for r in b.R], "eps": eps, "preconditioner": prec, "max_full": max_full,
                "local_solver": local, "guess": guess is not None, "guess_kind": gk, "torch_seed": sd, "band_diagonal": band, "zero_sum_rhs": zero_sum}
        key = "%s prec=%s %s" % (kind, prec, "full" if max_full else local)
        dist[key] = dist.get(key, 0) + 1
        if i % 8 == 0 and len(samples) < 5: samples.append(desc)
        ops = {"A": A, "b": b}
        if guess is not None: ops["guess"] = guess
        snaps = {k: history.Snap(v) for k, v in ops.items()}
        kw = dict(x0=guess, eps=eps, nswp=40, preconditioner=prec, max_full=max_full, verbose=False, use_cpp=False)
        if local: kw["local_solver"] = 1 if local == "gmres" else 2
        if i % 6 == 1: kw["rmax"] = np.int64(512); dist["rmax given as int64"] = dist.get("rmax given as int64", 0) + 1          # the documented rank cap as a numpy integer (it does not bind)
        if i % 6 == 4: kw["kick2"] = rng.choice([1, 2]); dist["kick2 > 0"] = dist.get("kick2 > 0", 0) + 1            # the documented second enrichment (random columns in the residual basis)
        if band is not None: kw["band_diagonal"] = band; dist["band_diagonal option"] = dist.get("band_diagonal option", 0) + 1
        if zero_sum: dist["zero-sum right-hand side"] = dist.get("zero-sum right-hand side", 0) + 1
        try:
            x = torchtt.solvers.amen_solve(A, b, **kw)
        except Exception as ex:
            V.fail("amen_solve raises %s [%s]" % (type(ex).__name__, key), dict(desc, exc=str(ex)[:200])); continue
        bad = solverkit.intact(snaps, list(ops.values()))
        if bad: V.fail("amen_solve modified an operand: %s" % bad[0].split(":")[0], dict(desc, differences=bad))
        if history.wf_failures(x) or [int(v) for v in x.N] != N or x.is_ttm:
            V.fail("amen_solve: result has the wrong shape / is ill formed", desc); continue
        Af = A.full().reshape(int(np.prod(N)), -1); res = float((Af @ x.full().reshape(-1) - b.full().reshape(-1)).norm() / b.full().norm())
        if not (res <= CONST * eps):
            V.fail("amen_solve: residual exceeds %g*eps [%s]" % (CONST, key), dict(desc, rel_residual=res, ranks=[int(r) for r in x.R]))
    # a right-hand side that is exactly zero (b * 0, zeros): ||A x - b|| <= C eps ||b|| = 0 leaves x = 0 only - with the direct and with both iterative local solvers
    for j in range(6 if tier == "quick" else 30):
        A_z, b_z, N_z, kind_z = gen_system(rng, torch, torchtt, N=[rng.choice([3, 4, 5]) for _ in range(rng.choice([2, 3]))])
        bz = [b_z * 0, torchtt.zeros(N_z, dtype=torch.float64)][j % 2]
        kwz = [dict(), dict(max_full=0), dict(max_full=0, local_solver=2)][j % 3]
        if j >= 3: kwz = dict(kwz, preconditioner=["c", "r", None][j % 3])
        desc = {"zero_rhs": True, "N": N_z, "family": kind_z, "options": {k_: str(v_) for k_, v_ in kwz.items()}}
        try:
            x_z = torchtt.solvers.amen_solve(A_z, bz, eps=1e-8, nswp=20, verbose=False, use_cpp=False, **kwz)
            if [int(v) for v in x_z.N] != N_z or not (float(x_z.full().abs().max()) <= 1e-300): V.fail("amen_solve with a zero right-hand side does not return the zero tensor", dict(desc, max_abs=float(x_z.full().abs().max())))
        except Exception as ex:
            V.fail("amen_solve with a zero right-hand side raises %s" % type(ex).__name__, dict(desc, exc=str(ex)[:200]))
        dist["zero right-hand side (exactly)"] = dist.get("zero right-hand side (exactly)", 0) + 1
    # a strictly diagonally dominant operator whose diagonal changes sign (+-1 diagonal plus a small coupling, condition number 1.2), iterative local solves:
    # without and with the 'r' preconditioner the contract holds; with 'c' (block Jacobi built from the diagonals of the interfaces, nearly singular blocks here) it does
    # not within the default iteration budget - a listed known finding (known_findings.json, DESIGN 9b)
    N_i = [4, 5, 6]; g_i = torch.Generator().manual_seed(1)
    P_i = torchtt.TT([torch.rand((r0_, n_, n_, r1_), generator=g_i, dtype=torch.float64) for r0_, n_, r1_ in [(1, 4, 2), (2, 5, 3), (3, 6, 1)]])
    P_i = P_i * (0.2 / float(torch.linalg.matrix_norm(P_i.full().reshape(120, 120), 2)))
    sg_i = [torch.tensor([1., -1, 1, -1]), torch.tensor([1., 1, -1, -1, 1]), torch.tensor([-1., 1, 1, -1, 1, -1])]
    A_i = torchtt.TT([torch.diag(s_.to(torch.float64)).reshape(1, n_, n_, 1) for s_, n_ in zip(sg_i, N_i)]) + P_i
    b_i = torchtt.TT([torch.randn((r0_, n_, r1_), generator=g_i, dtype=torch.float64) for r0_, n_, r1_ in [(1, 4, 2), (2, 5, 2), (2, 6, 1)]])
    for prec_i, ls_i in ((None, 1), ("r", 1), ("c", 1), ("c", 2), (None, 2), ("c", 0)):
        kw_i = dict(max_full=0, local_solver=ls_i) if ls_i else dict(max_full=500)
        desc = {"sign_indefinite_diagonally_dominant": True, "N": N_i, "eps": 1e-8, "preconditioner": prec_i, "local_solver": ["direct", "gmres", "bicgstab"][ls_i]}
        try:
            torch.manual_seed(0)
            x_i = torchtt.solvers.amen_solve(A_i, b_i, eps=1e-8, preconditioner=prec_i, verbose=False, use_cpp=False, **kw_i)
            r_i = float((A_i.full().reshape(120, 120) @ x_i.full().reshape(-1) - b_i.full().reshape(-1)).norm() / b_i.full().norm())
            if not (r_i <= CONST * 1e-8):
                key_i = ("sign-indefinite diagonal, preconditioner 'c', iterative local solver (%s): residual far above eps" % ["direct", "gmres", "bicgstab"][ls_i]) if (prec_i == "c" and ls_i) else "amen_solve: residual exceeds %g*eps [sign-indefinite diagonally dominant]" % CONST
                V.fail(key_i, dict(desc, rel_residual=r_i))
        except Exception as ex:
            V.fail("amen_solve raises %s [sign-indefinite diagonally dominant]" % type(ex).__name__, dict(desc, exc=str(ex)[:200]))
        dist["sign-indefinite diagonally dominant"] = dist.get("sign-indefinite diagonally dominant", 0) + 1
    # the public keyword use_single_precision (local iterative solves in float32, residual test in double): the same contract, at an eps the
    # float32 local residuals can still serve (1e-5) and on systems whose solution needs more than one enrichment sweep (rank above 1 + kickrank)
    for j, N_sp in enumerate(([8, 9], [5, 5, 5, 5]) if tier == "quick" else ([8, 9], [5, 5, 5, 5], [12, 12], [8, 9], [6, 7, 8], [5, 5, 5, 5])):
        cs_ = []
        A_sp = None
        for k_ in range(len(N_sp)):
            fac_ = [torch.eye(n_, dtype=torch.float64).reshape(1, n_, n_, 1) for n_ in N_sp]
            L_ = 2 * torch.eye(N_sp[k_], dtype=torch.float64) - torch.diag(torch.ones(N_sp[k_] - 1, dtype=torch.float64), 1) - torch.diag(torch.ones(N_sp[k_] - 1, dtype=torch.float64), -1)
            fac_[k_] = L_.reshape(1, N_sp[k_], N_sp[k_], 1); T_ = torchtt.TT(fac_); A_sp = T_ if A_sp is None else A_sp + T_
        A_sp = A_sp.round(1e-14)
        b_sp = solverkit.rand_tt_float(rng, N_sp, [1] + [2] * (len(N_sp) - 1) + [1], torch.float64)
        ls_ = 1 + j % 2; eps_sp = 1e-5
        sd = rng.randrange(1 << 30); torch.manual_seed(sd)
        desc = {"use_single_precision": True, "N": N_sp, "family": "laplace", "eps": eps_sp, "max_full": 0, "local_solver": ["gmres", "bicgstab"][ls_ - 1], "torch_seed": sd}
        try:
            x_sp = torchtt.solvers.amen_solve(A_sp, b_sp, eps=eps_sp, nswp=40, max_full=0, local_solver=ls_, use_single_precision=True, verbose=False, use_cpp=False)
            n_ = int(np.prod(N_sp)); res = float((A_sp.full().reshape(n_, n_) @ x_sp.full().reshape(-1) - b_sp.full().reshape(-1)).norm() / b_sp.full().norm())
            if not (res <= CONST * eps_sp): V.fail("amen_solve(use_single_precision=True): residual exceeds %g*eps" % CONST, dict(desc, rel_residual=res, ranks=[int(r) for r in x_sp.R]))
        except Exception as ex:
            V.fail("amen_solve(use_single_precision=True) raises %s" % type(ex).__name__, dict(desc, exc=str(ex)[:200]))
        dist["use_single_precision"] = dist.get("use_single_precision", 0) + 1
    nviol = V.finish()
    cov = proofcheck.coverage(PID, obl, evaluations=n + len(search_cases), distinct_nontrivial=len(dist) + n_search,
        rule=("amen_solve on SPD (P^T P + 2I), diagonally dominant (3I + small P) and discrete-Laplacian-like (sum of 1-d second differences + shift) TT operators of order 2..5, "
              "mode sizes 2..12, operator ranks 1..4, right-hand sides of rank 1..4, eps 1e-10..1e-3, preconditioner None/'c'/'r', max_full 0 (GMRES / BiCGSTAB) or 500 (dense local "
              "solve), with and without a random initial guess, random seeds; measured: dense relative residual <= %g*eps, result shape / well-formedness, bitwise integrity of A, b "
              "and the guess; the frame identity x = L_k x G_k x R_k and additivity in one core (C12_entry_frame / _setc_add) checked exactly on integer cores through set_core / full; "
              "the Coq model of the residual-driven rank search is compared with a transcription of the Python loop on every residual pattern for n <= 7") % CONST,
        samples=samples, distribution=dist, rank_search_patterns_agreeing=n_search, known_findings_reproduced=V.known_hit,
        partial=["convergence of the AMEn sweeps (residual <= C*eps for every system of the stated classes and every seed) is an empirical contract: measured, not proved"])
    common.write_evidence(PID, tier, seed, cov, time.time() - t0, nviol, common.TRUSTED_BASE)
    return 1 if nviol else 0
