"""C18 - Incompatible operands raise an error instead of returning a wrong tensor."""
import time, random, json, itertools
import numpy as np
import common, coqrun, proofcheck, ttgen, expr, exprcheck, history
from expr import Lit3, Lit4, Dense, Scal, Op, Get

PID = "C18"
LIB = ("ShapeMismatch", "RankMismatch", "IncompatibleTypes", "InvalidArguments", "NotImplementedError")

RMAX = [2]       # rank-one operands (RMAX = 1) un-hide slips that the constructor's rank check would otherwise catch
def T(rng, N, rmax=None, dtype=None):
    import torch
    return history.rand_tt(rng, dtype or torch.float64, N=list(N), rmax=rmax or RMAX[0])
def TM(rng, M, N, rmax=None):
    import torch
    return history.rand_tt(rng, torch.float64, ttm=True, N=list(N), M=list(M), rmax=rmax or RMAX[0])

def direct_cases(rng):
    """(entry point, class of incompatibility, documented?, thunk). documented = listed under 'Raises' of the entry point"""
    import torch, torchtt
    C = []
    def add(ep, cls, doc, f): C.append((ep, cls, doc, f))
    for d in (1, 2, 3):
        N = [rng.choice([2, 3, 4]) for _ in range(d)]
        x = T(rng, N)
        for k in range(d):                                   # mode-size mismatch at each position (not broadcastable)
            N2 = list(N); N2[k] = N[k] + 3
            y = T(rng, N2)
            for nm, f in (("+", lambda x=x, y=y: x + y), ("-", lambda x=x, y=y: x - y), ("*", lambda x=x, y=y: x * y)):
                add("TT %s TT" % nm, "mode-size mismatch at position %d/%d" % (k, d), True, f)
            add("dot", "mode-size mismatch", True, lambda x=x, y=y: torchtt.dot(x, y))
            add("dmrg_hadamard", "mode-size mismatch", False, lambda x=x, y=y: torchtt.dmrg_hadamard(x, y, nswp=2))
            add("elementwise_divide", "mode-size mismatch", False, lambda x=x, y=y: torchtt.elementwise_divide(x, y, nswp=2))
            add("TT / TT", "mode-size mismatch", True, lambda x=x, y=y: x / y)
        y = T(rng, N + [2])                                  # longer right operand
        for nm, f in (("+", lambda x=x, y=y: x + y), ("-", lambda x=x, y=y: x - y), ("*", lambda x=x, y=y: x * y)):
            add("TT %s TT" % nm, "right operand has more modes", True, f)
        add("dot(axis)", "second operand has more modes", True, lambda x=x, y=y: torchtt.dot(x, y, [0]))
        A = TM(rng, N, N)
        for nm, f in (("+", lambda x=x, A=A: x + A), ("-", lambda x=x, A=A: x - A), ("*", lambda x=x, A=A: x * A), ("+r", lambda x=x, A=A: A + x), ("*r", lambda x=x, A=A: A * x)):
            add("TT %s TTM" % nm, "kind mismatch", True, f)
        add("dot", "TT matrix operand", True, lambda x=x, A=A: torchtt.dot(x, A))
        add("dot", "TT matrix as first operand", True, lambda x=x, A=A: torchtt.dot(A, x))
        # the SAME object in both positions must meet the same guards as two objects (shortcuts for a is b come before them easily)
        add("dot", "the same TT matrix object twice", True, lambda A=A: torchtt.dot(A, A))
        add("dot", "the same transposed TT matrix twice", True, lambda A=A: (lambda At: torchtt.dot(At, At))(A.t()))
        add("bilinear_form", "the same TT tensor as operator and vectors", True, lambda x=x: torchtt.bilinear_form(x, x, x))
        add("TT @ TT", "the same tensor object twice", True, lambda x=x: x @ x)
        add("cat", "the same TT matrix object twice", True, lambda A=A: torchtt.cat((A, A), 0))
        add("mprod", "TT matrix operand", True, lambda A=A: A.mprod(torch.ones(2, A.N[0]), 0))
        add("cat", "TT matrix operand", True, lambda A=A: torchtt.cat((A, A), 0))
        add("TT @ TT", "no operator", True, lambda x=x: x @ x)
        for bad in ("abc", [1, 2], None, object(), torch.ones(3)):
            for nm, f in (("+", lambda x=x, b=bad: x + b), ("-", lambda x=x, b=bad: x - b), ("*", lambda x=x, b=bad: x * b), ("/", lambda x=x, b=bad: x / b)):
                add("TT %s other" % nm, "wrong argument type %s" % type(bad).__name__, True, f)
            # a dense tensor IS a valid right operand of @ when its trailing shape fits: the incompatible one has a length no mode has, in the operator's dtype
            bad_ = torch.ones(7, dtype=torch.float64) if torch.is_tensor(bad) else bad
            add("TTM @ other", "wrong argument type %s" % type(bad).__name__, True if not torch.is_tensor(bad) else False, lambda A=A, b=bad_: A @ b)
        # multi-element tensor operands whose shape happens to broadcast against the first core (1 x n0 x r1)
        n0, r1_ = int(x.N[0]), int(x.R[1])
        for shp_ in ([r1_], [n0, 1], [n0, r1_], [1, n0, r1_], [n0]):
            if int(np.prod(shp_)) == 1: continue
            tb = torch.full(shp_, 2.0, dtype=torch.float64)
            for nm, f in (("/", lambda x=x, b=tb: x / b), ("*", lambda x=x, b=tb: x * b), ("+", lambda x=x, b=tb: x + b), ("-", lambda x=x, b=tb: x - b), ("r*", lambda x=x, b=tb: b * x)):
                add("TT %s tensor" % nm, "multi-element tensor shaped like (part of) the first core", nm in ("/", "*"), f)
        for dneg in (-1, -d):
            add("cat", "negative axis", False, lambda x=x, dneg=dneg: torchtt.cat((x, x), dneg))
            add("sum", "negative axis", True, lambda x=x, dneg=dneg: x.sum(dneg))
        for ax in ([d], [-1], [0, d + 2], "a", 1.5, [0.0]):
            add("sum", "invalid axis %r" % (ax,), True, lambda x=x, ax=ax: x.sum(ax))
        add("cat", "axis out of range", False, lambda x=x, d=d: torchtt.cat((x, x), d + 1))
        if d >= 2:
            for k in range(d):
                dim = (k + 1) % d
                N2 = list(N); N2[k] = N[k] + 1
                add("cat", "mode-size mismatch off the concatenation axis (position %d, axis %d)" % (k, dim), True, lambda x=x, N2=N2, dim=dim: torchtt.cat((x, T(rng, N2)), dim))
            add("cat", "different number of modes", True, lambda x=x, N=N: torchtt.cat((x, T(rng, N[:-1])), 0))
        add("pad", "more paddings than modes", True, lambda x=x, d=d: torchtt.pad(x, ((1, 1),) * (d + 1)))
        k = rng.randrange(d)
        add("mprod", "matrix columns != mode size", True, lambda x=x, k=k: x.mprod(torch.ones(2, int(x.N[k]) + 1), k))
        add("mprod", "matrices/modes of different kinds", True, lambda x=x: x.mprod([torch.ones(2, int(x.N[0]))], 0))
        if int(x.N[k]) > 1:       # the same mode named twice: the second matrix must fit the mode as the FIRST product left it (size 1 here), not the original size
            add("mprod", "list naming a mode twice, second matrix fits only the original size", True,
                lambda x=x, k=k: x.mprod([torch.ones(1, int(x.N[k]), dtype=x.cores[0].dtype), torch.ones(2, int(x.N[k]), dtype=x.cores[0].dtype)], [k, k]))
            add("mprod", "list naming a mode twice (once from the end), second matrix fits only the original size", True,
                lambda x=x, k=k: x.mprod([torch.ones(1, int(x.N[k]), dtype=x.cores[0].dtype), torch.ones(3, int(x.N[k]), dtype=x.cores[0].dtype)], [k, k - len(x.N)]))
        add("getitem", "too few indices", d > 1, (lambda x=x: x[(0,) * (len(x.N) - 1)]) if d > 1 else (lambda x=x: x[()]))
        add("getitem", "too many indices", False, lambda x=x: x[(0,) * (len(x.N) + 1)])
        add("getitem", "index out of range", False, lambda x=x: x[tuple(int(n) for n in x.N)])
        add("getitem", "two Ellipsis", True, lambda x=x: x[..., 0, ...])
        add("getitem", "wrong index type", True, lambda x=x: x[("a",) * len(x.N)])
        if d > 1:
            add("getitem", "bare int on order > 1", True, lambda x=x: x[0])
            add("getitem", "bare slice on order > 1", True, lambda x=x: x[0:1])
        add("set_core", "index out of range", True, lambda x=x, d=d: x.clone().set_core(d, torch.ones(1, 2, 1)))
        add("set_core", "rank mismatch", True, lambda x=x: x.clone().set_core(0, torch.ones(2, 2, int(x.R[1]))))
        add("set_core", "wrong dimensionality", True, lambda x=x: x.clone().set_core(0, torch.ones(1, 2, 1, int(x.R[1]))))
        add("set_core (TTM)", "wrong dimensionality", True, lambda A=A: A.clone().set_core(0, torch.ones(1, 2, int(A.R[1]))))
        if d >= 2:
            add("permute", "wrong number of dims", True, lambda x=x, d=d: torchtt.permute(x, list(range(d - 1))))
            add("permute", "duplicate dims", True, lambda x=x, d=d: torchtt.permute(x, [0] * d))
            add("permute", "dims out of range", True, lambda x=x, d=d: torchtt.permute(x, list(range(1, d + 1))))
        add("permute", "not a TT", True, lambda: torchtt.permute(torch.ones(2, 2), [1, 0]))
        add("reshape", "element count mismatch", True, lambda x=x: torchtt.reshape(x, [int(np.prod(x.N)) + 1]))
        add("reshape (TTM)", "element count mismatch", True, lambda A=A: torchtt.reshape(A, [(int(np.prod(A.M)) + 1, int(np.prod(A.N)))]))
        A43 = TM(rng, [4, 3], [4, 3])
        add("reshape (TTM)", "rows traded against columns (same total number of entries)", True, lambda A=A43: torchtt.reshape(A, [(2, 2), (2, 2), (1, 9)]))
        add("reshape (TTM)", "rows traded against columns (same total number of entries)", True, lambda A=A43: torchtt.reshape(A, [(2, 8), (3, 3), (2, 1)]))
        add("TTM @ TT", "right operand has more modes", True, lambda A=A, x=x, N=N: A @ (T(rng, N) ** T(rng, [2])))
        add("TT @ TTM", "right operand has more modes", True, lambda A=A, x=x, N=N: x @ (TM(rng, N, N) ** TM(rng, [2], [2])))
        add("TTM @ TTM", "right operand has more modes", True, lambda A=A, N=N: A @ (TM(rng, N, N) ** TM(rng, [2], [2])))
        add("TTM + TTM", "right operand has more modes", True, lambda A=A, N=N: A + (TM(rng, N, N) ** TM(rng, [2], [2])))
        # operators
        for k in range(d):
            M2 = list(N); M2[k] = N[k] + 1
            B = TM(rng, M2, N); B2 = TM(rng, N, M2)
            for nm, f in (("+", lambda A=A, B=B: A + B), ("-", lambda A=A, B=B: A - B), ("*", lambda A=A, B=B: A * B),
                          ("+N", lambda A=A, B=B2: A + B), ("-N", lambda A=A, B=B2: A - B)):
                add("TTM %s TTM" % nm, "row/column mode mismatch at position %d" % k, True, f)
            add("TTM @ TT", "inner mode mismatch at position %d" % k, True, lambda B2=B2, x=x: B2 @ x)
            add("TT @ TTM", "inner mode mismatch at position %d" % k, True, lambda B=B, x=x: x @ B)
            add("TTM @ TTM", "inner mode mismatch at position %d" % k, True, lambda A=A, B=B: A @ B)
            add("TTM @ dense", "trailing shape mismatch at position %d" % k, True, lambda B2=B2, N=N: B2 @ torch.ones(N, dtype=torch.float64))
            add("fast_matvec", "inner mode mismatch", False, lambda B2=B2, x=x: B2.fast_matvec(x, nswp=2))
            add("amen_mv", "inner mode mismatch", False, lambda B2=B2, x=x: torchtt.amen_mv(B2, x, nswp=2))
            add("amen_mm", "inner mode mismatch", False, lambda A=A, B=B: torchtt.amen_mm(A, B, nswp=2))
            add("amen_solve", "right-hand side mode mismatch", True, lambda B2=B2, x=x: torchtt.solvers.amen_solve(B2, x, nswp=2, verbose=False, use_cpp=False))
            add("bilinear_form", "mode mismatch", True, lambda B=B, x=x: torchtt.bilinear_form(x, B, x))
        if d >= 2:
            add("TTM @ TT", "order mismatch", True, lambda A=A, N=N: A @ T(rng, N[:-1]))
            add("TTM @ TTM", "order mismatch", True, lambda A=A, N=N: A @ TM(rng, N[:-1], N[:-1]))
            add("TTM + TTM", "order mismatch", True, lambda A=A, N=N: A + TM(rng, N[:-1], N[:-1]))
        # orders that differ while the sizes happen to broadcast: an operator whose modes are all n against a one-mode right-hand side of size n
        for n_ in (2, 3):
            for dd in (2, 3):
                add("amen_solve", "right-hand side with fewer modes (all sizes equal, broadcastable)", True,
                    lambda n_=n_, dd=dd: torchtt.solvers.amen_solve(torchtt.eye([n_] * dd, dtype=torch.float64), torchtt.ones([n_], dtype=torch.float64), nswp=2, verbose=False, use_cpp=False))
                add("amen_solve", "operator with fewer modes than the right-hand side (broadcastable)", True,
                    lambda n_=n_, dd=dd: torchtt.solvers.amen_solve(torchtt.eye([n_], dtype=torch.float64), torchtt.ones([n_] * dd, dtype=torch.float64), nswp=2, verbose=False, use_cpp=False))
        # qtt_to_tens with an original_shape of another element count: a proper prefix of the folding (rank one at the cut), too many entries, a non-divisor
        for shp in ([4, 2], [8], [2, 4], [2, 2, 2], [16, 2], [3, 5], [4, 4, 2]):
            add("qtt_to_tens", "original_shape %s for a QTT of 16 entries" % (shp,), False, lambda shp=shp: torchtt.ones([2, 2, 2, 2], dtype=torch.float64).qtt_to_tens(shp))
            add("qtt_to_tens", "original_shape %s for a rank-one QTT built by kron" % (shp,), False,
                lambda shp=shp: (torchtt.TT(torch.tensor([1.0, 2.0], dtype=torch.float64)) ** torchtt.TT(torch.tensor([1.0, -1.0], dtype=torch.float64)) ** torchtt.ones([2, 2], dtype=torch.float64)).qtt_to_tens(shp))
        add("fast_matvec", "operand is not a TT", True, lambda A=A: A.fast_matvec(torch.ones(2)))
        add("amen_solve", "A is a TT tensor", True, lambda x=x: torchtt.solvers.amen_solve(x, x, nswp=2, verbose=False, use_cpp=False))
        add("amen_solve", "b is a TT matrix", True, lambda A=A: torchtt.solvers.amen_solve(A, A, nswp=2, verbose=False, use_cpp=False))
        add("t()", "TT tensor", True, lambda x=x: x.t())
        add("to_ttm", "already an operator", False, lambda A=A: A.to_ttm())
        add("diag", "not a TT", True, lambda: torchtt.diag(torch.ones(2)))
        add("kron", "wrong argument type", True, lambda x=x: x ** 3)
        add("kron", "kind mismatch", True, lambda x=x, A=A: x ** A)
        add("save", "not a TT", True, lambda: torchtt.save(torch.ones(2), "/tmp/_never_written.TT"))
    # constructor
    one = lambda *s: torch.ones(*s, dtype=torch.float64)
    add("TT(cores)", "rank mismatch between cores", True, lambda: torchtt.TT([one(1, 2, 3), one(2, 2, 1)]))
    add("TT(cores)", "2-d core", True, lambda: torchtt.TT([one(1, 2), one(2, 1)]))
    add("TT(cores)", "first rank not 1", True, lambda: torchtt.TT([one(2, 2, 3), one(3, 2, 1)]))
    add("TT(cores)", "last rank not 1", True, lambda: torchtt.TT([one(1, 2, 3), one(3, 2, 2)]))
    add("TT(cores)", "3-d and 4-d cores mixed", True, lambda: torchtt.TT([one(1, 2, 3), one(3, 2, 2, 1)]))
    add("TT(cores)", "empty list", False, lambda: torchtt.TT([]))
    add("TT(source)", "unsupported source type", True, lambda: torchtt.TT("abc"))
    add("TT(dense, shape)", "element count mismatch", False, lambda: torchtt.TT(one(2, 3), [4, 2]))
    add("TT(dense, op shape)", "element count mismatch", False, lambda: torchtt.TT(one(2, 3, 2, 3), [(2, 2), (3, 4)]))
    # a dense source with an integer MULTIPLE of the requested number of entries (a forgotten mode): never absorbed silently
    for src_shape, shp in (((4, 6), [2, 3]), ((2, 3, 5), [2, 3]), ((12,), [2, 3]), ((4, 6), [3, 4]), ((2, 2, 3, 3), [(2, 3)])):
        add("TT(dense, shape)", "source %s has a multiple of the entries of shape %s" % (src_shape, shp), False, lambda a=src_shape, b_=shp: torchtt.TT(one(*a), b_))
        add("TT(numpy, shape)", "source %s has a multiple of the entries of shape %s" % (src_shape, shp), False, lambda a=src_shape, b_=shp: torchtt.TT(one(*a).numpy(), b_))
    # wrong number of indices, operands that only einsum's broadcasting would accept, shapes that are not what the entry point documents
    Aop = TM(rng, [3, 4], [3, 4]); xv = T(rng, [3, 4]); x3 = T(rng, [3, 4, 2])
    add("TTM[...]", "odd number of indices (order 1)", False, lambda: TM(rng, [3], [4])[0, 1, 0])
    add("TTM[...]", "odd number of indices (order 2)", False, lambda Aop=Aop: Aop[0, 1, 0, 1, 2])
    add("fast_matvec", "operand with a size-1 mode (only broadcasting would accept it)", False, lambda Aop=Aop: Aop.fast_matvec(T(rng, [3, 1]), use_cpp=False))
    add("fast_matvec", "operand with more modes", False, lambda Aop=Aop, x3=x3: Aop.fast_matvec(x3, use_cpp=False))
    add("fast_matvec", "mode-size mismatch", False, lambda Aop=Aop: Aop.fast_matvec(T(rng, [3, 5]), use_cpp=False))
    add("amen_mm", "second operator with a size-1 row mode", False, lambda Aop=Aop: torchtt.amen_mm(Aop, TM(rng, [1, 4], [2, 3]), nswp=2))
    add("amen_mm", "inner mode-size mismatch", False, lambda Aop=Aop: torchtt.amen_mm(Aop, TM(rng, [3, 5], [2, 3]), nswp=2))
    add("amen_mm", "second operand is a TT tensor", False, lambda Aop=Aop, xv=xv: torchtt.amen_mm(Aop, xv, nswp=2))
    add("amen_mm", "second operand is not a TT", False, lambda Aop=Aop: torchtt.amen_mm(Aop, torch.ones(3, 4), nswp=2))
    add("dot(axis)", "second operand with a size-1 mode along axis", False, lambda x3=x3: torchtt.dot(x3, T(rng, [1]), [1]))
    add("dot(axis)", "second operand with more modes than axis", False, lambda x3=x3: torchtt.dot(x3, T(rng, [3, 4], 1), [0]))
    add("dot(axis)", "axis longer than the second operand", False, lambda x3=x3: torchtt.dot(x3, T(rng, [3]), [0, 1]))
    add("dot(axis)", "mode-size mismatch along axis", True, lambda x3=x3: torchtt.dot(x3, T(rng, [5]), [1]))
    add("apply_mask", "index rows with more columns than modes", False, lambda x3=x3: x3.apply_mask(torch.tensor([[0, 0, 0, 0], [1, 1, 1, 1]])))
    add("apply_mask", "index rows with fewer columns than modes", False, lambda x3=x3: x3.apply_mask(torch.tensor([[0, 0], [1, 1]])))
    add("reshape", "negative mode sizes with the right product", False, lambda: torchtt.reshape(T(rng, [2, 3]), [-2, -3]))
    add("reshape", "a zero mode size", False, lambda: torchtt.reshape(T(rng, [2, 3]), [0, 6]))
    add("to_qtt", "a mode that is not a power of two", True, lambda xv=xv: xv.to_qtt())
    add("to_qtt", "a mode that is not a power of mode_size", True, lambda: T(rng, [4, 9]).to_qtt(mode_size=3))
    import numpy as _np
    for nm_, f_ in (("array * TT", lambda xv=xv: _np.array([1.0, 2.0]) * xv), ("array + TT", lambda xv=xv: _np.array([1.0, 2.0]) + xv), ("array - TT", lambda xv=xv: _np.array([1.0, 2.0]) - xv)):
        add(nm_, "a numpy array with several elements on the left", False, f_)
    # operands that are exactly zero (zeros(...), 0 * x, a zero operator): a shortcut for them must not come before the shape guards
    zx = lambda N_: torchtt.zeros(N_, dtype=torch.float64)
    zA = TM(rng, [3, 4], [3, 4]) * 0.0
    add("amen_mv", "zero vector with a mode-size mismatch", False, lambda Aop=Aop: torchtt.amen_mv(Aop, zx([3, 5]), nswp=2))
    add("amen_mv", "zero vector with more modes", False, lambda Aop=Aop: torchtt.amen_mv(Aop, zx([3, 4, 2]), nswp=2))
    add("amen_mv", "zero operator, vector with a mode-size mismatch", False, lambda zA=zA: torchtt.amen_mv(zA, T(rng, [3, 5]), nswp=2))
    add("amen_mv", "0 * x with a mode-size mismatch", False, lambda Aop=Aop: torchtt.amen_mv(Aop, T(rng, [5, 4]) * 0.0, nswp=2))
    add("amen_mm", "zero second operator with an inner mode-size mismatch", False, lambda Aop=Aop: torchtt.amen_mm(Aop, torchtt.zeros([(3, 2), (5, 3)], dtype=torch.float64), nswp=2))
    add("amen_mm", "zero first operator, inner mode-size mismatch", False, lambda zA=zA: torchtt.amen_mm(zA, TM(rng, [3, 5], [2, 3]), nswp=2))
    add("fast_matvec", "zero vector with a mode-size mismatch", False, lambda Aop=Aop: Aop.fast_matvec(zx([3, 5]), use_cpp=False))
    add("dmrg_hadamard", "zero operand with a mode-size mismatch", False, lambda xv=xv: torchtt.dmrg_hadamard(xv, zx([3, 5]), nswp=2))
    add("TTM @ TT", "zero vector with a mode-size mismatch", True, lambda Aop=Aop: Aop @ zx([3, 5]))
    add("dot", "zero operand with a mode-size mismatch", True, lambda xv=xv: torchtt.dot(xv, zx([3, 5])))
    add("TT * TT", "zero operand with a mode-size mismatch", True, lambda xv=xv: xv * zx([3, 5]))
    add("TT + TT", "zero operand with a mode-size mismatch", True, lambda xv=xv: xv + zx([5, 4]))
    add("elementwise_divide", "zero dividend with a mode-size mismatch", False, lambda xv=xv: torchtt.elementwise_divide(zx([3, 5]), xv + 3.0, nswp=2))
    # a shape list read off an existing object (a.N, A.M, A.N) and edited by the caller before it is used to build the other operand: the edit must
    # not reach the object it was read from, and the incompatible call must still be rejected
    def edited(lst, k_, v_):
        lst[k_] = v_; return lst
    a3 = T(rng, [3, 4, 2]); A3 = TM(rng, [3, 4, 2], [3, 4, 2])
    add("dot", "second operand built from an edited copy of a.N", True, lambda a3=a3: torchtt.dot(a3, T(rng, edited(a3.N, 1, 1))))
    add("dot", "first operand built from an edited copy of a.N", True, lambda a3=a3: torchtt.dot(T(rng, edited(a3.N, 1, 1)), a3))
    add("TTM @ TT", "vector built from an edited copy of A.N", True, lambda A3=A3: A3 @ T(rng, edited(A3.N, 1, 1)))
    add("amen_mv", "vector built from an edited copy of A.N", False, lambda A3=A3: torchtt.amen_mv(A3, T(rng, edited(A3.N, 1, 1)), nswp=2))
    add("fast_matvec", "vector built from an edited copy of A.N", False, lambda A3=A3: A3.fast_matvec(T(rng, edited(A3.N, 1, 1)), use_cpp=False))
    add("bilinear_form", "right vector built from an edited copy of A.N", False, lambda A3=A3, a3=a3: torchtt.bilinear_form(a3, A3, T(rng, edited(A3.N, 2, 1))))
    add("TT @ TTM", "vector built from an edited copy of A.M", True, lambda A3=A3: T(rng, edited(A3.M, 0, 1)) @ A3)
    add("dmrg_hadamard", "operand built from an edited copy of a.N", False, lambda a3=a3: torchtt.dmrg_hadamard(a3, T(rng, edited(a3.N, 2, 5)), nswp=2))     # (a size-1 mode would be the broadcast product, as for `*`)
    # rank lists of the wrong length, argument tensors of different shapes, lists of unequal length, repeated axes, a single index for a one-mode operator,
    # a direction of another shape for the manifold projection: no valid dense counterpart, yet nothing in the contraction itself objects
    add("randn", "rank list longer than the shape", False, lambda: torchtt.randn([3, 4], [1, 2, 1, 5, 1]))
    add("randn", "rank list shorter than the shape", False, lambda: torchtt.randn([3, 4, 2], [1, 2, 1]))
    add("function_interpolate", "argument tensors of different shapes", False, lambda x3=x3: torchtt.interpolate.function_interpolate(lambda a: a[:, 0] + a[:, 1], [x3, T(rng, [3, 4, 5])], eps=1e-6))
    add("function_interpolate", "argument tensors of different order", False, lambda x3=x3, xv=xv: torchtt.interpolate.function_interpolate(lambda a: a[:, 0] + a[:, 1], [x3, xv], eps=1e-6))
    add("mprod", "more modes than factor matrices", True, lambda x3=x3: x3.mprod([torch.ones(2, 3, dtype=torch.float64)], [0, 2]))
    add("mprod", "more factor matrices than modes", True, lambda x3=x3: x3.mprod([torch.ones(2, 3, dtype=torch.float64), torch.ones(2, 2, dtype=torch.float64)], [0]))
    add("dot(axis)", "an axis named twice", False, lambda x3=x3: torchtt.dot(x3, T(rng, [3, 2]), [0, 0, 2]))
    # the TT layer: an input whose trailing shape is not size_in (too few dimensions, a singleton where a mode is expected), size lists of different length
    mkL = lambda si, so, rk: torchtt.nn.LinearLayerTT(si, so, rk, dtype=torch.float64)
    add("LinearLayerTT.forward", "input with fewer dimensions than size_in", False, lambda: mkL([2, 3, 4], [3, 4, 5], [1, 2, 2, 1])(torch.ones(2, dtype=torch.float64)))
    add("LinearLayerTT.forward", "input with a singleton first mode where size_in has 2", False, lambda: mkL([2, 3, 4], [3, 4, 5], [1, 2, 2, 1])(torch.ones(1, 3, 4, dtype=torch.float64)))
    add("LinearLayerTT.forward", "input with a singleton middle mode where size_in has 3", False, lambda: mkL([2, 3, 4], [3, 4, 5], [1, 2, 2, 1])(torch.ones(2, 1, 4, dtype=torch.float64)))
    add("LinearLayerTT.forward", "batched input with a singleton mode", False, lambda: mkL([2, 3], [3, 2], [1, 2, 1])(torch.ones(5, 1, 3, dtype=torch.float64)))
    add("LinearLayerTT.forward", "input with a wrong mode size", False, lambda: mkL([2, 3, 4], [3, 4, 5], [1, 2, 2, 1])(torch.ones(2, 3, 5, dtype=torch.float64)))
    add("LinearLayerTT", "size_in shorter than size_out", False, lambda: mkL([2, 3], [3, 4, 5], [1, 2, 1]))
    add("LinearLayerTT", "size_out shorter than size_in", False, lambda: mkL([2, 3, 4], [3, 4], [1, 2, 2, 1]))
    # cores that are not torch tensors (the constructor documents a list of torch tensors): no object may come back whose full() then fails
    add("TT(cores)", "numpy arrays as cores", False, lambda: torchtt.TT([np.ones((1, 2, 2)), np.ones((2, 3, 1))]))
    add("TT(cores)", "one numpy array among the cores", False, lambda: torchtt.TT([torch.ones(1, 2, 2, dtype=torch.float64), np.ones((2, 3, 1))]))
    add("TT(cores)", "nested lists as cores", False, lambda: torchtt.TT([[[[1.0], [2.0]]], [[[1.0], [2.0]]]]))
    add("rank1TT", "numpy vectors", False, lambda: torchtt.rank1TT([np.ones(3), np.ones(2)]))
    add("set_core", "numpy array as the new core", False, lambda: T(rng, [2, 3]).set_core(0, np.ones((1, 2, 1))))
    # invalid rank caps: a cap below 1, a per-bond list that is too short
    xr = T(rng, [3, 4, 5])
    add("round", "rank cap 0", False, lambda xr=xr: xr.round(1e-3, 0))
    add("round", "negative rank cap", False, lambda xr=xr: xr.round(1e-3, -1))
    add("round", "per-bond list with a cap 0", False, lambda xr=xr: xr.round(1e-3, [1, 0, 2, 1]))
    add("round", "per-bond list with a cap 0 (operator)", False, lambda: TM(rng, [2, 3], [3, 2]).round(1e-3, [1, 0, 1]))
    add("round", "per-bond list shorter than the number of bonds", False, lambda xr=xr: xr.round(1e-3, [1, 2]))
    add("TT(dense)", "rank cap 0", False, lambda xr=xr: torchtt.TT(xr.full(), rmax=0))
    add("TT(dense)", "per-bond list shorter than the number of bonds", False, lambda xr=xr: torchtt.TT(xr.full(), rmax=[1, 2]))
    add("TTM[...]", "a single integer for a one-mode operator", False, lambda: TM(rng, [3], [4])[2])
    add("TTM[...]", "a single slice for a one-mode operator", False, lambda: TM(rng, [3], [4])[1:3])
    add("riemannian_projection", "direction with a size-1 mode", False, lambda x3=x3: torchtt.manifold.riemannian_projection(x3, T(rng, [3, 1, 2])))
    add("riemannian_projection", "direction with more modes", False, lambda xv=xv, x3=x3: torchtt.manifold.riemannian_projection(xv, x3))
    add("riemannian_projection", "direction with a mode-size mismatch", False, lambda x3=x3: torchtt.manifold.riemannian_projection(x3, T(rng, [3, 5, 2])))
    # to_qtt of operators: every mode must be square, not only the totals
    for shp in ([(2, 4), (4, 2)], [(1, 4), (4, 1)], [(4, 2), (2, 2), (2, 4)], [(2, 4), (2, 2)], [(2, 8)]):
        add("to_qtt", "operator with a non-square mode %s" % (shp,), True, lambda shp=shp: torchtt.ones(shp, dtype=torch.float64).to_qtt())
    return C

def run(tier, seed, replay=None):
    import torch, torchtt, warnings
    t0 = time.time()
    rng = random.Random(seed)
    V = common.Verdict(PID)
    ok_make, obl = proofcheck.obligations(PID, V)
    cases = direct_cases(rng)
    RMAX[0] = 1
    cases += direct_cases(random.Random(seed + 77))
    RMAX[0] = 2
    if tier != "quick":
        for s in range(6): cases += direct_cases(random.Random(seed + 1 + s))
    dist, table, samples = {}, {}, []
    for ep, cls, doc, f in cases:
        try:
            with warnings.catch_warnings():
                warnings.simplefilter("ignore")
                r = f()
            out = "returned " + type(r).__name__
        except Exception as ex:
            out = type(ex).__name__
        dist[out] = dist.get(out, 0) + 1
        table.setdefault(ep, {}).setdefault(cls.split(" at position")[0], set()).add(out)
        desc = {"entry_point": ep, "incompatibility": cls, "documented": doc, "outcome": out}
        if len(samples) < 6 and len(cases) and rng.random() < 0.02: samples.append(desc)
        if out.startswith("returned"):
            V.fail("%s: %s -> %s" % (ep, cls.split(" at position")[0], out), desc)
        elif doc and out not in LIB:
            V.fail("%s: %s -> %s (documented case, not a library exception)" % (ep, cls.split(" at position")[0], out), desc)
    # model correspondence: the guard prefix of the expression-level entry points (error class predicted by Model/Expr.v)
    mcases = model_cases(rng, 120 if tier == "quick" else 1500)
    n_model = 0
    if ok_make:
        for car in (coqrun.Z,):
            cs, meta = [], []
            for e, cat in mcases:
                vi = expr.run_impl(e, torch.float64); oi = expr.observe_impl(vi)
                o = expr.obs_coq(oi, car)
                if oi["kind"] != "E":
                    V.fail("%s: %s -> returned" % (e.name, cat), {"expr": e.to_json(), "impl": expr.strip_raw(oi)}); continue
                cs.append((e.coq(car), o)); meta.append((e, cat, oi))
            codes = coqrun.eval_codes("C18_Z", "Z", cs, fn="check_model")
            for (e, cat, oi), c in zip(meta, codes):
                if c != 0: V.fail("correspondence(model/impl) error class: %s %s" % (e.name, cat), {"expr": e.to_json(), "impl": expr.strip_raw(oi), "model_code": c}, failing_input=False)
                else: n_model += 1
    nviol = V.finish()
    cov = proofcheck.coverage(PID, obl, evaluations=len(cases) + len(mcases), distinct_nontrivial=len(set((ep, cls) for ep, cls, _, _ in cases)),
        rule=("a table of public entry points x classes of incompatibility (mode-size mismatch at each position, order mismatch, kind mismatch, wrong argument type, out-of-range "
              "axis / index, element count, invalid permutation, malformed core lists) instantiated on operands of order 1..3; the outcome of each call must be an exception, and "
              "a library exception where the entry point documents it; a second stream of malformed expressions (binary operators, @, sum, dot, bilinear_form, cat, pad) is run "
              "through the Coq model of the dispatch, whose predicted error class must equal the implementation's; non-trivial/distinct = distinct (entry point, incompatibility)"),
        samples=samples or [{"entry_point": cases[0][0], "incompatibility": cases[0][1]}], distribution=dist, outcome_table={k: {c: sorted(o) for c, o in v.items()} for k, v in table.items()},
        model_error_class_agreements=n_model, known_findings_reproduced=V.known_hit)
    common.write_evidence(PID, tier, seed, cov, time.time() - t0, nviol, common.TRUSTED_BASE)
    return 1 if nviol else 0

def model_cases(rng, n):
    out = []
    def tt(N, cplx=False): return Lit3(ttgen.rand_tt_cores(rng, N, ttgen.rand_ranks(rng, len(N), 2)))
    def ttm(M, N): return Lit4(ttgen.rand_ttm_cores(rng, M, N, ttgen.rand_ranks(rng, len(N), 2)))
    for _ in range(n):
        d = rng.choice([1, 2, 3])
        N = [rng.choice([2, 3, 4]) for _ in range(d)]
        k = rng.randrange(d)
        N2 = list(N); N2[k] += rng.choice([1, 2])
        r = rng.random()
        if r < 0.2: out.append((Op(rng.choice(["OAdd", "OSub", "OMul"]), [tt(N), tt(N2)]), "TT mode mismatch"))
        elif r < 0.3: out.append((Op(rng.choice(["OAdd", "OSub", "OMul"]), [tt(N), tt(N + [2])]), "TT longer right operand"))
        elif r < 0.4: out.append((Op(rng.choice(["OAdd", "OSub", "OMul"]), [tt(N), ttm(N, N)] if rng.random() < .5 else [ttm(N, N), tt(N)]), "kind mismatch"))
        elif r < 0.55: out.append((Op(rng.choice(["OAdd", "OSub", "OMul"]), [ttm(N, N), ttm(N2, N) if rng.random() < .5 else ttm(N, N2)]), "TTM mode mismatch"))
        elif r < 0.7:
            c = rng.choice([0, 1, 2, 3])
            if c == 0: out.append((Op("OMatmul", [ttm(N, N2), tt(N)]), "matvec inner mismatch"))
            elif c == 1: out.append((Op("OMatmul", [tt(N), ttm(N2, N)]), "vecmat inner mismatch"))
            elif c == 2: out.append((Op("OMatmul", [ttm(N, N2), ttm(N, N)]), "matmat inner mismatch"))
            else: out.append((Op("OMatmul", [tt(N), tt(N)]), "TT @ TT"))
        elif r < 0.8: out.append((Op("OSum", [tt(N)], [[d + rng.choice([0, 1])]]), "sum axis out of range"))
        elif r < 0.88: out.append((Op("ODot", [tt(N), tt(N2)]), "dot mode mismatch"))
        elif r < 0.94: out.append((Op("OBilinear", [tt(N), ttm(N2, N), tt(N)]), "bilinear mismatch"))
        else: out.append((Op("OPad", [tt(N), Scal("float", 0)], [[0, d]] + [[1, 1]] * (d + 1)), "pad too many paddings"))
    # the TT layer called on an input whose trailing dimensions are not size_in (model: forward_call, theorem C18_forward_rejects)
    from checks.c20 import Forward
    for j in range(max(4, n // 8)):
        d = rng.choice([1, 2, 3]); si = [rng.choice([2, 3, 4]) for _ in range(d)]; so = [rng.choice([1, 2, 3]) for _ in range(d)]
        W = ttm(so, si); bias = Dense(ttgen.rand_core(rng, tuple(so), False, -2, 2))
        kind = ["singleton mode", "wrong mode size", "fewer dimensions", "singleton mode under a batch dimension"][j % 4]
        shp = list(si); k = rng.randrange(d)
        if kind.startswith("singleton"): shp[k] = 1
        elif kind == "wrong mode size": shp[k] = si[k] + 1
        else: shp = shp[1:] if d > 1 else []
        if kind.endswith("batch dimension"): shp = [2] + shp
        if kind == "fewer dimensions" and not shp: shp = []          # a 0-d input to a one-mode layer
        X = Dense(ttgen.rand_core(rng, tuple(shp), False, -2, 2) if shp else np.array(float(rng.randint(-2, 2))))
        out.append((Forward(W, bias, X, "He"), "layer input: " + kind))
    return out
