"""C05 - Every reachable TT object is structurally well formed."""
import time, random, json, re
import common, coqrun, proofcheck, history

PID = "C05"
FOCUS = ("wf",)        # a valid call that raises is not an ill-formed object: it is counted in the evidence, the product/solver checks own it

def run(tier, seed, replay=None, pid=PID, focus=FOCUS):
    import torch
    t0 = time.time()
    V = common.Verdict(pid)
    ok_make, obl = proofcheck.obligations(pid, V)
    nwalks, length = (70, 22) if tier == "quick" else (900, 30)
    rng = random.Random(seed + (0 if pid == "C05" else 1))
    walks, exprs = [], []
    dist, nobj, ncalls, raised = {}, 0, 0, {}
    ncov = 4 if tier == "quick" else 12          # scripted walks in which EVERY operation occurs (history.coverage_script), in each dtype
    for k in range(nwalks + ncov):
        s = rng.randrange(1 << 30)
        dtype = rng.choice([torch.float64, torch.float64, torch.float64, torch.float32, torch.complex128])
        if k >= nwalks: dtype = [torch.float64, torch.complex128, torch.float32, torch.float64][(k - nwalks) % 4]
        torch.manual_seed(s)
        w = history.run_walk(s, length, dtype, script=history.coverage_script() if k >= nwalks else None)
        walks.append((s, dtype, w))
        nobj += len(w.pool); ncalls += len(w.log)
        for nm in w.log:
            key = nm.split("(")[0]; dist[key] = dist.get(key, 0) + 1
        for kind, msg, step in w.fails:
            if kind == "raise": raised[msg.split(":")[0][:60]] = raised.get(msg.split(":")[0][:60], 0) + 1
        seen_kind = set()
        for kind, msg, step in w.fails:
            if kind in focus and kind not in seen_kind:        # the first failure of each kind in a walk; later ones are consequences
                seen_kind.add(kind)
                what = re.sub(r"[\[\(][^\]\)]*[\]\)]", "[..]", msg.split(": ", 2)[-1] if kind != "raise" else msg)
                what = re.sub(r"\d+", "n", what)[:90]
                op = w.log[step].split("(")[0] if step < len(w.log) else "?"
                V.fail("%s: first seen after '%s': %s" % (kind, op, what),
                       {"walk_seed": s, "dtype": str(dtype), "history": w.log[:step + 1], "failure": msg, "coq_calls": w.calls})
        exprs.append("enc_state (run init [%s])" % "; ".join(w.calls))
    n_model_ok = 0
    if ok_make and pid == "C05":
        res = coqrun.eval_nat_lists("C05_hist", "From TT Require Import Core Meta.", "", exprs, shard=6)
        for (s, dtype, w), flat in zip(walks, res):
            model = history.decode_state(flat)
            impl = [history.encode_obj(o) for o in w.pool]
            if model != impl:
                bad = [i for i in range(max(len(model), len(impl))) if i >= len(model) or i >= len(impl) or model[i] != impl[i]]
                V.fail("correspondence(model/impl) descriptor after a history: first differing object created/changed by '%s'" % (w.log[min(bad[0], len(w.log) - 1)].split("(")[0] if w.log else "?"),
                       {"walk_seed": s, "dtype": str(dtype), "history": w.log, "coq_calls": w.calls, "differing_objects": bad[:5],
                        "impl": [impl[i] for i in bad[:3] if i < len(impl)], "model": [model[i] for i in bad[:3] if i < len(model)]}, failing_input=False)
            else:
                n_model_ok += 1
    nviol = V.finish()
    cov = proofcheck.coverage(pid, obl, evaluations=ncalls, distinct_nontrivial=len(set(json.dumps(w.log) for _, _, w in walks if len(w.log) >= 5)),
        rule=("random walks of %d calls over a pool of objects: constructors (cores, TT-SVD, factories), + - * ** @ t, scalar ops, clone/detach/to/cpu/conj, to_ttm, round, "
              "sum, slicing, permute, reshape, cat, pad, diag, mprod, to_qtt, save/load, the in-place set_core / reduce_dims, and the iterative routines (fast_matvec, dmrg_hadamard, "
              "amen_mm, amen_mv, amen_solve, elementwise_divide, function_interpolate) with initial guesses drawn from the pool; after EVERY call every object in existence is "
              "checked for well-formedness (cores 3-d xor 4-d, chained ranks, boundary ranks, N/M/R/shape/is_ttm describe the cores, full() shape) and compared bit-for-bit with "
              "its snapshot (cores, versions, storage pointers, list identity, R/N/M/shape) unless it was the target of an in-place call; the whole history is replayed in the Coq "
              "state machine and the final descriptors compared; non-trivial = a walk with at least 5 executed calls; distinct = distinct call sequences") % length,
        samples=[w.log for _, _, w in walks[:3]], distribution=dist, walks=nwalks, objects_created=nobj,
        histories_agreeing_with_model=n_model_ok, calls_that_raised=raised, known_findings_reproduced=V.known_hit)
    common.write_evidence(pid, tier, seed, cov, time.time() - t0, nviol, common.TRUSTED_BASE)
    return 1 if nviol else 0
