"""C20 - The TT linear layer computes the dense affine map it represents."""
import numpy as np
import ttgen, expr, coqrun, exprcheck
from expr import Lit4, Dense, Op

PID = "C20"

def torch_full_ttm(cores):
    """differentiable dense M x N reconstruction (torch) of TT-matrix cores"""
    import torch
    t = cores[0][0]
    for c in cores[1:]:
        t = torch.tensordot(t, c, dims=([-1], [0]))
    t = t[..., 0]
    d = len(cores)
    return t.permute([2 * k for k in range(d)] + [2 * k + 1 for k in range(d)])

class Forward(Op):
    def __init__(self, W, bias, X, init):
        super().__init__("OForward", [W, bias, X], [[len(W.cores)]])
        self.init = init
    def layer(self, dtype):
        import torch, torchtt
        W = self.args[0]
        size_out = [c.shape[1] for c in W.cores]
        size_in = [c.shape[2] for c in W.cores]
        rank = [1] + [c.shape[3] for c in W.cores]
        torch.manual_seed(0)
        L = torchtt.nn.LinearLayerTT(size_in, size_out, rank, dtype=dtype, initializer=self.init)
        return L, size_in, size_out, rank
    def impl(self, env, dtype):
        import torch
        L, *_ = self.layer(dtype)
        with torch.no_grad():
            for p, c in zip(L.cores, self.args[0].cores):
                p.copy_(ttgen.to_torch(c, dtype))
            L.bias.copy_(ttgen.to_torch(self.args[1].arr, dtype))
            return L.forward(ttgen.to_torch(self.args[2].arr, dtype))
    def dense(self, env, dtype):
        import torch
        W = ttgen.to_torch(ttgen.ref_full(self.args[0].cores), dtype)
        X = ttgen.to_torch(self.args[2].arr, dtype)
        b = ttgen.to_torch(self.args[1].arr, dtype)
        d = len(self.args[0].cores)
        nb = X.dim() - d
        return torch.tensordot(X, W, dims=(list(range(nb, nb + d)), list(range(d, 2 * d)))) + b
    def desc(self):
        d = super().desc(); d["initializer"] = self.init; return d

def evaluate(e, dtype):
    import torch
    oi, fails = exprcheck.dense_equiv(e, dtype)
    # registration, shapes, dtype of the parameters as constructed
    try:
        L, size_in, size_out, rank = e.layer(dtype)
        params = list(L.parameters())
        d = len(size_in)
        if len(params) != d + 1:
            fails.append("layer registers %d parameters, expected %d cores + bias" % (len(params), d))
        if not all(p.requires_grad for p in params):
            fails.append("a parameter is not trainable")
        shp = [list(p.shape) for p in L.cores]
        want = [[rank[k], size_out[k], size_in[k], rank[k + 1]] for k in range(d)]
        if shp != want:
            fails.append("core shapes %s != %s" % (shp, want))
        if list(L.bias.shape) != size_out:
            fails.append("bias shape %s" % list(L.bias.shape))
        if any(p.dtype != dtype for p in params):
            fails.append("parameter dtype differs from the requested dtype")
        # gradients of sum(w * forward(x)) w.r.t. every parameter vs the dense affine map (exact integers)
        with torch.no_grad():
            for p, c in zip(L.cores, e.args[0].cores):
                p.copy_(ttgen.to_torch(c, dtype))
            L.bias.copy_(ttgen.to_torch(e.args[1].arr, dtype))
        X = ttgen.to_torch(e.args[2].arr, dtype)
        y = L.forward(X)
        w = torch.arange(1, y.numel() + 1, dtype=dtype).reshape(y.shape) % 5 - 2
        (w * y).sum().backward()
        cores2 = [ttgen.to_torch(c, dtype).requires_grad_(True) for c in e.args[0].cores]
        b2 = ttgen.to_torch(e.args[1].arr, dtype).requires_grad_(True)
        W = torch_full_ttm(cores2)
        nb = X.dim() - d
        y2 = torch.tensordot(X, W, dims=(list(range(nb, nb + d)), list(range(d, 2 * d)))) + b2
        (w * y2).sum().backward()
        for k, (p, q) in enumerate(zip(list(L.cores) + [L.bias], cores2 + [b2])):
            if p.grad is None or not torch.equal(p.grad, q.grad):
                fails.append("gradient of parameter %d differs from the gradient of the dense affine map" % k)
        # the same gradients with the module in eval() mode (eval changes dropout-like layers, it must not detach anything here)
        L6, *_ = e.layer(dtype)
        with torch.no_grad():
            for p, c in zip(L6.cores, e.args[0].cores): p.copy_(ttgen.to_torch(c, dtype))
            L6.bias.copy_(ttgen.to_torch(e.args[1].arr, dtype))
        L6.eval()
        Xg = X.clone().requires_grad_(True)
        y6 = L6.forward(Xg)
        if list(y6.shape) != list(y2.shape) or not torch.equal(y6.detach(), y2.detach()): fails.append("forward() in eval() mode differs (value or shape %s vs %s)" % (list(y6.shape), list(y2.shape)))
        else:
            (w * y6).sum().backward()
            for k, (p, q) in enumerate(zip(list(L6.cores) + [L6.bias], cores2 + [b2])):
                if p.grad is None or not torch.equal(p.grad, q.grad):
                    fails.append("in eval() mode the gradient of parameter %d differs from the gradient of the dense affine map" % k)
            if Xg.grad is None: fails.append("in eval() mode no gradient reaches the input")
        # W is contracted from the layer's REGISTERED parameters, whatever they are now: (a) parameters replaced (not copied into) after
        # construction, (b) a stateless call with substituted parameters
        L2, *_ = e.layer(dtype)
        for k, c in enumerate(e.args[0].cores):
            L2.cores[k] = torch.nn.Parameter(ttgen.to_torch(c, dtype))
        L2.bias = torch.nn.Parameter(ttgen.to_torch(e.args[1].arr, dtype))
        y3 = L2.forward(X)
        if not torch.equal(y3.detach(), y2.detach()):
            fails.append("forward() after replacing the registered cores / bias does not use the new parameters")
        else:
            (w * y3).sum().backward()
            for k, (p, q) in enumerate(zip(list(L2.cores) + [L2.bias], cores2 + [b2])):
                if p.grad is None or not torch.equal(p.grad, q.grad):
                    fails.append("gradient of replaced parameter %d differs from the gradient of the dense affine map" % k)
        L3, *_ = e.layer(dtype)
        names = [n_ for n_, _ in L3.named_parameters()]
        sub = {}
        for n_ in names:
            if n_ == "bias": sub[n_] = ttgen.to_torch(e.args[1].arr, dtype)
            else: sub[n_] = ttgen.to_torch(e.args[0].cores[int(n_.split(".")[-1])], dtype)
        y4 = torch.func.functional_call(L3, sub, (X,))
        if not torch.equal(y4.detach(), y2.detach()):
            fails.append("torch.func.functional_call with substituted parameters does not compute the affine map of those parameters")
        # a layer constructed in ANOTHER dtype and converted afterwards (module.double() / .float() / .to(dtype)): the contraction must run in
        # the dtype the parameters have NOW.  Weights carry ~30 significant bits, so a float32 contraction inside a float64 layer shows (1e-8 vs 1e-12).
        import copy as _copy
        other = torch.float32 if dtype == torch.float64 else torch.float64
        W0 = e.args[0]
        so = [c.shape[1] for c in W0.cores]; si = [c.shape[2] for c in W0.cores]; rk = [1] + [c.shape[3] for c in W0.cores]
        torch.manual_seed(0)
        L5 = __import__("torchtt").nn.LinearLayerTT(si, so, rk, dtype=other, initializer=e.init)
        how = len(fails) % 3
        L5 = (L5.double() if dtype == torch.float64 else L5.float()) if how == 0 else (L5.to(dtype) if how == 1 else _copy.deepcopy(L5).to(dtype))
        bump = (2.0 ** -30) if dtype == torch.float64 else 0.0
        with torch.no_grad():
            for p, c in zip(L5.cores, W0.cores): p.copy_(ttgen.to_torch(c, dtype) * (1.0 + bump))
            L5.bias.copy_(ttgen.to_torch(e.args[1].arr, dtype))
        y5 = L5.forward(X)
        Wd = torch_full_ttm([ttgen.to_torch(c, torch.float64) * (1.0 + bump) for c in W0.cores])
        y5ref = torch.tensordot(X.to(torch.float64), Wd, dims=(list(range(nb, nb + d)), list(range(d, 2 * d)))) + ttgen.to_torch(e.args[1].arr, torch.float64)
        if y5.dtype != dtype: fails.append("forward() of a layer converted to %s returns %s" % (dtype, y5.dtype))
        tol5 = 1e-12 if dtype == torch.float64 else 1e-5
        if not (float((y5.to(torch.float64) - y5ref).abs().max()) <= tol5 * (1.0 + float(y5ref.abs().max()))):
            fails.append("forward() of a layer converted after construction is not accurate in its current dtype (stale dtype inside forward?)")
        # ONE layer object through a sequence of calls: inputs with different numbers of batch dimensions (the same extent as the first mode included),
        # a forward without autograd, an in-place update of the parameters (what an optimiser step or load_state_dict does), the same forward again
        torch.manual_seed(1)
        # the sizes as the caller's own lists (edited AFTER the layer was built: the layer must not depend on them any more) or as tuples
        si_arg, so_arg = (list(si), list(so)) if d % 2 == 0 else (tuple(si), tuple(so))
        L7 = __import__("torchtt").nn.LinearLayerTT(si_arg, so_arg, rk, dtype=dtype, initializer=e.init)
        if isinstance(si_arg, list): si_arg.append(3); so_arg.append(2); si_arg[0] += 1
        with torch.no_grad():
            for p, c in zip(L7.cores, W0.cores): p.copy_(ttgen.to_torch(c, dtype))
            L7.bias.copy_(ttgen.to_torch(e.args[1].arr, dtype))
        def ref7(Xq, scale=1.0):
            Wq = torch_full_ttm([ttgen.to_torch(c, torch.float64) * (scale if k_ == 0 else 1.0) for k_, c in enumerate(W0.cores)])
            return torch.tensordot(Xq.to(torch.float64), Wq, dims=(list(range(Xq.dim() - d, Xq.dim())), list(range(d, 2 * d)))) + ttgen.to_torch(e.args[1].arr, torch.float64)
        tol7 = 1e-12 if dtype == torch.float64 else 1e-5
        gen7 = torch.Generator().manual_seed(len(fails) + d)
        for nb7 in (0, 1, 2, 1, 3, 0):
            Xq = torch.randint(-2, 3, [si[0]] * nb7 + list(si), generator=gen7).to(dtype)        # batch extents equal to the first mode: a wrong axis contracts silently
            yq = L7.forward(Xq)
            if list(yq.shape) != [si[0]] * nb7 + list(so) or not (float((yq.to(torch.float64) - ref7(Xq)).abs().max()) <= tol7 * (1.0 + float(ref7(Xq).abs().max()))):
                fails.append("forward() of the same layer on an input with %d batch dimensions (after calls with other batch shapes) differs from the dense operator" % nb7); break
        # gradients of any magnitude: one input entry of 2^30 (exact in either dtype) makes parameter gradients of the order 1e9 - they must still be
        # the gradients of the dense affine map built from copies of the same parameters
        Xh = torch.randint(-2, 3, [2] + list(si), generator=gen7).to(dtype); Xh.reshape(-1)[0] = 2.0 ** (30 if dtype == torch.float64 else 14)   # products stay exactly representable in the dtype
        Wt7 = torch.randint(-2, 3, [2] + list(so), generator=gen7).to(dtype)
        L7.zero_grad()
        (L7.forward(Xh) * Wt7).sum().backward()
        leaves7 = [p.detach().clone().requires_grad_(True) for p in L7.cores]; b7 = L7.bias.detach().clone().requires_grad_(True)
        Wd7 = torch_full_ttm(leaves7)
        yd7 = torch.tensordot(Xh, Wd7, dims=(list(range(Xh.dim() - d, Xh.dim())), list(range(d, 2 * d)))) + b7
        (yd7 * Wt7).sum().backward()
        gall = max([float(q.grad.abs().max()) for q in leaves7 + [b7] if q.grad is not None] + [1.0])       # a small gradient can be the difference of huge terms: the bound is relative to the largest one
        for k7, (p, q) in enumerate(zip(list(L7.cores) + [L7.bias], leaves7 + [b7])):
            gmax = float(q.grad.abs().max()) if q.grad is not None else 0.0
            if p.grad is None or list(p.grad.shape) != list(q.grad.shape) or not (float((p.grad - q.grad).abs().max()) <= (1e-12 if dtype == torch.float64 else 1e-5) * gall):
                fails.append("gradient of parameter %d for an input with a huge entry differs from the gradient of the dense affine map (magnitude %.3g)" % (k7, gmax)); break
        L7.zero_grad()
        Xq = torch.randint(-2, 3, [2] + list(si), generator=gen7).to(dtype)
        with torch.no_grad():
            y_a = L7.forward(Xq)
            L7.cores[0].mul_(2.0)
            y_b = L7.forward(Xq)
        for nm7, yq, sc7 in (("before", y_a, 1.0), ("after", y_b, 2.0)):
            if not (float((yq.to(torch.float64) - ref7(Xq, sc7)).abs().max()) <= tol7 * (1.0 + float(ref7(Xq, sc7).abs().max()))):
                fails.append("forward() without autograd %s an in-place update of a core differs from the dense operator of the current cores" % nm7)
    except Exception as ex:
        fails.append("layer construction / gradient check raised %s: %s" % (type(ex).__name__, str(ex)[:100]))
    return oi, fails

def gen_case(rng, car):
    while True:
        d = rng.choice([1, 2, 2, 3, 3, 4])
        size_in = [rng.choice([1, 2, 3, 4, 5]) for _ in range(d)]
        size_out = [rng.choice([1, 2, 3, 4, 5]) for _ in range(d)]
        if np.prod(size_in) * np.prod(size_out) <= 1500: break
    R = ttgen.rand_ranks(rng, d, 3)
    W = Lit4(ttgen.rand_ttm_cores(rng, size_out, size_in, R, False))
    nb = rng.choice([0, 1, 1, 2, 3])
    B = [rng.choice([1, 2, 3]) for _ in range(nb)]
    X = Dense(ttgen.rand_core(rng, tuple(B + size_in), False, -2, 2))
    bias = Dense(ttgen.rand_core(rng, tuple(size_out), False, -3, 3))
    return Forward(W, bias, X, rng.choice(["He", "Glo"])), "batch=%d" % nb, None

def nontrivial(e, cat):
    return any(c.shape[-1] > 1 for c in e.args[0].cores[:-1])

RULE = ("random layers: 1..4 modes of size 1..5 (rectangular size_in/size_out), rank profiles up to 3, batch shapes with 0..3 leading dims, "
        "float32/float64, both initialisers; integer weights written into the registered parameters so forward() and all parameter gradients are exact; "
        "also with the parameters replaced after construction (layer.cores[k] = Parameter(..)), through torch.func.functional_call with substituted parameters, and on layers "
        "constructed in the other dtype and converted with .double() / .float() / .to(dtype) / deepcopy (weights with ~30 significant bits, 1e-12); "
        "non-trivial = some interior rank > 1; distinct = distinct (structure, dtype) key")

def post(V, rng, tier):
    """the gradients autograd accumulates in the layer's cores against Model/CoreGrad.v (theorems C20_operator_core_grad / C15_weighted_sum_core_grad):
    d/dG_k of sum(Wt * forward(X)) is core_grad of the merged-mode train of W with the weights w[(m,n)..] = sum_b Wt[b,m..] X[b,n..]; integer data, exact"""
    import torch, torchtt
    cases, metas = [], []
    for j in range(12 if tier == "quick" else 120):
        d = rng.choice([1, 2, 3]); so = [rng.choice([1, 2, 3]) for _ in range(d)]; si = [rng.choice([1, 2, 3]) for _ in range(d)]
        rk = [1] + [rng.choice([1, 2]) for _ in range(d - 1)] + [1]; nb = rng.choice([0, 1, 2]); B = [rng.choice([1, 2]) for _ in range(nb)]
        dtype = torch.float64 if j % 3 else torch.float32
        try:
            L = torchtt.nn.LinearLayerTT(si, so, rk, dtype=dtype, initializer=rng.choice(["He", "Glo"]))
            cores = [np.array([rng.randint(-2, 2) for _ in range(rk[i] * so[i] * si[i] * rk[i + 1])], dtype=np.float64).reshape(rk[i], so[i], si[i], rk[i + 1]) for i in range(d)]
            with torch.no_grad():
                for p_, c in zip(L.cores, cores): p_.copy_(torch.tensor(c).to(dtype))
                if j % 3 != 1: L.bias.copy_(torch.tensor(np.array([rng.randint(-2, 2) for _ in range(int(np.prod(so)))], dtype=np.float64).reshape(so)).to(dtype))
                # (every third case: the bias as both initialisers leave it, all zeros - its gradient is the batch sum of the upstream weights all the same)
            X = np.array([rng.randint(-2, 2) for _ in range(int(np.prod(B + si)))], dtype=np.float64).reshape(B + si)
            Wt = np.array([rng.randint(-2, 2) for _ in range(int(np.prod(B + so)))], dtype=np.float64).reshape(B + so)
            (L.forward(torch.tensor(X).to(dtype)) * torch.tensor(Wt).to(dtype)).sum().backward()
            k_ = rng.randrange(d)
            w2 = np.tensordot(Wt.reshape([-1] + so), X.reshape([-1] + si), axes=([0], [0]))                      # [m1..md, n1..nd]
            w2 = w2.transpose([a for i in range(d) for a in (i, d + i)]).reshape([so[i] * si[i] for i in range(d)])     # merged modes (m_i, n_i) -> m_i * N_i + n_i
            cs_ = "[" + ";".join("(%d%%nat,%d%%nat,%d%%nat,%s)" % (c.shape[0], c.shape[1] * c.shape[2], c.shape[3], coqrun.zlist(c.reshape(-1))) for c in cores) + "]"
            g_ = L.cores[k_].grad.detach().to(torch.float64).numpy()
            bg = None if L.bias.grad is None else L.bias.grad.detach().to(torch.float64).numpy()
            if bg is None or not np.array_equal(bg, Wt.reshape([-1] + so).sum(0)): V.fail("gradient of the bias differs from the sum of the upstream weights over the batch", {"so": so, "si": si, "batch": B, "bias_all_zero": j % 3 == 1, "got": "None" if bg is None else "array"})
            cases.append("[check_core_grad (R:=Z) %s %d %s %s]" % (cs_, k_, coqrun.zlist(w2.reshape(-1)), coqrun.zlist(g_.reshape(-1))))
            metas.append({"family": "layer core gradient vs Model/CoreGrad.v", "size_out": so, "size_in": si, "rank": rk, "batch": B, "core": k_, "dtype": str(dtype)})
        except Exception as ex:
            V.fail("layer core gradient raises %s" % type(ex).__name__, {"so": so, "si": si, "rank": rk, "exc": str(ex)[:200]})
    # a batch dimension of extent 0 (the last, short batch of a data loader that came out empty): forward keeps the batch shape and gives the output modes, the
    # gradients of all parameters are zeros of the parameters' shapes (what the dense map x.reshape(0, -1) @ W.T + b gives)
    n_empty = 0
    for j in range(6 if tier == "quick" else 60):
        d = rng.choice([1, 2, 3]); so = [rng.choice([1, 2, 3, 4]) for _ in range(d)]; si = [rng.choice([1, 2, 3]) for _ in range(d)]
        if so == si: so[0] += 1
        if j % 3 == 2: so = [1] + si[1:] if d > 1 else [1]          # output modes that would broadcast against the input's: a wrong shape does not raise
        rk = [1] + [rng.choice([1, 2]) for _ in range(d - 1)] + [1]; B = [[0], [2, 0], [0, 3]][j % 3]
        dtype = torch.float64 if j % 2 else torch.float32
        desc = {"empty_batch": True, "size_out": so, "size_in": si, "rank": rk, "batch": B, "dtype": str(dtype)}
        try:
            L = torchtt.nn.LinearLayerTT(si, so, rk, dtype=dtype, initializer=rng.choice(["He", "Glo"]))
            y = L.forward(torch.zeros(B + si, dtype=dtype))
            if list(y.shape) != B + so: V.fail("forward of an empty batch has the wrong shape", dict(desc, got=list(y.shape), want=B + so))
            else:
                y.sum().backward()
                for nm_, p_ in list(zip(["core %d" % k for k in range(d)], L.cores)) + [("bias", L.bias)]:
                    if p_.grad is None or list(p_.grad.shape) != list(p_.shape) or bool((p_.grad != 0).any()):
                        V.fail("gradient of a parameter after an empty batch is not the zero array of its shape", dict(desc, parameter=nm_, got="None" if p_.grad is None else list(p_.grad.shape))); break
        except Exception as ex:
            V.fail("forward / backward of an empty batch raises %s" % type(ex).__name__, dict(desc, exc=str(ex)[:200]))
        n_empty += 1
    n_ok = 0
    if cases:
        try:
            codes = coqrun.eval_nat_lists("C20_cg", "From TT Require Import RingSig Instances Core CoreGrad.", "", cases, shard=40)
            for dsc, c in zip(metas, codes):
                if c != [0]: V.fail("correspondence(model/impl): the gradient autograd accumulates in a core of the layer differs from Model/CoreGrad.v", dict(dsc, model_code=c, expr=cases[metas.index(dsc)][:1200]))
                else: n_ok += 1
        except Exception as ex:
            V.fail("layer core gradient correspondence: the model could not be evaluated", {"exc": str(ex)[:300]}, failing_input=False)
    return {"layer_core_gradients_equal_model": n_ok, "empty_batch_cases": n_empty}

def run(tier, seed, replay=None):
    import torch
    dtypes = [(torch.float64, coqrun.Z), (torch.float32, coqrun.Z)]
    return exprcheck.run(PID, tier, seed, gen_case, 200, 4000, RULE, nontrivial, dtypes, evaluate=evaluate, post=post)
