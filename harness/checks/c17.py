"""C17 - The compiled backend obeys the same contracts as the Python implementation."""
import time, random, json, math, os, sys, hashlib, subprocess, shutil
import numpy as np
import common, coqrun, proofcheck

PID = "C17"
SETUP = '''
import sys, os
from setuptools import setup
from torch.utils.cpp_extension import CppExtension, BuildExtension
src = sys.argv.pop(1)
setup(name="torchttcpp",
      ext_modules=[CppExtension("torchttcpp", [os.path.join(src, "cpp_ext.cpp")], include_dirs=[src],
                                extra_compile_args=["-std=c++20", "-O2", "-w"], libraries=["blas", "lapack"])],
      cmdclass={"build_ext": BuildExtension.with_options(use_ninja=False)})
'''

def build_extension():
    """builds /repo/cpp (as it is now) with -std=c++20 (the repository's -std=c++17 does not compile against the installed torch);
    cached under build/ by the hash of the sources. returns (libdir or None, log)"""
    src = os.path.join(common.REPO, "cpp")
    h = hashlib.sha256()
    for f in sorted(os.listdir(src)):
        p = os.path.join(src, f)
        if os.path.isfile(p): h.update(f.encode()); h.update(open(p, "rb").read())
    tag = h.hexdigest()[:16]
    root = os.path.join(common.BUILD, "cpp_" + tag)
    lib = os.path.join(root, "lib")
    with common.Lock("cppbuild"):
        if os.path.isdir(lib) and any(f.endswith(".so") for f in os.listdir(lib)):
            return lib, "cached " + tag
        for d in os.listdir(common.BUILD) if os.path.isdir(common.BUILD) else []:
            if d.startswith("cpp_") and d != "cpp_" + tag: shutil.rmtree(os.path.join(common.BUILD, d), ignore_errors=True)
        os.makedirs(root, exist_ok=True)
        open(os.path.join(root, "setup_ext.py"), "w").write(SETUP)
        r = subprocess.run(["timeout", "900", sys.executable, "setup_ext.py", src, "build_ext", "--build-lib", lib, "--build-temp", os.path.join(root, "tmp")],
                           cwd=root, stdout=subprocess.PIPE, stderr=subprocess.STDOUT, text=True)
        shutil.rmtree(os.path.join(root, "tmp"), ignore_errors=True)
        ok = r.returncode == 0 and os.path.isdir(lib) and any(f.endswith(".so") for f in os.listdir(lib))
        return (lib if ok else None), r.stdout[-3000:]

def run(tier, seed, replay=None):
    t0 = time.time()
    rng = random.Random(seed)
    V = common.Verdict(PID)
    ok_make, obl = proofcheck.obligations(PID, V)
    lib, blog = build_extension()
    if lib is None:
        V.fail("the C++ extension does not build from /repo/cpp", {"log": blog}, failing_input=False)
        nviol = V.finish()
        common.write_evidence(PID, tier, seed, proofcheck.coverage(PID, obl, evaluations=0, distinct_nontrivial=0, rule="build failed", samples=[{"build_log": blog[-500:]}]), time.time() - t0, nviol, common.TRUSTED_BASE)
        return 1
    sys.path.insert(0, lib)
    import torch, torchtt
    import solverkit, history
    from checks import c12
    if not torchtt.cpp_enabled():
        V.fail("the built extension is not picked up by torchtt (cpp_enabled() is False)", {"lib": lib}, failing_input=False)
    import torchttcpp
    n = 40 if tier == "quick" else 600
    dist, samples = {}, []
    dt = torch.float64
    # ---- the C++ rank selection, exercised through round_this?  (not exported separately): compared through dmrg/solve below.
    for i in range(n):
        which = rng.choice(["amen_solve", "amen_solve", "fast_matvec", "fast_matvec"]) if i >= 8 else "fast_matvec"
        if i in (8, 10): which = "fast_matvec"
        if i in (9, 11): which = "amen_solve"
        sd = rng.randrange(1 << 30)
        if which == "amen_solve":
            A, b, N, kind = c12.gen_system(rng, torch, torchtt)
            eps = rng.choice([1e-10, 1e-8, 1e-6, 1e-4, 1e-3])
            prec = rng.choice([None, "c", "r"])
            guess = solverkit.rand_tt_float(rng, N, solverkit.ranks(rng, len(N), 3), dt) if rng.random() < 0.4 else None
            gk = "random" if guess is not None else "none"
            if guess is not None and (rng.random() < 0.5 or i in (9, 13)):          # guesses of zero norm, b itself
                gk = rng.choice(["zeros", "0*b", "zero-core", "b"])
                if gk == "zeros": guess = torchtt.zeros(N, dtype=dt)
                elif gk == "0*b": guess = 0 * b
                elif gk == "b": guess = b.clone()
                else:
                    cs_ = [c.clone() for c in guess.cores]; k0 = rng.randrange(len(cs_)); cs_[k0] = torch.zeros_like(cs_[k0]); guess = torchtt.TT(cs_)
            # local solver settings: default (dense local solves for these sizes) or forced GMRES with short cycles, so that restarts happen
            lk = rng.choice([{}, {}, {"max_full": 0}, {"max_full": 0, "local_iterations": rng.choice([4, 6, 10]), "resets": rng.choice([6, 10])}])
            if i in (9, 11): lk = {"max_full": 0, "local_iterations": 6, "resets": 10}
            desc = {"routine": which, "N": N, "family": kind, "eps": eps, "preconditioner": prec, "guess": guess is not None, "guess_kind": gk, "torch_seed": sd, "local": lk}
            key = "amen_solve %s prec=%s%s" % (kind, prec, " gmres-restarts" if "resets" in lk else (" gmres" if lk else ""))
            ops = {"A": A, "b": b}
            if guess is not None: ops["guess"] = guess
            snaps = {k: history.Snap(v) for k, v in ops.items()}
            res = {}
            try:
                for name, flag in (("cpp", True), ("python", False)):
                    torch.manual_seed(sd)
                    x = torchtt.solvers.amen_solve(A, b, x0=guess, eps=eps, nswp=40, preconditioner=prec, verbose=False, use_cpp=flag, **lk)
                    if history.wf_failures(x) or [int(v) for v in x.N] != N: V.fail("amen_solve[%s]: result has the wrong shape" % name, desc); raise StopIteration
                    Af = A.full().reshape(int(np.prod(N)), -1)
                    res[name] = (x, float((Af @ x.full().reshape(-1) - b.full().reshape(-1)).norm() / b.full().norm()))
            except StopIteration:
                continue
            except Exception as ex:
                V.fail("amen_solve[%s] raises %s [%s]" % (name, type(ex).__name__, key), dict(desc, exc=str(ex)[:200])); continue
            for name in ("cpp", "python"):
                if res[name][1] > c12.CONST * eps: V.fail("amen_solve[%s]: residual exceeds %g*eps [%s]" % (name, c12.CONST, key), dict(desc, rel_residual=res[name][1]))
            dxy = float((res["cpp"][0] - res["python"][0]).norm() / max(1e-300, float(res["python"][0].norm())))
            cond_slack = 1e3
            if dxy > cond_slack * eps: V.fail("amen_solve: the two backends disagree beyond the tolerance [%s]" % key, dict(desc, rel_difference=dxy))
        else:
            d = rng.choice([2, 3, 4, 5])
            N = [rng.choice([2, 3, 4, 5]) for _ in range(d)]; M = [rng.choice([2, 3, 4]) for _ in range(d)]
            A = solverkit.rand_ttm_float(rng, M, N, solverkit.ranks(rng, d, 3), dt); x = solverkit.rand_tt_float(rng, N, solverkit.ranks(rng, d, 3), dt)
            scale = rng.choice([1.0, 1e-6, 1e-4, 1e-6, 1e-3, 1e3, 1e6])            # the contract is relative: it must not depend on the norm of the operands
            if i < 8:                                                              # engineered: tiny operands with a loose tolerance, huge ones with a tight one
                which_ = i % 4
                scale, eps_forced = [(1e-6, 1e-3), (1e-5, 1e-2), (1e6, 1e-10), (1e-8, 1e-4)][which_]
            x = x * scale
            eps = rng.choice([1e-12, 1e-10, 1e-8, 1e-6, 1e-4, 1e-2])
            if i < 8: eps = eps_forced
            guess = solverkit.rand_tt_float(rng, M, solverkit.ranks(rng, d, 2), dt) if rng.random() < 0.4 else None
            nswp = 40
            if i >= 8 and rng.random() < 0.3 or i in (8, 10):      # warm start (the product itself) with a sweep budget that is used up
                guess = (A @ x).round(1e-13); nswp = rng.choice([1, 2, 3])
            desc = {"routine": which, "N": N, "M": M, "eps": eps, "guess": guess is not None, "torch_seed": sd, "scale": scale, "nswp": nswp}
            key = "fast_matvec" + ("" if scale == 1.0 else " scaled") + (" warm-start nswp<=3" if nswp != 40 else "")
            ops = {"A": A, "x": x}
            if guess is not None: ops["guess"] = guess
            snaps = {k: history.Snap(v) for k, v in ops.items()}
            ex = (A @ x).full(); nrm = float(ex.norm())
            ys = {}
            try:
                for name, flag in (("cpp", True), ("python", False)):
                    torch.manual_seed(sd)
                    y = A.fast_matvec(x, eps=eps, initial=guess, nswp=nswp, use_cpp=flag)
                    if history.wf_failures(y) or [int(v) for v in y.N] != M: V.fail("fast_matvec[%s]: result has the wrong shape" % name, desc); raise StopIteration
                    ys[name] = float((y.full() - ex).norm())
                    if ys[name] > 30.0 * eps * nrm + 1e-11 * nrm: V.fail("fast_matvec[%s]: error exceeds 30*eps" % name, dict(desc, rel_err=ys[name] / nrm))
            except StopIteration:
                continue
            except Exception as ex_:
                V.fail("fast_matvec[%s] raises %s" % (name, type(ex_).__name__), dict(desc, exc=str(ex_)[:200])); continue
        dist[key] = dist.get(key, 0) + 1
        if i % 8 == 0 and len(samples) < 5: samples.append(desc)
        bad = solverkit.intact(snaps, list(ops.values()))
        if bad: V.fail("%s (some backend) modified an operand: %s" % (which, bad[0].split(":")[0]), dict(desc, differences=bad))
    # dispatch: an invalid preconditioner raises with the extension, use_cpp=False never reaches it
    A, b, N, kind = c12.gen_system(rng, torch, torchtt)
    try:
        torchtt.solvers.amen_solve(A, b, preconditioner="x", verbose=False, use_cpp=True, nswp=2)
        V.fail("dispatch: an unknown preconditioner is accepted by the C++ path", {"N": N})
    except Exception as ex:
        if type(ex).__name__ != "InvalidArguments": V.fail("dispatch: unknown preconditioner raises %s" % type(ex).__name__, {"N": N})
    nviol = V.finish()
    cov = proofcheck.coverage(PID, obl, evaluations=n, distinct_nontrivial=len(dist),
        rule=("the extension is built from /repo/cpp as it is now (-std=c++20 -O2, cached by the hash of the sources) and put on sys.path; amen_solve on the C12 families (SPD, "
              "diagonally dominant, Laplacian-like; preconditioner None/'c'/'r'; with and without guess) and fast_matvec on random operands run through BOTH backends from the same "
              "seed: each must meet its contract (50*eps residual / 30*eps error), the solutions must agree within 1e3*eps, results must be well formed, operands bitwise intact; "
              "the dispatch on an unknown preconditioner is exercised"),
        samples=samples, distribution=dist, extension=os.path.basename(os.path.dirname(lib)), build=blog[-200:] if blog.startswith("cached") else "built", known_findings_reproduced=V.known_hit,
        partial=["the C++ AMEn / DMRG bodies are a second implementation: convergence is measured, not proved; proved: agreement of the C++ rank-selection loop with the Python rule on a "
                 "stated bounded domain (kernel evaluation), their difference at eps <= 0, totality of the dispatch"])
    common.write_evidence(PID, tier, seed, cov, time.time() - t0, nviol, common.TRUSTED_BASE + ["g++ / the C++ toolchain and the pybind glue: used, not verified"])
    return 1 if nviol else 0
