"""C17 - The compiled backend obeys the same contracts as the Python implementation."""
import time, random, json, math, os, sys, hashlib, subprocess, shutil
import numpy as np
import common, coqrun, proofcheck

PID = "C17"
SETUP = '''
import sys, os
from setuptools import setup
from torch.utils.cpp_extension import CppExtension, BuildExtension
src = sys.argv.pop(1)
setup(name="torchttcpp",
      ext_modules=[CppExtension("torchttcpp", [os.path.join(src, "cpp_ext.cpp")], include_dirs=[src],
                                extra_compile_args=["-std=c++20", "-O2", "-w"], libraries=["blas", "lapack"])],
      cmdclass={"build_ext": BuildExtension.with_options(use_ninja=False)})
'''

def build_extension():
    """builds /repo/cpp (as it is now) with -std=c++20 (the repository's -std=c++17 does not compile against the installed torch);
    cached under build/ by the hash of the sources. returns (libdir or None, log)"""
    src = os.path.join(common.REPO, "cpp")
    h = hashlib.sha256()
    for f in sorted(os.listdir(src)):
        p = os.path.join(src, f)
        if os.path.isfile(p): h.update(f.encode()); h.update(open(p, "rb").read())
    tag = h.hexdigest()[:16]
    root = os.path.join(common.BUILD, "cpp_" + tag)
    lib = os.path.join(root, "lib")
    with common.Lock("cppbuild"):
        if os.path.isdir(lib) and any(f.endswith(".so") for f in os.listdir(lib)):
            return lib, "cached " + tag
        for d in os.listdir(common.BUILD) if os.path.isdir(common.BUILD) else []:
            if d.startswith("cpp_") and d != "cpp_" + tag: shutil.rmtree(os.path.join(common.BUILD, d), ignore_errors=True)
        os.makedirs(root, exist_ok=True)
        open(os.path.join(root, "setup_ext.py"), "w").write(SETUP)
        r = subprocess.run(["timeout", "900", sys.executable, "setup_ext.py", src, "build_ext", "--build-lib", lib, "--build-temp", os.path.join(root, "tmp")],
                           cwd=root, stdout=subprocess.PIPE, stderr=subprocess.STDOUT, text=True)
        shutil.rmtree(os.path.join(root, "tmp"), ignore_errors=True)
        ok = r.returncode == 0 and os.path.isdir(lib) and any(f.endswith(".so") for f in os.listdir(lib))
        return (lib if ok else None), r.stdout[-3000:]

def run(tier, seed, replay=None):
    t0 = time.time()
    rng = random.Random(seed)
    V = common.Verdict(PID)
    ok_make, obl = proofcheck.obligations(PID, V)
    lib, blog = build_extension()
    if lib is None:
        V.fail("the C++ extension does not build from /repo/cpp", {"log": blog}, failing_input=False)
        nviol = V.finish()
        common.write_evidence(PID, tier, seed, proofcheck.coverage(PID, obl, evaluations=0, distinct_nontrivial=0, rule="build failed", samples=[{"build_log": blog[-500:]}]), time.time() - t0, nviol, common.TRUSTED_BASE)
        return 1
    sys.path.insert(0, lib)
    import torch, torchtt
    import solverkit, history
    from checks import c12
    if not torchtt.cpp_enabled():
        V.fail("the built extension is not picked up by torchtt (cpp_enabled() is False)", {"lib": lib}, failing_input=False)
    import torchttcpp
    n = 40 if tier == "quick" else 600
    dist, samples = {}, []
    dt = torch.float64
    # ---- the C++ rank selection, exercised through round_this?  (not exported separately): compared through dmrg/solve below.
    for i in range(n):
        which = rng.choice(["amen_solve", "amen_solve", "fast_matvec", "fast_matvec"]) if i >= 8 else "fast_matvec"
        if i in (8, 10): which = "fast_matvec"
        if i in (9, 11, 19, 21, 23, 25, 27) or (tier != "quick" and i % 50 == 25): which = "amen_solve"
        sd = rng.randrange(1 << 30)
        if which == "amen_solve":
            A, b, N, kind = c12.gen_system(rng, torch, torchtt)
            eps = rng.choice([1e-10, 1e-8, 1e-6, 1e-4, 1e-3])
            prec = rng.choice([None, "c", "r"])
            if i in (19, 21, 23):
                # engineered: a diagonally dominant operator with badly scaled rows (log-spaced diagonal per mode plus a small coupling, entries spanning
                # 1e4 .. 1e6): the residual contract is relative to ||b||, so an error of size eps ||x|| in the solution is NOT within it
                Ns_, span_, eps = [([8, 8, 8], 2.0, 1e-4), ([8, 8, 8, 8], 1.0, 1e-4), ([6, 6, 6], 2.0, 1e-6)][(i - 19) // 2]
                N = list(Ns_); kind = "diagdom-badly-scaled"
                Dg = torchtt.TT([torch.diag(torch.logspace(0, span_, n_, dtype=dt)).reshape(1, n_, n_, 1) for n_ in N])
                A = Dg + solverkit.rand_ttm_float(rng, N, N, [1] + [2] * (len(N) - 1) + [1], dt) * 0.02
                b = solverkit.rand_tt_float(rng, N, [1] + [3] * (len(N) - 1) + [1], dt)
                prec = [None, "c", None][(i - 19) // 2]
            guess = solverkit.rand_tt_float(rng, N, solverkit.ranks(rng, len(N), 3), dt) if rng.random() < 0.4 else None
            gk = "random" if guess is not None else "none"
            odd_rhs = i in (25, 27) or (tier != "quick" and i % 50 == 25)
            if odd_rhs:
                # engineered: a rank-one right-hand side whose factors are odd about the midpoint of their mode - nearly (1e-32, not exactly) orthogonal to the default all-ones start,
                # so the projected right-hand side of the first core is tiny next to A x_prev; iterative local solves, no guess, no preconditioner (and 'c' for the second case)
                N = [4, 5, 6] if i == 25 else [rng.choice([3, 4, 5, 6]) for _ in range(3)]; A = None
                cs_ = []                      # the discrete Laplacian itself (no shift), in its explicit rank-2 form
                for k_, n_ in enumerate(N):
                    L_ = 2 * torch.eye(n_, dtype=dt) - torch.diag(torch.ones(n_ - 1, dtype=dt), 1) - torch.diag(torch.ones(n_ - 1, dtype=dt), -1); I_ = torch.eye(n_, dtype=dt)
                    if k_ == 0: c_ = torch.stack([L_, I_], -1).reshape(1, n_, n_, 2)
                    elif k_ == len(N) - 1: c_ = torch.stack([I_, L_], 0).reshape(2, n_, n_, 1)
                    else:
                        c_ = torch.zeros(2, n_, n_, 2, dtype=dt); c_[0, :, :, 0] = I_; c_[1, :, :, 1] = I_; c_[1, :, :, 0] = L_
                    cs_.append(c_)
                A = torchtt.TT(cs_)
                kind = "laplace-unshifted-odd-rhs"
                b = torchtt.TT([(torch.arange(n_, dtype=dt) - (n_ - 1) / 2).reshape(1, n_, 1) for n_ in N]); guess = None; gk = "none"; eps = 1e-8; prec = None
            if i in (17, 18) or rng.random() < 0.08:
                # a guess exactly orthogonal to a one-hot right-hand side (two different unit tensors): the interfaces <guess, b> vanish while the guess does not
                hot = lambda idx: torchtt.TT([torch.eye(n_, dtype=dt)[j_].reshape(1, n_, 1) for n_, j_ in zip(N, idx)])
                ib = [rng.randrange(n_) for n_ in N]; ig = [(j_ + 1) % n_ for j_, n_ in zip(ib, N)]
                if i == 18: ig = list(ib); ig[-1] = (ib[-1] + 1) % N[-1]            # differs in the last mode only
                b = hot(ib) * rng.choice([1.0, 3.0]); guess = hot(ig); gk = "orthogonal one-hot"
            elif guess is not None and (rng.random() < 0.5 or i in (9, 13)):          # guesses of zero norm, b itself
                gk = rng.choice(["zeros", "0*b", "zero-core", "b"])
                if gk == "zeros": guess = torchtt.zeros(N, dtype=dt)
                elif gk == "0*b": guess = 0 * b
                elif gk == "b": guess = b.clone()
                else:
                    cs_ = [c.clone() for c in guess.cores]; k0 = rng.randrange(len(cs_)); cs_[k0] = torch.zeros_like(cs_[k0]); guess = torchtt.TT(cs_)
            # local solver settings: default (dense local solves for these sizes) or forced GMRES with short cycles, so that restarts happen
            lk = rng.choice([{}, {}, {"max_full": 0}, {"max_full": 0, "local_iterations": rng.choice([4, 6, 10]), "resets": rng.choice([6, 10])}])
            if i in (9, 11): lk = {"max_full": 0, "local_iterations": 6, "resets": 10}
            if i % 4 == 2 and kind != "diagdom-badly-scaled": lk = dict(lk, kick2=rng.choice([1, 2]))      # the documented second enrichment (random columns added to the residual basis)
            if odd_rhs: lk = {"max_full": 0}
            if kind == "diagdom-badly-scaled": lk = {}                 # default local solver settings: 24 unpreconditioned GMRES steps are no contract on a local system of condition 1e6
            desc = {"routine": which, "N": N, "family": kind, "eps": eps, "preconditioner": prec, "guess": guess is not None, "guess_kind": gk, "torch_seed": sd, "local": lk}
            key = "amen_solve %s prec=%s%s%s" % (kind, prec, " gmres-restarts" if "resets" in lk else (" gmres" if lk else ""), " orthogonal-guess" if gk.startswith("orth") else "")
            ops = {"A": A, "b": b}
            if guess is not None: ops["guess"] = guess
            snaps = {k: history.Snap(v) for k, v in ops.items()}
            res = {}
            try:
                for name, flag in (("cpp", True), ("python", False)):
                    torch.manual_seed(sd)
                    x = torchtt.solvers.amen_solve(A, b, x0=guess, eps=eps, nswp=40, preconditioner=prec, verbose=False, use_cpp=flag, **lk)
                    if history.wf_failures(x) or [int(v) for v in x.N] != N: V.fail("amen_solve[%s]: result has the wrong shape" % name, desc); raise StopIteration
                    Af = A.full().reshape(int(np.prod(N)), -1)
                    res[name] = (x, float((Af @ x.full().reshape(-1) - b.full().reshape(-1)).norm() / b.full().norm()))
            except StopIteration:
                continue
            except Exception as ex:
                V.fail("amen_solve[%s] raises %s [%s]" % (name, type(ex).__name__, key), dict(desc, exc=str(ex)[:200])); continue
            for name in ("cpp", "python"):
                if kind == "diagdom-badly-scaled" and not (res[name][1] <= 3.0 * eps):
                    # both solvers truncate on the residual: on this family they end below eps (0.3 .. 1 eps); an error of eps ||x|| in the solution shows as ~10 eps here
                    V.fail("amen_solve[%s]: residual exceeds 3*eps on the badly scaled family [%s]" % (name, key), dict(desc, rel_residual=res[name][1]))
                if not (res[name][1] <= c12.CONST * eps): V.fail("amen_solve[%s]: residual exceeds %g*eps [%s]" % (name, c12.CONST, key), dict(desc, rel_residual=res[name][1]))
            dxy = float((res["cpp"][0] - res["python"][0]).norm() / max(1e-300, float(res["python"][0].norm())))
            cond_slack = 1e3
            if not (dxy <= cond_slack * eps): V.fail("amen_solve: the two backends disagree beyond the tolerance [%s]" % key, dict(desc, rel_difference=dxy))
        else:
            d = rng.choice([2, 3, 4, 5]) if i not in (12, 20) else 1      # order 1: a single core, no bond to sweep over
            N = [rng.choice([2, 3, 4, 5]) for _ in range(d)]; M = [rng.choice([2, 3, 4]) for _ in range(d)]
            # dtype of the operands: the C11 class has real and complex operands for the DMRG product (the repository's own tests use complex128); single precision too
            fdt = rng.choice([dt, dt, torch.complex128, torch.float32, torch.complex64]) if i >= 8 else dt
            if i in (14, 15, 16): fdt = [torch.complex128, torch.float32, torch.complex64][i - 14]
            cplx_ = fdt in (torch.complex128, torch.complex64); wide = torch.complex128 if cplx_ else dt
            A = solverkit.rand_ttm_float(rng, M, N, solverkit.ranks(rng, d, 3), wide, cplx=cplx_); x = solverkit.rand_tt_float(rng, N, solverkit.ranks(rng, d, 3), wide, cplx=cplx_)
            scale = rng.choice([1.0, 1e-6, 1e-4, 1e-6, 1e-3, 1e3, 1e6])            # the contract is relative: it must not depend on the norm of the operands
            if i < 8:                                                              # engineered: tiny operands with a loose tolerance, huge ones with a tight one
                which_ = i % 4
                scale, eps_forced = [(1e-6, 1e-3), (1e-5, 1e-2), (1e6, 1e-10), (1e-8, 1e-4)][which_]
            x = x * scale
            eps = rng.choice([1e-12, 1e-10, 1e-8, 1e-6, 1e-4, 1e-2])
            if i < 8: eps = eps_forced
            if fdt in (torch.float32, torch.complex64): eps = max(eps, 1e-6)
            # single precision: tolerances the dtype can certify.  Below them the sweeps never converge and run on noise until the budget is used; on such
            # data torch.linalg.qr (complex64, rank-deficient columns ~1e-20) was seen to return NaN for a finite matrix - a defect of the numerical
            # library under BOTH backends (numpy's QR is fine on the same matrix), which cannot be told from a backend fault through the extension (DESIGN 11)
            guess = solverkit.rand_tt_float(rng, M, solverkit.ranks(rng, d, 2), wide, cplx=cplx_) if rng.random() < 0.4 else None
            nswp = 40
            single = fdt in (torch.float32, torch.complex64)
            if (i >= 8 and rng.random() < 0.3 or i in (8, 10)) and not single:      # warm start (the product itself) with a sweep budget that is used up
                guess = (A @ x).round(1e-13); nswp = rng.choice([1, 2, 3])
            if fdt != wide:
                cast = lambda t: torchtt.TT([c.to(fdt) for c in t.cores])
                A, x = cast(A), cast(x); guess = None if guess is None else cast(guess)
            desc = {"routine": which, "N": N, "M": M, "eps": eps, "guess": guess is not None, "torch_seed": sd, "scale": scale, "nswp": nswp, "dtype": str(fdt)}
            key = "fast_matvec" + ("" if scale == 1.0 else " scaled") + (" warm-start nswp<=3" if nswp != 40 else "") + ("" if fdt == dt else " " + str(fdt).replace("torch.", "")) + (" order-1" if d == 1 else "")
            ops = {"A": A, "x": x}
            if guess is not None: ops["guess"] = guess
            snaps = {k: history.Snap(v) for k, v in ops.items()}
            ex = (A @ x).full(); nrm = float(ex.norm())
            ys = {}
            if d == 1:
                # a fault inside the extension kills the interpreter: the compiled backend sees an order-1 product first in a child process
                prog = ("import sys, torch, torchtt\nsys.path.insert(0, %r)\ntorch.manual_seed(%d)\n"
                        "A = torchtt.random([(%d, %d)], [1, 1]); x = torchtt.random([%d], [1, 1])\ny = A.fast_matvec(x, use_cpp=True)\n"
                        "print('ERR', float((y.full() - (A @ x).full()).norm()))\n") % (lib, sd, M[0], N[0], N[0])
                env_ = dict(os.environ, PYTHONPATH=lib + os.pathsep + common.REPO)
                r_ = subprocess.run([sys.executable, "-W", "ignore", "-c", prog], stdout=subprocess.PIPE, stderr=subprocess.STDOUT, text=True, env=env_, timeout=600)
                if r_.returncode != 0 or "ERR" not in r_.stdout:
                    V.fail("fast_matvec[cpp]: an order-1 product kills the interpreter / fails", dict(desc, exit_status=r_.returncode, output=r_.stdout[-300:], program=prog)); continue
            try:
                for name, flag in (("cpp", True), ("python", False)):
                    torch.manual_seed(sd)
                    y = A.fast_matvec(x, eps=eps, initial=guess, nswp=nswp, use_cpp=flag)
                    if history.wf_failures(y) or [int(v) for v in y.N] != M: V.fail("fast_matvec[%s]: result has the wrong shape" % name, desc); raise StopIteration
                    ys[name] = float((y.full() - ex).norm())
                    if not (ys[name] <= 30.0 * eps * nrm + (2e-5 if single else 1e-11) * nrm): V.fail("fast_matvec[%s]: error exceeds 30*eps" % name, dict(desc, rel_err=ys[name] / nrm))
                    if y.cores[0].dtype != fdt: V.fail("fast_matvec[%s]: dtype changed" % name, desc)
            except StopIteration:
                continue
            except Exception as ex_:
                V.fail("fast_matvec[%s] raises %s" % (name, type(ex_).__name__), dict(desc, exc=str(ex_)[:200])); continue
        dist[key] = dist.get(key, 0) + 1
        if i % 8 == 0 and len(samples) < 5: samples.append(desc)
        bad = solverkit.intact(snaps, list(ops.values()))
        if bad: V.fail("%s (some backend) modified an operand: %s" % (which, bad[0].split(":")[0]), dict(desc, differences=bad))
    # ---- warm start whose bases are blind to a part of the product (tight eps): operator I + 0.3 P with P block diagonal in every mode (indices 0..2 and
    # 3..5 do not mix), first y_u = A x_u for x_u on the first block, then A (x_u + x_v) with initial = round(y_u): only the LAST supercore sees A x_v in
    # the first sweep (through the kick of the left bases) - a convergence test that skips a supercore stops there. Both backends, error <= 30 eps.
    rng_w = random.Random(seed + 83)
    for j in range(2 if tier == "quick" else 12):
        d_, n_, h_ = rng_w.choice([4, 5]), 6, 3; eps = 1e-10
        sd = rng_w.randrange(1 << 30); torch.manual_seed(sd)
        desc = {"routine": "fast_matvec", "family": "warm start blind to a block of the product", "d": d_, "n": n_, "eps": eps, "torch_seed": sd}
        try:
            RA = [1] + [2] * (d_ - 1) + [1]
            def bd(r1, r2):
                c = torch.zeros(r1, n_, n_, r2, dtype=dt); c[:, :h_, :h_, :] = torch.randn(r1, h_, h_, r2, dtype=dt); c[:, h_:, h_:, :] = torch.randn(r1, n_ - h_, n_ - h_, r2, dtype=dt); return c
            def part(lo, hi):
                cs = []
                for i_ in range(d_):
                    c = torch.zeros(RA[i_], n_, RA[i_ + 1], dtype=dt); c[:, lo:hi, :] = torch.randn(RA[i_], hi - lo, RA[i_ + 1], dtype=dt); cs.append(c)
                return torchtt.TT(cs)
            P_ = torchtt.TT([bd(RA[i_], RA[i_ + 1]) for i_ in range(d_)])
            A = torchtt.eye([n_] * d_, dtype=dt) + P_ * (0.3 / P_.norm())
            xu, xv = part(0, h_), part(h_, n_); x = xu + xv
            ex = (A @ x).full(); nrm = float(ex.norm())
            for name, flag in (("cpp", True), ("python", False)):
                torch.manual_seed(sd + 1)
                yu = A.fast_matvec(xu, eps=eps, use_cpp=flag).round(1e-12)
                torch.manual_seed(sd + 2)
                y = A.fast_matvec(x, eps=eps, initial=yu, use_cpp=flag)
                err = float((y.full() - ex).norm())
                if not (err <= 30.0 * eps * nrm + 1e-11 * nrm): V.fail("fast_matvec[%s]: error exceeds 30*eps from a warm start that is blind to a block of the product" % name, dict(desc, rel_err=err / nrm))
            dist["fast_matvec warm start blind to a block"] = dist.get("fast_matvec warm start blind to a block", 0) + 1
        except Exception as ex_:
            V.fail("fast_matvec with a block-blind warm start raises %s" % type(ex_).__name__, dict(desc, exc=str(ex_)[:200]))
    # dispatch correspondence: which backend is entered, for every (use_cpp, order, preconditioner), against Model/CppRank.v (dispatch_solve, dispatch_matvec)
    import torchtt._dmrg as DMm, torchtt.solvers as SVm
    class _Proxy:
        def __init__(self, real): self.real = real; self.calls = []
        def dmrg_mv(self, *a_, **k_):
            self.calls.append(("dmrg_mv", None))
            if len(a_[3]) < 2: raise RuntimeError("entered")          # the compiled sweep is not run on a single core (it faults): the selection is what is recorded
            return self.real.dmrg_mv(*a_, **k_)
        def amen_solve(self, *a_, **k_): self.calls.append(("amen_solve", a_[-1])); return self.real.amen_solve(*a_, **k_)
        def __getattr__(self, nm): return getattr(self.real, nm)
    obs, exprs, labels = [], [], []
    pcode = {None: "PNone", "c": "PC", "r": "PR", "x": "POther"}
    prox = _Proxy(torchttcpp); old = (DMm.torchttcpp, SVm.torchttcpp); DMm.torchttcpp = prox; SVm.torchttcpp = prox
    try:
        for use in (True, False):
            for d_ in (1, 2, 3):
                Nn = [3] * d_
                A_ = solverkit.rand_ttm_float(rng, Nn, Nn, [1] + [2] * (d_ - 1) + [1], dt); x_ = solverkit.rand_tt_float(rng, Nn, [1] + [2] * (d_ - 1) + [1], dt)
                prox.calls = []
                try: A_.fast_matvec(x_, use_cpp=use); o_ = 1 if prox.calls else 0
                except Exception: o_ = 1 if prox.calls else 9
                obs.append([o_]); labels.append("fast_matvec use_cpp=%s order=%d" % (use, d_))
                exprs.append("[backend_code (dispatch_matvec true %s %d)]" % ("true" if use else "false", d_))
            for pr_ in (None, "c", "r", "x"):
                A_ = torchtt.eye([3, 3], dtype=dt) * 2.0; b_ = solverkit.rand_tt_float(rng, [3, 3], [1, 2, 1], dt)
                prox.calls = []
                try:
                    torchtt.solvers.amen_solve(A_, b_, preconditioner=pr_, use_cpp=use, verbose=False, nswp=3)
                    o_ = (1 + int(prox.calls[0][1])) if prox.calls else 0
                except Exception as ex_:
                    o_ = 9 if type(ex_).__name__ == "InvalidArguments" and not prox.calls else 8
                if not use and pr_ == "x": continue            # the Python solver's handling of an unknown preconditioner is C18's business
                obs.append([o_]); labels.append("amen_solve use_cpp=%s preconditioner=%r" % (use, pr_))
                exprs.append("[backend_code (dispatch_solve true %s %s)]" % ("true" if use else "false", pcode[pr_]))
    finally:
        DMm.torchttcpp, SVm.torchttcpp = old
    try:
        mres = coqrun.eval_nat_lists("C17_disp", "From TT Require Import CppRank.", "", exprs)
        for lab, o_, m_ in zip(labels, obs, mres):
            if o_ != m_: V.fail("dispatch differs from the model: %s" % lab, {"case": lab, "observed_backend_code": o_, "model_backend_code": m_})
        dist["dispatch rows"] = len(labels)
    except Exception as ex_:
        V.fail("dispatch correspondence: the model could not be evaluated", {"exc": str(ex_)[:300]}, failing_input=False)
    # dispatch: an invalid preconditioner raises with the extension, use_cpp=False never reaches it
    A, b, N, kind = c12.gen_system(rng, torch, torchtt)
    try:
        torchtt.solvers.amen_solve(A, b, preconditioner="x", verbose=False, use_cpp=True, nswp=2)
        V.fail("dispatch: an unknown preconditioner is accepted by the C++ path", {"N": N})
    except Exception as ex:
        if type(ex).__name__ != "InvalidArguments": V.fail("dispatch: unknown preconditioner raises %s" % type(ex).__name__, {"N": N})
    nviol = V.finish()
    cov = proofcheck.coverage(PID, obl, evaluations=n, distinct_nontrivial=len(dist),
        rule=("the extension is built from /repo/cpp as it is now (-std=c++20 -O2, cached by the hash of the sources) and put on sys.path; amen_solve on the C12 families (SPD, "
              "diagonally dominant, Laplacian-like; preconditioner None/'c'/'r'; with and without guess) and fast_matvec on random operands run through BOTH backends from the same "
              "seed: each must meet its contract (50*eps residual / 30*eps error), the solutions must agree within 1e3*eps, results must be well formed, operands bitwise intact; "
              "fast_matvec also on complex128 / float32 / complex64 operands and on order-1 operands, amen_solve also from guesses orthogonal to a one-hot b; "
              "the backend actually entered (proxy around the extension module) is compared with Model/CppRank.v for every (use_cpp, order 1..3) and (use_cpp, preconditioner) row"),
        samples=samples, distribution=dist, extension=os.path.basename(os.path.dirname(lib)), build=blog[-200:] if blog.startswith("cached") else "built", known_findings_reproduced=V.known_hit,
        partial=["the C++ AMEn / DMRG bodies are a second implementation: convergence is measured, not proved; proved: agreement of the C++ rank-selection loop with the Python rule on a "
                 "stated bounded domain (kernel evaluation), their difference at eps <= 0, totality of the dispatch"])
    common.write_evidence(PID, tier, seed, cov, time.time() - t0, nviol, common.TRUSTED_BASE + ["g++ / the C++ toolchain and the pybind glue: used, not verified"])
    return 1 if nviol else 0
