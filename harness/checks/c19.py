"""C19 - Copies and save/load round-trips reproduce the object exactly."""
import time, random, json, os, tempfile
import numpy as np
import common, coqrun, proofcheck, history, ttgen

PID = "C19"

def gen_obj(rng, torch, torchtt):
    dtype = rng.choice([torch.float64, torch.float32, torch.complex128, torch.complex64])
    kind = rng.choice(["cores", "cores", "svd", "svd-op", "sliced", "sliced-op", "sliced-op-int", "used-as-operand", "transposed", "arith", "mirror-views", "windows"])
    d = rng.choice([1, 2, 3, 4, 5, 6])
    if kind == "mirror-views":           # a mirror-symmetric train: cores 3, 4 are permuted VIEWS of cores 2, 1 - same storage address, same shape, other strides
        n1, n2, r_ = rng.choice([2, 3]), rng.choice([2, 3]), rng.choice([2, 3])
        x0 = history.rand_tt(rng, dtype, N=[n1, n2], rmax=r_)
        rn_ = lambda *shp: torch.tensor(np.array([rng.gauss(0, 1) for _ in range(int(np.prod(shp)))]).reshape(shp), dtype=torch.float64)      # (drawn from the run's own stream: reproducible)
        g1 = x0.cores[0]; g2 = rn_(g1.shape[2], n2, g1.shape[2]).to(dtype)
        return torchtt.TT([g1, g2, g2.permute(2, 1, 0), g1.permute(2, 1, 0)]), kind
    if kind == "windows":                # two same-shaped windows of one buffer that start at the same address
        n_, r_ = rng.choice([2, 3]), rng.choice([2, 3])
        rn_ = lambda *shp: torch.tensor(np.array([rng.gauss(0, 1) for _ in range(int(np.prod(shp)))]).reshape(shp), dtype=torch.float64)
        buf = rn_(r_, 2 * n_, r_).to(dtype)
        first = rn_(1, 2, r_).to(dtype); last = rn_(r_, 2, 1).to(dtype)
        return torchtt.TT([first, buf[:, ::2, :], buf[:, :n_, :], last]), kind
    if kind == "cores":
        o_ = history.rand_tt(rng, dtype, ttm=rng.random() < 0.4, d=d)
        if dtype.is_complex and rng.random() < 0.4:                                 # lazily conjugated core views (conj() of a complex object), order 1 included
            return o_.conj(), "conjugated"
        return o_, kind
    if kind in ("svd", "svd-op"):
        N = [rng.choice([1, 2, 3]) for _ in range(d if kind == "svd" else 2 * min(d, 3))]
        A = np.zeros(N)
        for _ in range(rng.choice([1, 2])):          # exactly low rank: the ranks are then chosen by rank_chop's argmax (numpy integers)
            t = np.array(1.0)
            for n_ in N: t = np.multiply.outer(t, np.array([rng.gauss(0, 1) for _ in range(n_)]))
            A = A + t
        A = torch.tensor(A).to(dtype)
        npints = rng.random() < 0.4                                                  # mode sizes given as numpy integers (shapes computed with numpy)
        if kind == "svd":
            return (torchtt.TT(A, list(np.array(N, dtype=np.int64)), eps=1e-6) if npints else torchtt.TT(A, eps=1e-6)), kind + ("-npshape" if npints else "")   # R holds numpy integers
        h = len(N) // 2
        sh = [(N[j], N[h + j]) for j in range(h)]
        if npints: sh = [(np.int64(a), np.int64(b)) for a, b in sh]
        return torchtt.TT(A, sh, eps=1e-6), kind + ("-npshape" if npints else "")
    if kind == "sliced":                                                             # non-contiguous core views
        x = history.rand_tt(rng, dtype, N=[rng.choice([3, 4, 5]) for _ in range(max(d, 1))])
        return x[tuple(slice(rng.choice([0, 1]), None, rng.choice([1, 2])) for _ in x.N)], kind
    if kind == "sliced-op":
        A = history.rand_tt(rng, dtype, ttm=True, N=[3, 4][:max(1, min(d, 2))], M=[4, 3][:max(1, min(d, 2))])
        k = len(A.N)
        return A[tuple([slice(0, None, 2)] * k + [slice(1, None, 1)] * k)], kind
    if kind == "sliced-op-int":                                                      # an integer row/column pair removes a mode pair of an operator
        A = history.rand_tt(rng, dtype, ttm=True, N=[3, 2, 4], M=[2, 3, 2])
        return A[(slice(None), 1, slice(None), slice(None), 0, slice(None))], kind
    if kind == "used-as-operand":                                                    # an over-ranked object after read-only use (reshape / permute / round of it)
        x = history.rand_tt(rng, dtype, N=[2, 3, 2, 3], rmax=9)
        x = torchtt.TT([c.clone() for c in x.cores])
        try:
            torchtt.reshape(x, [6, 6]); torchtt.permute(x, [1, 0, 3, 2]); x.round(1e-10)
        except Exception:
            pass
        return x, kind
    if kind == "transposed":
        return history.rand_tt(rng, dtype, ttm=True, d=min(d, 3)).t(), kind       # permuted (non-contiguous) cores
    x = history.rand_tt(rng, dtype, d=d)
    return (x + x) * 2.0, kind

def core_bytes(c):
    return c.detach().cpu().resolve_conj().resolve_neg().contiguous().numpy().tobytes()

def run(tier, seed, replay=None):
    import torch, torchtt
    t0 = time.time()
    rng = random.Random(seed)
    V = common.Verdict(PID)
    ok_make, obl = proofcheck.obligations(PID, V)
    n = 250 if tier == "quick" else 4000
    dist, samples, exprs, metas = {}, [], [], []
    with tempfile.TemporaryDirectory() as td:
        for i in range(n):
            x, kind = gen_obj(rng, torch, torchtt)
            if i in (3, 7, 11):                 # engineered: the conjugate of an order-1 complex tensor / operator (full() is a lazily conjugated view of the single core)
                x = history.rand_tt(random.Random(1234 + i), [torch.complex128, torch.complex64, torch.complex128][(i - 3) // 4], ttm=i == 7, d=1).conj(); kind = "conjugated"
            if i in (5, 13, 17):                # engineered: real cores that carry torch's lazy NEGATIVE bit (the imaginary part of a conjugated view), order 1 and 2
                z_ = history.rand_tt(random.Random(4321 + i), torch.complex128, ttm=i == 13, d=1 if i != 17 else 2).conj()
                x = torchtt.TT([c.imag for c in z_.cores]); kind = "negative-bit views"
            dist[kind] = dist.get(kind, 0) + 1
            desc = {"kind": kind, "ttm": bool(x.is_ttm), "N": [int(v) for v in x.N], "R": [int(v) for v in x.R], "dtype": str(x.cores[0].dtype),
                    "contiguous": [bool(c.is_contiguous()) for c in x.cores], "R_types": sorted(set(type(r).__name__ for r in x.R))}
            if i % 50 == 0 and len(samples) < 5: samples.append(desc)
            snap = history.Snap(x)
            f = os.path.join(td, "o%d.TT" % i) if i % 4 else os.path.join(td, "shared.TT")     # every fourth object goes through ONE path: load reads the file as it is now
            try:
                torchtt.save(x, f); y = torchtt.load(f)
                if i % 8 == 0:                  # what load returned is the caller's: editing it must not reach the next load of the same file
                    with torch.no_grad(): y.cores[0].mul_(2)
                    y = torchtt.load(f)
            except Exception as ex:
                V.fail("save/load raises %s [%s]" % (type(ex).__name__, kind), dict(desc, exc=str(ex)[:200])); continue
            finally:
                if os.path.exists(f): os.remove(f)
            bad = []
            if bool(y.is_ttm) != bool(x.is_ttm): bad.append("kind")
            if [int(v) for v in y.N] != [int(v) for v in x.N] or history.Mof(y) != history.Mof(x): bad.append("N/M")
            if [int(v) for v in y.R] != [int(v) for v in x.R]: bad.append("R")
            if list(y.shape) != list(x.shape): bad.append("shape")
            if len(y.cores) != len(x.cores) or any(a.dtype != b.dtype or a.shape != b.shape or core_bytes(a) != core_bytes(b) for a, b in zip(x.cores, y.cores)): bad.append("cores not bit-identical")
            bad += history.wf_failures(y)
            if bad: V.fail("load(save(x)) differs: %s [%s]" % (bad[0][:50], kind), dict(desc, differences=bad))
            # the model: load re-derives the descriptor from the cores
            exprs.append("match load (save (derive (combine %s (seq 0 %d)))) with inr y => enc_obj y | inl _ => [] end" % (history.shlist_coq(x), len(x.cores)))
            metas.append((desc, history.encode_obj(y)))
            # copies
            for name, mk in (("clone", lambda: x.clone()), ("detach", lambda: x.detach()), ("cpu", lambda: x.cpu()),
                             ("to", lambda: (lambda tgt: rng.choice([lambda: x.to(dtype=tgt), lambda: x.to("cpu", tgt), lambda: x.to(device="cpu", dtype=tgt),
                                                                           lambda: x.to(None, tgt), lambda: x.to(torch.device("cpu"), dtype=tgt)])())(torch.complex128 if x.cores[0].dtype.is_complex else torch.float64)),
                             ("numpy", lambda: x.numpy())):
                try:
                    z = mk()
                except Exception as ex:
                    V.fail("%s raises %s [%s]" % (name, type(ex).__name__, kind), dict(desc, exc=str(ex)[:200])); continue
                ref = ttgen.ref_full([c.detach().resolve_conj().resolve_neg().numpy() for c in x.cores])
                if name == "numpy":
                    got = np.asarray(z)
                    sp_ = x.cores[0].dtype in (torch.float32, torch.complex64); big_ = float(np.abs(ref).max()) if ref.size else 0.0
                    okv = got.shape == ref.shape and np.allclose(got, ref, rtol=1e-5 if sp_ else 1e-12, atol=(1e-5 if sp_ else 1e-12) * max(1.0, big_))     # (an entry that is the difference of large terms carries the round-off of the large ones)
                else:
                    zc = [c.detach().resolve_conj().resolve_neg().numpy() for c in z.cores]
                    okv = (len(zc) == len(x.cores) and all(a.shape == tuple(b.shape) for a, b in zip(zc, x.cores))
                           and all(np.array_equal(a, b.detach().resolve_conj().resolve_neg().numpy().astype(a.dtype)) for a, b in zip(zc, x.cores))
                           and not history.wf_failures(z) and [int(v) for v in z.R] == [int(v) for v in x.R]
                           and [int(v) for v in z.N] == [int(v) for v in x.N] and history.Mof(z) == history.Mof(x) and list(z.shape) == list(x.shape) and bool(z.is_ttm) == bool(x.is_ttm))
                    if name == "to" and str(z.cores[0].dtype) != ("torch.complex128" if x.cores[0].dtype.is_complex else "torch.float64"): okv = False
                    if name != "to" and z.cores[0].dtype != x.cores[0].dtype: okv = False
                    if name == "clone":
                        px = set(c.untyped_storage().data_ptr() for c in x.cores)
                        if any(c.untyped_storage().data_ptr() in px for c in z.cores):
                            V.fail("clone shares storage with the original [%s]" % kind, desc)
                if not okv: V.fail("%s does not reproduce the value / metadata [%s]" % (name, kind), desc)
                if name != "numpy":          # the copy is an object of its own: the documented in-place edit of the copy (a core with another mode size) leaves the original as it is
                    try:
                        k_ = rng.randrange(len(z.cores)); shp_ = list(z.cores[k_].shape); shp_[-2] += 1
                        z.set_core(k_, torch.ones(shp_, dtype=z.cores[k_].dtype))
                        d2_ = snap.diff(x) + history.wf_failures(x)
                        if d2_: V.fail("set_core on the result of %s changes the original (%s)" % (name, d2_[0].split(":")[0][:60]), dict(desc, differences=d2_[:3]))
                    except Exception as ex:
                        V.fail("set_core on the result of %s raises %s" % (name, type(ex).__name__), dict(desc, exc=str(ex)[:200]))
            d_ = snap.diff(x)
            if d_: V.fail("operand changed by save/load/copies: %s" % d_[0], dict(desc, differences=d_))
            # copies of objects whose cores are tracked by autograd: a watched leaf, and the result of an operation on it (non-leaf cores).
            # detach / clone return the same value; detach's result is outside the graph while the ORIGINAL stays watched
            if not x.cores[0].dtype.is_complex and x.cores[0].dtype.is_floating_point and i % 3 == 0:
                xw = torchtt.TT([c.clone() for c in x.cores]); torchtt.grad.watch(xw)
                derived = xw * 2.0 if len(xw.cores) else xw
                for nm_, src_ in (("watched leaf", xw), ("result of an operation on a watched object", derived)):
                    for cp_ in ("detach", "clone"):
                        try:
                            z_ = src_.detach() if cp_ == "detach" else src_.clone()
                            same = all(torch.equal(a_.detach(), b_.detach()) for a_, b_ in zip(z_.cores, src_.cores)) and not history.wf_failures(z_)
                            if not same: V.fail("%s of a %s does not reproduce the value [%s]" % (cp_, nm_, kind), desc)
                            if cp_ == "detach" and any(c.requires_grad for c in z_.cores): V.fail("detach of a %s returns cores that are still tracked [%s]" % (nm_, kind), desc)
                            if not all(c.requires_grad for c in src_.cores): V.fail("%s of a %s switched the tracking of the ORIGINAL off [%s]" % (cp_, nm_, kind), desc)
                        except Exception as ex:
                            V.fail("%s of a %s raises %s [%s]" % (cp_, nm_, type(ex).__name__, kind), dict(desc, exc=str(ex)[:200]))
                dist["copies of tracked objects"] = dist.get("copies of tracked objects", 0) + 1
    n_ok = 0
    if ok_make:
        res = coqrun.eval_nat_lists("C19_m", "From TT Require Import Core Meta.", "", exprs, shard=60)
        for (desc, impl), m in zip(metas, res):
            # storage ids differ (fresh vs seq 0): compare everything but nothing depends on ids in enc_obj
            if m != impl: V.fail("correspondence(model/impl) descriptor of load(save(x))", dict(desc, impl=impl, model=m), failing_input=False)
            else: n_ok += 1
    nviol = V.finish()
    cov = proofcheck.coverage(PID, obl, evaluations=n, distinct_nontrivial=len(set(json.dumps(m[0], sort_keys=True) for m in metas)),
        rule=("objects of order 1..6 built from cores, by TT-SVD (rank lists holding numpy integers), by slicing tensors and operators with steps (non-contiguous core views), by "
              "transposition (permuted cores) and by arithmetic, in float64/float32/complex128/complex64; each is written to a real file with torchtt.save and read back with "
              "torchtt.load: kind, N, M, R (compared as numbers), shape, dtype and bit-identical cores (tobytes) are compared, the loaded object is checked for well-formedness and "
              "against the Coq model of load(save(x)); clone/detach/cpu/to/numpy values, dtypes and (clone) storage disjointness are checked, and the original must stay untouched; "
              "non-trivial/distinct = distinct object descriptions"),
        samples=samples, distribution=dist, model_agreements=n_ok, known_findings_reproduced=V.known_hit)
    common.write_evidence(PID, tier, seed, cov, time.time() - t0, nviol, common.TRUSTED_BASE + ["torch.save / torch.load of a dictionary of tensors: modelled as the identity (the only statement about pickling), checked bit-for-bit on real files"])
    return 1 if nviol else 0
