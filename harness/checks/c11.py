"""C11 - DMRG and AMEn products approximate the exact product within eps."""
import time, random, json, math
import numpy as np
import common, coqrun, proofcheck, history, solverkit
from checks.c01 import exact_scaled, model_rank_exprs, IMPORTS

PID = "C11"
CONST = 30.0          # "a small constant times eps"

def run(tier, seed, replay=None):
    import torch, torchtt
    import torchtt._dmrg as DM, torchtt._amen as AM
    t0 = time.time()
    rng = random.Random(seed)
    V = common.Verdict(PID)
    ok_make, obl = proofcheck.obligations(PID, V)
    n = 90 if tier == "quick" else 1500
    dist, samples, replay_cases, replay_meta = {}, [], [], []
    n_thr = n_tie = 0
    for i in range(n):
        routine = rng.choice(["fast_matvec", "fast_matvec", "dmrg_hadamard", "dmrg_hadamard", "amen_mv", "amen_mm"])
        d = rng.choice([1, 2, 2, 3, 3, 4, 5, 6])
        cplx = routine in ("fast_matvec", "dmrg_hadamard") and rng.random() < 0.2
        dtype = torch.complex128 if cplx else torch.float64
        N = [rng.choice([1, 2, 3, 4, 5, 6]) for _ in range(d)]
        M = [rng.choice([1, 2, 3, 4, 5]) for _ in range(d)]
        singleton = d >= 3 and rng.random() < 0.3          # an interior mode of size 1: only enrichment / the random kick can raise the ranks across it
        if singleton:
            kk = rng.randrange(1, d - 1); N[kk] = 1; M[kk] = 1
        decay = rng.random() < 0.4 and not singleton
        eps = rng.choice([1e-12, 1e-10, 1e-8, 1e-6, 1e-4, 1e-2, 1e-1])
        rk = (lambda: [1] + [rng.randint(2, 3) for _ in range(d - 1)] + [1]) if singleton else (lambda: solverkit.ranks(rng, d, rng.choice([1, 2, 3, 4])))
        if i in (4, 5, 6, 7, 8, 9):              # engineered: AMEn products of operands whose cores all have a large / small scale
            routine = "amen_mv" if i % 2 == 0 else "amen_mm"; d = rng.choice([3, 4]); N = [rng.choice([2, 3, 4]) for _ in range(d)]; M = [rng.choice([2, 3]) for _ in range(d)]
            singleton = False; cplx = False; dtype = torch.float64; eps = rng.choice([1e-4, 1e-6]); decay = True      # decaying spectra: the truncation really cuts something
            rk = lambda: solverkit.ranks(rng, d, rng.choice([3, 4]))
        if decay and rng.random() < 0.4:
            decay = 1e-3                         # steep spectra (1, 1e-3, 1e-6, 1e-9 per bond): components far below sqrt(machine eps) are genuine data for a tight eps
        uneven = (i < 4 or 20 <= i < 26) if tier == "quick" else (i < 4 or 20 <= i < 76)          # bonds that converge at different sweeps: high product ranks inside, a low-rank last bond
        if uneven:
            routine = "dmrg_hadamard" if i % 2 == 0 else "fast_matvec"
            N = rng.choice([[4, 4, 4, 4, 2], [5, 4, 3, 3, 2], [6, 5, 3, 2, 2, 2], [4, 4, 4, 3, 2]]); d = len(N); M = list(N)
            singleton = False; decay = False; cplx = i % 4 == 2; dtype = torch.complex128 if cplx else torch.float64
            eps = rng.choice([1e-10, 1e-8])
            rk = lambda: [1] + [4] * (d - 2) + [rng.choice([1, 2]), 1]
        sd = rng.randrange(1 << 30); torch.manual_seed(sd)
        desc = {"routine": routine, "d": d, "N": N, "M": M, "eps": eps, "decay": decay, "dtype": str(dtype), "torch_seed": sd, "interior_singleton_mode": singleton}
        rk_kw = {"rmax": np.int64(512)} if i % 5 == 2 else ({"rmax": 512} if i % 5 == 3 else {})       # the documented rank cap, as a python or a numpy integer (it does not bind)
        if rk_kw: desc["rmax"] = type(rk_kw["rmax"]).__name__; dist["rmax given as " + desc["rmax"]] = dist.get("rmax given as " + desc["rmax"], 0) + 1
        if routine in ("fast_matvec", "amen_mv"):
            A = solverkit.rand_ttm_float(rng, M, N, rk(), dtype, decay, cplx); x = solverkit.rand_tt_float(rng, N, rk(), dtype, decay, cplx)
            guess = solverkit.rand_tt_float(rng, M, rk(), dtype, False, cplx) if rng.random() < 0.35 else None
            ops = {"A": A, "x": x}
            exact = A @ x
            call = (lambda: A.fast_matvec(x, eps=eps, initial=guess, nswp=40, use_cpp=False)) if routine == "fast_matvec" else (lambda: torchtt.amen_mv(A, x, eps=eps, x0=guess, nswp=40, **rk_kw))
            want_N, want_M = M, None
        elif routine == "dmrg_hadamard":
            x = solverkit.rand_tt_float(rng, N, rk(), dtype, decay, cplx); y = solverkit.rand_tt_float(rng, N, rk(), dtype, decay, cplx)
            guess = solverkit.rand_tt_float(rng, N, rk(), dtype, False, cplx) if rng.random() < 0.35 else None
            ops = {"x": x, "y": y}; exact = x * y
            call = lambda: torchtt.dmrg_hadamard(x, y, guess, eps=eps, nswp=40, **rk_kw)
            want_N, want_M = N, None
        else:
            K = [rng.choice([1, 2, 3]) for _ in range(d)]
            if singleton: K[kk] = 1
            A = solverkit.rand_ttm_float(rng, M, K, solverkit.ranks(rng, d, 3), dtype, decay); B = solverkit.rand_ttm_float(rng, K, N, solverkit.ranks(rng, d, 3), dtype, decay)
            guess = solverkit.rand_ttm_float(rng, M, N, solverkit.ranks(rng, d, 2), dtype) if rng.random() < 0.35 else None
            ops = {"A": A, "B": B}; exact = A @ B
            call = lambda: torchtt.amen_mm(A, B, eps=eps, X0=guess, nswp=40, **rk_kw)
            want_N, want_M = N, M
        nulldir = False
        if i in (14, 15, 16, 17) and not uneven:
            # engineered: the operator annihilates the dominant part of x (A = B o (I - 11^T/n) on the first mode, x = 1 (x) w + delta v with delta < eps):
            # the contract is relative to ||A x||, not to ||x||
            nulldir = True; routine = "fast_matvec" if i % 2 == 0 else "amen_mv"; d = 3; N = [rng.choice([3, 4]) for _ in range(d)]; M = list(N)
            dtype = torch.float64; cplx = False; singleton = False; decay = False; eps = [1e-2, 1e-3, 1e-4, 1e-3][i - 14]; delta = eps / 10.0
            Bop = solverkit.rand_ttm_float(rng, M, N, [1, 2, 2, 1], dtype)
            Pc = torchtt.TT([(torch.eye(N[0], dtype=dtype) - torch.ones(N[0], N[0], dtype=dtype) / N[0]).reshape(1, N[0], N[0], 1)] + [torch.eye(n_, dtype=dtype).reshape(1, n_, n_, 1) for n_ in N[1:]])
            A = (Bop @ Pc).round(1e-14)
            wv = solverkit.rand_tt_float(rng, N[1:], [1, 2, 1], dtype)
            x = torchtt.TT([torch.ones(1, N[0], 1, dtype=dtype)] + [c.clone() for c in wv.cores]) + delta * solverkit.rand_tt_float(rng, N, [1, 2, 2, 1], dtype)
            guess = None; ops = {"A": A, "x": x}; exact = A @ x; want_N, want_M = M, None
            call = (lambda A=A, x=x: A.fast_matvec(x, eps=eps, nswp=40, use_cpp=False)) if routine == "fast_matvec" else (lambda A=A, x=x: torchtt.amen_mv(A, x, eps=eps, nswp=40))
            desc.update(routine=routine, d=d, N=N, M=M, eps=eps, null_direction=True, delta=delta, decay=False, dtype=str(dtype))
        if i in (18, 19) and not uneven:
            # engineered: AMEn products of operands that are sums of 4 normalised rank-one terms with weights 0.02^j (product weights down to 6e-11), tight eps:
            # everything above eps has to be kept, ranks far from saturating the mode sizes
            nulldir = True; routine = "amen_mv" if i == 18 else "amen_mm"; d = 4; M = [5, 4, 6, 5]; K_ = [4, 6, 5, 4]; N = [3, 4, 3, 5]
            dtype = torch.float64; cplx = False; singleton = False; decay = False; eps = rng.choice([1e-10, 1e-12])
            def cpdec(shape):
                cs = []
                for k_, n_ in enumerate(shape):
                    n_ = list(n_) if isinstance(n_, tuple) else [n_]
                    r1_ = 1 if k_ == 0 else 4; r2_ = 1 if k_ == d - 1 else 4
                    c_ = np.zeros([r1_] + n_ + [r2_])
                    for j_ in range(4):
                        v_ = np.array([rng.gauss(0, 1) for _ in range(int(np.prod(n_)))]).reshape(n_); v_ = v_ / np.linalg.norm(v_)
                        if k_ == 0: v_ = v_ * 0.02 ** j_
                        c_[(min(j_, r1_ - 1),) + (slice(None),) * len(n_) + (min(j_, r2_ - 1),)] += v_
                    cs.append(torch.tensor(c_, dtype=dtype))
                return torchtt.TT(cs)
            A = cpdec([(m_, k_) for m_, k_ in zip(M, K_)]); guess = None
            if routine == "amen_mv":
                x = cpdec(K_); ops = {"A": A, "x": x}; exact = A @ x; want_N, want_M = M, None
                call = lambda A=A, x=x: torchtt.amen_mv(A, x, eps=eps, nswp=40)
            else:
                B = cpdec([(k_, n_) for k_, n_ in zip(K_, N)]); ops = {"A": A, "B": B}; exact = A @ B; want_N, want_M = N, M
                call = lambda A=A, B=B: torchtt.amen_mm(A, B, eps=eps, nswp=40)
            desc.update(routine=routine, d=d, N=N, M=M, eps=eps, cp_decay=0.02, decay=False, dtype=str(dtype))
        nswp = 40
        if routine in ("fast_matvec", "dmrg_hadamard") and d >= 2 and not uneven and not nulldir and rng.random() < 0.12:
            # a warm start (the exact product) with a sweep budget that is used up: the last sweep's no-kick branch decides the result
            guess = exact.round(1e-13); nswp = rng.choice([1, 2, 3]); desc["nswp"] = nswp
            if routine == "fast_matvec": call = (lambda A=A, x=x, g=guess, nswp=nswp: A.fast_matvec(x, eps=eps, initial=g, nswp=nswp, use_cpp=False))
            else: call = (lambda x=x, y=y, g=guess, nswp=nswp: torchtt.dmrg_hadamard(x, y, g, eps=eps, nswp=nswp))
        if guess is not None: ops["guess"] = guess
        desc["guess"] = guess is not None
        single = False
        if routine in ("fast_matvec", "dmrg_hadamard") and nswp == 40 and not uneven and not nulldir and rng.random() < 0.12:
            # single-precision operands: a tolerance below what the dtype can certify (the default eps included) makes the sweeps run out
            single = True
            sdt = torch.complex64 if cplx else torch.float32
            cast = lambda t: torchtt.TT([c.to(sdt) for c in t.cores])
            ops = {k_: cast(v_) for k_, v_ in ops.items()}
            eps = rng.choice([1e-12, 1e-10, 1e-4]); desc["eps"] = eps; desc["dtype"] = str(sdt); dtype = sdt
            if routine == "fast_matvec":
                A, x = ops["A"], ops["x"]; exact = A @ x
                call = (lambda A=A, x=x, g=ops.get("guess"): A.fast_matvec(x, eps=eps, initial=g, nswp=40, use_cpp=False))
            else:
                x, y = ops["x"], ops["y"]; exact = x * y
                call = (lambda x=x, y=y, g=ops.get("guess"): torchtt.dmrg_hadamard(x, y, g, eps=eps, nswp=40))
        if i in (10, 11, 12, 13) and not uneven:
            # structured operands with exact zeros: identity / shift operators, vectors with a zero at index 0 of the last mode (interfaces of norm exactly zero)
            d = rng.choice([2, 3]); N = [rng.choice([3, 4]) for _ in range(d)]; M = list(N); dtype = torch.float64; cplx = False; singleton = False
            eye_ = torchtt.eye(N, dtype=dtype)
            sh_c = lambda n_: torch.diag(torch.ones(n_ - 1, dtype=dtype), -1).reshape(1, n_, n_, 1)
            shift = torchtt.TT([sh_c(n_) for n_ in N])
            xv = solverkit.rand_tt_float(rng, N, solverkit.ranks(rng, d, 2), dtype)
            cs_ = [c.clone() for c in xv.cores]; cs_[-1][:, 0, :] = 0.0; xz = torchtt.TT(cs_)
            e_hot = torchtt.TT([torch.eye(n_, dtype=dtype)[0].reshape(1, n_, 1) for n_ in N])
            which_ = i - 10
            if which_ == 0: routine = "amen_mv"; A, x = eye_, xz; ops = {"A": A, "x": x}; exact = A @ x; guess = None; call = lambda A=A, x=x: torchtt.amen_mv(A, x, eps=eps, nswp=40)
            elif which_ == 1: routine = "amen_mm"; A, B = shift, shift; ops = {"A": A, "B": B}; exact = A @ B; guess = None; call = lambda A=A, B=B: torchtt.amen_mm(A, B, eps=eps, nswp=40)
            elif which_ == 2: routine = "amen_mv"; A, x = shift, e_hot; guess = e_hot.clone(); ops = {"A": A, "x": x, "guess": guess}; exact = A @ x; call = lambda A=A, x=x, g=guess: torchtt.amen_mv(A, x, eps=eps, x0=g, nswp=40)
            else: routine = "fast_matvec"; A, x = eye_, xz; ops = {"A": A, "x": x}; exact = A @ x; guess = None; call = lambda A=A, x=x: A.fast_matvec(x, eps=eps, nswp=40, use_cpp=False)
            want_N, want_M = (N, None) if routine != "amen_mm" else (N, N)
            desc.update(routine=routine, d=d, N=N, M=M, structured=True, guess=guess is not None)
            nswp = 40; single = False
        force_cs = (not uneven) and i in (4, 5, 6, 7, 8, 9)
        if routine in ("amen_mv", "amen_mm") and (rng.random() < 0.2 or force_cs):
            # every core of both operands scaled (cores of norm ~100 or ~0.01): the accuracy is relative to the product, whatever the cores' scale
            cs = rng.choice([100.0, 1000.0, 0.01]); desc["core_scale"] = cs
            sc_all = lambda t: torchtt.TT([c * cs for c in t.cores])
            if routine == "amen_mv":
                A = sc_all(ops["A"]); x = sc_all(ops["x"]); ops["A"], ops["x"] = A, x; exact = A @ x
                call = (lambda A=A, x=x, g=ops.get("guess"): torchtt.amen_mv(A, x, eps=eps, x0=g, nswp=40))
            else:
                A = sc_all(ops["A"]); B = sc_all(ops["B"]); ops["A"], ops["B"] = A, B; exact = A @ B
                call = (lambda A=A, B=B, g=ops.get("guess"): torchtt.amen_mm(A, B, eps=eps, X0=g, nswp=40))
        if rng.random() < 0.3 and not (single or nswp != 40 or "core_scale" in desc or desc.get("structured") or nulldir):          # the contract is relative: scale one operand by a power of ten
            sc = rng.choice([1e-6, 1e-3, 1e3, 1e6]); desc["scale"] = sc
            k0 = list(ops.keys())[-1] if "guess" not in ops else list(ops.keys())[-2]
            ops[k0] = ops[k0] * sc
            if routine in ("fast_matvec", "amen_mv"):
                x = ops["x"]; exact = A @ x
            elif routine == "dmrg_hadamard":
                y = ops["y"]; exact = x * y
            else:
                B = ops["B"]; exact = A @ B
        kd = routine + ("+guess" if guess is not None else "") + (" singleton-mode" if singleton else "") + (" uneven-bonds" if uneven else "") + (" nswp<=3" if nswp != 40 else "") + (" single-precision" if single else "") + (" cores-scaled" if "core_scale" in desc else "") + (" structured-zeros" if desc.get("structured") else "") + (" null-direction" if desc.get("null_direction") else "") + (" cp-decay tight-eps" if desc.get("cp_decay") else "") + (" steep-decay" if decay not in (True, False) else "")
        dist[kd] = dist.get(kd, 0) + 1
        if i % 20 == 0 and len(samples) < 5: samples.append(desc)
        snaps = {k: history.Snap(v) for k, v in ops.items()}
        osp = solverkit.OracleSpy([DM, AM])
        try:
            with osp, solverkit.ChopSpy([DM, AM]) as spy:
                y_ = call()
        except Exception as ex:
            if osp.failed:
                # QR / SVD (oracles of the model, trusted base) returned non-finite factors for a finite input: a failure of the numerical library, counted
                dist["oracle failure (QR/SVD non-finite on finite input)"] = dist.get("oracle failure (QR/SVD non-finite on finite input)", 0) + 1; continue
            V.fail("%s raises %s (order %d)" % (routine, type(ex).__name__, d) if d == 1 else "%s raises %s" % (routine, type(ex).__name__), dict(desc, exc=str(ex)[:200])); continue
        bad = solverkit.intact(snaps, list(ops.values()))
        if bad: V.fail("%s modified an operand: %s" % (routine, bad[0].split(":")[0]), dict(desc, differences=bad))
        wf = history.wf_failures(y_)
        if wf or [int(v) for v in y_.N] != want_N or (want_M is not None and history.Mof(y_) != want_M) or bool(y_.is_ttm) != (want_M is not None):
            V.fail("%s: result has the wrong shape / is ill formed" % routine, dict(desc, got_N=[int(v) for v in y_.N], wf=wf)); continue
        ef = exact.full(); nrm = float(ef.abs().pow(2).sum().sqrt())
        err = float((y_.full() - ef).abs().pow(2).sum().sqrt())
        floor = 2e-5 if single else 1e-11            # what the dtype can certify
        if not (err <= CONST * eps * nrm + floor * nrm + 1e-300):
            V.fail("%s: error exceeds %g*eps" % (routine, CONST), dict(desc, rel_err=err / max(nrm, 1e-300), ranks=[int(r) for r in y_.R]))
        if y_.cores[0].dtype != dtype: V.fail("%s: dtype changed" % routine, desc)
        # decisions of the DMRG routines: threshold and rank against the model
        if routine in ("fast_matvec", "dmrg_hadamard") and d >= 2:
            for (s, eps_arg, r) in spy.rec:
                nrm_s = float(np.linalg.norm(s.astype(np.float64)))
                ratio = eps_arg / (eps * nrm_s) if nrm_s > 0 else None
                if ratio is not None:
                    n_thr += 1
                    if not (abs(ratio - d ** -0.5) < 1e-6 * d ** -0.5 or abs(ratio - d ** -1.5) < 1e-6 * d ** -1.5):
                        V.fail("%s: truncation threshold is neither eps/d^0.5 nor eps/d^1.5 times ||W||" % routine, dict(desc, ratio=ratio))
                q, thr2, margin = exact_scaled(s, eps_arg)
                if margin < 1e-9: n_tie += 1; continue
                if len(replay_cases) < (600 if tier == "quick" else 6000):
                    replay_cases.append((q, eps_arg > 0, thr2)); replay_meta.append((desc, r))
    n_ok = 0
    if ok_make and replay_cases:
        res = coqrun.eval_nat_lists("C11_r", IMPORTS, "", model_rank_exprs(replay_cases))
        for (desc, r), m in zip(replay_meta, res):
            if r != m[0]: V.fail("correspondence(model/impl) rank decision in a DMRG sweep", dict(desc, impl=r, model=m[0]), failing_input=False)
            else: n_ok += 1
    # ---- the local step of the AMEn products against Model/Local.v (exact, integer data): _compute_phi_fwd_AB / _compute_phi_bck_AB / _local_AB of
    # torchtt/_amen.py in the matrix-vector case (column modes of size 1), the functions theorems C11_amen_local_update / C11_amen_update_exact are about
    rng_l = random.Random(seed + 71)
    lcases, lmeta = [], []
    def ia(shape): return np.array([rng_l.randint(-2, 2) for _ in range(int(np.prod(shape)))], dtype=np.float64).reshape(shape)
    def zl(a_): return coqrun.zlist(np.asarray(a_).reshape(-1))
    def o3(a_): return "(%d%%nat,%d%%nat,%d%%nat,%s)" % (a_.shape[0], a_.shape[1], a_.shape[2], zl(a_))
    def o4(a_): return "(%d%%nat,%d%%nat,%d%%nat,%d%%nat,%s)" % (a_.shape[0], a_.shape[1], a_.shape[2], a_.shape[3], zl(a_))
    T_ = lambda a_: torch.tensor(a_, dtype=torch.float64)
    for j in range(30 if tier == "quick" else 300):
        ry, rY, ra_, rA, rb_, rB = [rng_l.choice([1, 2, 3]) for _ in range(6)]; m_, k_ = rng_l.choice([1, 2, 3]), rng_l.choice([1, 2, 3])
        kind_ = ["phi_fwd_AB", "phi_bck_AB", "local_AB"][j % 3]
        try:
            y_, A_, b_ = ia((ry, m_, rY)), ia((ra_, m_, k_, rA)), ia((rb_, k_, rB))
            if kind_ == "phi_fwd_AB":
                P_ = ia((ry, ra_, rb_)); out = AM._compute_phi_fwd_AB(T_(P_), T_(A_), T_(b_)[:, :, None, :], T_(y_)[:, :, None, :])
                lcases.append("[check_phi_fwd (R:=Z) %d %d %s %s %s %s %s]" % (ra_, rb_, zl(P_), o3(y_), o4(A_), o3(b_), zl(out.numpy())))
            elif kind_ == "phi_bck_AB":
                P_ = ia((rY, rA, rB)); out = AM._compute_phi_bck_AB(T_(P_), T_(A_), T_(b_)[:, :, None, :], T_(y_)[:, :, None, :])
                lcases.append("[check_phi_bck (R:=Z) %d %d %s %s %s %s %s]" % (rA, rB, zl(P_), o3(y_), o4(A_), o3(b_), zl(out.numpy())))
            else:
                PL_, PR_ = ia((ry, ra_, rb_)), ia((rY, rA, rB)); out = AM._local_AB(T_(PL_), T_(PR_), T_(A_), T_(b_)[:, :, None, :])
                lcases.append("[check_local_product2 (R:=Z) %d %d %d %d %s %s %d %d %s %s %s]" % (ry, rY, ra_, rb_, zl(PL_), o4(A_), rA, rB, zl(PR_), o3(b_), zl(out.numpy())))
            lmeta.append({"local_correspondence": kind_, "case": j})
        except Exception as ex:
            V.fail("local correspondence: %s raises %s" % (kind_, type(ex).__name__), {"kind": kind_, "exc": str(ex)[:200]}, failing_input=False)
    # the operator-operator case (amen_mm): column modes of any size, Model/Local.v phi_fwd4 / phi_bck4 / local_AB
    for j in range(18 if tier == "quick" else 180):
        ry, rY, ra_, rA, rb_, rB = [rng_l.choice([1, 2]) for _ in range(6)]; m_, k_, n_ = rng_l.choice([1, 2, 3]), rng_l.choice([1, 2]), rng_l.choice([1, 2, 3])
        kind_ = ["phi_fwd_AB (mm)", "phi_bck_AB (mm)", "local_AB (mm)"][j % 3]
        try:
            y_, A_, b_ = ia((ry, m_, n_, rY)), ia((ra_, m_, k_, rA)), ia((rb_, k_, n_, rB))
            if j % 3 == 0:
                P_ = ia((ry, ra_, rb_)); out = AM._compute_phi_fwd_AB(T_(P_), T_(A_), T_(b_), T_(y_))
                lcases.append("[check_phi_fwd4 (R:=Z) %d %d %s %s %s %s %s]" % (ra_, rb_, zl(P_), o4(y_), o4(A_), o4(b_), zl(out.numpy())))
            elif j % 3 == 1:
                P_ = ia((rY, rA, rB)); out = AM._compute_phi_bck_AB(T_(P_), T_(A_), T_(b_), T_(y_))
                lcases.append("[check_phi_bck4 (R:=Z) %d %d %s %s %s %s %s]" % (rA, rB, zl(P_), o4(y_), o4(A_), o4(b_), zl(out.numpy())))
            else:
                PL_, PR_ = ia((ry, ra_, rb_)), ia((rY, rA, rB)); out = AM._local_AB(T_(PL_), T_(PR_), T_(A_), T_(b_))
                lcases.append("[check_local_AB (R:=Z) %d %d %d %d %s %s %s %d %d %s %s]" % (ry, rY, ra_, rb_, zl(PL_), o4(A_), o4(b_), rA, rB, zl(PR_), zl(out.numpy())))
            lmeta.append({"local_correspondence": kind_, "case": len(lcases) - 1})
        except Exception as ex:
            V.fail("local correspondence: %s raises %s" % (kind_, type(ex).__name__), {"kind": kind_, "exc": str(ex)[:200]}, failing_input=False)
    n_local = 0
    if ok_make and lcases:
        try:
            codes = coqrun.eval_nat_lists("C11_local", "From TT Require Import RingSig Instances Core Local.", "", lcases, shard=60)
            for dsc, c in zip(lmeta, codes):
                if c != [0]: V.fail("correspondence(model/impl): %s of torchtt/_amen.py differs from Model/Local.v" % dsc["local_correspondence"], dict(dsc, model_code=c, expr=lcases[lmeta.index(dsc)][:1500]))
                else: n_local += 1
        except Exception as ex:
            V.fail("local correspondence: the model could not be evaluated", {"exc": str(ex)[:300]}, failing_input=False)
    dist["AMEn local step / interface recursions exact"] = n_local
    # ---- the DMRG supercore against Model/Local.v `supercore` (theorems C11_supercore_galerkin / _blind_component), through the routine itself: with the QR of
    # torchtt._dmrg stubbed by the identity factorisation (Q = the matrix, R = I: valid for tall unfoldings) the orthogonalisation sweep leaves an integer guess
    # as it is, the interfaces and the first supercore dmrg_matvec builds are exact integer arithmetic; the matrix handed to the first SVD IS that supercore
    class _Stop(Exception): pass
    sc_cases, sc_meta = [], []
    orig_QR, orig_SVD = DM.QR, DM.SVD
    for j in range(12 if tier == "quick" else 120):
        d = rng_l.choice([2, 3, 4]); M = [rng_l.choice([2, 3]) for _ in range(d)]; N = [rng_l.choice([1, 2, 3]) for _ in range(d)]
        rA = [1] + [rng_l.choice([1, 2]) for _ in range(d - 1)] + [1]; rx = [1] + [rng_l.choice([1, 2]) for _ in range(d - 1)] + [1]
        ry = [1] + [rng_l.choice([1, 2]) for _ in range(d - 1)] + [1]            # guess ranks <= 2 <= M[k] * ry[k+1]: every unfoldings of the sweep is tall
        Ac = [ia((rA[i], M[i], N[i], rA[i + 1])) for i in range(d)]; xc = [ia((rx[i], N[i], rx[i + 1])) for i in range(d)]; yc = [ia((ry[i], M[i], ry[i + 1])) for i in range(d)]
        seen = []
        def qr_stub(mat): return mat, torch.eye(mat.shape[1], dtype=mat.dtype)
        def svd_spy(mat):
            seen.append(mat.clone()); raise _Stop()
        had = j % 3 == 2                                   # dmrg_hadamard: its own copy of the sweep; the first factor acts as the diagonal operator diag(z)
        if had:
            N = list(M); zc = [ia((rA[i], M[i], rA[i + 1])) for i in range(d)]; xc = [ia((rx[i], N[i], rx[i + 1])) for i in range(d)]
            Ac = []
            for c in zc:
                c4_ = np.zeros((c.shape[0], c.shape[1], c.shape[1], c.shape[2]))
                for m_ in range(c.shape[1]): c4_[:, m_, m_, :] = c[:, m_, :]
                Ac.append(c4_)
        try:
            DM.QR, DM.SVD = qr_stub, svd_spy
            try:
                if had: DM.dmrg_hadamard_python(torchtt.TT([T_(c) for c in zc]), torchtt.TT([T_(c) for c in xc]), torchtt.TT([T_(c) for c in yc]), nswp=2, eps=1e-10)
                else: DM.dmrg_matvec_python(torchtt.TT([T_(c) for c in Ac]), torchtt.TT([T_(c) for c in xc]), torchtt.TT([T_(c) for c in yc]), nswp=2, eps=1e-10)
            except _Stop:
                pass
        except Exception as ex:
            V.fail("dmrg supercore correspondence raises %s" % type(ex).__name__, {"exc": str(ex)[:200], "M": M, "N": N}, failing_input=False); continue
        finally:
            DM.QR, DM.SVD = orig_QR, orig_SVD
        if not seen:
            V.fail("dmrg supercore correspondence: the routine never reached its SVD", {"M": M, "N": N}, failing_input=False); continue
        l3 = lambda cs: "[" + ";".join(o3(c) for c in cs) + "]"; l4 = lambda cs: "[" + ";".join(o4(c) for c in cs) + "]"
        try:
            sc_cases.append("[check_dmrg_first (R:=Z) %s %s %s %s]" % (l3(yc), l4(Ac), l3(xc), zl(seen[0].numpy())))
        except coqrun.NotExact as ex:
            V.fail("correspondence(model/impl): the first supercore of %s on integer trains is not an integer array" % ("dmrg_hadamard" if had else "dmrg_matvec"), {"d": d, "M": M, "N": N, "rA": rA, "rx": rx, "ry": ry, "exc": str(ex)}); continue
        sc_meta.append({"local_correspondence": "dmrg supercore", "routine": "dmrg_hadamard" if had else "dmrg_matvec", "d": d, "M": M, "N": N, "rA": rA, "rx": rx, "ry": ry})
    n_sc = 0
    if ok_make and sc_cases:
        try:
            codes = coqrun.eval_nat_lists("C11_sc", "From TT Require Import RingSig Instances Core Local.", "", sc_cases, shard=40)
            for dsc, c in zip(sc_meta, codes):
                if c != [0]: V.fail("correspondence(model/impl): the first supercore of dmrg_matvec differs from Model/Local.v supercore", dict(dsc, model_code=c, expr=sc_cases[sc_meta.index(dsc)][:1500]))
                else: n_sc += 1
        except Exception as ex:
            V.fail("dmrg supercore correspondence: the model could not be evaluated", {"exc": str(ex)[:300]}, failing_input=False)
    dist["DMRG supercore exact (through the routine)"] = n_sc
    # ---- theorem C11_amen_update_exact on the routine itself: a guess whose frame carries the exact product (the cores of the exact product with the
    # first core replaced by noise, or the exact product times a factor) is turned into the exact product by ONE sweep, to round-off - not just to eps
    rng_e = random.Random(seed + 73); n_exact = 0
    for j in range(8 if tier == "quick" else 80):
        d = rng_e.choice([2, 3, 4]); N = [rng_e.choice([2, 3, 4]) for _ in range(d)]; M = [rng_e.choice([1, 2, 3]) for _ in range(d)]
        mm_ = j % 4 == 3; K = [rng_e.choice([1, 2]) for _ in range(d)]
        sd = rng_e.randrange(1 << 30); torch.manual_seed(sd)
        desc = {"routine": "amen_mm" if mm_ else "amen_mv", "family": "representable guess, one sweep", "d": d, "N": N, "M": M, "torch_seed": sd, "case": j}
        try:
            A = solverkit.rand_ttm_float(rng_e, M, N, solverkit.ranks(rng_e, d, 2), torch.float64, False, False)
            x = solverkit.rand_ttm_float(rng_e, N, K, solverkit.ranks(rng_e, d, 2), torch.float64, False, False) if mm_ else solverkit.rand_tt_float(rng_e, N, solverkit.ranks(rng_e, d, 2), torch.float64, False, False)
            exact = A @ x; g = exact.round(1e-14)
            gc = [c.clone() for c in g.cores]
            if j % 2 == 0: gc[0] = torch.randn(gc[0].shape, dtype=torch.float64)
            else: gc[0] = gc[0] * 0.3
            guess = torchtt.TT(gc)
            y = torchtt.amen_mm(A, x, X0=guess, nswp=1, eps=1e-12) if mm_ else torchtt.amen_mv(A, x, x0=guess, nswp=1, eps=1e-12)
            err = float(torch.linalg.norm(y.full() - exact.full()) / torch.linalg.norm(exact.full()))
            n_exact += 1
            if not err <= 1e-10: V.fail("%s: one sweep from a guess whose frame carries the exact product misses it (relative error %.3g)" % (desc["routine"], err), dict(desc, rel_err=err))
        except Exception as ex:
            V.fail("%s with a representable guess raises %s" % (desc["routine"], type(ex).__name__), dict(desc, exc=str(ex)[:200]))
    dist["representable guess: one sweep exact"] = n_exact
    # ---- KNOWN FINDING family: a user supplied guess that equals the exact product on one index block (indices 0..n/2-1 of every mode) while the rest of
    # the product lives on the complementary block is a stationary point of the two-site sweeps: the supercores do not change, the random kick columns
    # overlap the missing part by less than a loose eps, and fast_matvec / dmrg_hadamard return the guess (error |x2|/|x| = 0.37, i.e. 37*eps at eps = 1e-2).
    # amen_mv (residual-based enrichment) is right on the same input and must stay so.
    rng_b = random.Random(seed + 79)
    KEY_BLIND = "block-blind guess: %s returns a user supplied guess that is exact on one index block and zero on the complementary block (false convergence)"
    for j in range(3 if tier == "quick" else 12):
        d = 6; n_ = 10; eps = 1e-2; h_ = n_ // 2; N = [n_] * d
        routine = ["fast_matvec", "dmrg_hadamard", "amen_mv"][j % 3]
        sd = rng_b.randrange(1 << 30); torch.manual_seed(sd)
        desc = {"routine": routine, "family": "block-blind guess", "d": d, "N": N, "eps": eps, "torch_seed": sd, "weight_of_missing_block": 0.4}
        try:
            def block(lo, hi):
                t_ = torchtt.randn(N, [1] + [2] * (d - 1) + [1]); cs = []
                for c in t_.cores:
                    m_ = torch.zeros(c.shape[1], dtype=c.dtype); m_[lo:hi] = 1; cs.append(c * m_[None, :, None])
                return torchtt.TT(cs)
            x1, x2 = block(0, h_), block(h_, n_)
            x1 = x1 * (1 / x1.norm()); x2 = x2 * (0.4 / x2.norm()); x = x1 + x2; ref = x.full()
            if routine == "fast_matvec": y = torchtt.eye(N).fast_matvec(x, eps=eps, initial=x1, use_cpp=False)
            elif routine == "dmrg_hadamard": y = torchtt.dmrg_hadamard(torchtt.ones(N), x, x1, eps=eps)
            else: y = torchtt.amen_mv(torchtt.eye(N), x, x0=x1, eps=eps)
            err = float(torch.linalg.norm(y.full() - ref) / torch.linalg.norm(ref))
            dist["block-blind guess:" + routine] = dist.get("block-blind guess:" + routine, 0) + 1
            if not err <= CONST * eps:
                V.fail((KEY_BLIND % routine) if routine != "amen_mv" else "amen_mv misses the product from a block-blind guess", dict(desc, rel_err=err, bound=CONST * eps))
        except Exception as ex:
            V.fail("%s with a block-blind guess raises %s" % (routine, type(ex).__name__), dict(desc, exc=str(ex)[:200]))
    nviol = V.finish()
    cov = proofcheck.coverage(PID, obl, evaluations=n, distinct_nontrivial=len(set(json.dumps(s_, sort_keys=True) for s_, _ in replay_meta)) + sum(1 for _ in dist),
        rule=("fast_matvec, dmrg_hadamard, amen_mv, amen_mm on random exact-rank and decaying-spectrum operands of order 1..6, mode sizes 1..6, ranks 1..4, eps 1e-12..1e-1, random "
              "seeds of the internal guess/enrichment, user supplied guesses of arbitrary rank, complex dtype for the DMRG routines; measured a posteriori: relative error <= %g*eps, "
              "result shape / well-formedness / dtype, bitwise integrity of every operand and of the guess; every rank_chop call of the DMRG sweeps is recorded: its threshold must be "
              "eps/d^0.5 or eps/d^1.5 times the supercore norm and its rank is replayed in the Coq model in exact arithmetic; non-trivial = a run with recorded decisions") % CONST,
        samples=samples, distribution=dist, thresholds_checked=n_thr, rank_decisions_replayed=len(replay_cases), rank_decisions_agree=n_ok, near_ties_skipped=n_tie,
        known_findings_reproduced=V.known_hit,
        partial=["a-priori accuracy of the randomised alternating iterations for all inputs and seeds: no proof exists; measured on the generated families"])
    common.write_evidence(PID, tier, seed, cov, time.time() - t0, nviol, common.TRUSTED_BASE)
    return 1 if nviol else 0
