"""C13 - Elementwise division inverts elementwise multiplication."""
import time, random, json, math
import numpy as np
import common, coqrun, proofcheck, history, solverkit

PID = "C13"
CONST = 100.0

def run(tier, seed, replay=None):
    import torch, torchtt
    t0 = time.time()
    rng = random.Random(seed)
    V = common.Verdict(PID)
    ok_make, obl = proofcheck.obligations(PID, V)
    n = 50 if tier == "quick" else 800
    dist, samples = {}, []
    dt = torch.float64
    for i in range(n):
        d = rng.choice([2, 2, 3, 3, 4, 5])
        N = [rng.choice([1, 2, 3, 4, 5, 6, 8, 10]) for _ in range(d)]
        while int(np.prod(N)) > 4000: N[N.index(max(N))] = 2
        big = i < (1 if tier == "quick" else 8)             # quotients whose TT rank exceeds 50: the largest shapes with a rank-4 z of amplitude 2
        if big:
            N = rng.choice([[9, 8, 8, 9], [8, 8, 8, 8], [10, 6, 6, 10]]) if i else [9, 8, 8, 9]; d = 4
            z = solverkit.rand_tt_float(rng, N, [1, 4, 4, 4, 1], dt)
            z = z * (2.0 / max(1e-300, float(z.full().abs().max())))
        else:
            z = solverkit.rand_tt_float(rng, N, solverkit.ranks(rng, d, rng.choice([1, 2])), dt)
            z = z * (1.0 / max(1e-300, float(z.full().abs().max())))
        y = (z * z + 1.0).round(1e-14)                      # entries in [1, 2] ([1, 5] for the high-rank quotients)
        x = solverkit.rand_tt_float(rng, N, solverkit.ranks(rng, d, rng.choice([1, 2, 3, 4])), dt)
        form = rng.choice(["x/y", "x/y", "scalar/y", "elementwise_divide", "elementwise_divide", "x/scalar"])
        cdt = dt
        if not big and form != "x/scalar" and rng.random() < 0.3:      # single precision and complex operands (the divisor keeps its positive real entries)
            cdt = rng.choice([torch.float32, torch.complex128])
            y = torchtt.TT([c.to(cdt) for c in y.cores])
            x = solverkit.rand_tt_float(rng, N, solverkit.ranks(rng, d, rng.choice([1, 2, 3])), torch.complex128 if cdt == torch.complex128 else torch.float64, cplx=cdt == torch.complex128)
            x = torchtt.TT([c.to(cdt) for c in x.cores])
            dist["dtype:" + str(cdt)] = dist.get("dtype:" + str(cdt), 0) + 1
        if big: form = "x/y" if i % 2 == 0 else "scalar/y"; dist["high-rank quotient"] = dist.get("high-rank quotient", 0) + 1
        if i in (1, 2, 3) and not big:
            # engineered: divisors of tiny magnitude (the contract is relative: x / (c y) = (x / y) / c), carried by the first core, with a quotient of rank above 6
            N = [[8, 6, 5], [7, 7, 4], [9, 5, 5]][i - 1]; d = 3; cdt = dt
            z = solverkit.rand_tt_float(rng, N, [1, 3, 3, 1], dt); z = z * (2.0 / max(1e-300, float(z.full().abs().max())))
            y = (z * z + 1.0).round(1e-14); ysc = [1e-14, 1e-9, 1e-14][i - 1]
            y = torchtt.TT([c * (ysc if k_ == 0 else 1.0) for k_, c in enumerate(y.cores)])
            x = solverkit.rand_tt_float(rng, N, [1, 2, 2, 1], dt)
            form = ["x/y", "scalar/y", "elementwise_divide"][i - 1]; dist["tiny divisor"] = dist.get("tiny divisor", 0) + 1
        force_c = False
        if i in (4, 5, 6) and not big:
            # engineered: equal mode sizes, quotient ranks that saturate at the mode size, a local problem of 500+ unknowns: the preconditioned iterative
            # local solve of elementwise_divide is entered with mode size = right rank
            N = [[10, 10, 10], [9, 9, 9], [8, 8, 8, 8]][i - 4]; d = len(N); cdt = dt; force_c = True
            z = solverkit.rand_tt_float(rng, N, [1] + [[2, 1, 2][i - 4]] * (d - 1) + [1], dt); z = z * (1.0 / max(1e-300, float(z.full().abs().max())))
            y = (z * z + 1.0).round(1e-14)
            x = solverkit.rand_tt_float(rng, N, [1] + [[3, 4, 2][i - 4]] * (d - 1) + [1], dt)
            form = "elementwise_divide"; dist["equal modes, preconditioned iterative local solve"] = dist.get("equal modes, preconditioned iterative local solve", 0) + 1
        elif not big and i not in (1, 2, 3) and rng.random() < 0.35:
            # divisors bounded away from zero need not be positive: all entries negative, or a rank-one pattern of signs
            sgn = rng.choice(["negative", "mixed signs"])
            if sgn == "negative": y = torchtt.TT([(-c if k_ == 0 else c.clone()) for k_, c in enumerate(y.cores)])
            else:
                sc_ = []
                for n_ in N:
                    v_ = torch.tensor([rng.choice([-1.0, 1.0]) for _ in range(n_)], dtype=torch.float64); v_[rng.randrange(n_)] = -1.0
                    sc_.append(v_.reshape(1, n_, 1).to(y.cores[0].dtype))
                y = y * torchtt.TT(sc_)
            dist["divisor " + sgn] = dist.get("divisor " + sgn, 0) + 1
        sd = rng.randrange(1 << 30); torch.manual_seed(sd)
        desc = {"form": form, "N": N, "rank_x": [int(r) for r in x.R], "rank_y": [int(r) for r in y.R], "torch_seed": sd, "dtype": str(cdt)}
        dist[form] = dist.get(form, 0) + 1
        if i % 10 == 0 and len(samples) < 5: samples.append(desc)
        ops = {"x": x, "y": y}
        guess = None; tol = 1e-12
        try:
            if form == "x/scalar":
                s = rng.choice([2.0, -4.0, 0.5, 3.0, 7, np.float64(1.5)])
                xf0 = x.full().clone()
                snaps = {k: history.Snap(v) for k, v in ops.items()}
                q = x / s
                # exactness (power-of-two divisors: bit exact; others: one rounding per entry of the first core)
                back = (q * s).full()
                rel = float((back - xf0).norm() / xf0.norm())
                if not (rel <= 4e-16 * 4): V.fail("x / scalar is not exact", dict(desc, scalar=str(s), rel_err=rel))
                q2 = x / s                                   # the dividend is used again: same quotient
                if not all(torch.equal(a, b_) for a, b_ in zip(q.cores, q2.cores)): V.fail("x / scalar changed x (second quotient differs)", dict(desc, scalar=str(s)))
                bad = solverkit.intact(snaps, list(ops.values()))
                if bad: V.fail("x / scalar modified an operand: %s" % bad[0].split(":")[0], dict(desc, differences=bad))
                continue
            snaps = {k: history.Snap(v) for k, v in ops.items()}
            if form == "x/y":
                q = x / y; num = x.full(); tol = 1e-12
            elif form == "scalar/y":
                s0 = rng.choice([3.0, -2.0, 0.5, 7])
                q0 = s0 / y                                  # an earlier quotient with another scalar on the same shape: the next one must not depend on it
                s = rng.choice([1.0, 2.0, -3.0, 5]); q = s / y; num = torch.full(N, float(s), dtype=cdt); tol = 1e-12
                res0 = float((q0.full() * y.full() - torch.full(N, float(s0), dtype=cdt)).norm() / math.sqrt(float(np.prod(N))) / abs(s0))
                if not (res0 <= CONST * (1e-6 if cdt == torch.float32 else 1e-12) + 1e-12): V.fail("scalar/y: an earlier quotient is wrong", dict(desc, rel_residual=res0, scalar=s0))
            else:
                tol = rng.choice([1e-10, 1e-8, 1e-6, 1e-4])
                prec = rng.choice([None, "c"])
                if force_c: prec = "c"; tol = 1e-10
                if rng.random() < 0.4 and not force_c:
                    kind = rng.choice(["random", "zeros", "ones"])
                    guess = solverkit.rand_tt_float(rng, N, solverkit.ranks(rng, d, 2), dt) if kind == "random" else (torchtt.zeros(N, dtype=dt) if kind == "zeros" else torchtt.ones(N, dtype=dt))
                    if cdt != dt: guess = torchtt.TT([c.to(cdt) for c in guess.cores])
                    ops["guess"] = guess; snaps["guess"] = history.Snap(guess); desc["guess"] = kind
                desc.update(eps=tol, preconditioner=prec)
                if i % 7 == 3 and cdt == dt:          # the documented scalar numerator of elementwise_divide (float, int, one-element tensor)
                    sv_ = rng.choice([2.0, -3, torch.tensor([1.5], dtype=dt)]); desc["scalar_numerator"] = str(sv_)
                    q = torchtt.elementwise_divide(sv_, y, nswp=50, eps=tol, starting_tensor=guess, preconditioner=prec)
                    num = torch.full(N, float(sv_), dtype=cdt); ops.pop("x", None); snaps.pop("x", None)
                else:
                    q = torchtt.elementwise_divide(x, y, nswp=50, eps=tol, starting_tensor=guess, preconditioner=prec)
                    num = x.full()
        except Exception as ex:
            V.fail("%s raises %s" % (form, type(ex).__name__), dict(desc, exc=str(ex)[:200])); continue
        bad = solverkit.intact(snaps, list(ops.values()))
        if bad: V.fail("%s modified an operand: %s" % (form, bad[0].split(":")[0]), dict(desc, differences=bad))
        if history.wf_failures(q) or [int(v) for v in q.N] != N or q.is_ttm:
            V.fail("%s: result has the wrong shape / is ill formed" % form, desc); continue
        res = float((q.full() * y.full() - num).norm() / max(1e-300, float(num.norm())))
        if cdt == torch.float32: tol = max(tol, 1e-6)            # single precision cannot certify less
        if not (res <= CONST * tol + 1e-12):
            V.fail("%s: q*y differs from the numerator by more than %g*tol" % (form, CONST), dict(desc, rel_residual=res, tol=tol, ranks=[int(r) for r in q.R]))
    # ---- operands whose cores are tracked by autograd (watched): the same quotient comes back (small local problems: every local solve is the direct one)
    rng_t = random.Random(seed + 67)
    for j in range(6 if tier == "quick" else 40):
        d = rng_t.choice([2, 3]); N = [rng_t.choice([2, 3, 4]) for _ in range(d)]
        x = solverkit.rand_tt_float(rng_t, N, solverkit.ranks(rng_t, d, 2), torch.float64); z = solverkit.rand_tt_float(rng_t, N, solverkit.ranks(rng_t, d, 2), torch.float64)
        y = (z * z) * (1.0 / max(float((z * z).full().abs().max()), 1e-300)) + torchtt.ones(N, dtype=torch.float64)
        y = torchtt.TT([c.detach().clone() for c in y.round(1e-13).cores])
        which = ["divisor", "dividend", "starting tensor", "divisor (scalar / y)"][j % 4]
        desc = {"tracked": which, "N": N, "rank_x": [int(r) for r in x.R], "rank_y": [int(r) for r in y.R]}
        try:
            g_ = None
            if which.startswith("divisor"): torchtt.grad.watch(y)
            elif which == "dividend": torchtt.grad.watch(x)
            else: g_ = torchtt.ones(N, dtype=torch.float64); torchtt.grad.watch(g_)
            if which == "starting tensor": q = torchtt.elementwise_divide(x, y, nswp=50, eps=1e-10, starting_tensor=g_); num = x.full()
            elif which == "divisor (scalar / y)": q = 2.0 / y; num = torch.full(N, 2.0, dtype=torch.float64)
            else: q = x / y; num = x.full()
            res = float((q.full().detach() * y.full().detach() - num.detach()).norm() / max(1e-300, float(num.detach().norm())))
            if not (res <= CONST * 1e-10 + 1e-12): V.fail("division with a tracked %s: q*y differs from the numerator" % which.split(" (")[0], dict(desc, rel_residual=res))
        except Exception as ex:
            V.fail("division with a tracked %s raises %s" % (which.split(" (")[0], type(ex).__name__), dict(desc, exc=str(ex)[:200]))
        dist["tracked " + which] = dist.get("tracked " + which, 0) + 1
    # ---- the local iterative solver on COMPLEX data (the division of complex tensors reaches it as soon as a local problem exceeds max_full): the contract of
    # gmres_restart - relative residual below the threshold on well-conditioned systems - in complex arithmetic (Hermitian inner product, unitary rotations)
    import torchtt._iterative_solvers as ISv
    class _MatOp:
        def __init__(self, A_): self.A = A_
        def matvec(self, v, *a_): return self.A @ v.reshape(-1, 1)
    rng_g = random.Random(seed + 61)
    for j in range(4 if tier == "quick" else 30):
        n_ = rng_g.choice([40, 60, 80]); gdt = [torch.complex128, torch.float64][j % 2]
        gg = np.random.default_rng(rng_g.randrange(1 << 30))
        A_ = torch.tensor(gg.standard_normal((n_, n_)) * 0.1 + (1j * gg.standard_normal((n_, n_)) * 0.1 if gdt.is_complex else 0.0) + 2.0 * np.eye(n_), dtype=gdt)
        b_ = torch.tensor(gg.standard_normal((n_, 1)) + (1j * gg.standard_normal((n_, 1)) if gdt.is_complex else 0.0), dtype=gdt)
        try:
            xg, fl_, it_ = ISv.gmres_restart(_MatOp(A_), b_, b_ * 0, n_, 41, 1e-10, 3)
            rg = float((A_ @ xg - b_).norm() / b_.norm())
            if not rg <= 1e-8: V.fail("gmres_restart does not solve a well-conditioned %s system" % ("complex" if gdt.is_complex else "real"), {"n": n_, "dtype": str(gdt), "rel_residual": rg, "iterations": int(it_), "seed_case": j})
        except Exception as ex:
            V.fail("gmres_restart raises %s" % type(ex).__name__, {"n": n_, "dtype": str(gdt), "exc": str(ex)[:200]})
        dist["gmres contract " + ("complex" if gdt.is_complex else "real")] = dist.get("gmres contract " + ("complex" if gdt.is_complex else "real"), 0) + 1
    # ---- exact correspondence of the interface recursions of torchtt/_division.py (the divisor's cores act as a DIAGONAL operator: einsum
    # 'lsr,lML,sMS,rMR') with Model/Local.v on complex integer data - the model conjugates the left cores (the Hermitian projection): this is
    # where a transposed instead of a conjugated projection shows exactly
    import torchtt._division as DV
    rng_l = random.Random(seed + 59)
    lcases, lmeta = [], []
    def ic(shape): return (np.array([rng_l.randint(-2, 2) for _ in range(int(np.prod(shape)))]) + 1j * np.array([rng_l.randint(-1, 1) for _ in range(int(np.prod(shape)))])).reshape(shape)
    def zil(a_):
        vs = np.asarray(a_).reshape(-1).astype(np.complex128)
        if not (np.all(np.isfinite(vs.real)) and np.all(np.isfinite(vs.imag)) and np.all(vs.real == np.round(vs.real)) and np.all(vs.imag == np.round(vs.imag))):
            raise coqrun.NotExact("a value that should be a Gaussian integer is not")
        return "[" + ";".join("(%d,%d)" % (int(v.real), int(v.imag)) for v in vs) + "]%Z"
    def o3(a_): return "(%d%%nat,%d%%nat,%d%%nat,%s)" % (a_.shape[0], a_.shape[1], a_.shape[2], zil(a_))
    def o4d(y_):            # the diagonal operator core of a divisor core y (s, M, S): c(s, m, n, S) = y(s, m, S) if m = n
        c_ = np.zeros((y_.shape[0], y_.shape[1], y_.shape[1], y_.shape[2]), dtype=np.complex128)
        for m_ in range(y_.shape[1]): c_[:, m_, m_, :] = y_[:, m_, :]
        return "(%d%%nat,%d%%nat,%d%%nat,%d%%nat,%s)" % (c_.shape[0], c_.shape[1], c_.shape[2], c_.shape[3], zil(c_))
    Tc = lambda a_: torch.tensor(a_, dtype=torch.complex128)
    for j in range(24 if tier == "quick" else 240):
        ra, rb, rs, rS, la, lb = [rng_l.choice([1, 2, 3]) for _ in range(6)]; m_ = rng_l.choice([1, 2, 3])
        kind_ = ["phi_fwd", "phi_bck", "phib_fwd", "phib_bck"][j % 4]
        try:
            if kind_ in ("phi_fwd", "phi_bck"):
                a_, y_, b_ = ic((la, m_, lb)), ic((rs, m_, rS)), ic((ra, m_, rb))
                if kind_ == "phi_fwd":
                    P_ = ic((la, rs, ra)); out = DV.compute_phi_fwd_A(Tc(P_), Tc(a_), Tc(y_), Tc(b_))
                    lcases.append("[check_phi_fwd (R:=ZI) %d %d %s %s %s %s %s]" % (rs, ra, zil(P_), o3(a_), o4d(y_), o3(b_), zil(out.numpy())))
                else:
                    P_ = ic((lb, rS, rb)); out = DV.compute_phi_bck_A(Tc(P_), Tc(a_), Tc(y_), Tc(b_))
                    lcases.append("[check_phi_bck (R:=ZI) %d %d %s %s %s %s %s]" % (rS, rb, zil(P_), o3(a_), o4d(y_), o3(b_), zil(out.numpy())))
            else:
                bc_, x_ = ic((rs, m_, rS)), ic((ra, m_, rb))
                if kind_ == "phib_fwd":
                    P_ = ic((rs, ra)); out = DV.compute_phi_fwd_rhs(Tc(P_), Tc(bc_), Tc(x_))
                    lcases.append("[check_phib_fwd (R:=ZI) %d %s %s %s %s]" % (ra, zil(P_), o3(bc_), o3(x_), zil(out.numpy())))
                else:
                    P_ = ic((rS, rb)); out = DV.compute_phi_bck_rhs(Tc(P_), Tc(bc_), Tc(x_))
                    lcases.append("[check_phib_bck (R:=ZI) %d %s %s %s %s]" % (rb, zil(P_), o3(bc_), o3(x_), zil(out.numpy())))
            lmeta.append({"division_interface": kind_, "case": len(lcases) - 1})
        except Exception as ex:
            V.fail("division interface correspondence: %s raises %s" % (kind_, type(ex).__name__), {"kind": kind_, "exc": str(ex)[:200]}, failing_input=False)
    # whole-train composition as amen_divide composes the helpers, on Gaussian-integer trains with x := q * y (exact TT product): check_chain of
    # Model/Local.v on the same cores (the divisor as diagonal operator), and the conclusion of theorem C13_product_quotient_stationary read off the
    # implementation: local_product(q_k) == local right-hand side, exactly
    n_chain = 0
    for j in range(8 if tier == "quick" else 80):
        d_ = rng_l.choice([2, 3, 3, 4]); k_ = rng_l.randrange(d_); Ns = [rng_l.choice([1, 2, 3]) for _ in range(d_)]
        rq = [1] + [rng_l.choice([1, 2]) for _ in range(d_ - 1)] + [1]; ry = [1] + [rng_l.choice([1, 2]) for _ in range(d_ - 1)] + [1]
        try:
            qc = [ic((rq[i], Ns[i], rq[i + 1])) for i in range(d_)]; yc = [ic((ry[i], Ns[i], ry[i + 1])) for i in range(d_)]
            qt, yt = torchtt.TT([Tc(c) for c in qc]), torchtt.TT([Tc(c) for c in yc])
            xt = qt * yt; xc = [c.numpy() for c in xt.cores]
            PhA, Phb = [None] * (d_ + 1), [None] * (d_ + 1)
            PhA[0] = torch.ones((1, 1, 1), dtype=torch.complex128); PhA[d_] = torch.ones((1, 1, 1), dtype=torch.complex128)
            Phb[0] = torch.ones((1, 1), dtype=torch.complex128); Phb[d_] = torch.ones((1, 1), dtype=torch.complex128)
            for i in range(k_):
                PhA[i + 1] = DV.compute_phi_fwd_A(PhA[i], Tc(qc[i]), Tc(yc[i]), Tc(qc[i])); Phb[i + 1] = DV.compute_phi_fwd_rhs(Phb[i], Tc(xc[i]), Tc(qc[i]))
            for i in range(d_ - 1, k_, -1):
                PhA[i] = DV.compute_phi_bck_A(PhA[i + 1], Tc(qc[i]), Tc(yc[i]), Tc(qc[i])); Phb[i] = DV.compute_phi_bck_rhs(Phb[i + 1], Tc(xc[i]), Tc(qc[i]))
            lp = DV.local_product(PhA[k_ + 1], PhA[k_], Tc(yc[k_]), Tc(qc[k_]), list(qc[k_].shape))
            rhs_ = torch.einsum('br,bmB,BR->rmR', Phb[k_], Tc(xc[k_]), Phb[k_ + 1])
            dsc = {"division_interface": "chain", "case": len(lcases), "d": d_, "k": k_, "N": Ns, "rq": rq, "ry": ry}
            if not torch.equal(lp.reshape(-1), rhs_.reshape(-1)):
                V.fail("stationarity: with x = q * y (Gaussian-integer cores) the local product applied to the k-th core of q differs from the local right-hand side",
                       dict(dsc, lp=[str(v) for v in lp.reshape(-1).tolist()[:12]], rhs=[str(v) for v in rhs_.reshape(-1).tolist()[:12]]))
            l3 = lambda cs: "[" + ";".join(o3(c) for c in cs) + "]"; l4 = lambda cs: "[" + ";".join(o4d(c) for c in cs) + "]"
            lcases.append("[check_chain (R:=ZI) %s %s %s %s %s %s %s %s %s %s %s]" % (l3(qc[:k_]), l3(qc[k_ + 1:]), l4(yc[:k_]), l4(yc[k_ + 1:]), o4d(yc[k_]), o3(qc[k_]),
                          l3(xc[:k_]), l3(xc[k_ + 1:]), o3(xc[k_]), zil(lp.numpy()), zil(rhs_.numpy())))
            lmeta.append(dsc); n_chain += 1
        except Exception as ex:
            V.fail("division interface correspondence: chain raises %s" % type(ex).__name__, {"kind": "chain", "exc": str(ex)[:200]}, failing_input=False)
    dist["whole-train interface composition + stationarity of an exact quotient (exact, complex)"] = n_chain
    n_local = 0
    if ok_make and lcases:
        try:
            codes = coqrun.eval_nat_lists("C13_local", "From TT Require Import RingSig Instances Core Local.", "", lcases, shard=60)
            for dsc, c in zip(lmeta, codes):
                if c != [0]: V.fail("correspondence(model/impl): %s of torchtt/_division.py differs from Model/Local.v (complex data)" % dsc["division_interface"], dict(dsc, model_code=c, expr=lcases[dsc["case"]][:1500]))
                else: n_local += 1
        except Exception as ex:
            V.fail("division interface correspondence: the model could not be evaluated", {"exc": str(ex)[:300]}, failing_input=False)
    dist["division interface recursions exact (complex)"] = n_local
    nviol = V.finish()
    cov = proofcheck.coverage(PID, obl, evaluations=n, distinct_nontrivial=len(dist),
        rule=("x / y, scalar / y, elementwise_divide(x, y, ...) and x / scalar for y = 1 + z*z (entries in [1,2]) of order 2..5, mode sizes 1..10, ranks 1..4, tolerances 1e-10..1e-4, "
              "preconditioner None/'c', starting tensors random / zeros / ones, random seeds, float64 and (30%%) float32 / complex128 operands; measured: ||q*y - x|| <= %g*tol ||x|| on the dense arrays, exactness of the scalar case "
              "(and that the dividend can be used again), result shape / well-formedness, bitwise integrity of x, y and the starting tensor") % CONST,
        samples=samples, distribution=dist, known_findings_reproduced=V.known_hit,
        partial=["convergence of the AMEn division sweeps is an empirical contract: measured, not proved; the exact scalar case and the entrywise meaning of q*y are theorems"])
    common.write_evidence(PID, tier, seed, cov, time.time() - t0, nviol, common.TRUSTED_BASE)
    return 1 if nviol else 0
