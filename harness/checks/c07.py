"""C07 - Norm, inner product, sums and bilinear forms equal their dense values."""
import itertools, math
import numpy as np
import ttgen, expr, coqrun, exprcheck
from expr import Lit3, Lit4, Op

PID = "C07"

def gen_tt(rng, cplx, d=None, N=None, rmax=3, zero=False):
    d = d or rng.choice([1, 2, 2, 3, 3, 4, 5])
    N = N or ttgen.rand_shape(rng, d, p_one=0.2)
    R = ttgen.rand_ranks(rng, len(N), rmax)
    cores = ttgen.rand_tt_cores(rng, N, R, cplx, -2, 2)
    if zero:
        k = rng.randrange(len(cores)); cores[k] = cores[k] * 0
    return Lit3(cores)

def gen_ttm(rng, cplx, d=None):
    while True:
        d_ = d or rng.choice([1, 2, 3])
        M = [rng.choice([1, 2, 3, 4]) for _ in range(d_)]
        N = [rng.choice([1, 2, 3, 4]) for _ in range(d_)]
        if np.prod(M) * np.prod(N) <= 1200: break
    return Lit4(ttgen.rand_ttm_cores(rng, M, N, ttgen.rand_ranks(rng, d_, 3), cplx))

def subset(rng, d):
    kind = rng.choice(["first", "last", "adjacent", "scattered", "all", "one", "random"])
    if kind == "first": s = [0]
    elif kind == "last": s = [d - 1]
    elif kind == "adjacent": i = rng.randrange(max(1, d - 1)); s = [i, min(d - 1, i + 1)]
    elif kind == "scattered": s = list(range(0, d, 2))
    elif kind == "all": s = list(range(d))
    elif kind == "one": s = [rng.randrange(d)]
    else: s = [i for i in range(d) if rng.random() < 0.5] or [0]
    return sorted(set(s)), kind

def gen_case(rng, car):
    cplx = car is coqrun.ZI
    r = rng.random()
    zero = rng.random() < 0.06
    if r < 0.12:
        return Op("ONorm2", [gen_tt(rng, cplx, zero=zero)]), "norm2", None
    if r < 0.18:
        return Op("ONorm2", [gen_ttm(rng, cplx)]), "norm2-ttm", None
    if r < 0.30:
        x = gen_tt(rng, cplx, zero=zero)
        y = gen_tt(rng, cplx, N=[c.shape[1] for c in x.cores])
        return Op("ODot", [x, y]), "dot", None
    if r < 0.48:
        a = gen_tt(rng, cplx, d=rng.choice([2, 3, 4, 5]))
        Na = [c.shape[1] for c in a.cores]
        ax, kind = subset(rng, len(Na))
        b = gen_tt(rng, cplx, N=[Na[i] for i in ax])
        return Op("ODot", [a, b], [ax]), "dot-axis:" + kind, None
    if r < 0.58:
        return Op("OSum", [gen_tt(rng, cplx, zero=zero)]), "sum-all", None
    if r < 0.80:
        x = gen_tt(rng, cplx)
        ax, kind = subset(rng, len(x.cores))
        if rng.random() < 0.08: ax, kind = [], "empty"
        e = Op("OSum", [x], [ax])
        if len(ax) == 1 and rng.random() < 0.6: e.int_index = True; kind += "(int)"       # x.sum(k) with a bare int, k = 0 included
        elif len(ax) >= 2 and rng.random() < 0.4:                                         # the same modes listed in descending / shuffled order
            perm = list(reversed(ax)) if rng.random() < 0.5 else rng.sample(ax, len(ax))
            if perm != ax: e.impl_axes = perm; kind += "(unsorted list)"
        return e, "sum:" + kind, None
    if r < 0.85:
        return Op("OSum", [gen_ttm(rng, cplx)]), "sum-all-ttm", None
    if r < 0.90:
        A = gen_ttm(rng, cplx)
        ax, kind = subset(rng, len(A.cores))
        e = Op("OSum", [A], [ax, ax + [len(A.cores) + i for i in ax]])
        if len(ax) == 1 and rng.random() < 0.6: e.int_index = True; kind += "(int)"
        elif len(ax) >= 2 and rng.random() < 0.4: e.impl_axes = list(reversed(ax)); kind += "(unsorted list)"
        return e, "sum-ttm:" + kind, None
    A = gen_ttm(rng, cplx)
    x = gen_tt(rng, cplx, N=[c.shape[1] for c in A.cores], rmax=2)
    y = gen_tt(rng, cplx, N=[c.shape[2] for c in A.cores], rmax=2)
    return Op("OBilinear", [x, A, y]), "bilinear", None

def evaluate(e, dtype):
    """dense equivalence + the floating-point norm() paths (QR sweep without autograd, sqrt) against the exact value"""
    import torch, torchtt
    oi, fails = exprcheck.dense_equiv(e, dtype)
    if e.name == "ONorm2" and not fails:
        exact = float(np.real(np.asarray(oi["dense_raw"]).reshape(-1)[0]))
        x = e.args[0].impl([], dtype)
        tol = 1e-5 if dtype == torch.float32 else 1e-12
        try:
            n_qr = float(torch.real(x.norm()))                 # QR branch
            n2_qr = float(torch.real(x.norm(True)))
            y = torchtt.TT([c.clone().requires_grad_(True) for c in x.cores])
            n_ad = float(torch.real(y.norm().detach()))        # autograd branch, sqrt
            for name, got, want in (("norm() [QR sweep]", n_qr, math.sqrt(exact)), ("norm(squared=True) [QR sweep]", n2_qr, exact),
                                    ("norm() [autograd branch]", n_ad, math.sqrt(exact))):
                if not abs(got - want) <= tol * max(1.0, abs(want)):
                    fails.append("%s = %r, exact %r" % (name, got, want))
            # the hypotheses / conclusion of C07_norm2_last_core on the implementation's own gauge: after lr_orthogonal every core but the last has an
            # orthonormal left unfolding, and the norm of the last core is the norm of the tensor
            from torchtt._decomposition import lr_orthogonal
            lc, _R = lr_orthogonal(x.cores, x.R, x.is_ttm) if len(x.cores) >= 2 else ([c for c in x.cores], None)     # (an internal routine: not defined for a single core)
            for k_, c_ in enumerate(lc[:-1]):
                U_ = c_.reshape(-1, c_.shape[-1])
                if not (float((U_.conj().T @ U_ - torch.eye(U_.shape[1], dtype=U_.dtype)).abs().max()) <= 100 * tol):
                    fails.append("hypothesis left_orth: core %d of lr_orthogonal's output does not have an orthonormal left unfolding" % k_); break
            else:
                if not (exact <= 0) and not (abs(float(lc[-1].abs().pow(2).sum()) - exact) <= 100 * tol * max(1.0, exact)):
                    fails.append("the squared norm of the last core after lr_orthogonal differs from the squared norm of the tensor")
            if len(x.cores) >= 2:              # the mirror image (C07_norm2_first_core): rl_orthogonal leaves right-orthogonal cores and a first core carrying the norm
                from torchtt._decomposition import rl_orthogonal
                rc, _R2 = rl_orthogonal(x.cores, x.R, x.is_ttm)
                for k_, c_ in enumerate(rc[1:]):
                    V_ = c_.reshape(c_.shape[0], -1)
                    if not (float((V_ @ V_.conj().T - torch.eye(V_.shape[0], dtype=V_.dtype)).abs().max()) <= 100 * tol):
                        fails.append("hypothesis right_orth: core %d of rl_orthogonal's output does not have an orthonormal right unfolding" % (k_ + 1)); break
                else:
                    if not (exact <= 0) and not (abs(float(rc[0].abs().pow(2).sum()) - exact) <= 100 * tol * max(1.0, exact)):
                        fails.append("the squared norm of the first core after rl_orthogonal differs from the squared norm of the tensor")
        except Exception as ex:
            fails.append("norm() raises %s" % type(ex).__name__)
    return oi, fails

def nontrivial(e, cat):
    return any(isinstance(a, (Lit3, Lit4)) and any(c.shape[-1] > 1 for c in a.cores[:-1]) for a in e.args)

RULE = ("random reductions: norm^2 (Gram/autograd branch exact, QR branch and sqrt within 1e-12; the gauge left by lr_orthogonal is checked to have orthonormal left unfoldings "
        "and a last core carrying the norm - hypotheses and conclusion of C07_norm2_last_core), dot (full and along first/last/adjacent/scattered/all mode "
        "subsets), sum (all / every kind of subset), TT-matrix norm and sums, bilinear forms; order 1..5, singleton modes, rank profiles up to 3, zero "
        "tensors, float64/complex128 (Gaussian-integer cores so conjugation matters)/float32; non-trivial = interior rank > 1; distinct = (structure, dtype)")

def _norm_block(V, rng, tier):
    """(a) norms that come from cancellation: ||x - y|| with y = x + 1e-9 z, stored in the (non-minimal) cores of the difference - the QR sweep
    keeps the absolute accuracy 1e-13 (||x|| + ||y||), a Gram chain does not; (b) a core edited in place between two norm() calls (the idiom of the
    library's own AD example): the second value is the norm of the object as it is now"""
    import torch, torchtt
    dist = {}
    nb = 16 if tier == "quick" else 160
    for j in range(nb):
        cplx = j % 4 == 1; ttm = j % 4 == 2
        d = [1, 2, 2, 3, 4, 2, 1, 3][j % 8]
        x = gen_ttm(rng, cplx, d=d) if ttm else gen_tt(rng, cplx, d=d)
        dt = torch.complex128 if cplx else torch.float64
        xt = x.impl([], dt)
        z = (gen_ttm(rng, cplx, d=d) if ttm else gen_tt(rng, cplx, d=d)).impl([], dt)
        if list(z.N) != list(xt.N) or (ttm and list(z.M) != list(xt.M)):
            z = torchtt.TT([torch.ones_like(c[:1, ..., :1]) for c in xt.cores])
        desc = {"norm_block": True, "ttm": ttm, "complex": cplx, "N": [int(v) for v in xt.N], "R": [int(v) for v in xt.R]}
        try:
            y = xt + 1e-9 * z
            dlt = xt - y
            ref = float((xt.full() - y.full()).abs().pow(2).sum().sqrt())
            scale = float(xt.full().abs().pow(2).sum().sqrt() + y.full().abs().pow(2).sum().sqrt())
            for nm, got, want in (("norm()", float(torch.real(dlt.norm())), ref), ("norm(squared=True)", float(torch.real(dlt.norm(True))), ref * ref)):
                tol = 1e-13 * scale if nm == "norm()" else 1e-13 * scale * max(ref, 1e-13 * scale)
                if not abs(got - want) <= tol + 1e-300: V.fail("cancellation: %s of a small difference is off beyond the accuracy of the QR sweep" % nm, dict(desc, got=got, dense=want, scale=scale))
            dist["cancellation"] = dist.get("cancellation", 0) + 1
            # in-place edit between two norms
            w = torchtt.TT([c.clone() for c in xt.cores])
            n1 = float(torch.real(w.norm()))
            k = rng.randrange(len(w.cores)); edit = ["+=", "*=", "zero_", "slice"][j % 4]
            if edit == "+=": w.cores[k][(0,) * w.cores[k].dim()] += 3.0
            elif edit == "*=": w.cores[k] *= 2.0
            elif edit == "zero_": w.cores[k].zero_()
            else: w.cores[k][..., 0] = 1.0
            for sq in (False, True):
                got = float(torch.real(w.norm(sq))); want = float(w.full().abs().pow(2).sum().sqrt()); want = want * want if sq else want
                if not abs(got - want) <= 1e-12 * max(1.0, abs(want)): V.fail("norm(%s) after an in-place edit of a core (%s) is not the norm of the object as it is now" % ("squared" if sq else "", edit), dict(desc, got=got, dense=want, first=n1))
            dist["in-place edit: " + edit] = dist.get("in-place edit: " + edit, 0) + 1
        except Exception as ex:
            V.fail("norm block raises %s" % type(ex).__name__, dict(desc, exc=str(ex)[:200]))
    # axes given as numpy integers (what np.nonzero / np.argsort / a loop over np.arange hand out): the same sums and partial inner products
    for j in range(8 if tier == "quick" else 60):
        cplx = j % 3 == 1; ttm = j % 4 == 3
        d = rng.choice([2, 3, 4]); x = (gen_ttm(rng, cplx, d=d) if ttm else gen_tt(rng, cplx, d=d)).impl([], torch.complex128 if cplx else torch.float64)
        ax = sorted(rng.sample(range(d), rng.randint(1, d))); npt = [np.int64, np.int32, np.intp][j % 3]
        desc = {"numpy_integer_axes": True, "ttm": ttm, "N": [int(v) for v in x.N], "axes": ax, "type": npt.__name__}
        try:
            forms = [("list", [npt(a) for a in ax])] + ([("bare", npt(ax[0]))] if len(ax) == 1 else [])
            for nm, idx in forms:
                got = x.sum(idx); ref = x.sum([int(a) for a in ax])
                gf = got.full() if isinstance(got, torchtt.TT) else got; rf = ref.full() if isinstance(ref, torchtt.TT) else ref
                dense = x.full().sum(dim=(ax + [d + a for a in ax]) if ttm else ax)
                if list(gf.shape) != list(dense.shape) or not (float((gf - dense).abs().max()) <= 1e-10 * max(1.0, float(dense.abs().max()))): V.fail("sum over axes given as numpy integers (%s) differs from the dense sum" % nm, desc)
            if not ttm:
                y = gen_tt(rng, cplx, N=[int(x.N[a]) for a in ax]).impl([], torch.complex128 if cplx else torch.float64)
                got = torchtt.dot(x, y, [npt(a) for a in ax]); ref = torchtt.dot(x, y, [int(a) for a in ax])
                gf = got.full() if isinstance(got, torchtt.TT) else got; rf = ref.full() if isinstance(ref, torchtt.TT) else ref
                if list(gf.shape) != list(rf.shape) or not (float((gf - rf).abs().max()) <= 1e-10 * max(1.0, float(rf.abs().max()))): V.fail("dot along axes given as numpy integers differs from the same call with Python ints", desc)
        except Exception as ex:
            V.fail("sum / dot with axes given as numpy integers raises %s" % type(ex).__name__, dict(desc, exc=str(ex)[:200]))
        dist["axes as numpy integers"] = dist.get("axes as numpy integers", 0) + 1
    return {"norm_cancellation_and_in_place_cases": dist}

def run(tier, seed, replay=None):
    import torch
    dtypes = [(torch.float64, coqrun.Z), (torch.complex128, coqrun.ZI), (torch.complex128, coqrun.ZI), (torch.float32, coqrun.Z)]
    return exprcheck.run(PID, tier, seed, gen_case, 400, 6000, RULE, nontrivial, dtypes, evaluate=evaluate, post=_norm_block)
