"""C14 - Cross approximation recovers low-rank data and samples only valid indices."""
import time, random, json, math, itertools
import numpy as np
import common, coqrun, proofcheck

PID = "C14"

def eval_rows(L, nk, nk1, R):
    return [list(a) + [i, j] + list(b) for a in L for i in range(nk) for j in range(nk1) for b in R]
def left_update(Lk, n, pv): return [list(Lk[p // n]) + [p % n] for p in pv]
def right_update(Rk2, pv): return [[p // len(Rk2)] + list(Rk2[p % len(Rk2)]) for p in pv]

def targets(rng, torch):
    d = rng.choice([2, 3, 3, 4, 5])
    N = [rng.choice([2, 2, 3, 4, 5, 6, 8]) for _ in range(d)]
    if rng.random() < 0.15: N = [rng.choice([12, 20])] + N[1:]
    kind = rng.choice(["smooth", "smooth", "exact-rank", "exact-rank", "separable"])
    if kind == "smooth":
        c = rng.choice([2.0, 3.0, 5.0])
        f = lambda I, c=c: 1.0 / (c + I.sum(1).to(torch.float64))
    elif kind == "separable":
        vs = [torch.tensor([rng.uniform(0.5, 2.0) for _ in range(n)], dtype=torch.float64) for n in N]
        def f(I, vs=vs):
            out = torch.ones(I.shape[0], dtype=torch.float64)
            for k, v in enumerate(vs): out = out * v[I[:, k]]
            return out
    else:
        r = rng.randint(2, 4)
        vs = [[torch.tensor([rng.uniform(-1, 1) for _ in range(n)], dtype=torch.float64) for n in N] for _ in range(r)]
        def f(I, vs=vs):
            tot = torch.zeros(I.shape[0], dtype=torch.float64)
            for term in vs:
                out = torch.ones(I.shape[0], dtype=torch.float64)
                for k, v in enumerate(term): out = out * v[I[:, k]]
                tot = tot + out
            return tot
    return N, f, kind

def run(tier, seed, replay=None):
    import torch, torchtt
    import torchtt.interpolate as ip
    t0 = time.time()
    rng = random.Random(seed)
    V = common.Verdict(PID)
    ok_make, obl = proofcheck.obligations(PID, V)
    n = 60 if tier == "quick" else 900
    dist, samples = {}, []
    n_mats = n_rows = n_struct = n_upd = 0
    coq_cases, coq_expect = [], []
    orig_maxvol = ip._maxvol
    for i in range(n):
        N, f0, kind = targets(rng, torch)
        d = len(N)
        scale = rng.choice([1.0, 1.0, 1.0, 1e-9, 1e-6, 1e5])        # the tolerance is relative: the data's magnitude must not matter
        f = (lambda I, f0=f0, scale=scale: scale * f0(I)) if scale != 1.0 else f0
        eps = rng.choice([1e-10, 1e-8, 1e-6, 1e-4, 1e-3])
        start = None
        torch.manual_seed(rng.randrange(1 << 30))          # (the start tensor comes from torch's generator: seeded from the run's stream)
        if rng.random() < 0.2: start = torchtt.randn(N, [1] + [rng.randint(1, 3)] * (d - 1) + [1], dtype=torch.float64)
        sd = rng.randrange(1 << 30); torch.manual_seed(sd)
        nform = ["list", "list", "tuple", "torch.Size"][i % 4]        # the shape as a list, a tuple or the .shape of a reference array (with and without a start tensor)
        Narg = {"list": N, "tuple": tuple(N), "torch.Size": torch.Size(N)}[nform]
        if i % 8 in (2, 3): start = torchtt.randn(N, [1] + [rng.randint(1, 3)] * (d - 1) + [1], dtype=torch.float64)
        desc = {"routine": "dmrg_cross", "N": N, "target": kind, "eps": eps, "torch_seed": sd, "start": start is not None, "scale": scale, "N_given_as": nform}
        dist["N given as " + nform + (" + x_start" if start is not None else "")] = dist.get("N given as " + nform + (" + x_start" if start is not None else ""), 0) + 1
        dist["dmrg_cross:" + kind] = dist.get("dmrg_cross:" + kind, 0) + 1
        dist["scale:%g" % scale] = dist.get("scale:%g" % scale, 0) + 1
        if i % 15 == 0 and len(samples) < 5: samples.append(desc)
        events = []
        def spy_f(I):
            events.append(("eval", I.clone()))
            return f(I)
        def spy_maxvol(M):
            r = orig_maxvol(M); events.append(("maxvol", np.array(r).copy(), tuple(M.shape))); return r
        ip._maxvol = spy_maxvol
        try:
            x = ip.dmrg_cross(spy_f, Narg, eps=eps, x_start=start, nswp=12)
        except Exception as ex:
            V.fail("dmrg_cross raises %s" % type(ex).__name__, dict(desc, exc=str(ex)[:200])); continue
        finally:
            ip._maxvol = orig_maxvol
        # (a) the property: every matrix handed to the function is M x d, integer, column k in [0, N[k])
        mats = [e[1] for e in events if e[0] == "eval"]
        bad = None
        for I in mats:
            n_mats += 1; n_rows += int(I.shape[0])
            if I.dim() != 2 or I.shape[1] != d or I.dtype not in (torch.int64, torch.int32): bad = "index matrix is not an integer M x d matrix (shape %s, dtype %s)" % (list(I.shape), I.dtype); break
            if I.numel() and (int(I.min()) < 0 or any(int(I[:, k].max()) >= N[k] for k in range(d))): bad = "an index is outside [0, N[k])"; break
        if bad: V.fail("dmrg_cross: " + bad, desc); continue
        # (b) structure against the model: each matrix is eval_rows(L, n_k, n_k+1, R) for the index sets it displays, and the
        #     sets seen in consecutive matrices are related by left_update / right_update with the recorded pivots
        seq = [e for e in events]
        ne = sum(1 for e in seq if e[0] == "eval")
        per_sweep = 2 * (d - 1)
        pos = 0; prev = None
        evs = [(j, e) for j, e in enumerate(seq) if e[0] == "eval"]
        for t, (j, e) in enumerate(evs):
            kk = t % per_sweep
            k = kk if kk < d - 1 else (2 * (d - 1) - 1 - kk)
            I = e[1].tolist()
            rows = len(I)
            # recover L (prefix tuples in order of first appearance) and R (suffix tuples of the first block)
            Rk2 = []
            for row in I:
                b = row[k + 2:]
                if b in Rk2: break
                Rk2.append(b)
            nR = len(Rk2); blk = N[k] * N[k + 1] * nR
            if rows % blk: V.fail("dmrg_cross: index matrix does not have the (a,i,j,b) block structure", dict(desc, bond=k)); break
            Lk = [I[a * blk][:k] for a in range(rows // blk)]
            if eval_rows(Lk, N[k], N[k + 1], Rk2) != I:
                V.fail("correspondence(model/impl): index matrix differs from eval_rows(L, n_k, n_k+1, R)", dict(desc, bond=k), failing_input=False); break
            n_struct += 1
            if len(coq_cases) < (40 if tier == "quick" else 300) and rows <= 200:
                coq_cases.append("concat (eval_rows %s %d %d %s)" % (coqrun.nnlist(Lk) if k else "[[]]", N[k], N[k + 1], coqrun.nnlist(Rk2) if k + 2 < d else "[[]]"))
                coq_expect.append([v for row in I for v in row])
            # the maxvol call right after this evaluation produced the next index set
            mv = next((s for s in seq[j + 1:] if s[0] == "maxvol"), None)
            nxt = evs[t + 1][1][1].tolist() if t + 1 < len(evs) else None
            if mv is not None and nxt is not None:
                kk2 = (t + 1) % per_sweep
                k2 = kk2 if kk2 < d - 1 else (2 * (d - 1) - 1 - kk2)
                piv = [int(p) for p in mv[1]]
                if kk < d - 1 and k2 == k + 1:                    # forward step: L[k+1] shown by the next matrix
                    R2 = []
                    for row in nxt:
                        b = row[k2 + 2:]
                        if b in R2: break
                        R2.append(b)
                    blk2 = N[k2] * N[k2 + 1] * len(R2)
                    Lnext = [nxt[a * blk2][:k2] for a in range(len(nxt) // blk2)]
                    if Lnext != left_update(Lk, N[k], piv[:len(Lnext)]):
                        V.fail("correspondence(model/impl): left index set is not left_update(L[k], N[k], pivots)", dict(desc, bond=k), failing_input=False); break
                    n_upd += 1
                    if any(p >= len(Lk) * N[k] for p in piv[:len(Lnext)]): V.fail("dmrg_cross: maxvol pivot outside the rows of its matrix", desc); break
                elif kk >= d - 1 and k2 == k - 1:                 # backward step: R[k+1] shown by the next matrix (its R[k2+2])
                    R2 = []
                    for row in nxt:
                        b = row[k2 + 2:]
                        if b in R2: break
                        R2.append(b)
                    if R2 != right_update(Rk2, piv[:len(R2)]):
                        V.fail("correspondence(model/impl): right index set is not right_update(R[k+2], pivots)", dict(desc, bond=k), failing_input=False); break
                    n_upd += 1
        # (c) accuracy a posteriori
        ref = f(torch.tensor(list(itertools.product(*[range(n_) for n_ in N])), dtype=torch.int64)).reshape(N)
        if list(x.N) != N: V.fail("dmrg_cross: result has shape %s" % list(x.N), desc); continue
        err = float((x.full() - ref).norm() / ref.norm())
        if not (err <= 100 * eps + 1e-9):
            V.fail("dmrg_cross: accuracy %s target" % kind, dict(desc, rel_err=err, ranks=[int(r) for r in x.R]))
    # ---- functions whose values are not in the working dtype (integer-valued functions computed from the int64 index matrix, float32 tables, a
    # boolean indicator) and the documented dtype= option: the values are converted, the tensor of function values is still what is approximated
    rng_d = random.Random(seed + 29)
    for j in range(8 if tier == "quick" else 80):
        d = rng_d.choice([2, 3, 4]); N = [rng_d.choice([2, 3, 4, 5, 6]) for _ in range(d)]
        kd = ["int64", "float32", "bool", "dtype=float32", "int64", "float32", "int32", "dtype=float32"][j % 8]
        if kd in ("int64", "int32"):
            fo = lambda I, kd=kd: ((I[:, 0] + 1) * (I[:, -1] + 2) + I.sum(1)).to(torch.int64 if kd == "int64" else torch.int32)
        elif kd == "float32":
            fo = lambda I: (1.0 / (2.0 + I.sum(1).to(torch.float64))).to(torch.float32)
        elif kd == "bool":
            fo = lambda I: (I[:, 0] >= 1)
        else:
            fo = lambda I: 1.0 / (2.0 + I.sum(1).to(torch.float64))
        eps = 1e-4 if "float32" in kd else rng_d.choice([1e-8, 1e-6])
        sd = rng_d.randrange(1 << 30); torch.manual_seed(sd)
        desc = {"routine": "dmrg_cross", "N": N, "function_values": kd, "eps": eps, "torch_seed": sd}
        try:
            x = ip.dmrg_cross(fo, N, eps=eps, nswp=12, **({"dtype": torch.float32} if kd == "dtype=float32" else {}))
        except Exception as ex:
            V.fail("dmrg_cross raises %s [function values %s]" % (type(ex).__name__, kd), dict(desc, exc=str(ex)[:200])); continue
        ref = fo(torch.tensor(list(itertools.product(*[range(n_) for n_ in N])), dtype=torch.int64)).reshape(N).to(torch.float64)
        if list(x.N) != N: V.fail("dmrg_cross: result has shape %s" % list(x.N), desc); continue
        err = float((x.full().to(torch.float64) - ref).norm() / ref.norm())
        if not (err <= 100 * eps + 1e-9): V.fail("dmrg_cross: accuracy [function values %s]" % kd, dict(desc, rel_err=err, ranks=[int(r) for r in x.R]))
        dist["function values " + kd] = dist.get("function values " + kd, 0) + 1
    # ---- maxvol is an oracle of the model (any pivots); what the code needs from it is a NONSINGULAR start: on matrices with zero rows (indicator /
    # sparse data) of full column rank the returned rows must be independent - and the call must return
    rng_m = random.Random(seed + 37)
    for j in range(30 if tier == "quick" else 300):
        gg = np.random.default_rng(rng_m.randrange(1 << 30)); n_, r_ = rng_m.choice([6, 8, 12]), rng_m.choice([2, 3, 4])
        Mx = torch.tensor(gg.standard_normal((n_, r_)) * (gg.random((n_, 1)) < 0.45), dtype=torch.float64)
        if int(torch.linalg.matrix_rank(Mx)) < r_: continue
        try:
            idx_ = [int(v) for v in ip._maxvol(Mx)]
            sub = Mx[idx_, :]
            if len(set(idx_)) != r_ or abs(float(torch.linalg.det(sub))) <= 1e-12 * float(Mx.abs().max()) ** r_:
                V.fail("_maxvol returns dependent rows of a matrix of full column rank", {"M": Mx.tolist(), "rows": idx_})
        except Exception as ex:
            V.fail("_maxvol raises %s on a matrix of full column rank with zero rows" % type(ex).__name__, {"M": Mx.tolist(), "exc": str(ex)[:200]})
        dist["maxvol on sparse matrices"] = dist.get("maxvol on sparse matrices", 0) + 1
    # ---- the documented sweep budget: nswp = 1 and 2 (one sweep over exact-rank / separable data already recovers it)
    rng_s = random.Random(seed + 31)
    for j in range(6 if tier == "quick" else 60):
        N, f0, kind = targets(rng_s, torch)
        if kind == "smooth": continue
        nsw = [1, 2, 1][j % 3]; eps = rng_s.choice([1e-8, 1e-6])
        sd = rng_s.randrange(1 << 30); torch.manual_seed(sd)
        desc = {"routine": "dmrg_cross", "N": N, "target": kind, "eps": eps, "torch_seed": sd, "nswp": nsw}
        try:
            x = ip.dmrg_cross(f0, N, eps=eps, nswp=nsw)
        except Exception as ex:
            V.fail("dmrg_cross raises %s [nswp=%d]" % (type(ex).__name__, nsw), dict(desc, exc=str(ex)[:200])); continue
        ref = f0(torch.tensor(list(itertools.product(*[range(n_) for n_ in N])), dtype=torch.int64)).reshape(N)
        err = float((x.full() - ref).norm() / ref.norm()) if list(x.N) == N else float("inf")
        if not (err <= 100 * eps + 1e-9): V.fail("dmrg_cross: accuracy with a sweep budget of %d" % nsw, dict(desc, rel_err=err, ranks=[int(r) for r in x.R]))
        dist["nswp=%d" % nsw] = dist.get("nswp=%d" % nsw, 0) + 1
    # ---- the documented enrichment size `kick`: 0 (no random enrichment: the two-site step alone adapts the ranks), 1, 4
    rng_k = random.Random(seed + 41)
    for j in range(9 if tier == "quick" else 90):
        N, f0, kind = targets(rng_k, torch)
        kick_ = [0, 1, 4][j % 3]; eps = rng_k.choice([1e-8, 1e-6])
        sd = rng_k.randrange(1 << 30); torch.manual_seed(sd)
        routine = "function_interpolate" if j % 2 and all(n_ >= 2 for n_ in N) else "dmrg_cross"
        desc = {"routine": routine, "N": N, "target": kind, "eps": eps, "torch_seed": sd, "kick": kick_}
        try:
            if routine == "dmrg_cross":
                x = ip.dmrg_cross(f0, N, eps=eps, nswp=12, kick=kick_)
                ref = f0(torch.tensor(list(itertools.product(*[range(n_) for n_ in N])), dtype=torch.int64)).reshape(N)
            else:
                S_ = sum(torch.meshgrid(*[torch.arange(n_, dtype=torch.float64) for n_ in N], indexing="ij")); c_ = rng_k.choice([2.0, 3.0])
                x = ip.function_interpolate(lambda t: 1.0 / t, torchtt.TT(c_ + S_), eps, nswp=12, kick=kick_); ref = 1.0 / (c_ + S_)
        except Exception as ex:
            V.fail("%s raises %s [kick=%d]" % (routine, type(ex).__name__, kick_), dict(desc, exc=str(ex)[:200])); continue
        err = float((x.full() - ref).norm() / ref.norm()) if list(x.N) == N else float("inf")
        if not (err <= 100 * eps + 1e-9): V.fail("%s: accuracy with kick=%d" % (routine, kick_), dict(desc, rel_err=err, ranks=[int(r) for r in x.R]))
        dist["kick=%d" % kick_] = dist.get("kick=%d" % kick_, 0) + 1
    # ---- function_interpolate: values handed to the function are entries of the argument tensors
    for i in range(n // 2):
        d = rng.choice([2, 3, 4])
        N = [rng.choice([2, 3, 4, 5]) for _ in range(d)]
        nargs = rng.choice([1, 1, 2])
        torch.manual_seed(rng.randrange(1 << 30))
        xs = [torchtt.randn(N, [1] + [rng.randint(1, 3)] * (d - 1) + [1], dtype=torch.float64) for _ in range(nargs)]
        xs = [t / t.norm() * 3.0 + 2.0 * torchtt.ones(N, dtype=torch.float64) for t in xs]
        eps = rng.choice([1e-8, 1e-6, 1e-4, 1e-3])
        sub = rng.random() < 0.4
        if sub:                               # a component of the arguments below eps: still part of the entries the function is to be called with
            xs = [t + (0.1 * eps) * (lambda u: u / u.norm() * 3.0)(torchtt.randn(N, [1] + [2] * (d - 1) + [1], dtype=torch.float64)) for t in xs]
        sd = rng.randrange(1 << 30); torch.manual_seed(sd)
        desc = {"routine": "function_interpolate", "N": N, "arguments": nargs, "eps": eps, "torch_seed": sd, "sub_eps_component": sub}
        dist["function_interpolate:%d" % nargs] = dist.get("function_interpolate:%d" % nargs, 0) + 1
        fulls = [t.full() for t in xs]
        table = torch.stack([f_.reshape(-1) for f_ in fulls], 1)            # all rows (x_1[idx], .., x_m[idx])
        seen = []
        if nargs == 1:
            g = lambda v: torch.tanh(v) + v * v
            def spy(v): seen.append(v.detach().clone().reshape(-1, 1)); return g(v)
            arg = xs[0]
        else:
            g = lambda v: v[:, 0] * v[:, 1] + 0.5 * v[:, 0]
            def spy(v): seen.append(v.detach().clone()); return g(v)
            arg = xs
        try:
            y = ip.function_interpolate(spy, arg, eps=eps, nswp=12)
        except Exception as ex:
            V.fail("function_interpolate raises %s" % type(ex).__name__, dict(desc, exc=str(ex)[:200])); continue
        okv = True
        for vals in seen:
            n_mats += 1; n_rows += int(vals.shape[0])
            if vals.dim() != 2 or vals.shape[1] != nargs: okv = False; break
            dmin = torch.cdist(vals, table, compute_mode='donot_use_mm_for_euclid_dist').min(1).values
            if not (float(dmin.max()) <= 1e-9 * (1 + float(table.abs().max()))): okv = False; break
        if not okv: V.fail("function_interpolate: a value handed to the function is not an entry of the argument tensors", desc); continue
        ref = g(fulls[0]) if nargs == 1 else g(table).reshape(N)
        err = float((y.full() - ref).norm() / ref.norm())
        if list(y.N) != N or not (err <= 100 * eps + 1e-9):
            V.fail("function_interpolate: accuracy", dict(desc, rel_err=err, ranks=[int(r) for r in y.R]))
    n_coq = 0
    if ok_make and coq_cases:
        res = coqrun.eval_nat_lists("C14_rows", "From TT Require Import Cross.", "", coq_cases, shard=10)
        for got, want in zip(res, coq_expect):
            if got != want: V.fail("correspondence(model/impl): Coq eval_rows differs from the recorded index matrix", {"model": got[:40], "impl": want[:40]}, failing_input=False)
            else: n_coq += 1
    nviol = V.finish()
    cov = proofcheck.coverage(PID, obl, evaluations=n + n // 2, distinct_nontrivial=n_struct,
        rule=("dmrg_cross on smooth (1/(c+sum i)), separable and exact-rank (2..4 terms) targets of order 2..5 with mode sizes 2..20 (sizes below rank+kick included), eps 1e-10..1e-3, data magnitudes 1e-9..1e5, "
              "random seeds, optional starting tensor; function_interpolate with one or two argument tensors; the user function and maxvol are wrapped: EVERY index matrix is checked "
              "(integer M x d, column k in [0, N[k])), compared with the model's eval_rows of the index sets it displays (also evaluated in Coq on a subset), and consecutive index sets "
              "are checked to be left_update / right_update of the recorded maxvol pivots; value matrices of function_interpolate must consist of entries of the argument tensors; "
              "accuracy is measured a posteriori (100*eps); non-trivial = an index matrix whose structure was compared with the model"),
        samples=samples, distribution=dist, index_matrices_checked=n_mats, index_rows_checked=n_rows, matrices_matching_model=n_struct,
        index_set_updates_matching_model=n_upd, matrices_recomputed_in_coq=n_coq, known_findings_reproduced=V.known_hit,
        partial=["recovery accuracy is a heuristic contract of a randomised alternating iteration: it is measured on the generated families, not proved; the index-safety clause is the proved part"])
    common.write_evidence(PID, tier, seed, cov, time.time() - t0, nviol, common.TRUSTED_BASE + ["maxvol, QR/SVD/solve and the random kick: oracles (any pivots, any ranks)"])
    return 1 if nviol else 0
