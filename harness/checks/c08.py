"""C08 - Indexing and pointwise evaluation agree with dense indexing."""
import numpy as np
import ttgen, expr, coqrun, exprcheck
from expr import Lit3, Lit4, Get, Mask

PID = "C08"

def gen_tt(rng, cplx, d=None, rmax=3):
    d = d or rng.choice([1, 2, 2, 3, 3, 4, 5])
    N = [rng.choice([1, 1, 2, 3, 4, 5]) for _ in range(d)]
    return Lit3(ttgen.rand_tt_cores(rng, N, ttgen.rand_ranks(rng, d, rmax), cplx, -2, 2)), N

def gen_ttm(rng, cplx):
    d = rng.choice([1, 2, 2, 3])
    M = [rng.choice([1, 2, 3]) for _ in range(d)]
    N = [rng.choice([1, 2, 3]) for _ in range(d)]
    return Lit4(ttgen.rand_ttm_cores(rng, M, N, ttgen.rand_ranks(rng, d, 3), cplx)), M, N

def rand_int(rng, n, valid=True):
    if valid:
        return rng.randrange(-n, n)
    return rng.choice([n, -n - 1, n + 2])

def rand_slice(rng, n):
    opt = lambda: rng.choice([None, None] + list(range(-n - 1, n + 2)))
    r = rng.random()
    if r < 0.25: return ("s", None, None, None)
    if r < 0.40:                                     # length-1 slices
        i = rng.randrange(n); return ("s", i, i + 1, None)
    step = rng.choice([None, None, 1, 2, 3])
    return ("s", opt(), opt(), step)

def slice_len(n, it):
    return len(range(*slice(it[1], it[2], it[3]).indices(n)))

def gen_items(rng, N, allow_none=True, nonempty=True):
    while True:
        items = []
        for n in N:
            if allow_none and rng.random() < 0.12: items.append(("n",))
            r = rng.random()
            items.append(("i", rand_int(rng, n)) if r < 0.4 else rand_slice(rng, n))
        if allow_none and rng.random() < 0.1: items.append(("n",))
        if not nonempty or all(it[0] != "s" or slice_len(n, it) > 0 for it, n in zip([i for i in items if i[0] != "n"], N)):
            return items

def _gen_case0(rng, car):
    cplx = car is coqrun.ZI
    r = rng.random()
    if r < 0.55:                                   # full tuples: ints (negative too), slices with steps, None
        x, N = gen_tt(rng, cplx)
        if rng.random() < 0.08:                    # an EMPTY slice somewhere (2:2, n:, 3:1): the dense array gives a valid empty result
            items = gen_items(rng, N, allow_none=False)
            ks = [k for k, it in enumerate(items) if it[0] == "s"]
            if ks:
                k = rng.choice(ks); n_ = N[k]
                items[k] = rng.choice([("s", n_, None, None), ("s", 1, 1, None), ("s", n_ + 2, n_ + 5, None), ("s", n_ - 1, 0, None) if n_ > 1 else ("s", 0, 0, None)])
                return Get(x, items), "tuple-empty-slice", None
        return Get(x, gen_items(rng, N)), "tuple", None
    if r < 0.67:                                   # leading / trailing Ellipsis
        x, N = gen_tt(rng, cplx, d=rng.choice([2, 3, 4, 5]))
        k = rng.randint(0, len(N))
        if rng.random() < 0.15:                      # an Ellipsis that stands for NO mode, next to integers only: the scalar entry
            ints = [("i", rand_int(rng, n_)) for n_ in N]
            return Get(x, ([("e",)] + ints) if rng.random() < 0.5 else (ints + [("e",)])), "ellipsis-empty-all-int", None
        if rng.random() < 0.5:
            items = [("e",)] + gen_items(rng, N[len(N) - k:]) if k else [("e",)]
            return Get(x, items), "ellipsis-leading", None
        items = (gen_items(rng, N[:k]) if k else []) + [("e",)]
        return Get(x, items), "ellipsis-trailing", None
    if r < 0.72:                                   # bare int / slice / Ellipsis
        if rng.random() < 0.7:
            x, N = gen_tt(rng, cplx, d=1)
            it = ("i", rand_int(rng, N[0])) if rng.random() < 0.5 else rand_slice(rng, N[0])
            if it[0] == "s" and slice_len(N[0], it) == 0: it = ("s", None, None, None)
            return Get(x, [it], tuple_=False), "bare-order1", None
        x, N = gen_tt(rng, cplx)
        return Get(x, [("e",)], tuple_=False), "bare-ellipsis", None
    if r < 0.80:                                   # all-integer index -> scalar
        x, N = gen_tt(rng, cplx)
        return Get(x, [("i", rand_int(rng, n)) for n in N]), "all-int", None
    if r < 0.90:                                   # operators: int/int, slice/slice, None/None pairs
        A, M, N = gen_ttm(rng, cplx)
        rows, cols = [], []
        for m, n in zip(M, N):
            if rng.random() < 0.15:
                rows.append(("n",)); cols.append(("n",))
            if rng.random() < 0.4:
                rows.append(("i", rand_int(rng, m))); cols.append(("i", rand_int(rng, n)))
            else:
                while True:
                    a, b = rand_slice(rng, m), rand_slice(rng, n)
                    if slice_len(m, a) > 0 and slice_len(n, b) > 0: break
                rows.append(a); cols.append(b)
        kinds_ = [it[0] for it in rows]
        cat_ = "ttm"
        if "n" in kinds_:       # a None pair, and what follows it (the position counters of cores and of index pairs then differ)
            after = kinds_[kinds_.index("n") + 1:]
            cat_ = "ttm-none-then-" + ("slice" if "s" in after else ("int" if "i" in after else "nothing"))
        elif "i" in kinds_ and "s" in kinds_: cat_ = "ttm-int-and-slice"
        return Get(A, rows + cols), cat_, None
    x, N = gen_tt(rng, cplx)                       # apply_mask
    M_ = rng.choice([1, 2, 3, 6])
    neg = rng.random() < 0.4                        # negative entries count from the end, as in x[index] and in the dense array
    e = Mask(x, [[(rng.randrange(n) - n if (neg and rng.random() < 0.5) else rng.randrange(n)) for n in N] for _ in range(M_)])
    kind = "int64"
    if rng.random() < 0.5:                          # the index matrix in another integer type / container (an index matrix is never a mask)
        kind = rng.choice(["int32", "int16", "int8", "numpy-int64", "numpy-int32", "list"] + ([] if neg else ["uint8", "uint8", "numpy-uint8"]))
        if kind in ("uint8", "numpy-uint8") and rng.random() < 0.5 and N:       # as many rows as the first mode has entries, 0/1 entries: the shape a byte mask would have
            e = Mask(x, [[rng.randrange(min(2, n)) for n in N] for _ in range(N[0])])
        e.index_kind = kind
    return e, "apply_mask" + ("-negative" if neg else "") + ("" if kind == "int64" else "[" + kind + "]"), None

def gen_case(rng, car):
    e, cat, x = _gen_case0(rng, car)
    if isinstance(e, Get) and any(it[0] == "i" for it in e.items) and rng.random() < 0.2:      # the integers of the index as numpy integers / 0-d integer tensors
        e.int_kind = rng.choice(["numpy-int64", "numpy-int32", "tensor0d"])
        cat = cat + "[" + e.int_kind + "]"
    return e, cat, x

def nontrivial(e, cat):
    return any(isinstance(a, (Lit3, Lit4)) and any(c.shape[-1] > 1 for c in a.cores[:-1]) for a in e.args)

def key_of(e, oi, fails):
    return "%s: %s" % (e.name, "; ".join(sorted(set(f.split(" != ")[0][:70] for f in fails))))

RULE = ("index expressions drawn from the grammar: full tuples of integers (negative included), slices with start/stop in -n-1..n+1 or None and step None/1/2/3 "
        "(length-1 slices included), None entries, leading or trailing Ellipsis, bare int/slice/Ellipsis, all-integer indices (scalar), operator int/slice/None "
        "pairs, apply_mask with 1..6 rows; order 1..5, singleton modes frequent, ranks up to 3, float64/complex128/float32; result shape and every value compared "
        "exactly with torch indexing of the dense array; non-trivial = interior rank > 1; distinct = (structure, dtype)")

def exhaustive_tuples(rng):
    """thorough tier: EVERY index tuple over a small item alphabet (two integers, five slices) for every shape of order 1..3 with mode sizes 1..3,
    plus the same tuples with a leading / trailing Ellipsis replacing a run of full slices and with one None inserted at every position"""
    import itertools, torch
    out = []
    alphabet = lambda n: [("i", 0), ("i", -1), ("s", None, None, None), ("s", 0, 1, None), ("s", 1, None, None), ("s", None, None, 2), ("s", -2, None, None)]
    for d in (1, 2, 3):
        for N in itertools.product((1, 2, 3), repeat=d):
            x = Lit3(ttgen.rand_tt_cores(rng, list(N), ttgen.rand_ranks(rng, d, 2), False, -2, 2))
            for items in itertools.product(*[alphabet(n) for n in N]):
                items = list(items)
                if any(it[0] == "s" and slice_len(n, it) == 0 for it, n in zip(items, N)): continue
                out.append((Get(x, items), "exhaustive-tuple", torch.float64, coqrun.Z))
                if d >= 2 and items[0] == ("s", None, None, None): out.append((Get(x, [("e",)] + items[1:]), "exhaustive-ellipsis", torch.float64, coqrun.Z))
                if d >= 2 and items[-1] == ("s", None, None, None): out.append((Get(x, items[:-1] + [("e",)]), "exhaustive-ellipsis", torch.float64, coqrun.Z))
                if sum(1 for it in items if it[0] == "s") >= 1:
                    k = rng.randrange(d + 1)
                    out.append((Get(x, items[:k] + [("n",)] + items[k:]), "exhaustive-none", torch.float64, coqrun.Z))
    return out

def _stale_block(V, rng, tier):
    """apply_mask / full read, the object changed in place, read again - see harness/staleprobe.py"""
    import torch, torchtt, staleprobe
    out = {"read_mutate_read_probe_readouts": staleprobe.run_block(V, rng, torch, torchtt, "apply_mask / full", ["cores", "svd", "arith"], 8 if tier == "quick" else 80)}
    # a Python bool is an int subclass but no index: torch / numpy read it as a mask (a new axis). Either the dense result comes back, or the call is refused -
    # never an object of another shape or other entries
    import history
    nb = 0
    for j in range(12 if tier == "quick" else 120):
        x = history.rand_tt(rng, [torch.float64, torch.complex128][j % 2], d=[1, 2, 3, 3][j % 4])
        N = [int(n_) for n_ in x.N]; k = rng.randrange(len(N)); b = bool(j % 3)
        idx = [rng.randrange(n_) if rng.random() < 0.6 else slice(None) for n_ in N]; idx[k] = b
        idx = tuple(idx) if (len(N) > 1 or j % 2) else idx[0]
        desc = {"bool_index": True, "N": N, "index": str(idx)}
        try: got = x[idx]
        except Exception: nb += 1; continue
        try:
            ref = x.full()[idx]; g = got.full() if isinstance(got, torchtt.TT) else got
            if list(g.shape) != list(ref.shape) or not (float((g - ref).abs().max()) if ref.numel() else 0.0) <= 1e-12: V.fail("a bool in the index: the result is neither the dense result nor a refusal", dict(desc, got_shape=list(g.shape), dense_shape=list(ref.shape)))
        except Exception as ex:
            V.fail("a bool in the index: the result is neither the dense result nor a refusal", dict(desc, exc=str(ex)[:200]))
        nb += 1
    out["bool_index_cases"] = nb
    return out

def run(tier, seed, replay=None):
    import torch
    dtypes = [(torch.float64, coqrun.Z), (torch.complex128, coqrun.ZI), (torch.float64, coqrun.Z), (torch.float32, coqrun.Z)]
    return exprcheck.run(PID, tier, seed, gen_case, 500, 8000, RULE + ("; thorough tier additionally enumerates EVERY index tuple over a 7-item alphabet for all shapes of "
                         "order 1..3 with mode sizes 1..3 (with Ellipsis and None variants)" if tier == "thorough" else ""), nontrivial, dtypes, key_of=key_of,
                         extra_cases=exhaustive_tuples if tier == "thorough" else None, post=_stale_block)
