"""C06 - Operations never change the value of their operands."""
from checks import c05

PID = "C06"

def run(tier, seed, replay=None):
    return c05.run(tier, seed, replay, pid=PID, focus=("intact",))
