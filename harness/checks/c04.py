"""C04 - TT-matrix algebra equals dense linear-operator algebra."""
from fractions import Fraction
import numpy as np
import ttgen, expr, coqrun, exprcheck
from expr import Lit3, Lit4, Dense, Scal, Op

PID = "C04"

def distinct_sizes(rng, k, pool=(1, 2, 3, 4, 5), p_one=0.12):
    pool = [s for s in pool if s != 1]
    out = []
    for _ in range(k):
        out.append(1 if rng.random() < p_one else rng.choice(pool))
    return out

def gen_ttm(rng, d, cplx, M=None, N=None, rmax=3):
    M = M or distinct_sizes(rng, d)
    N = N or distinct_sizes(rng, d)
    # rectangular: make row and column sizes differ where possible
    N = [n if n != m or rng.random() < 0.3 else (n % 4) + 2 for m, n in zip(M, N)] if N is not None else N
    R = ttgen.rand_ranks(rng, d, rmax)
    return Lit4(ttgen.rand_ttm_cores(rng, M, N, R, cplx))

def gen_tt(rng, N, cplx, rmax=3):
    R = ttgen.rand_ranks(rng, len(N), rmax)
    return Lit3(ttgen.rand_tt_cores(rng, N, R, cplx, lo=-2, hi=2))

def shapes(A):
    return [c.shape[1] for c in A.cores], [c.shape[2] for c in A.cores]

def gen_case(rng, car):
    while True:
        e, cat, c2 = gen_case0(rng, car)
        if all(int(np.prod([int(np.prod(c.shape[1:-1])) for c in a.cores])) <= 1500 for a in e.args if isinstance(a, (Lit3, Lit4))) and \
           all(a.arr.size <= 1500 for a in e.args if isinstance(a, Dense)):
            return e, cat, c2

def gen_case0(rng, car):
    cplx = car is coqrun.ZI
    d = rng.choice([1, 2, 2, 3, 3, 4])
    r = rng.random()
    A = gen_ttm(rng, d, cplx, rmax=2 if d >= 3 else 3)
    M, N = shapes(A)
    if r < 0.16:
        return Op("OMatmul", [A, gen_tt(rng, N, cplx)], [[d, 0]]), "A@x", None
    if r < 0.30:
        return Op("OMatmul", [gen_tt(rng, M, cplx), A], [[d, 1]]), "x@A", None
    if r < 0.46:
        K = distinct_sizes(rng, d)
        B = gen_ttm(rng, d, cplx, M=N, N=K, rmax=2)
        B = Lit4(ttgen.rand_ttm_cores(rng, N, K, ttgen.rand_ranks(rng, d, 2), cplx))
        return Op("OMatmul", [A, B], [[d, 2]]), "A@B", None
    if r < 0.62:
        nb = rng.choice([0, 1, 2, 3])
        Bsh = [rng.choice([1, 2, 3]) for _ in range(nb)]
        X = ttgen.rand_core(rng, tuple(Bsh + N), cplx, lo=-2, hi=2)
        return Op("OMatmul", [A, Dense(X)], [[d, 3]]), "A@dense(batch=%d)" % nb, None
    if r < 0.70:
        return Op("OTr", [A], [[d]]), "transpose", None
    if r < 0.84:
        B = Lit4(ttgen.rand_ttm_cores(rng, M, N, ttgen.rand_ranks(rng, d, 3), cplx))
        return Op(rng.choice(["OAdd", "OSub", "OMul"]), [A, B]), "ttm-binary", None
    if r < 0.95:
        op = rng.choice(["OAdd", "ORAdd", "OSub", "ORSub", "OMul", "ORMul", "ONeg"])
        if op == "ONeg":
            return Op(op, [A]), "ttm-neg-order-%s" % ("even" if d % 2 == 0 else "odd"), None
        if not cplx and rng.random() < 0.3:        # a scalar with ~30 significant bits: exact in float64, not representable in float32
            c = expr.wide_dyadic(rng)
            return Op(op, [A, Scal(rng.choice(["float", "npf64", "t0"]), c, coq_value=Fraction(c))]), "ttm-scalar-wide", coqrun.QC
        if not cplx and op in ("OMul", "ORMul") and rng.random() < 0.25:      # factors far below machine epsilon (exact powers of two): the product is exact, not "numerically zero"
            c = rng.choice([2.0 ** -60, -2.0 ** -70, 2.0 ** -200]) if expr.CUR_DTYPE[0] in ("torch.float64", "torch.complex128") else rng.choice([2.0 ** -30, -2.0 ** -60])
            return Op(op, [A, Scal(rng.choice(["float", "npf64", "t0"]), c, coq_value=Fraction(c))]), "ttm-scalar-tiny", coqrun.QC
        kind = rng.choice(["int", "float", "npf64", "npi64", "t0", "t1", "npu8", "tu8", "npi32"])
        v = rng.choice([0, 1, 2, -3])
        return Op(op, [A, Scal(kind, abs(v) if kind in ("npu8", "tu8") else v)]), ("ttm-scalar-zero-factor" if v == 0 and op in ("OMul", "ORMul") else "ttm-scalar"), None
    if r < 0.98:
        A2 = Lit4([c * 2 for c in A.cores[:1]] + A.cores[1:]) if not cplx else A
        if cplx:
            return Op("OTr", [A], [[d]]), "transpose", None
        s = rng.choice([2, -2, 0.5])
        return Op("ODiv", [A2, Scal(rng.choice(["int", "float", "t0", "npi64", "npi32", "npf64", "npf32"]) if s != 0.5 else rng.choice(["float", "npf64", "npf32"]), s, coq_value=1 / Fraction(s))]), "ttm-div", coqrun.QC
    return Op("OEye", [], [distinct_sizes(rng, d)]), "eye", None

def nontrivial(e, cat):
    return any(isinstance(a, (Lit3, Lit4)) and any(c.shape[-1] > 1 for c in a.cores[:-1]) for a in e.args) or cat.startswith("A@dense")

RULE = ("random operator expressions (order 1..4, rectangular modes with row/column/inner sizes drawn independently, singleton modes, distinct rank "
        "profiles on both operands, batch shapes with 0..3 leading dims, float64/float32/complex128) with small-integer cores, exact comparison; "
        "non-trivial = some interior rank > 1 on an operand or a batched dense product; distinct = distinct (expression structure, dtype) key")

def exhaustive_structures(rng):
    """thorough tier: EVERY size structure of A@x, x@A, A@B, A@dense, A.t(), A+-*B for order 1..2 with row / column / inner sizes in {1,2,3}"""
    import itertools, torch
    out = []
    mk4 = lambda M, N: Lit4(ttgen.rand_ttm_cores(rng, list(M), list(N), ttgen.rand_ranks(rng, len(M), 2), False))
    mk3 = lambda N: Lit3(ttgen.rand_tt_cores(rng, list(N), ttgen.rand_ranks(rng, len(N), 2), False, lo=-2, hi=2))
    for d in (1, 2):
        for M in itertools.product((1, 2, 3), repeat=d):
            for N in itertools.product((1, 2, 3), repeat=d):
                A = mk4(M, N)
                out.append((Op("OMatmul", [A, mk3(N)], [[d, 0]]), "exhaustive A@x", torch.float64, coqrun.Z))
                out.append((Op("OMatmul", [mk3(M), A], [[d, 1]]), "exhaustive x@A", torch.float64, coqrun.Z))
                out.append((Op("OTr", [A], [[d]]), "exhaustive transpose", torch.float64, coqrun.Z))
                out.append((Op(rng.choice(["OAdd", "OSub", "OMul"]), [A, mk4(M, N)]), "exhaustive ttm-binary", torch.float64, coqrun.Z))
                for nb in (0, 1, 2):
                    X = ttgen.rand_core(rng, tuple([2] * nb + list(N)), False, lo=-2, hi=2)
                    out.append((Op("OMatmul", [A, Dense(X)], [[d, 3]]), "exhaustive A@dense", torch.float64, coqrun.Z))
                for K in itertools.product((1, 2, 3), repeat=d):
                    out.append((Op("OMatmul", [A, mk4(N, K)], [[d, 2]]), "exhaustive A@B", torch.float64, coqrun.Z))
    return out

def _mixed_block(V, rng, tier):
    """operands of two dtypes (exact, promoted dtype, either order) and scalars that are not dyadic - see harness/mixdtype.py"""
    import torch, torchtt, mixdtype
    dist = {}
    mixdtype.run_block(V, rng, torch, torchtt, True, dist, 12 if tier == "quick" else 120)
    import staleprobe
    n_stale = staleprobe.run_block(V, rng, torch, torchtt, "transpose / full of an operator", ["ttm", "svd-ttm"], 8 if tier == "quick" else 80)
    return {"mixed_dtype_and_non_dyadic_scalar_cases": dist, "read_mutate_read_probe_readouts": n_stale}

def run(tier, seed, replay=None):
    import torch
    dtypes = [(torch.float64, coqrun.Z), (torch.complex128, coqrun.ZI), (torch.float64, coqrun.Z), (torch.float32, coqrun.Z)]
    return exprcheck.run(PID, tier, seed, gen_case, 300, 5000, RULE + ("; thorough tier additionally enumerates EVERY size structure of the products, the transpose and the "
                         "operator sums for order 1..2 with sizes 1..3" if tier == "thorough" else ""), nontrivial, dtypes,
                         extra_cases=exhaustive_structures if tier == "thorough" else None, post=_mixed_block)
