"""C10 - Reshape, permute and QTT conversion preserve the tensor up to the given eps."""
import time, random, json, math, itertools
import numpy as np
import common, coqrun, proofcheck, history, solverkit

PID = "C10"
CONST = 10.0

def factorisations(rng, total, maxlen=5):
    """a random ordered factorisation of `total` with singleton modes sprinkled in"""
    fs, n = [], total
    p = 2
    while n > 1:
        while n % p == 0: fs.append(p); n //= p
        p += 1
    rng.shuffle(fs)
    out = []
    while fs:
        k = rng.randint(1, min(3, len(fs)))
        out.append(int(np.prod(fs[:k]))); fs = fs[k:]
    for _ in range(rng.choice([0, 0, 1, 2])):
        out.insert(rng.randint(0, len(out)), 1)
    return out[:8] if len(out) <= 8 else [int(np.prod(out[:len(out) - 7]))] + out[len(out) - 7:]

def run(tier, seed, replay=None):
    import torch, torchtt
    t0 = time.time()
    rng = random.Random(seed)
    V = common.Verdict(PID)
    ok_make, obl = proofcheck.obligations(PID, V)
    n = 260 if tier == "quick" else 4000
    dist, samples, coq_cases, coq_want = {}, [], [], []
    perm_cases, perm_want, n_sched, n_perm_coq = [], [], 0, 0
    qtt_cases, qtt_want, n_qtt_coq = [], [], 0
    n_sched_blind = 0
    op_cases, op_want, n_op_coq = [], [], 0
    cancel = [False]
    n_resc = [0]
    def rescale(t):
        """the contract is relative to the norm: every fourth operand is of tiny / huge magnitude (scale carried by one core)"""
        n_resc[0] += 1
        if n_resc[0] % 6 == 3:
            # an exactly zero rank slot (zeros + t, kept unrounded): every unfolding has exactly vanishing columns - a QR factor R with zeros on its diagonal
            z_ = torchtt.zeros([(int(m_), int(n_)) for m_, n_ in zip(t.M, t.N)] if t.is_ttm else [int(n_) for n_ in t.N], dtype=t.cores[0].dtype)
            dist["zero rank slot"] = dist.get("zero rank slot", 0) + 1
            return z_ + t if n_resc[0] % 12 == 3 else t + z_
        if rng.random() < 0.25:
            sc = rng.choice([1e-9, 1e-14, 1e-30, 1e10]); k_ = rng.randrange(len(t.cores))
            dist["scaled operand"] = dist.get("scaled operand", 0) + 1
            return torchtt.TT([c * (sc if j_ == k_ else 1.0) for j_, c in enumerate(t.cores)])
        if rng.random() < 0.15:
            # a cancelling difference a - (a + 1e-6 u), kept unrounded: cores of size one, a value of size 1e-6 - the tolerance is relative to the norm of the VALUE
            cs_ = []
            for c in t.cores:
                shp_ = (1,) + tuple(c.shape[1:-1]) + (1,)
                cs_.append(torch.tensor(np.array([rng.gauss(0, 1) for _ in range(int(np.prod(shp_)))]).reshape(shp_), dtype=torch.float64).to(c.dtype))
            dist["cancelling operand"] = dist.get("cancelling operand", 0) + 1
            cancel[0] = True                    # the representation carries a relative round-off of 1e-16 * 1e6 times the growth of the orthogonalisations (seen up to 1e-5) in the VALUE: only errors above 1e-4 count, the phase test is skipped
            return t - (t + 1e-6 * torchtt.TT(cs_))
        if rng.random() < 0.25:
            # two scales in one operand: a rank-one component 1e-9 times smaller than the rest - a genuine part of the data for every eps below 1e-9
            cs_ = []
            for c in t.cores:
                shp_ = (1,) + tuple(c.shape[1:-1]) + (1,)
                cs_.append(torch.tensor(np.array([rng.gauss(0, 1) for _ in range(int(np.prod(shp_)))]).reshape(shp_), dtype=torch.float64).to(c.dtype))
            dist["two-scale operand"] = dist.get("two-scale operand", 0) + 1
            return t + 1e-9 * torchtt.TT(cs_)
        return t
    for i in range(n):
        cancel[0] = False
        kind = rng.choice(["reshape", "reshape", "reshape-op", "permute", "permute", "permute-op", "qtt", "qtt-roundtrip"])
        if i < 14: kind = "reshape"            # the engineered reshape cases below
        cplx = rng.random() < 0.3
        dt = torch.complex128 if cplx else torch.float64
        dist[kind + (":complex" if cplx else "")] = dist.get(kind + (":complex" if cplx else ""), 0) + 1
        try:
            if kind == "reshape":
                total = rng.choice([6, 8, 12, 16, 24, 30, 36, 48, 64])
                Nin, Nout = factorisations(rng, total), factorisations(rng, total)
                eng = None
                if i < 12:                  # engineered: several trailing (or leading) singleton modes removed at once, complex data
                    eng = "singletons"; cplx = True; dt = torch.complex128
                    Nin, Nout = rng.choice([([2, 3, 1, 1], [3, 2]), ([2, 3, 1, 1], [6]), ([4, 1, 1, 1], [2, 2, 1]), ([3, 4, 1, 1, 1], [4, 3]), ([1, 1, 2, 3], [3, 2]),
                                            ([2, 1, 1, 3, 1, 1], [2, 3]), ([6, 1, 1], [2, 3]), ([2, 2, 1, 1], [4, 1])])
                x = solverkit.rand_tt_float(rng, Nin, solverkit.ranks(rng, len(Nin), 3), dt, cplx=cplx)
                x = rescale(x)
                eps = rng.choice([1e-16, 1e-14, 1e-10, 1e-6, 1e-3, 1e-1])
                if i in (12, 13):           # engineered: a split inside a mode that carries a rank above 100
                    eng = "high-rank split"; cplx = False; dt = torch.float64
                    Nin, Nout = [([120, 110], [110, 120]), ([16384], [128, 128])][i - 12]
                    torch.manual_seed(rng.randrange(1 << 30))
                    x = torchtt.TT(torch.randn(Nin, dtype=dt)); eps = 1e-12
                if eng: dist["reshape engineered: " + eng] = dist.get("reshape engineered: " + eng, 0) + 1
                desc = {"op": kind, "N_in": Nin, "N_out": Nout, "eps": eps, "dtype": str(dt), "R": [int(r) for r in x.R]}
                snap = history.Snap(x)
                y = torchtt.reshape(x, Nout, eps)
                ref = x.full().reshape(Nout); got_shape, want_shape = [int(v) for v in y.N], Nout
                if len(coq_cases) < (80 if tier == "quick" else 600) and max(Nin + Nout) <= 2000:
                    coq_cases.append("match reshape_modes %s %s with Some l => l | None => [] end" % (coqrun.nlist(Nin), coqrun.nlist(Nout))); coq_want.append(got_shape)
            elif kind == "reshape-op":
                total = rng.choice([4, 6, 8, 12, 16])
                Min, Mout = factorisations(rng, total, 3), factorisations(rng, total, 3)
                d1, d2 = len(Min), len(Mout)
                tot2 = rng.choice([4, 6, 8, 12])
                def pad_to(fs, d):
                    fs = list(fs)
                    while len(fs) < d: fs.append(1)
                    while len(fs) > d: fs[-2:] = [fs[-2] * fs[-1]]
                    return fs
                Nin_, Nout_ = pad_to(factorisations(rng, tot2, 3), d1), pad_to(factorisations(rng, tot2, 3), d2)
                x = solverkit.rand_ttm_float(rng, Min, Nin_, solverkit.ranks(rng, d1, 2), dt, cplx=cplx)
                eps = rng.choice([1e-16, 1e-12, 1e-6, 1e-2])
                desc = {"op": kind, "M_in": Min, "N_in": Nin_, "M_out": Mout, "N_out": Nout_, "eps": eps, "dtype": str(dt)}
                snap = history.Snap(x)
                y = torchtt.reshape(x, [(m, n_) for m, n_ in zip(Mout, Nout_)], eps)
                ref = x.full().reshape(total, tot2).reshape(Mout + Nout_); got_shape, want_shape = history.Mof(y) + [int(v) for v in y.N], Mout + Nout_
                if len(op_cases) < (60 if tier == "quick" else 600):
                    pl = lambda Ms, Ns: "[" + ";".join("(%d%%nat,%d%%nat)" % (a_, b_) for a_, b_ in zip(Ms, Ns)) + "]"
                    op_cases.append("match reshape_modes4 %s %s with Some l => flat_map (fun p => [fst p; snd p]) l | None => [] end" % (pl(Min, Nin_), pl(Mout, Nout_)))
                    op_want.append(([v_ for pr in zip(history.Mof(y), [int(v) for v in y.N]) for v_ in pr], desc))
            elif kind in ("permute", "permute-op"):
                d = rng.choice([2, 3, 3, 4, 5])
                N = [rng.choice([1, 2, 3, 4]) for _ in range(d)]
                perm = list(range(d)); rng.shuffle(perm)
                eps = rng.choice([1e-12, 1e-10, 1e-6, 1e-3, 1e-2, 1e-1])
                if kind == "permute":
                    x = solverkit.rand_tt_float(rng, N, solverkit.ranks(rng, d, 3), dt, cplx=cplx)
                    if rng.random() < 0.35:             # badly balanced cores
                        k = rng.randrange(d)
                        x = torchtt.TT([c * (1e4 if j == k else (1e-4 if j == (k + 1) % d else 1.0)) for j, c in enumerate(x.cores)])
                        x = x + solverkit.rand_tt_float(rng, N, [1] * (d + 1), dt, cplx=cplx)
                    x = rescale(x)
                    ref = x.full().permute(perm); want_shape = [N[p] for p in perm]
                else:
                    M = [rng.choice([1, 2, 3]) for _ in range(d)]
                    x = solverkit.rand_ttm_float(rng, M, N, solverkit.ranks(rng, d, 2), dt, cplx=cplx)
                    ref = x.full().permute(perm + [d + p for p in perm]); want_shape = [M[p] for p in perm] + [N[p] for p in perm]
                desc = {"op": kind, "N": N, "perm": perm, "eps": eps, "dtype": str(dt), "R": [int(r) for r in x.R]}
                snap = history.Snap(x)
                # the swap schedule (bond of every supercore SVD, read from the caller's frame) and the SVD oracle's contract
                import sys as _sys, torchtt._extras as _ex
                swaps, svd_bad = [], []
                orig_svd = _ex.SVD
                def spy_svd(mat):
                    U, S, Vh = orig_svd(mat)
                    fr = _sys._getframe(1); found = None
                    for _lvl in range(8):                       # the SVD may be called from a helper of permute: look for permute's frame up the stack
                        if fr is None: break
                        if fr.f_code.co_name == "permute": found = fr; break
                        fr = fr.f_back
                    try: swaps.append(int(found.f_locals["i"]))
                    except Exception: swaps.append(-1)              # the loop variable is not readable any more: only the number of swaps is compared
                    rec = (U * S.to(U.dtype)) @ Vh
                    nm = float(mat.abs().pow(2).sum().sqrt())
                    if not (float((rec - mat).abs().pow(2).sum().sqrt()) <= 1e-12 * nm + 1e-300): svd_bad.append(list(mat.shape))
                    return U, S, Vh
                _ex.SVD = spy_svd
                try:
                    y = torchtt.permute(x, perm, eps)
                finally:
                    _ex.SVD = orig_svd
                got_shape = history.Mof(y) + [int(v) for v in y.N]
                if svd_bad: V.fail("permute: the SVD oracle did not return an exact factorisation (hypothesis of the swap theorem)", dict(desc, shapes=svd_bad))
                n_sched += 1
                if len(perm_cases) < (120 if tier == "quick" else 1200):
                    perm_cases.append("match permute_schedule %s with Some (l, sw) => l ++ [99] ++ sw | None => [98] end" % coqrun.nlist(perm))
                    perm_want.append((perm + [99] + swaps, desc))
                    if any(v_ < 0 for v_ in swaps): n_sched_blind += 1
            else:
                d = rng.choice([1, 2, 3])
                N = [rng.choice([2, 4, 8, 16]) for _ in range(d)]
                x = solverkit.rand_tt_float(rng, N, solverkit.ranks(rng, d, 3), dt, cplx=cplx)
                x = rescale(x)
                eps = rng.choice([1e-12, 1e-8, 1e-4])
                if i in (20, 40, 60):              # engineered: a cancelling difference (cores of size one, value 1e-6) at a loose tolerance - the tolerance is relative to the norm of the value
                    kind = "qtt"; N = [[8, 2, 16], [16, 16], [4, 8, 4]][i // 20 - 1]; eps = 1e-4; cancel[0] = True; cplx = False; dt = torch.float64
                    a_ = solverkit.rand_tt_float(rng, N, [1] + [3] * (len(N) - 1) + [1], dt); x = a_ - (a_ + 1e-6 * solverkit.rand_tt_float(rng, N, [1] + [2] * (len(N) - 1) + [1], dt))
                    dist["qtt of a cancelling difference"] = dist.get("qtt of a cancelling difference", 0) + 1
                desc = {"op": kind, "N": N, "eps": eps, "dtype": str(dt)}
                snap = history.Snap(x)
                q = x.to_qtt(eps)
                nbits = int(round(math.log2(int(np.prod(N)))))
                if len(qtt_cases) < (60 if tier == "quick" else 600):
                    qtt_cases.append("qtt_modes %s" % coqrun.nlist(N)); qtt_want.append(([int(v) for v in q.N], desc))
                if kind == "qtt":
                    y = q; ref = x.full().reshape([2] * nbits); want_shape = [2] * nbits
                else:
                    y = q.qtt_to_tens(N); ref = x.full(); want_shape = N
                got_shape = [int(v) for v in y.N]
        except Exception as ex:
            V.fail("%s raises %s" % (kind, type(ex).__name__), dict(desc, exc=str(ex)[:200]) if "desc" in dir() else {"exc": str(ex)[:200]}); continue
        if i % 40 == 0 and len(samples) < 5: samples.append(desc)
        bad = snap.diff(x)
        if bad: V.fail("%s modified its operand: %s" % (kind, bad[0]), desc)
        if got_shape != want_shape or history.wf_failures(y):
            V.fail("%s: result does not have exactly the requested mode sizes" % kind, dict(desc, got=got_shape, want=want_shape)); continue
        nrm = float(ref.abs().pow(2).sum().sqrt()); err = float((y.full() - ref).abs().pow(2).sum().sqrt())
        if not (err <= CONST * eps * nrm + (1e-4 if cancel[0] else 1e-11) * nrm):
            V.fail("%s: value differs from the dense result by more than %g*eps" % (kind, CONST), dict(desc, rel_err=err / max(nrm, 1e-300)))
        elif cplx and nrm > 0 and not cancel[0]:
            j = int(ref.abs().reshape(-1).argmax())
            a, b = complex(y.full().reshape(-1)[j]), complex(ref.reshape(-1)[j])
            if not (abs(a - b) <= (CONST * eps + 1e-10) * abs(b) * 3): V.fail("%s: phase of the largest entry changed" % kind, dict(desc, got=str(a), want=str(b)))
        if y.cores[0].dtype != dt: V.fail("%s: dtype changed" % kind, desc)
    n_coq = 0
    if ok_make and coq_cases:
        res = coqrun.eval_nat_lists("C10_m", "From TT Require Import Reshape.", "", coq_cases, shard=100)
        for c, got, want in zip(coq_cases, res, coq_want):
            if got != want: V.fail("correspondence(model/impl) mode sizes produced by the reshape loop", {"case": c, "model": got, "impl": want}, failing_input=False)
            else: n_coq += 1
    if ok_make and perm_cases:
        res = coqrun.eval_nat_lists("C10_p", "From TT Require Import Permute.", "", perm_cases, shard=100)
        for got, (want, dsc) in zip(res, perm_want):
            if any(v_ < 0 for v_ in want) and len(got) == len(want) and got[:got.index(99) + 1] == want[:want.index(99) + 1]:
                n_perm_coq += 1; continue                            # positions unreadable: final order and number of swaps agree
            if got != want:
                V.fail("correspondence(model/impl): final mode order and sequence of swapped bonds of permute differ from the Coq schedule", dict(dsc, model=got, impl=want), failing_input=False)
            else: n_perm_coq += 1
    if ok_make and op_cases:
        res = coqrun.eval_nat_lists("C10_o", "From TT Require Import Reshape.", "", op_cases, shard=100)
        for got, (want, dsc) in zip(res, op_want):
            if got != want: V.fail("correspondence(model/impl) mode pairs produced by the operator reshape loop", dict(dsc, model=got, impl=want), failing_input=False)
            else: n_op_coq += 1
    # to_qtt on shapes with modes 1 and 2 mixed in (kept as they are) and with modes that are not powers of two (ShapeMismatch): what the call does, against qtt_call
    for N in ([1, 4], [2, 8], [3, 4], [4, 1, 2], [8, 3], [16], [2, 2], [1], [32, 2], [6], [4, 5, 2], [12, 2], [2, 1, 1, 8]):
        xq = solverkit.rand_tt_float(rng, N, solverkit.ranks(rng, len(N), 2), torch.float64)
        try:
            got_q = [1] + [int(v) for v in xq.to_qtt().N]
        except Exception as ex:
            got_q = [0]
            if type(ex).__name__ != "ShapeMismatch": V.fail("to_qtt on a shape with a mode that is not a power of two raises %s (documented: ShapeMismatch)" % type(ex).__name__, {"N": N, "exc": str(ex)[:200]})
        qtt_cases.append("qtt_call %s" % coqrun.nlist(N)); qtt_want.append((got_q, {"op": "to_qtt-call", "N": N}))
    # to_qtt with the documented mode_size argument (2, 4, 8) on tensors and on square operators: exactly the requested mode sizes, the dense value is
    # the dense reshape (rows and columns of an operator are folded separately)
    rng_q = random.Random(seed + 41)
    for j in range(12 if tier == "quick" else 120):
        ms = [2, 4, 8, 4, 2, 8][j % 6]; op_ = j % 2 == 1
        d_ = rng_q.choice([1, 2, 3]); Nq = [ms ** rng_q.choice([1, 2] if ms < 8 else [1, 1, 2]) for _ in range(d_)]
        while int(np.prod(Nq)) ** (2 if op_ else 1) > 70000:
            if all(v_ == ms for v_ in Nq): Nq.pop()                      # already the smallest modes: one mode fewer
            else: Nq[Nq.index(max(Nq))] = ms
        if j in (5, 8, 11):                                             # engineered: powers whose floating-point logarithm falls just below the integer (3^5 = 243, 10^3 = 1000)
            ms, Nq, op_ = [(3, [243], True), (3, [243], False), (10, [1000], True)][(5, 8, 11).index(j)]
        d_ = len(Nq)
        cplx_ = rng_q.random() < 0.3; dt_ = torch.complex128 if cplx_ else torch.float64
        desc = {"op": "to_qtt(mode_size)", "operator": op_, "N": Nq, "mode_size": ms, "dtype": str(dt_)}
        try:
            xq = (solverkit.rand_ttm_float(rng_q, Nq, Nq, solverkit.ranks(rng_q, d_, 2), dt_, cplx=cplx_) if op_
                  else solverkit.rand_tt_float(rng_q, Nq, solverkit.ranks(rng_q, d_, 3), dt_, cplx=cplx_))
            snap_q = history.Snap(xq)
            q_ = [lambda: xq.to_qtt(1e-13, mode_size=ms), lambda: xq.to_qtt(1e-13, ms), lambda: xq.to_qtt(1e-13, ms, 1000), lambda: xq.to_qtt(eps=1e-13, rmax=1000, mode_size=ms)][j % 4]()   # keyword and positional forms of the documented signature (eps, mode_size, rmax)
            K = int(round(math.log(int(np.prod(Nq)), ms)))
            want_modes = [ms] * K
            if (history.Mof(q_) if op_ else []) + [int(v) for v in q_.N] != (want_modes if op_ else []) + want_modes or bool(q_.is_ttm) != op_:
                V.fail("to_qtt(mode_size=%d): the result does not have exactly the requested mode sizes" % ms, dict(desc, got_M=history.Mof(q_) if op_ else None, got_N=[int(v) for v in q_.N])); continue
            ref_ = xq.full().reshape(want_modes * (2 if op_ else 1))
            nrm_ = float(ref_.abs().pow(2).sum().sqrt()); err_ = float((q_.full() - ref_).abs().pow(2).sum().sqrt())
            if not (err_ <= 1e-10 * nrm_): V.fail("to_qtt(mode_size=%d): value differs from the dense reshape" % ms, dict(desc, rel_err=err_ / max(nrm_, 1e-300)))
            if snap_q.diff(xq): V.fail("to_qtt(mode_size) modified its operand", desc)
            dist["to_qtt mode_size=%d%s" % (ms, " operator" if op_ else "")] = dist.get("to_qtt mode_size=%d%s" % (ms, " operator" if op_ else ""), 0) + 1
        except Exception as ex:
            V.fail("to_qtt(mode_size=%d) raises %s" % (ms, type(ex).__name__), dict(desc, exc=str(ex)[:200]))
    if ok_make and qtt_cases:
        res = coqrun.eval_nat_lists("C10_q", "From TT Require Import Permute.", "", qtt_cases, shard=100)
        for got, (want, dsc) in zip(res, qtt_want):
            if got != want: V.fail("correspondence(model/impl): mode sizes produced by to_qtt differ from the Coq model", dict(dsc, model=got, impl=want), failing_input=dsc.get("op") == "to_qtt-call")
            else: n_qtt_coq += 1
    # reshape / permute / to_qtt read, the operand edited in place, read again (harness/staleprobe.py)
    import staleprobe
    npf = lambda t: t.full().detach().resolve_conj().resolve_neg().numpy()
    ex_t = [("reshape [4,2,8] -> [2,2,2,2,4]", lambda x: npf(torchtt.reshape(x, [2, 2, 2, 2, 4], 1e-13)), lambda D, x: D.reshape(2, 2, 2, 2, 4)),
            ("reshape [4,2,8] -> [8,8]", lambda x: npf(torchtt.reshape(x, [8, 8], 1e-13)), lambda D, x: D.reshape(8, 8)),
            ("permute [2,0,1]", lambda x: npf(torchtt.permute(x, [2, 0, 1], 1e-13)), lambda D, x: D.transpose(2, 0, 1)),
            ("to_qtt", lambda x: npf(x.to_qtt(1e-13)), lambda D, x: D.reshape([2] * 6)),
            ("to_qtt and back", lambda x: npf(x.to_qtt(1e-13).qtt_to_tens([4, 2, 8])), lambda D, x: D)]
    ex_m = [("reshape (4,4),(2,2) -> (2,2)x3", lambda x: npf(torchtt.reshape(x, [(2, 2), (2, 2), (2, 2)], 1e-13)), lambda D, x: D.reshape([2] * 6)),
            ("to_qtt (operator)", lambda x: npf(x.to_qtt(1e-13)), lambda D, x: D.reshape([2] * 6))]
    muts = [m_ for m_ in staleprobe.MUTATIONS if m_ != "set_core new mode size"]
    n_st = staleprobe.run_block(V, random.Random(seed + 17), torch, torchtt, "reshape / permute / to_qtt", ["cores"], 4 if tier == "quick" else 40, ex_t, muts, N=[4, 2, 8])
    n_st += staleprobe.run_block(V, random.Random(seed + 18), torch, torchtt, "reshape / to_qtt of an operator", ["ttm"], 3 if tier == "quick" else 30, ex_m, muts, N=[4, 2])
    dist["read-mutate-read probe: read-outs compared"] = n_st
    import extremes
    extremes.run(V, random.Random(seed + 5), torch, torchtt, [("reshape", lambda x_: torchtt.reshape(x_, [2, 3, 6, 6], 1e-6), False, None),
                 ("permute", lambda x_: torchtt.permute(x_, [2, 0, 1], 1e-6), False, lambda a_: a_.transpose(2, 0, 1)),
                 ("to_qtt(mode_size=6)", lambda x_: torchtt.reshape(x_, [36, 6], 1e-7).to_qtt(1e-6, 6), False, None)], dist, "reshape / permute / to_qtt")
    nviol = V.finish()
    cov = proofcheck.coverage(PID, obl, evaluations=n, distinct_nontrivial=len(dist) + n_coq,
        rule=("reshape of tensors (random ordered factorisations / merges of 6..64 elements with singleton modes anywhere) and operators, permute of tensors and operators (random "
              "permutations of 2..5 modes, badly balanced cores included), to_qtt and qtt_to_tens on power-of-two shapes; eps from 1e-16 to 1e-1, real and complex; measured: exactly the "
              "requested mode sizes, well-formedness, error <= %g*eps*||x|| (+1e-11), phase of the largest entry for complex data, dtype, bitwise operand integrity; the mode sizes "
              "returned by reshape are compared with the Coq model of the loop; for permute the bond of every supercore SVD is recorded (from the calling frame) and the sequence is compared "
              "with the Coq bubble schedule, and every SVD result is checked to be an exact factorisation (1e-12) - the hypothesis of the swap theorem") % CONST,
        samples=samples, distribution=dist, model_shape_agreements=n_coq, permute_schedules_recorded=n_sched, permute_schedules_matching_model=n_perm_coq, qtt_shapes_matching_model=n_qtt_coq, operator_reshape_shapes_matching_model=n_op_coq, permute_schedules_with_unreadable_positions=n_sched_blind, known_findings_reproduced=V.known_hit,
        partial=["proved: termination and exact mode sizes of the tensor reshape loop; termination, swap count and final order of permute's schedule; every elementary step (merge, exact split, exact "
                 "swap) preserves all entries. NOT proved: the composition of these steps with the floating-point QR/SVD and the truncation (error <= small multiple of eps) - measured; the "
                 "operator reshape loop and the QTT conversions are covered by measurement only"])
    common.write_evidence(PID, tier, seed, cov, time.time() - t0, nviol, common.TRUSTED_BASE)
    return 1 if nviol else 0
