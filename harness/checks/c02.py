"""C02 - Rounding never exceeds eps, never raises a rank, and leaves its operand intact."""
import time, math, random, json
import numpy as np
import common, coqrun, proofcheck, ttgen
from checks.c01 import exact_scaled, model_rank_exprs, IMPORTS

PID = "C02"

def gen_case(rng, i):
    import torch
    dtype = rng.choice([torch.float64, torch.float64, torch.float64, torch.complex128, torch.float32, torch.complex64])
    cplx = dtype in (torch.complex128, torch.complex64)
    is_ttm = rng.random() < 0.25
    d = rng.choice([1, 2, 3, 3, 4, 4, 5, 6, 7])
    fam = rng.choice(["random", "inflated", "scaled", "deficient", "zero", "cancel", "budget", "zero-slot", "cp-normalised"])
    if fam == "cp-normalised" and (d < 2 or is_ttm): fam = "random"
    if fam == "zero-slot" and d < 2: fam = "random"
    if fam == "budget" and d < 3: fam = "random"
    N = [rng.choice([1, 2, 2, 3, 4]) for _ in range(d)]
    M = [rng.choice([1, 2, 3]) for _ in range(d)] if is_ttm else None
    R = [1] + [rng.randint(1, 4) for _ in range(d - 1)] + [1]
    def core(k, r0, r1):
        shp = (r0, M[k], N[k], r1) if is_ttm else (r0, N[k], r1)
        a = np.array([rng.gauss(0, 1) for _ in range(int(np.prod(shp)))]).reshape(shp)
        if cplx: a = a + 1j * np.array([rng.gauss(0, 1) for _ in range(int(np.prod(shp)))]).reshape(shp)
        return a
    cores = [core(k, R[k], R[k + 1]) for k in range(d)]
    eps = rng.choice([0.0, 1e-14, 1e-12, 1e-10, 1e-8, 1e-6, 1e-4, 1e-3, 1e-2, 0.1, 0.3, 0.5, 0.9])
    if fam == "inflated":        # exactly low rank stored with inflated ranks: block-diagonal self-sum x + x
        cores = [np.concatenate([np.concatenate([c, np.zeros_like(c)], -1), np.concatenate([np.zeros_like(c), c], -1)], 0) for c in cores]
        cores[0] = cores[0][:1] + cores[0][1:]; cores[-1] = cores[-1][..., :1] + cores[-1][..., 1:]
        R = [1] + [2 * r for r in R[1:-1]] + [1]
        eps = max(eps, 1e-10)
    elif fam == "scaled":        # wildly different scales, moved between cores (non-orthogonal gauge)
        tot = 0
        for k in range(d):
            e_ = rng.randint(-6, 6); tot += e_; cores[k] = cores[k] * 10.0 ** e_
        fam = "scaled-tiny" if tot <= -9 else ("scaled-huge" if tot >= 9 else "scaled")        # (labels for the family coverage of the run)
        if dtype in (torch.float32, torch.complex64) and abs(tot) > 12:
            # single precision: keep the SQUARED norm inside the range of the dtype (1e38): beyond it norm() itself overflows / underflows and the
            # relative threshold eps*||.|| is inf or 0 - outside the arithmetic, not a rounding question (DESIGN section 11)
            cores[0] = cores[0] * 10.0 ** (-(tot - (12 if tot > 0 else -12)))
    elif fam == "deficient":     # rank-deficient cores
        for k in range(d - 1):
            if cores[k].shape[-1] > 1: cores[k][..., -1] = cores[k][..., 0]
    elif fam == "zero":
        k = rng.randrange(d); cores[k] = cores[k] * 0
    elif fam == "cp-normalised":  # a CP sum stored with UNIT-NORM factor vectors (block-diagonal cores, weights in the last core), two terms nearly parallel with
        # nearly cancelling weights: every unfolding has unit-norm but far from orthogonal columns
        r_ = rng.choice([3, 4])
        def unit(v): return v / np.linalg.norm(v)
        vs = [[unit(np.array([rng.gauss(0, 1) for _ in range(N[k])]) + (1j * np.array([rng.gauss(0, 1) for _ in range(N[k])]) if cplx else 0)) for k in range(d)] for _ in range(r_)]
        for k in range(d): vs[1][k] = unit(vs[0][k] + 1e-3 * vs[1][k])
        wts = [1.0, -1.0 + 1e-3] + [rng.uniform(0.5, 2.0) for _ in range(r_ - 2)]
        cores = []
        for k in range(d):
            r0_, r1_ = (1 if k == 0 else r_), (1 if k == d - 1 else r_)
            c = np.zeros((r0_, N[k], r1_), dtype=np.complex128 if cplx else np.float64)
            for j in range(r_):
                c[0 if k == 0 else j, :, 0 if k == d - 1 else j] = vs[j][k] * (wts[j] if k == d - 1 else 1.0)
            cores.append(c)
        R = [1] + [r_] * (d - 1) + [1]
        eps = rng.choice([1e-3, 1e-2, 1e-6])
    elif fam == "zero-slot":     # t1 + 0 + t2 as the block sum stores it: an exactly zero rank slot between two live ones (the QR sweep meets a zero pivot that is not the last)
        def bsum(cs):
            out = []
            for k in range(d):
                blocks = [c[k] for c in cs]
                if k == 0: out.append(np.concatenate(blocks, -1))
                elif k == d - 1: out.append(np.concatenate(blocks, 0))
                else:
                    r0s = [b.shape[0] for b in blocks]; r1s = [b.shape[-1] for b in blocks]
                    c = np.zeros((sum(r0s),) + blocks[0].shape[1:-1] + (sum(r1s),), dtype=blocks[0].dtype)
                    a0 = a1 = 0
                    for b in blocks:
                        c[a0:a0 + b.shape[0], ..., a1:a1 + b.shape[-1]] = b; a0 += b.shape[0]; a1 += b.shape[-1]
                    out.append(c)
            return out
        t2 = [core(k, R[k], R[k + 1]) for k in range(d)]
        z = [np.zeros_like(core(k, 1, 1)) for k in range(d)]
        order = rng.choice([[0, 1, 2], [1, 0, 2], [0, 1, 2]])
        parts = [cores, z, t2]
        cores = bsum([parts[j] for j in order])
        R = [1] + [cores[k].shape[-1] for k in range(d - 1)] + [1]
        eps = max(eps, 1e-12)
    elif fam == "cancel" and d >= 2:   # tiny last core next to a huge first one; norm of the last core != norm of the tensor
        cores[-1] = cores[-1] * 1e-5; cores[0] = cores[0] * 1e5
    elif fam == "budget":        # every bond discards a tail just below its allowance: x = e0^d + c * sum_k (e0..e1 e1..e0)
        n_ = 2
        N = [2] * d
        if is_ttm: M = [1] * d
        c_ = 0.8 * max(eps, 1e-3); eps = max(eps, 1e-3)
        e0, e1 = np.array([1.0, 0.0]), np.array([0.0, 1.0])
        terms = [[e0] * d]
        for k in range(d - 1):
            t = [e0] * d; t[k] = e1 * math.sqrt(c_); t[k + 1] = e1 * math.sqrt(c_); terms.append(t)
        rr = len(terms)
        cores = []
        for k in range(d):
            r0, r1 = (1 if k == 0 else rr), (1 if k == d - 1 else rr)
            c = np.zeros((r0, 2, r1), dtype=np.complex128 if cplx else np.float64)
            for t in range(rr):
                c[0 if k == 0 else t, :, 0 if k == d - 1 else t] = terms[t][k]
            if k < d - 1:     # badly scaled non-orthogonal gauge between the cores
                G = np.array([[rng.gauss(0, 1) for _ in range(rr)] for _ in range(rr)]) + 3 * np.eye(rr)
                c = np.einsum('anb,bc->anc', c, G)
                nxt_gauge = np.linalg.inv(G)
            if k > 0:
                c = np.einsum('ab,bnc->anc', prev_gauge, c)
            if k < d - 1: prev_gauge = nxt_gauge
            cores.append(c.reshape(r0, 1, 2, r1) if is_ttm else c)
        R = [1] + [rr] * (d - 1) + [1]
    rmax = None
    if rng.random() < 0.3:
        rmax = rng.choice([1, 2, 3]) if rng.random() < 0.6 else [1] + [rng.choice([1, 2, 3, 100]) for _ in range(d - 1)] + [1]
    return cores, eps, rmax, dtype, is_ttm, fam

def run(tier, seed, replay=None):
    import torch, torchtt
    import torchtt._decomposition as D
    t0 = time.time()
    rng = random.Random(seed)
    V = common.Verdict(PID)
    ok_make, obl = proofcheck.obligations(PID, V)
    import translate
    tr_cov = translate.obligation(V, PID) if ok_make else {"translated": False}          # rank_chop re-translated from the current source + proof that it equals the model
    n = 300 if tier == "quick" else 5000
    dist, samples = {}, []
    rec = []
    orig = D.rank_chop
    def spy(s, eps):
        r = orig(s, eps); rec.append((np.array(s, copy=True), float(eps), int(r))); return r
    replay_cases, replay_meta, len_cases, len_meta = [], [], [], []
    n_tie = 0
    n_identity = 0
    try:
        D.rank_chop = spy
        # every (family, operator?, precision) of the generator is represented in EVERY run, whatever the seed (second stream for what the main one missed)
        all_cases = [gen_case(rng, i) for i in range(n)]
        fkey = lambda c_: (c_[5], c_[4], c_[3] in (torch.float32, torch.complex64))
        have_f = {}
        for c_ in all_cases: have_f[fkey(c_)] = have_f.get(fkey(c_), 0) + 1
        rng_cov = random.Random(seed * 7919 + 13)
        for i_ in range(8000):
            if len(all_cases) >= n + 60: break
            c_ = gen_case(rng_cov, n + i_)
            if have_f.get(fkey(c_), 0) < 1: all_cases.append(c_); have_f[fkey(c_)] = 1
        for i, (cores, eps, rmax, dtype, is_ttm, fam) in enumerate(all_cases):
            if i in (4, 8, 12):
                # engineered: operators with many more rows than columns (x.to_ttm() is the extreme case) or the transpose, whose bond ranks exceed the
                # number of columns (rows): the default rmax must not bind
                g_ = np.random.default_rng(500 + i)
                Mt, Nt = {4: ([4, 3, 4], [1, 1, 1]), 8: ([5, 2, 5], [2, 1, 1]), 12: ([1, 1, 1], [4, 3, 4])}[i]
                Rt = [1, 3, 3, 1]
                cores = [g_.standard_normal((Rt[k], Mt[k], Nt[k], Rt[k + 1])) for k in range(3)]
                eps, rmax, dtype, is_ttm, fam = 1e-10, None, torch.float64, True, "tall-operator"
            dist[fam + ("-ttm" if is_ttm else "")] = dist.get(fam + ("-ttm" if is_ttm else ""), 0) + 1
            tc = [torch.tensor(c, dtype=dtype) for c in cores]
            before = [c.clone() for c in tc]
            x = torchtt.TT(tc)
            R0 = [int(r) for r in x.R]
            desc = {"family": fam, "ttm": is_ttm, "N": [int(v) for v in x.N], "M": [int(v) for v in x.M] if is_ttm else None, "R": R0, "eps": eps, "rmax": rmax, "dtype": str(dtype)}
            if len(samples) < 5 and i % 50 == 0: samples.append(desc)
            vers = [c._version for c in x.cores]; ptrs = [c.untyped_storage().data_ptr() for c in x.cores]
            rec.clear()
            try:
                y = x.round(eps) if rmax is None else x.round(eps, rmax)
            except Exception as ex:
                V.fail("round raises %s [%s]" % (type(ex).__name__, fam), dict(desc, exc=str(ex)[:200])); continue
            d = len(cores)
            f32 = dtype in (torch.float32, torch.complex64)
            # operand intact
            if ([int(r) for r in x.R] != R0 or any(not torch.equal(a, b) for a, b in zip(x.cores, before)) or [c._version for c in x.cores] != vers
                    or [c.untyped_storage().data_ptr() for c in x.cores] != ptrs or len(x.cores) != d):
                V.fail("operand modified by round [%s]" % fam, desc)
            # the result is a new object: it must not hold the operand's core list or share storage with it (every order, 1 included)
            if y is x or y.cores is x.cores or any(c.untyped_storage().data_ptr() in set(ptrs) for c in y.cores):
                V.fail("round returns an object sharing its cores with the operand [%s]" % ("order 1" if d == 1 else fam), desc)
            Ry = [int(r) for r in y.R]
            full_x = ttgen.ref_full([c.numpy() for c in before]); full_y = ttgen.ref_full([c.detach().numpy() for c in y.cores])
            if y.is_ttm != is_ttm or list(y.N) != list(x.N) or (is_ttm and list(y.M) != list(x.M)) or full_y.shape != full_x.shape:
                V.fail("shape changed by round [%s]" % fam, dict(desc, Ry=Ry)); continue
            if Ry[0] != 1 or Ry[-1] != 1 or any(Ry[k] > R0[k] for k in range(d + 1)):
                V.fail("a rank was raised by round [%s]" % fam, dict(desc, Ry=Ry))
            rm = rmax if isinstance(rmax, list) else ([1] + [rmax] * (d - 1) + [1] if rmax is not None else None)
            if rm is not None and any(Ry[k] > rm[k] for k in range(1, d)):
                V.fail("a rank exceeds rmax after round [%s]" % fam, dict(desc, Ry=Ry))
            binding = rm is not None and any(Ry[k] == rm[k] for k in range(1, d))
            nrm = float(np.linalg.norm(full_x.astype(np.complex128))); err = float(np.linalg.norm((full_x - full_y).astype(np.complex128)))
            if not binding and not (err <= eps * nrm * (1 + 1e-9) + (3e-5 if f32 else 1e-11) * nrm):
                V.fail("accuracy: ||x - round(x)|| > eps ||x|| [%s]" % fam, dict(desc, Ry=Ry, err=err, bound=eps * nrm, rel=err / max(nrm, 1e-300)))
            if eps >= 1e-9 and not f32 and d > 1 and fam in ("inflated", "deficient", "zero", "random", "budget"):
                W = full_x
                if is_ttm:
                    W = np.transpose(full_x, [j for k in range(d) for j in (k, d + k)]).reshape([m * n_ for m, n_ in zip(x.M, x.N)])
                for k in range(1, d):
                    ur = int(np.linalg.matrix_rank(W.reshape(int(np.prod(W.shape[:k])), -1), tol=1e-9 * max(nrm, 1e-300)))
                    if Ry[k] > max(1, ur):
                        V.fail("rank after round exceeds the rank of the unfolding [%s]" % fam, dict(desc, Ry=Ry, bond=k, unfolding_rank=ur))
            if str(y.cores[0].dtype) != str(dtype):
                V.fail("dtype changed by round", dict(desc, got=str(y.cores[0].dtype)))
            # the matrix-level model (C02_sweep_error_eq): squared error = sum of the energies discarded at the bonds
            if d > 1 and len(rec) == d - 1:
                disc = sum(float(np.sum(np.abs(s_[Ry[d - 1 - b]:].astype(np.float64)) ** 2)) for b, (s_, _, _) in enumerate(rec))
                n_identity += 1
                if not (abs(err * err - disc) <= (1e-4 if f32 else 1e-9) * nrm * nrm + 1e-300):
                    V.fail("squared rounding error differs from the sum of the discarded energies [%s]" % fam, dict(desc, err2=err * err, discarded=disc, Ry=Ry))
            # decisions
            ns = [int(m) * int(n_) for m, n_ in zip(x.M, x.N)] if is_ttm else [int(v) for v in x.N]
            if d > 1:
                if len(rec) != d - 1:
                    V.fail("round made %d rank decisions for %d bonds [%s]" % (len(rec), d - 1, fam), desc, failing_input=False)
                else:
                    chosen = [Ry[k] for k in range(d - 1, 0, -1)]
                    len_cases.append("svd_lengths %s (tl (rev (qr_ranks 1 %s %s))) 1 %s" % (coqrun.nlist(list(reversed(ns))[:-1]), coqrun.nlist(ns), coqrun.nlist(R0[1:]),
                                                                                     coqrun.nlist(chosen)))
                    # note: svd_lengths walks bonds d-1..1: mode sizes ns[d-1..1], left ranks R'[d-1..1] (after QR), right rank = previously chosen
                    len_meta.append((desc, [len(s) for s, _, _ in rec]))
            tol = 1e-4 if f32 else 1e-9
            for (s, eps_arg, r) in rec:
                nrm_s = float(np.linalg.norm(s.astype(np.float64)))
                want = eps / math.sqrt(d - 1) * nrm_s
                if not (abs(eps_arg - want) <= 1e-6 * want + 1e-300):
                    V.fail("threshold passed to rank_chop is not eps/sqrt(d-1)*||S|| [%s]" % fam, dict(desc, eps_arg=eps_arg, expected=want))
                if not (abs(nrm_s - nrm) <= (1e-3 if f32 else 1e-8) * max(nrm, 1e-300) + 1e-300) and s is rec[0][0]:
                    V.fail("the first spectrum does not carry the norm of x (orthogonalisation missing?) [%s]" % fam, dict(desc, norm_s=nrm_s, norm_x=nrm))
                q, thr2, margin = exact_scaled(s, eps_arg)
                if margin < tol: n_tie += 1; continue
                replay_cases.append((q, eps_arg > 0, thr2)); replay_meta.append((desc, r, rm, s.tolist()))
    finally:
        D.rank_chop = orig
    n_ok = n_len_ok = 0
    if ok_make:
        mres = coqrun.eval_nat_lists("C02_r", IMPORTS, "", model_rank_exprs(replay_cases))
        for (desc, r, rm, s), m in zip(replay_meta, mres):
            if r != m[0]: V.fail("correspondence(model/impl) rank decision in round", dict(desc, s=s, impl=r, model=m[0]), failing_input=False)
            else: n_ok += 1
        lres = coqrun.eval_nat_lists("C02_l", IMPORTS, "", len_cases)
        for (desc, lens), m in zip(len_meta, lres):
            if lens != m: V.fail("correspondence(model/impl) spectrum lengths of the SVD sweep", dict(desc, impl=lens, model=m), failing_input=False)
            else: n_len_ok += 1
    # ---- C02_centre_core_error / C02_norm2_centre_core on the implementation's own gauges: a train brought into the mixed gauge by lr_orthogonal and
    #      rl_orthogonal (of the tail) has the norm of its centre core, and perturbing the centre core by D moves the tensor by exactly ||D||_F
    n_gauge = 0
    from torchtt._decomposition import lr_orthogonal, rl_orthogonal
    for t_ in range(12 if tier == "quick" else 200):
        d_ = rng.choice([2, 3, 4, 5]); N_ = [rng.choice([1, 2, 3, 4]) for _ in range(d_)]
        cdt = rng.choice([torch.float64, torch.complex128])
        torch.manual_seed(rng.randrange(1 << 30))
        x_ = torchtt.randn(N_, [1] + [rng.randint(1, 4) for _ in range(d_ - 1)] + [1], dtype=cdt)
        try:
            cl_, R_ = lr_orthogonal(x_.cores, x_.R, False)
            k_ = rng.randrange(d_)
            sub_ = rl_orthogonal(cl_[k_:], R_[k_:], False)[0] if k_ < d_ - 1 else cl_[k_:]
            cores_ = [c.clone() for c in (list(cl_[:k_]) + list(sub_))]
            D_ = torch.randn_like(cores_[k_])
            c2_ = [c.clone() for c in cores_]; c2_[k_] = c2_[k_] + D_
            y_, z_ = torchtt.TT(cores_), torchtt.TT(c2_)
            nx = float(x_.full().abs().pow(2).sum().sqrt())
            e1 = abs(float((z_.full() - y_.full()).abs().pow(2).sum().sqrt()) - float(D_.abs().pow(2).sum().sqrt()))
            e2 = abs(float(y_.full().abs().pow(2).sum().sqrt()) - float(cores_[k_].abs().pow(2).sum().sqrt()))
            e3_ = float((y_.full() - x_.full()).abs().pow(2).sum().sqrt())
            n_gauge += 1
            if not (e3_ <= 1e-10 * max(nx, 1e-300)): V.fail("gauge: lr_orthogonal / rl_orthogonal changed the tensor", {"N": N_, "centre": k_, "rel": e3_ / max(nx, 1e-300)})
            if not (e1 <= 1e-10 * max(1.0, nx)) or not (e2 <= 1e-10 * max(1.0, nx)):
                V.fail("gauge: in the mixed gauge of lr_orthogonal / rl_orthogonal the centre core does not carry the norm / a perturbation of it is not an isometry", {"N": N_, "centre": k_, "perturbation_defect": e1, "norm_defect": e2})
        except Exception as ex:
            V.fail("gauge measurement raises %s" % type(ex).__name__, {"N": N_, "exc": str(ex)[:200]})
    dist["mixed-gauge isometry (centre_core_error) measured"] = n_gauge
    import staleprobe
    n_stale = staleprobe.run_block(V, random.Random(seed + 91), torch, torchtt, "round / norm / full", ["svd", "svd-ttm", "cores", "svd"], 8 if tier == "quick" else 60)
    dist["read-mutate-read probe: read-outs compared"] = n_stale
    import extremes
    extremes.run(V, random.Random(seed + 5), torch, torchtt, [("round(eps)", lambda x_: x_.round(1e-6), False, None)], dist, "round(eps)")
    import qrcontract
    qrcontract.run(V, random.Random(seed + 23), torch, torchtt, tier, dist, "round")
    nviol = V.finish()
    cov = proofcheck.coverage(PID, obl, translation=tr_cov, evaluations=n, distinct_nontrivial=len(set(json.dumps(m[0], sort_keys=True, default=str) for m in replay_meta)),
        rule=("x.round(eps, rmax) on TT tensors and TT matrices of order 1..7 built from cores: random, inflated (block-diagonal self-sum of an exactly low-rank tensor), "
              "scaled (cores spread over 10^+-6), rank-deficient, zero, cancel (tiny last core, huge first core) and budget (every bond discards a tail just under its allowance, "
              "non-orthogonal badly scaled gauge) families, eps from 0 to 0.9, scalar and per-bond rmax, float64/complex128/float32/complex64; every rank_chop call is recorded and replayed "
              "in the Coq model in exact integer arithmetic, spectrum lengths are compared with the shape-level model (qr_ranks, svd_lengths), the threshold with eps/sqrt(d-1)*||S||, "
              "the first spectrum norm with ||x||; error, rank and shape bounds and bitwise integrity of the operand are measured; non-trivial = a replayed decision; distinct = distinct case descriptions"),
        samples=samples, distribution=dist, rank_decisions_replayed=len(replay_cases), rank_decisions_agree=n_ok, spectrum_length_traces=len(len_cases),
        spectrum_length_agree=n_len_ok, near_ties_skipped=n_tie, error_equals_sum_of_discarded_energies_checked=n_identity, known_findings_reproduced=V.known_hit,
        partial=["floating-point round-off, LAPACK QR/SVD modelled as exact (oracle hypotheses of tt_svd_error_bound: orthonormal kept factors, spectrum = energies); the derived identity "
                 "'squared error = sum of discarded energies' is also measured on every case"])
    common.write_evidence(PID, tier, seed, cov, time.time() - t0, nviol, common.TRUSTED_BASE)
    return 1 if nviol else 0
