"""C15 - Gradients through TT operations match the dense derivative."""
import time, random, json, math
import numpy as np
import common, coqrun, proofcheck, ttgen, expr
from expr import Lit3, Lit4, Dense, Scal, Op, Get, Mask

PID = "C15"

def tt(rng, N, rmax=2): return Lit3(ttgen.rand_tt_cores(rng, N, ttgen.rand_ranks(rng, len(N), rmax), False, -2, 2))
def ttm(rng, M, N, rmax=2): return Lit4(ttgen.rand_ttm_cores(rng, M, N, ttgen.rand_ranks(rng, len(N), rmax), False, -1, 1))

def gen_expr(rng):
    """an expression of depth 1..3 over the differentiable operations; returns (expr, tags)"""
    d = rng.choice([1, 2, 2, 3, 3, 4])
    N = [rng.choice([1, 2, 2, 3]) for _ in range(d)]
    tags = []
    x = tt(rng, N)
    r = rng.random()
    if r < 0.12 and d >= 2:      # broadcasting: shorter right operand and/or size-1 modes (the unmatched leading cores are copied)
        k = rng.randint(1, d)
        Ny = [n if rng.random() < 0.6 else 1 for n in N[d - k:]]
        y = tt(rng, Ny); op = rng.choice(["OAdd", "OSub", "OMul", "OMul"]); e = Op(op, [x, y]); tags.append(op + ":bcast")
    elif r < 0.5:
        y = tt(rng, N); op = rng.choice(["OAdd", "OSub", "OMul"]); e = Op(op, [x, y]); tags.append(op)
    elif r < 0.65:
        op = rng.choice(["OMul", "ORMul", "OAdd", "OSub", "ORSub"]); e = Op(op, [x, Scal(rng.choice(["int", "float"]), rng.choice([2, -3, 1]))]); tags.append(op + ":scalar")
    elif r < 0.75:
        e = Op("ONeg", [x]); tags.append("ONeg")
    else:
        e = x
    depth2 = rng.random()
    if depth2 < 0.25:
        M = [rng.choice([1, 2, 3]) for _ in range(d)]
        e = Op("OMatmul", [ttm(rng, M, N), e], [[d, 0]]); N = M; tags.append("A@x")
    elif depth2 < 0.35:
        M = [rng.choice([1, 2]) for _ in range(d)]
        e = Op("OMatmul", [e, ttm(rng, N, M)], [[d, 1]]); N = M; tags.append("x@A")
    elif depth2 < 0.5:
        e = Op("OMul", [e, tt(rng, N)]); tags.append("OMul")
    elif depth2 < 0.6:
        e = Op("OAdd", [e, e]); tags.append("self-add")
    elif depth2 < 0.7:
        z = tt(rng, [rng.choice([2, 3])]); e = Op("OKron", [e, z]); N = N + [c.shape[1] for c in z.cores]; tags.append("OKron")
    elif depth2 < 0.76:          # the accumulation idiom: None ** x and x ** None keep the graph of x
        e = Op("OKron", [expr.NoneE(), e]) if rng.random() < 0.6 else Op("OKron", [e, expr.NoneE()]); tags.append("OKron-None")
    d = len(N)
    if rng.random() < 0.15:          # multiplied by a scalar that is itself computed from (tracked) TT operands
        Ns = [rng.choice([2, 3]) for _ in range(rng.choice([1, 2]))]
        u = tt(rng, Ns)
        if rng.random() < 0.35:                          # a computed scalar whose VALUE is exactly 0 while its derivative is not: <u, v> with disjoint supports in the first mode
            Ns[0] = 2; u = tt(rng, Ns); v = tt(rng, Ns)
            u.cores[0] = u.cores[0].copy(); v.cores[0] = v.cores[0].copy(); u.cores[0][:, 1, :] = 0; v.cores[0][:, 0, :] = 0
            sc = Op("ODot", [u, v]); tags.append("*computed-scalar-of-value-zero")
        else:
            sc = Op("ODot", [u, u]) if rng.random() < 0.6 else Op("OSum", [Op("OMul", [u, u])])
        e = Op(rng.choice(["OMul", "ORMul"]), [e, sc]); tags.append("*computed-scalar")
    k = rng.random()
    if k < 0.12 and d >= 2:
        idx = sorted(rng.sample(range(d), rng.randint(1, d - 1))); e = Op("OSum", [e], [idx]); tags.append("sum(index)")
    elif k < 0.2:
        e = Op("OSum", [e]); tags.append("sum()")
    elif k < 0.3:
        e = Op("ODot", [e, tt(rng, N)]); tags.append("dot")
    elif k < 0.36:
        A = ttm(rng, N, N); e = Op("OBilinear", [e, A, tt(rng, N)]); tags.append("bilinear")
    elif k < 0.46 and any(n > 1 for n in N):
        items = [(("i", rng.randrange(n)) if rng.random() < 0.4 else ("s", rng.randrange(n), None, rng.choice([None, 2]))) for n in N]
        if all(it[0] == "i" for it in items): items[-1] = ("s", None, None, None)
        e = Get(e, items); tags.append("getitem")
    elif k < 0.52:
        e = Mask(e, [[rng.randrange(n) for n in N] for _ in range(rng.choice([2, 3]))]); tags.append("apply_mask")
    elif k < 0.6:
        dim = rng.randrange(d); N2 = list(N); N2[dim] = rng.choice([1, 2])
        e = Op("OCat", [e, tt(rng, N2)], [[dim]]); tags.append("cat")
    elif k < 0.68:
        e = Op("OPad", [e, Scal("float", rng.choice([0, 2]))], [[0, d]] + [[rng.choice([0, 1]), rng.choice([0, 1])] for _ in range(rng.randint(1, d))]); tags.append("pad")
    elif k < 0.74:
        e = Op("ODiag", [e], [[0]]); tags.append("diag")
    elif k < 0.82:
        kk = rng.randrange(d); e = Op("OMprod", [e, Dense(ttgen.rand_core(rng, (rng.choice([1, 2, 3]), N[kk]), False, -2, 2))], [[kk], [0]]); tags.append("mprod")
    elif k < 0.88:
        e = Op("ONorm2", [e]); tags.append("norm2")
    return e, tags

def run(tier, seed, replay=None):
    import torch, torchtt
    from torch.autograd.functional import jvp
    t0 = time.time()
    rng = random.Random(seed)
    V = common.Verdict(PID)
    ok_make, obl = proofcheck.obligations(PID, V)
    n = 150 if tier == "quick" else 2500
    dist, samples, mcases, metas = {}, [], [], []
    n_exact = 0
    for i in range(n):
        e, tags = gen_expr(rng)
        for t in tags: dist[t] = dist.get(t, 0) + 1
        lits = expr.literals(e)
        tracked = [(l, k) for l in lits for k in range(len(l.cores)) if rng.random() < 0.6]
        if not tracked: tracked = [(lits[0], 0)]
        dirs = {(id(l), k): np.array([rng.randint(-2, 2) for _ in range(l.cores[k].size)]).reshape(l.cores[k].shape) for l, k in tracked}
        desc = {"expr": e.desc(), "tags": tags, "tracked": [[lits.index(l), k] for l, k in tracked]}
        if i % 30 == 0 and len(samples) < 5: samples.append(desc)
        inputs = tuple(torch.tensor(l.cores[k], dtype=torch.float64) for l, k in tracked)
        vs = tuple(torch.tensor(dirs[(id(l), k)], dtype=torch.float64) for l, k in tracked)
        def substituted(args):
            for l in lits:
                l._override = [torch.tensor(c, dtype=torch.float64) for c in l.cores]
            for (l, k), a in zip(tracked, args):
                l._override[k] = a
        def F_impl(*args):
            substituted(args); expr.EVAL_ID[0] += 1
            r = e.impl([], torch.float64)
            return r.full() if isinstance(r, torchtt.TT) else r
        def F_dense(*args):
            substituted(args)
            return e.dense([], torch.float64)
        try:
            vi, ti = jvp(F_impl, inputs, vs)
            kind_obj = None
            substituted(inputs); expr.EVAL_ID[0] += 1
            ro = e.impl([], torch.float64)
            vd, td = jvp(F_dense, inputs, vs)
        except Exception as ex:
            V.fail("differentiation raises %s: %s" % (type(ex).__name__, "+".join(tags)), dict(desc, exc=str(ex)[:200]))
            for l in lits: l._override = None
            continue
        finally:
            pass
        fails = []
        if list(vi.shape) != list(vd.shape) or not torch.equal(vi, vd): fails.append("value differs from the dense expression")
        if list(ti.shape) != list(td.shape) or not torch.equal(ti, td):
            fails.append("directional derivative w.r.t. the tracked cores differs from the derivative of the dense expression")
        # grad.grad: gradient of a weighted scalar, shapes of the cores
        try:
            w = torch.tensor(np.array([rng.randint(-2, 2) for _ in range(max(1, vi.numel()))]).reshape(vi.shape), dtype=torch.float64)
            for l in lits: l._override = [torch.tensor(c, dtype=torch.float64) for c in l.cores]
            if i % 4 == 1:      # the watched cores in column-major memory (cores made from Fortran-ordered sources, cores of a sliced / permuted object): leaves all the same
                for l in lits: l._override = [c.permute(*reversed(range(c.dim()))).contiguous().permute(*reversed(range(c.dim()))) for c in l._override]
                tags.append("column-major leaves")
            expr.EVAL_ID[0] += 1
            objs = [l.impl([], torch.float64) for l in lits]
            use_list = i % 3 == 0                      # every third case goes through watch_list / grad_list (all cores of all operands)
            if use_list:
                torchtt.grad.watch_list(objs)
                r = e.impl([], torch.float64)
                val = ((r.full() if isinstance(r, torchtt.TT) else r) * w).sum()
                aio = i % 2 == 0
                gl = torchtt.grad.grad_list(val, objs, all_in_one=aio)
                if not aio: gl = [c for sub in gl for c in sub]
                allc = [(l, k) for l in lits for k in range(len(l.cores))]
                leaves = [torch.tensor(l.cores[k], dtype=torch.float64, requires_grad=True) for l, k in allc]
                for l in lits: l._override = [leaves[allc.index((l, k))] for k in range(len(l.cores))]
                gd = torch.autograd.grad((e.dense([], torch.float64) * w).sum(), leaves, allow_unused=True)
                if len(gl) != len(allc): fails.append("grad.grad_list returns %d gradients for %d cores" % (len(gl), len(allc)))
                for gg, gr, (l, k) in zip(gl, gd, allc):
                    want = gr if gr is not None else torch.zeros(l.cores[k].shape, dtype=torch.float64)
                    if gg is None: gg = torch.zeros_like(want)
                    if list(gg.shape) != list(l.cores[k].shape): fails.append("grad.grad_list returns a gradient whose shape is not the core's")
                    elif not torch.equal(gg, want): fails.append("grad.grad_list differs from the gradient of the dense expression"); break
            else:
                for (l, k) in tracked: torchtt.grad.watch(objs[lits.index(l)], [k])
                r = e.impl([], torch.float64)
                val = ((r.full() if isinstance(r, torchtt.TT) else r) * w).sum()
                l0 = tracked[0][0]; ks = [k for (l, k) in tracked if l is l0]
                g = torchtt.grad.grad(val, objs[lits.index(l0)], ks)
                if i % 2 == 1: torchtt.grad.unwatch(objs[lits.index(l0)])      # the usual loop: watch, evaluate, grad, unwatch, then use the gradient - it must still be the gradient
                gd = torch.autograd.grad((F_dense(*[t.clone().requires_grad_(True) for t in inputs]) * w).sum(), [l._override[k] for (l, k) in tracked if l is l0], allow_unused=True)
                for gg, gr, k in zip(g, gd, ks):
                    want = gr if gr is not None else torch.zeros(l0.cores[k].shape, dtype=torch.float64)
                    if gg is None: gg = torch.zeros_like(want)
                    if list(gg.shape) != list(l0.cores[k].shape): fails.append("grad.grad returns a gradient whose shape is not the core's")
                    elif not torch.equal(gg, want): fails.append("grad.grad differs from the gradient of the dense expression")
        except Exception as ex:
            fails.append("grad.grad / grad_list raises %s" % type(ex).__name__)
        for l in lits: l._override = None
        for f in fails:
            V.fail("%s: %s" % (f[:60], "+".join(tags[-2:])), dict(desc, failure=f))
        if not fails: n_exact += 1
        # the model over dual integers
        car = coqrun.DZ
        def dual_lit(l):
            cs = []
            for k, c in enumerate(l.cores):
                v = dirs.get((id(l), k), np.zeros(c.shape))
                vals = list(zip(np.asarray(c).reshape(-1).astype(np.int64), np.asarray(v).reshape(-1).astype(np.int64)))
                shp = ",".join("%d%%nat" % s_ for s_ in c.shape)
                cs.append("(%s,%s)" % (shp, car.lit(vals)))
            return ("ELit4 [" if isinstance(l, Lit4) else "ELit3 [") + ";".join(cs) + "]"
        saved = {}
        for l in lits:
            saved[id(l)] = l.coq; l.coq = (lambda car_, l=l: dual_lit(l))
        try:
            etxt = e.coq(_DualScal(car))
        finally:
            for l in lits: l.coq = saved[id(l)]
        pv = np.asarray(vi.detach().numpy()).reshape(-1); tv = np.asarray(ti.detach().numpy()).reshape(-1)
        if np.all(pv == np.round(pv)) and np.all(tv == np.round(tv)):
            data = car.lit(list(zip(pv.astype(np.int64), tv.astype(np.int64))))
            if isinstance(ro, torchtt.TT):
                o = ("OM %s %s %s %s" % (coqrun.nlist(ro.R), coqrun.nlist(ro.M), coqrun.nlist(ro.N), data)) if ro.is_ttm else ("OT %s %s %s" % (coqrun.nlist(ro.R), coqrun.nlist(ro.N), data))
            else:
                o = "OD %s %s" % (coqrun.nlist(list(vi.shape)), data)
            mcases.append((etxt, o)); metas.append(desc)
    # ---- tracked operands that come from the factories (the documented starting point: x = torchtt.ones(N); watch(x)), modes of equal size included:
    # every core is its own leaf, the gradient w.r.t. each equals the dense derivative w.r.t. that core alone
    def dense_of(cs, ttm_):
        acc = cs[0]
        for c in cs[1:]: acc = torch.tensordot(acc, c, dims=([acc.dim() - 1], [0]))
        acc = acc.reshape(acc.shape[1:-1])
        if ttm_:
            d_ = len(cs); acc = acc.permute([2 * k_ for k_ in range(d_)] + [2 * k_ + 1 for k_ in range(d_)])
        return acc
    nfac = 12 if tier == "quick" else 120
    for j in range(nfac):
        fac = ["ones", "ones", "zeros", "ones-ttm", "eye", "random", "randn", "ones"][j % 8]
        d = rng.choice([2, 3, 4]); base = rng.choice([2, 3, 4]); N = [base if rng.random() < 0.7 else rng.choice([2, 3]) for _ in range(d)]
        if j < 8: N[0] = N[-1] = base                         # at least two modes of equal size
        ttm_ = fac in ("ones-ttm", "eye")
        shape = [(n_, n_) for n_ in N] if ttm_ else N
        desc = {"factory": fac, "shape": [list(s_) if isinstance(s_, tuple) else s_ for s_ in shape]}
        try:
            if fac in ("ones", "ones-ttm"): x = torchtt.ones(shape)
            elif fac == "zeros": x = torchtt.zeros(shape)
            elif fac == "eye": x = torchtt.eye(N)
            elif fac == "random": x = torchtt.random(shape, [1] + [2] * (d - 1) + [1])
            else: x = torchtt.randn(shape, [1] + [2] * (d - 1) + [1])
            cores0 = [c.detach().clone() for c in x.cores]
            ptrs = [c.untyped_storage().data_ptr() for c in x.cores]
            if len(set(ptrs)) != len(ptrs): V.fail("factory %s: two cores of the new tensor share their storage" % fac, desc)
            av = (ttm(rng, N, N) if ttm_ else tt(rng, N)); a_t = av.impl([], torch.float64); a_d = av.dense([], torch.float64)
            torchtt.grad.watch(x)
            # the tracked factory tensor used directly, through an integer slice (reduce_dims folds the sliced core into its neighbour: for `ones`
            # the folded factor is an identity matrix) or through a partial sum
            form = "plain" if ttm_ else ["plain", "int-slice", "sum-mode", "int-slice"][j % 4]
            desc["form"] = form
            if form == "int-slice":
                pos = rng.randrange(d); ii = rng.randrange(N[pos]); tup = tuple(ii if k_ == pos else slice(None) for k_ in range(d)); desc["index"] = [pos, ii]
                view = lambda t_: t_[tup]
            elif form == "sum-mode":
                pos = rng.randrange(d); desc["sum"] = pos
                view = lambda t_: t_.sum(pos)
            else: view = lambda t_: t_
            xv = view(x)
            r = xv * view(a_t) + xv * xv
            w = torch.tensor(np.array([rng.randint(-2, 2) for _ in range(int(np.prod(r.full().shape)))]).reshape(r.full().shape), dtype=torch.float64)
            g = torchtt.grad.grad((r.full() * w).sum(), x)
            if j % 2 == 1: torchtt.grad.unwatch(x)
            leaves = [c.clone().requires_grad_(True) for c in cores0]
            xd = view(dense_of(leaves, ttm_)); ad_ = view(a_d)
            gd = torch.autograd.grad(((xd * ad_ + xd * xd) * w).sum(), leaves, allow_unused=True)
            for k_, (gg, gr) in enumerate(zip(g, gd)):
                want = gr if gr is not None else torch.zeros_like(cores0[k_])
                if gg is None: gg = torch.zeros_like(want)
                if list(gg.shape) != list(want.shape) or not (float((gg - want).abs().max()) <= 1e-9 * (1.0 + float(want.abs().max()))):
                    V.fail("factory %s: grad.grad w.r.t. a core differs from the dense derivative w.r.t. that core" % fac, dict(desc, core=k_)); break
            dist["factory leaf:" + fac] = dist.get("factory leaf:" + fac, 0) + 1
        except Exception as ex:
            V.fail("factory leaf %s raises %s" % (fac, type(ex).__name__), dict(desc, exc=str(ex)[:200]))
    # ---- operands whose cores carry extreme but representable scales (first core 2^-530, last core 2^530, or one overall factor): the value of
    # dot / a weighted sum is of order one, the per-core derivatives span 300 decades - each must still equal the dense per-core derivative
    for j in range(6 if tier == "quick" else 60):
        d = rng.choice([2, 3, 4]); N = [rng.choice([2, 3]) for _ in range(d)]
        kind_ = ["first-small-last-large", "overall-small", "one-huge-entry"][j % 3]
        desc = {"family": "extreme core scales", "kind": kind_, "N": N}
        try:
            av, bv = tt(rng, N), tt(rng, N)
            ac = [c.clone() for c in av.impl([], torch.float64).cores]; b_t = bv.impl([], torch.float64); b_d = bv.dense([], torch.float64)
            if kind_ == "first-small-last-large": ac[0] = ac[0] * 2.0 ** -530; ac[-1] = ac[-1] * 2.0 ** 530
            elif kind_ == "overall-small": ac[0] = ac[0] * 2.0 ** -530
            else: ac[0] = ac[0].clone(); ac[0][0, 0, 0] = 2.0 ** 515
            a_t = torchtt.TT([c.clone() for c in ac]); torchtt.grad.watch(a_t)
            val = torchtt.dot(a_t, b_t) if j % 2 == 0 else torchtt.dot(a_t * b_t, b_t + 1.5)
            g = torchtt.grad.grad(val, a_t)
            leaves = [c.clone().requires_grad_(True) for c in ac]
            ad_ = dense_of(leaves, False)
            vd = (ad_ * b_d).sum() if j % 2 == 0 else ((ad_ * b_d) * (b_d + 1.5)).sum()
            gd = torch.autograd.grad(vd, leaves, allow_unused=True)
            if not abs(float(val) - float(vd)) <= 1e-9 * max(abs(float(vd)), 1e-300): V.fail("extreme core scales: value of dot differs from the dense value", dict(desc, impl=float(val), dense=float(vd)))
            for k_, (gg, gr) in enumerate(zip(g, gd)):
                want = gr if gr is not None else torch.zeros_like(ac[k_])
                if gg is None: gg = torch.zeros_like(want)
                if list(gg.shape) != list(want.shape) or not (float((gg - want).abs().max()) <= 1e-9 * float(want.abs().max())):
                    V.fail("extreme core scales: grad.grad w.r.t. a core differs from the dense derivative w.r.t. that core", dict(desc, core=k_, impl_max=float(gg.abs().max()), dense_max=float(want.abs().max()))); break
            dist["extreme scales:" + kind_] = dist.get("extreme scales:" + kind_, 0) + 1
        except Exception as ex:
            V.fail("extreme core scales: %s raises %s" % (kind_, type(ex).__name__), dict(desc, exc=str(ex)[:200]))
    # ---- norm() itself (the square root is outside the polynomial model): its gradient against torch.linalg.norm of the dense array on random float data, and at
    # objects that are exactly zero (x * 0, x - x, zeros): torch's norm has the gradient 0 there, so (x*0).norm() + x.sum() has the gradient of x.sum()
    for j in range(12 if tier == "quick" else 120):
        d = rng.choice([1, 2, 3]); N = [rng.choice([2, 3]) for _ in range(d)]; ttm_ = j % 4 == 3
        R_ = [1] + [rng.choice([1, 2]) for _ in range(d - 1)] + [1]
        base = [torch.tensor(np.array([rng.gauss(0, 1) for _ in range(R_[k] * N[k] * (N[k] if ttm_ else 1) * R_[k + 1])]).reshape([R_[k], N[k]] + ([N[k]] if ttm_ else []) + [R_[k + 1]])) for k in range(d)]
        kind_ = ["norm()", "(x*0).norm() + x.sum()", "(x - x).norm() + x.sum()", "norm()"][j % 4] if not ttm_ else ["norm()", "(x*0).norm() + x.sum()"][(j // 4) % 2]
        desc = {"norm gradient": kind_, "N": N, "R": R_, "operator": ttm_}
        try:
            x_t = torchtt.TT([c.clone() for c in base]); torchtt.grad.watch(x_t)
            val = x_t.norm() if kind_ == "norm()" else (((x_t * 0).norm() if kind_.startswith("(x*0)") else (x_t - x_t).norm()) + x_t.sum())
            g = torchtt.grad.grad(val, x_t)
            leaves = [c.clone().requires_grad_(True) for c in base]
            D_ = leaves[0][0]
            for c in leaves[1:]: D_ = torch.tensordot(D_, c, dims=([D_.dim() - 1], [0]))
            D_ = D_[..., 0]
            vd = torch.linalg.norm(D_.reshape(-1)) if kind_ == "norm()" else (torch.linalg.norm((D_ * 0).reshape(-1)) + D_.sum())
            ref = torch.autograd.grad(vd, leaves)
            if not (abs(float(val) - float(vd)) <= 1e-10 * max(1.0, abs(float(vd)))): V.fail("norm gradient block: the value differs from the dense value [%s]" % kind_, dict(desc, got=float(val), dense=float(vd)))
            for k_, (a_, b_) in enumerate(zip(g, ref)):
                if a_ is None or list(a_.shape) != list(b_.shape) or not (float((a_ - b_).abs().max()) <= 1e-9 * max(1.0, float(b_.abs().max()))):
                    V.fail("the gradient of %s differs from the gradient of the dense expression" % kind_, dict(desc, core=k_, got="None" if a_ is None else str(a_.reshape(-1).tolist())[:160], want=str(b_.reshape(-1).tolist())[:160])); break
        except Exception as ex:
            V.fail("norm gradient block raises %s" % type(ex).__name__, dict(desc, exc=str(ex)[:200]))
        dist["norm gradient: " + kind_] = dist.get("norm gradient: " + kind_, 0) + 1
    # ---- several read-outs of ONE watched object whose cores are not contiguous (column-major cores, cores that are slices of a larger buffer): watch,
    # apply_mask / full / sum / slicing one after the other, then grad.grad of the total: every read-out leaves the watched leaves in place
    for j in range(8 if tier == "quick" else 80):
        d = rng.choice([2, 3]); N = [rng.choice([2, 3]) for _ in range(d)]
        xv = tt(rng, N); base = [torch.tensor(c, dtype=torch.float64) for c in xv.cores]
        layout = ["column-major", "slice of a buffer", "contiguous", "column-major"][j % 4]
        def lay(c):
            if layout == "column-major": return c.permute(2, 1, 0).contiguous().permute(2, 1, 0)
            if layout == "slice of a buffer":
                buf = torch.zeros(c.shape[0], c.shape[1], c.shape[2] + 2, dtype=c.dtype); buf[:, :, 1:-1] = c; return buf[:, :, 1:-1]
            return c.clone()
        desc = {"watched object read several times": True, "layout": layout, "N": N, "R": [int(c.shape[2]) for c in base[:-1]]}
        try:
            x_t = torchtt.TT([lay(c) for c in base]); torchtt.grad.watch(x_t)
            rows = [[rng.randrange(n) for n in N] for _ in range(3)]; w3 = torch.tensor([float(rng.randint(-2, 2)) for _ in range(3)], dtype=torch.float64)
            wf = torch.tensor(np.array([rng.randint(-2, 2) for _ in range(int(np.prod(N)))], dtype=np.float64).reshape(N))
            order = ["apply_mask first", "full first"][j % 2]
            if order == "apply_mask first": val = (x_t.apply_mask(torch.tensor(rows)) * w3).sum() + (x_t.full() * wf).sum() + x_t.sum()
            else: val = (x_t.full() * wf).sum() + (x_t.apply_mask(torch.tensor(rows)) * w3).sum() + x_t.sum()
            g = torchtt.grad.grad(val, x_t)
            leaves = [c.clone().requires_grad_(True) for c in base]
            D_ = leaves[0][0]
            for c in leaves[1:]: D_ = torch.tensordot(D_, c, dims=([D_.dim() - 1], [0]))
            D_ = D_[..., 0]
            ref = torch.autograd.grad((torch.stack([D_[tuple(r)] for r in rows]) * w3).sum() + (D_ * wf).sum() + D_.sum(), leaves, retain_graph=True)
            for k_, (a_, b_) in enumerate(zip(g, ref)):
                if a_ is None or list(a_.shape) != list(b_.shape) or not torch.equal(a_, b_):
                    V.fail("a watched object read several times (%s): grad.grad is not the gradient of the dense expression" % order, dict(desc, core=k_, got="None" if a_ is None else str(a_.tolist())[:200], want=str(b_.tolist())[:200])); break
            if not all(c.is_leaf and c.requires_grad for c in x_t.cores): V.fail("a watched object read several times: its cores are no longer the watched leaves", desc)
            # a second scalar on the same watched object: grad.grad / grad_list return ITS gradient (not the sum of both), and the first result stays what it was
            first = [None if a_ is None else a_.clone() for a_ in g]
            val2 = 2.0 * x_t.sum() + (x_t.full() * wf).sum()
            g2 = torchtt.grad.grad(val2, x_t) if j % 2 == 0 else torchtt.grad.grad_list(val2, [x_t])
            ref2 = torch.autograd.grad(2.0 * D_.sum() + (D_ * wf).sum(), leaves)
            for k_, (a_, b_) in enumerate(zip(g2, ref2)):
                if a_ is None or list(a_.shape) != list(b_.shape) or not torch.equal(a_, b_):
                    V.fail("a second grad call on the same watched object does not return the gradient of the second scalar", dict(desc, core=k_, via="grad.grad" if j % 2 == 0 else "grad.grad_list", got="None" if a_ is None else str(a_.reshape(-1).tolist())[:160], want=str(b_.reshape(-1).tolist())[:160])); break
            if any((a_ is None) != (f_ is None) or (a_ is not None and not torch.equal(a_, f_)) for a_, f_ in zip(g, first)):
                V.fail("a second grad call on the same watched object changes the gradient returned by the first call", desc)
        except Exception as ex:
            V.fail("a watched object read several times raises %s" % type(ex).__name__, dict(desc, exc=str(ex)[:200]))
        dist["watched object read several times: " + layout] = dist.get("watched object read several times: " + layout, 0) + 1
    # ---- Model/CoreGrad.v against autograd: the gradient of (w * x.full()).sum() w.r.t. each core (torchtt.grad.watch / grad.grad, and plain
    # Tensor.backward) on integer trains and integer weights equals core_grad exactly - the function theorem C15_weighted_sum_core_grad is about
    cg_cases, cg_meta = [], []
    for j in range(16 if tier == "quick" else 160):
        d = rng.choice([1, 2, 3, 4]); N = [rng.choice([1, 2, 3]) for _ in range(d)]
        xv = tt(rng, N); x_t = xv.impl([], torch.float64)
        x_t = torchtt.TT([c.clone() for c in x_t.cores])
        wv = np.array([rng.randint(-2, 2) for _ in range(int(np.prod(N)))], dtype=np.float64).reshape(N)
        k_ = rng.randrange(d)
        try:
            if j % 2 == 0:
                torchtt.grad.watch(x_t); g_ = torchtt.grad.grad((x_t.full() * torch.tensor(wv)).sum(), x_t)[k_]
            else:
                for c in x_t.cores: c.requires_grad_(True)
                (x_t.full() * torch.tensor(wv)).sum().backward(); g_ = x_t.cores[k_].grad
            cs_ = "[" + ";".join("(%d%%nat,%d%%nat,%d%%nat,%s)" % (c.shape[0], c.shape[1], c.shape[2], coqrun.zlist(c.detach().numpy().reshape(-1))) for c in x_t.cores) + "]"
            cg_cases.append("[check_core_grad (R:=Z) %s %d %s %s]" % (cs_, k_, coqrun.zlist(wv.reshape(-1)), coqrun.zlist(g_.detach().numpy().reshape(-1))))
            cg_meta.append({"family": "core gradient vs Model/CoreGrad.v", "N": N, "R": [int(r) for r in x_t.R], "core": k_, "via": "grad.grad" if j % 2 == 0 else "backward"})
        except Exception as ex:
            V.fail("core gradient raises %s" % type(ex).__name__, {"N": N, "core": k_, "exc": str(ex)[:200]})
    n_cg = 0
    if ok_make and cg_cases:
        try:
            codes = coqrun.eval_nat_lists("C15_cg", "From TT Require Import RingSig Instances Core CoreGrad.", "", cg_cases, shard=40)
            for dsc, c in zip(cg_meta, codes):
                if c != [0]: V.fail("correspondence(model/impl): autograd's gradient w.r.t. a core differs from Model/CoreGrad.v", dict(dsc, model_code=c, expr=cg_cases[cg_meta.index(dsc)][:1200]))
                else: n_cg += 1
        except Exception as ex:
            V.fail("core gradient correspondence: the model could not be evaluated", {"exc": str(ex)[:300]}, failing_input=False)
    dist["core gradient = Model/CoreGrad.v (exact)"] = n_cg
    n_model = 0
    if ok_make and mcases:
        codes = coqrun.eval_codes("C15_DZ", "DZ", mcases, fn="check_model")
        for dsc, c in zip(metas, codes):
            # ranks (bit 1) after multiplying by a computed scalar of value 0: the implementation keeps the ranks when that scalar is tracked and returns the rank-one
            # zero object when it is not - a distinction the dual-number model cannot see when the scalar's tangent vanishes for the direction drawn; values and derivatives (what C15 states) are compared
            # (the same holds for a literal factor 0 on tracked operands.)  Ranks are C03 / C04's subject, on untracked operands; here bit 1 is not part of the verdict
            c &= ~1
            if c != 0: V.fail("correspondence(model/impl): value + derivative over dual integers, code=%d: %s" % (c, "+".join(dsc["tags"][-2:])), dict(dsc, model_code=c), failing_input=bool(c & 4))
            else: n_model += 1
    nviol = V.finish()
    cov = proofcheck.coverage(PID, obl, evaluations=n, distinct_nontrivial=len(set(json.dumps(m["expr"], sort_keys=True, default=str) for m in metas)),
        rule=("expressions of depth 1..3 over + - * (TT and scalar, incl. broadcasting against a shorter operand), unary minus, A@x, x@A, kron, sum (all / subset), dot, bilinear_form, slicing, apply_mask, cat, pad, diag, mprod, "
              "squared norm, on operands of order 1..4 with small-integer cores; a random subset of the cores of all operands is tracked and given a random integer direction; the "
              "implementation's value and directional derivative (torch.autograd.functional.jvp through the torchtt code) must equal, exactly, those of the same expression on dense "
              "arrays rebuilt differentiably from the same cores, and those of the Coq model evaluated over dual integers; torchtt.grad.watch/grad results are compared (shape and "
              "value) with torch.autograd.grad of the dense expression; operands made by the factories (ones / zeros / eye / random / randn, modes of equal size) are watched and their per-core gradients compared with the dense per-core derivatives (every core its own storage); non-trivial/distinct = distinct expression structures"),
        samples=samples, distribution=dist, exact_agreements_with_dense=n_exact, model_dual_agreements=n_model, known_findings_reproduced=V.known_hit,
        partial=["norm() (square root) and the TT layer are outside the polynomial model: norm is differentiated through norm^2 here, the layer's gradients are checked by C20"])
    common.write_evidence(PID, tier, seed, cov, time.time() - t0, nviol, common.TRUSTED_BASE + ["torch autograd (the tape): observed through jvp/grad, not modelled"])
    return 1 if nviol else 0

class _DualScal:
    """carrier wrapper: scalars and dense constants are untracked (zero tangent)"""
    name = "DZ"
    def __init__(self, car): self.car = car
    def scalar_value(self, v): return (int(v), 0)
    def one(self, v): return self.car.one(v)
    def conv(self, arr):
        a = np.asarray(arr).reshape(-1)
        return [(int(x), 0) for x in a]
    def lit(self, vals): return self.car.lit(vals)
