"""C09 - Concatenation, padding, diag, mode products and TT<->TTM conversion are exact."""
import numpy as np
from fractions import Fraction
import ttgen, expr, coqrun, exprcheck
from expr import Lit3, Lit4, Dense, Scal, Op

PID = "C09"

def gen_tt(rng, cplx, d=None, N=None, rmax=3):
    d = d or rng.choice([1, 2, 2, 3, 3, 4])
    N = N or ttgen.rand_shape(rng, d, p_one=0.15)
    return Lit3(ttgen.rand_tt_cores(rng, N, ttgen.rand_ranks(rng, len(N), rmax), cplx, -2, 2))

def gen_ttm(rng, cplx, d=None, square=False):
    d = d or rng.choice([1, 2, 2, 3])
    M = [rng.choice([1, 2, 3]) for _ in range(d)]
    N = M if square else [rng.choice([1, 2, 3]) for _ in range(d)]
    return Lit4(ttgen.rand_ttm_cores(rng, M, N, ttgen.rand_ranks(rng, d, 3), cplx))

def gen_case(rng, car):
    cplx = car is coqrun.ZI
    if expr.CUR_DTYPE[0] == "torch.complex64" and rng.random() < 0.4:          # the single-precision complex dtype goes through conj / t() most of all
        x = gen_tt(rng, cplx) if rng.random() < 0.6 else gen_ttm(rng, cplx)
        return Op("OConj", [x]), "conj", None
    r = rng.random()
    if r < 0.22:                                   # cat: 2..3 operands, every axis
        x = gen_tt(rng, cplx)
        N = [c.shape[1] for c in x.cores]
        dim = rng.randrange(len(N))
        ops = [x]
        for _ in range(rng.choice([1, 1, 2])):
            if rng.random() < 0.25:                # the same object again: cat((x, x)), cat((x, y, x)), ...
                ops.append(ops[rng.randrange(len(ops))]); continue
            Ny = list(N); Ny[dim] = rng.choice([1, 2, 3, 4])
            ops.append(gen_tt(rng, cplx, N=Ny))
        return Op("OCat", ops, [[dim]]), "cat%d" % len(ops), None
    if r < 0.42:                                   # pad (tensor): any trailing subset, widths incl. 0, fill 0 / non-zero
        x = gen_tt(rng, cplx)
        d = len(x.cores)
        k = rng.randint(1, d)
        pads = [[rng.choice([0, 0, 1, 2]), rng.choice([0, 1, 2, 3])] for _ in range(k)]
        v = rng.choice([0, 0, 2, -3, 1])
        if not cplx and rng.random() < 0.25:       # a fill value with ~30 significant bits (exact in float64 only)
            c = expr.wide_dyadic(rng)
            return Op("OPad", [x, Scal("float", c, coq_value=Fraction(c))], [[0, d]] + pads), "pad:fill-wide", coqrun.QC
        return Op("OPad", [x, Scal(rng.choice(["int", "float"]), v)], [[0, d]] + pads), "pad:" + ("zero" if v == 0 else "fill"), None
    if r < 0.56:                                   # pad (operator)
        A = gen_ttm(rng, cplx)
        d = len(A.cores)
        k = rng.randint(1, d)
        pads = [[rng.choice([0, 1, 2]), rng.choice([0, 1, 2])] for _ in range(k)]
        v = rng.choice([0, 2, -3, 1])
        if not cplx and rng.random() < 0.3:
            c = expr.wide_dyadic(rng)
            return Op("OPad", [A, Scal("float", c, coq_value=Fraction(c))], [[1, d]] + pads), "pad-ttm:fill-wide", coqrun.QC
        return Op("OPad", [A, Scal(rng.choice(["int", "float"]), v)], [[1, d]] + pads), "pad-ttm:" + ("zero" if v == 0 else "fill"), None
    if r < 0.74:                                   # mprod: one mode (tensor argument) or a list (repeated modes allowed)
        x = gen_tt(rng, cplx)
        N = [c.shape[1] for c in x.cores]
        if rng.random() < 0.4:
            k = rng.randrange(len(N))
            Mx = Dense(ttgen.rand_core(rng, (rng.choice([1, 2, 3, 4]), N[k]), cplx, -2, 2))
            e = Op("OMprod", [x, Mx], [[k], [0]])
            if rng.random() < 0.35: e.impl_modes = [k - len(N)]           # the same mode counted from the end
            return e, "mprod-single" + ("-negative" if getattr(e, "impl_modes", None) else ""), None
        modes, mats, cur = [], [], list(N)
        for _ in range(rng.choice([1, 2, 3])):
            k = rng.randrange(len(N))
            l = rng.choice([1, 2, 3, 4])
            mats.append(Dense(ttgen.rand_core(rng, (l, cur[k]), cplx, -2, 2)))
            modes.append(k); cur[k] = l
        e = Op("OMprod", [x] + mats, [modes, [1]])
        if rng.random() < 0.25: e.impl_modes = [k_ - len(N) if rng.random() < 0.6 else k_ for k_ in modes]
        return e, "mprod-list", None
    if r < 0.82:
        return Op("ODiag", [gen_tt(rng, cplx, d=rng.choice([1, 2, 3]), rmax=2)], [[0]]), "diag-embed", None
    if r < 0.90:
        A = gen_ttm(rng, cplx, square=rng.random() < 0.7)
        return Op("ODiag", [A], [[1, len(A.cores)]]), "diag-extract", None
    if r < 0.94:
        return Op("OToTTM", [gen_tt(rng, cplx)]), "to_ttm", None
    if r < 0.98:
        x = gen_tt(rng, cplx) if rng.random() < 0.6 else gen_ttm(rng, cplx)
        k = rng.random()
        if k < 0.5: return Op("OConj", [x]), "conj", None
        # conj of an object that already went through conj and view-only operations (torch's lazy conjugate bit is still set on its cores)
        inner = Op("OConj", [x])
        if k < 0.7: return Op("OConj", [inner]), "conj-conj", None
        if k < 0.85: return Op("OConj", [Op("OClone", [inner])]), "conj-clone-conj", None
        if isinstance(x, Lit4): return Op("OConj", [Op("OTr", [inner], [[len(x.cores)]])]), "conj-t-conj", None
        return Op("OConj", [Op("OToTTM", [inner])]), "conj-to_ttm-conj", None
    return Op("OClone", [gen_tt(rng, cplx) if rng.random() < 0.6 else gen_ttm(rng, cplx)]), "clone", None

def evaluate(e, dtype):
    """dense equivalence; for clone additionally: the copy shares no storage with its source (writing into one must not reach the other)"""
    oi, fails = exprcheck.dense_equiv(e, dtype)
    if e.name == "OClone" and not fails:
        try:
            src = e.args[0].impl([], dtype)
            cp = src.clone()
            ps = set(c.untyped_storage().data_ptr() for c in src.cores)
            if any(c.untyped_storage().data_ptr() in ps for c in cp.cores): fails.append("clone() shares storage with its source")
            if cp.cores is src.cores: fails.append("clone() returns the source's own core list")
        except Exception as ex:
            fails.append("clone storage check raises %s" % type(ex).__name__)
    return oi, fails

def nontrivial(e, cat):
    return any(isinstance(a, (Lit3, Lit4)) and any(c.shape[-1] > 1 for c in a.cores[:-1]) for a in e.args)

RULE = ("random structural operations: cat (2-3 operands, every axis), pad of tensors (any trailing subset of modes, widths incl. 0, fill 0 and non-zero) "
        "and of operators (block-diagonal padding), mprod (single mode and lists with repeated modes, rectangular factor matrices), diag in both directions "
        "(rectangular operators included), to_ttm, conj, clone; order 1..4, singleton modes, ranks up to 3, float64/complex128/float32, small-integer data; "
        "non-trivial = interior rank > 1; distinct = (structure, dtype)")

def exhaustive_structures(rng):
    """thorough tier: EVERY structure of cat (order 1..3, sizes 1..3, every axis, second operand 1..2 along it), pad of tensors and operators (order 1..2,
    sizes 1..3, every trailing subset, every width pair in {0,1}^2, fill 0 and 2), single mode products (every mode, 1..3 rows), diag and to_ttm"""
    import itertools, torch
    out = []
    mk3 = lambda N: Lit3(ttgen.rand_tt_cores(rng, list(N), ttgen.rand_ranks(rng, len(N), 2), False, -2, 2))
    mk4 = lambda M, N: Lit4(ttgen.rand_ttm_cores(rng, list(M), list(N), ttgen.rand_ranks(rng, len(M), 2), False))
    T = (torch.float64, coqrun.Z)
    for d in (1, 2, 3):
        for N in itertools.product((1, 2, 3), repeat=d):
            x = mk3(N)
            for dim in range(d):
                for ny in (1, 2):
                    Ny = list(N); Ny[dim] = ny
                    out.append((Op("OCat", [x, mk3(Ny)], [[dim]]), "exhaustive cat") + T)
            for k in range(d):
                for l in (1, 2, 3):
                    out.append((Op("OMprod", [x, Dense(ttgen.rand_core(rng, (l, N[k]), False, -2, 2))], [[k], [0]]), "exhaustive mprod") + T)
            out.append((Op("ODiag", [x], [[0]]), "exhaustive diag") + T)
            out.append((Op("OToTTM", [x]), "exhaustive to_ttm") + T)
            if d <= 2:
                for k in range(1, d + 1):
                    for pads in itertools.product(([0, 0], [0, 1], [1, 0], [1, 1]), repeat=k):
                        for v in (0, 2):
                            out.append((Op("OPad", [x, Scal("float", v)], [[0, d]] + [list(p_) for p_ in pads]), "exhaustive pad") + T)
    for d in (1, 2):
        for M in itertools.product((1, 2), repeat=d):
            for N in itertools.product((1, 2, 3), repeat=d):
                A = mk4(M, N)
                for k in range(1, d + 1):
                    for pads in itertools.product(([0, 0], [0, 1], [1, 0], [1, 1]), repeat=k):
                        out.append((Op("OPad", [A, Scal("float", rng.choice([0, 2]))], [[1, d]] + [list(p_) for p_ in pads]), "exhaustive pad-ttm") + T)
    return out

def run(tier, seed, replay=None):
    import torch
    dtypes = [(torch.float64, coqrun.Z), (torch.complex128, coqrun.ZI), (torch.float64, coqrun.Z), (torch.float32, coqrun.Z), (torch.complex64, coqrun.ZI)]
    return exprcheck.run(PID, tier, seed, gen_case, 400, 6000, RULE + ("; thorough tier additionally enumerates EVERY small structure of cat, pad (tensors and operators), "
                         "single mode products, diag and to_ttm" if tier == "thorough" else ""), nontrivial, dtypes, evaluate=evaluate,
                         extra_cases=exhaustive_structures if tier == "thorough" else None)
