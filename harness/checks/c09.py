"""C09 - Concatenation, padding, diag, mode products and TT<->TTM conversion are exact."""
import numpy as np
from fractions import Fraction
import ttgen, expr, coqrun, exprcheck
from expr import Lit3, Lit4, Dense, Scal, Op

PID = "C09"

def gen_tt(rng, cplx, d=None, N=None, rmax=3):
    d = d or rng.choice([1, 2, 2, 3, 3, 4])
    N = N or ttgen.rand_shape(rng, d, p_one=0.15)
    return Lit3(ttgen.rand_tt_cores(rng, N, ttgen.rand_ranks(rng, len(N), rmax), cplx, -2, 2))

def gen_ttm(rng, cplx, d=None, square=False):
    d = d or rng.choice([1, 2, 2, 3])
    M = [rng.choice([1, 2, 3]) for _ in range(d)]
    N = M if square else [rng.choice([1, 2, 3]) for _ in range(d)]
    return Lit4(ttgen.rand_ttm_cores(rng, M, N, ttgen.rand_ranks(rng, d, 3), cplx))

def gen_case(rng, car):
    cplx = car is coqrun.ZI
    if expr.CUR_DTYPE[0] == "torch.complex64" and rng.random() < 0.4:          # the single-precision complex dtype goes through conj / t() most of all
        x = gen_tt(rng, cplx) if rng.random() < 0.6 else gen_ttm(rng, cplx)
        return Op("OConj", [x]), "conj", None
    r = rng.random()
    if r < 0.22:                                   # cat: 2..3 operands, every axis
        x = gen_tt(rng, cplx)
        N = [c.shape[1] for c in x.cores]
        dim = rng.randrange(len(N))
        ops = [x]
        for _ in range(rng.choice([1, 1, 2])):
            if rng.random() < 0.25:                # the same object again: cat((x, x)), cat((x, y, x)), ...
                ops.append(ops[rng.randrange(len(ops))]); continue
            Ny = list(N); Ny[dim] = rng.choice([1, 2, 3, 4])
            ops.append(gen_tt(rng, cplx, N=Ny))
        return Op("OCat", ops, [[dim]]), "cat%d" % len(ops), None
    if r < 0.42:                                   # pad (tensor): any trailing subset, widths incl. 0, fill 0 / non-zero
        x = gen_tt(rng, cplx)
        d = len(x.cores)
        k = rng.randint(1, d)
        pads = [[rng.choice([0, 0, 1, 2]), rng.choice([0, 1, 2, 3])] for _ in range(k)]
        v = rng.choice([0, 0, 2, -3, 1])
        if not cplx and rng.random() < 0.25:       # a fill value with ~30 significant bits (exact in float64 only)
            c = expr.wide_dyadic(rng)
            pads[0] = [rng.choice([1, 2]), rng.choice([1, 2])]; pads[-1] = [rng.choice([1, 2]), rng.choice([1, 2])]
            return Op("OPad", [x, Scal("float", c, coq_value=Fraction(c))], [[0, d]] + pads), "pad:fill-wide", coqrun.QC
        return Op("OPad", [x, Scal(rng.choice(["int", "float"]), v)], [[0, d]] + pads), "pad:" + ("zero" if v == 0 else "fill"), None
    if r < 0.56:                                   # pad (operator)
        A = gen_ttm(rng, cplx)
        d = len(A.cores)
        k = rng.randint(1, d)
        pads = [[rng.choice([0, 1, 2]), rng.choice([0, 1, 2])] for _ in range(k)]
        v = rng.choice([0, 2, -3, 1])
        if not cplx and rng.random() < 0.3:
            c = expr.wide_dyadic(rng); pads[0] = [rng.choice([1, 2]), rng.choice([1, 2])]; pads[-1] = [rng.choice([1, 2]), rng.choice([1, 2])]       # the fill value enters through the blocks of ONE padded mode (the last one in the pinned code): the blocks of the first and of the last padded mode exist
            return Op("OPad", [A, Scal("float", c, coq_value=Fraction(c))], [[1, d]] + pads), "pad-ttm:fill-wide", coqrun.QC
        return Op("OPad", [A, Scal(rng.choice(["int", "float"]), v)], [[1, d]] + pads), "pad-ttm:" + ("zero" if v == 0 else "fill"), None
    if r < 0.74:                                   # mprod: one mode (tensor argument) or a list (repeated modes allowed)
        x = gen_tt(rng, cplx)
        N = [c.shape[1] for c in x.cores]
        if rng.random() < 0.4:
            k = rng.randrange(len(N))
            Mx = Dense(ttgen.rand_core(rng, (rng.choice([1, 2, 3, 4]), N[k]), cplx, -2, 2))
            e = Op("OMprod", [x, Mx], [[k], [0]])
            if rng.random() < 0.35: e.impl_modes = [k - len(N)]           # the same mode counted from the end
            return e, "mprod-single" + ("-negative" if getattr(e, "impl_modes", None) else ""), None
        modes, mats, cur = [], [], list(N)
        for _ in range(rng.choice([1, 2, 3])):
            k = rng.randrange(len(N))
            l = rng.choice([1, 2, 3, 4])
            mats.append(Dense(ttgen.rand_core(rng, (l, cur[k]), cplx, -2, 2)))
            modes.append(k); cur[k] = l
        e = Op("OMprod", [x] + mats, [modes, [1]])
        if rng.random() < 0.25: e.impl_modes = [k_ - len(N) if rng.random() < 0.6 else k_ for k_ in modes]
        return e, "mprod-list", None
    if r < 0.82:
        return Op("ODiag", [gen_tt(rng, cplx, d=rng.choice([1, 2, 3]), rmax=2)], [[0]]), "diag-embed", None
    if r < 0.90:
        A = gen_ttm(rng, cplx, square=rng.random() < 0.5)
        if rng.random() < 0.4:                      # tall / wide modes (m >= n + 2 and the reverse): the diagonal has min(m, n) entries
            d_ = rng.choice([1, 2, 2]); M_ = [rng.choice([4, 5, 7]) for _ in range(d_)]; N_ = [rng.choice([1, 2, 3]) for _ in range(d_)]
            if rng.random() < 0.3: M_, N_ = N_, M_
            A = Lit4(ttgen.rand_ttm_cores(rng, M_, N_, ttgen.rand_ranks(rng, d_, 3), cplx))
        return Op("ODiag", [A], [[1, len(A.cores)]]), "diag-extract", None
    if r < 0.94:
        return Op("OToTTM", [gen_tt(rng, cplx)]), "to_ttm", None
    if r < 0.98:
        x = gen_tt(rng, cplx) if rng.random() < 0.6 else gen_ttm(rng, cplx)
        k = rng.random()
        if k < 0.5: return Op("OConj", [x]), "conj", None
        # conj of an object that already went through conj and view-only operations (torch's lazy conjugate bit is still set on its cores)
        inner = Op("OConj", [x])
        if k < 0.7: return Op("OConj", [inner]), "conj-conj", None
        if k < 0.85: return Op("OConj", [Op("OClone", [inner])]), "conj-clone-conj", None
        if isinstance(x, Lit4): return Op("OConj", [Op("OTr", [inner], [[len(x.cores)]])]), "conj-t-conj", None
        return Op("OConj", [Op("OToTTM", [inner])]), "conj-to_ttm-conj", None
    return Op("OClone", [gen_tt(rng, cplx) if rng.random() < 0.6 else gen_ttm(rng, cplx)]), "clone", None

def evaluate(e, dtype):
    """dense equivalence; for clone additionally: the copy shares no storage with its source (writing into one must not reach the other)"""
    oi, fails = exprcheck.dense_equiv(e, dtype)
    if e.name == "OClone" and not fails:
        try:
            src = e.args[0].impl([], dtype)
            cp = src.clone()
            ps = set(c.untyped_storage().data_ptr() for c in src.cores)
            if any(c.untyped_storage().data_ptr() in ps for c in cp.cores): fails.append("clone() shares storage with its source")
            if cp.cores is src.cores: fails.append("clone() returns the source's own core list")
        except Exception as ex:
            fails.append("clone storage check raises %s" % type(ex).__name__)
    return oi, fails

def nontrivial(e, cat):
    return any(isinstance(a, (Lit3, Lit4)) and any(c.shape[-1] > 1 for c in a.cores[:-1]) for a in e.args)

RULE = ("random structural operations: cat (2-3 operands, every axis), pad of tensors (any trailing subset of modes, widths incl. 0, fill 0 and non-zero) "
        "and of operators (block-diagonal padding), mprod (single mode and lists with repeated modes, rectangular factor matrices), diag in both directions "
        "(rectangular operators included), to_ttm, conj, clone; order 1..4, singleton modes, ranks up to 3, float64/complex128/float32, small-integer data; "
        "non-trivial = interior rank > 1; distinct = (structure, dtype)")

def exhaustive_structures(rng):
    """thorough tier: EVERY structure of cat (order 1..3, sizes 1..3, every axis, second operand 1..2 along it), pad of tensors and operators (order 1..2,
    sizes 1..3, every trailing subset, every width pair in {0,1}^2, fill 0 and 2), single mode products (every mode, 1..3 rows), diag and to_ttm"""
    import itertools, torch
    out = []
    mk3 = lambda N: Lit3(ttgen.rand_tt_cores(rng, list(N), ttgen.rand_ranks(rng, len(N), 2), False, -2, 2))
    mk4 = lambda M, N: Lit4(ttgen.rand_ttm_cores(rng, list(M), list(N), ttgen.rand_ranks(rng, len(M), 2), False))
    T = (torch.float64, coqrun.Z)
    for d in (1, 2, 3):
        for N in itertools.product((1, 2, 3), repeat=d):
            x = mk3(N)
            for dim in range(d):
                for ny in (1, 2):
                    Ny = list(N); Ny[dim] = ny
                    out.append((Op("OCat", [x, mk3(Ny)], [[dim]]), "exhaustive cat") + T)
            for k in range(d):
                for l in (1, 2, 3):
                    out.append((Op("OMprod", [x, Dense(ttgen.rand_core(rng, (l, N[k]), False, -2, 2))], [[k], [0]]), "exhaustive mprod") + T)
            out.append((Op("ODiag", [x], [[0]]), "exhaustive diag") + T)
            out.append((Op("OToTTM", [x]), "exhaustive to_ttm") + T)
            if d <= 2:
                for k in range(1, d + 1):
                    for pads in itertools.product(([0, 0], [0, 1], [1, 0], [1, 1]), repeat=k):
                        for v in (0, 2):
                            out.append((Op("OPad", [x, Scal("float", v)], [[0, d]] + [list(p_) for p_ in pads]), "exhaustive pad") + T)
    for d in (1, 2):
        for M in itertools.product((1, 2), repeat=d):
            for N in itertools.product((1, 2, 3), repeat=d):
                A = mk4(M, N)
                for k in range(1, d + 1):
                    for pads in itertools.product(([0, 0], [0, 1], [1, 0], [1, 1]), repeat=k):
                        out.append((Op("OPad", [A, Scal("float", rng.choice([0, 2]))], [[1, d]] + [list(p_) for p_ in pads]), "exhaustive pad-ttm") + T)
    return out

def _dtype_block(V, rng, tier):
    """cat of operands of different dtypes (integer-valued cores: the result is EXACTLY the dense concatenation in torch's promoted dtype, whichever
    operand comes first) and pad with a complex fill value on real tensors / operators (the result is complex, the fill keeps its imaginary part)"""
    import torch, torchtt, itertools
    dist = {}
    dts = [torch.float32, torch.float64, torch.complex64, torch.complex128]
    def mk(dt, N, R, ttm=False, M=None):
        cs = []
        for k in range(len(N)):
            shp = (R[k], M[k], N[k], R[k + 1]) if ttm else (R[k], N[k], R[k + 1])
            a = np.array([rng.randint(-2, 2) for _ in range(int(np.prod(shp)))], dtype=np.float64).reshape(shp)
            if dt.is_complex: a = a + 1j * np.array([rng.randint(-1, 1) for _ in range(int(np.prod(shp)))]).reshape(shp)
            cs.append(torch.tensor(a, dtype=dt))
        return torchtt.TT(cs)
    pairs = [(a, b) for a, b in itertools.product(dts, dts) if a != b]; rng.shuffle(pairs)
    for (a, b) in pairs[:(8 if tier == "quick" else 12)]:
        d = rng.choice([1, 2, 3]); N = [rng.choice([1, 2, 3]) for _ in range(d)]; dim = rng.randrange(d)
        Ny = list(N); Ny[dim] = rng.choice([1, 2])
        x = mk(a, N, [1] + [rng.choice([1, 2]) for _ in range(d - 1)] + [1]); y = mk(b, Ny, [1] + [rng.choice([1, 2]) for _ in range(d - 1)] + [1])
        pd = torch.promote_types(a, b)
        desc = {"cat_mixed_dtype": True, "first": str(a), "second": str(b), "N": N, "N2": Ny, "dim": dim}
        try:
            r = torchtt.cat((x, y), dim); ref = torch.cat((x.full().to(pd), y.full().to(pd)), dim)
            if any(c.dtype != pd for c in r.cores): V.fail("cat of operands of two dtypes does not have the promoted dtype", dict(desc, got=[str(c.dtype) for c in r.cores], want=str(pd)))
            elif list(r.full().shape) != list(ref.shape) or not torch.equal(r.full(), ref): V.fail("cat of operands of two dtypes differs from the dense concatenation", desc)
        except Exception as ex:
            V.fail("cat of operands of two dtypes raises %s" % type(ex).__name__, dict(desc, exc=str(ex)[:200]))
        dist["cat mixed dtypes"] = dist.get("cat mixed dtypes", 0) + 1
    # three operands, the widest dtype at each position in turn (torch.cat promotes over ALL operands)
    triples = [(a, b) for a, b in itertools.product(dts, dts) if a != b and torch.promote_types(a, b) == b]; rng.shuffle(triples)
    for j, (lo_, hi_) in enumerate(triples[:(5 if tier == "quick" else len(triples))] * (1 if tier == "quick" else 3)):
        pos = j % 3; kinds = [lo_, lo_, lo_]; kinds[pos] = hi_
        d = rng.choice([1, 2, 3]); N = [rng.choice([1, 2, 3]) for _ in range(d)]; dim = rng.randrange(d)
        ops = []
        for dt_ in kinds:
            Nk = list(N); Nk[dim] = rng.choice([1, 2]); ops.append(mk(dt_, Nk, [1] + [rng.choice([1, 2]) for _ in range(d - 1)] + [1]))
        pd = torch.promote_types(lo_, hi_)
        desc = {"cat_three_mixed_dtype": True, "dtypes": [str(k_) for k_ in kinds], "N": [[int(v) for v in o.N] for o in ops], "dim": dim}
        try:
            r = torchtt.cat(tuple(ops), dim); ref = torch.cat(tuple(o.full().to(pd) for o in ops), dim)
            if any(c.dtype != pd for c in r.cores): V.fail("cat of three operands, the widest dtype %s: the result does not have the promoted dtype" % ["first", "in the middle", "last"][pos], dict(desc, got=[str(c.dtype) for c in r.cores], want=str(pd)))
            elif list(r.full().shape) != list(ref.shape) or not torch.equal(r.full(), ref): V.fail("cat of three operands of mixed dtypes differs from the dense concatenation", desc)
        except Exception as ex:
            V.fail("cat of three operands of mixed dtypes raises %s" % type(ex).__name__, dict(desc, exc=str(ex)[:200]))
        dist["cat three operands, widest " + ["first", "middle", "last"][pos]] = dist.get("cat three operands, widest " + ["first", "middle", "last"][pos], 0) + 1
    for j in range(6 if tier == "quick" else 40):
        ttm = j % 2 == 0; dt = [torch.float64, torch.float32][j % 3 == 2]
        d = rng.choice([1, 2, 3]); N = [rng.choice([1, 2, 3]) for _ in range(d)]; M = [rng.choice([1, 2]) for _ in range(d)]
        x = mk(dt, N, [1] + [rng.choice([1, 2]) for _ in range(d - 1)] + [1], ttm, M)
        val = complex(rng.choice([0, 1, 2]), rng.choice([1, -2])); pads = tuple((rng.choice([0, 1]), rng.choice([1, 2])) for _ in range(d))
        desc = {"pad_complex_value": True, "operator": ttm, "dtype": str(dt), "N": N, "M": M if ttm else None, "value": str(val), "padding": [list(p_) for p_ in pads]}
        try:
            r = torchtt.pad(x, pads, value=val); f = r.full()
            if not f.is_complex(): V.fail("pad with a complex fill value on a real %s returns a real result" % ("operator" if ttm else "tensor"), dict(desc, got=str(f.dtype))); continue
            xf = x.full().to(f.dtype)
            if ttm:
                ref = torch.zeros([m_ + p_[0] + p_[1] for m_, p_ in zip(M, pads)] + [n_ + p_[0] + p_[1] for n_, p_ in zip(N, pads)], dtype=f.dtype)
                # diagonal padding: value on the diagonal of the padded blocks (row index == column index outside the original block of every padded mode)
                dense2 = xf.reshape(int(np.prod(M)), int(np.prod(N))) if False else None
                # build mode by mode: kron structure  P = (+) over modes of [val*I_b, A_k, val*I_a] holds only for order 1; compare order-1 exactly, higher orders on the original block and the corner
                sl = tuple(slice(p_[0], p_[0] + m_) for m_, p_ in zip(M, pads)) + tuple(slice(p_[0], p_[0] + n_) for n_, p_ in zip(N, pads))
                if not torch.equal(f[sl], xf): V.fail("pad (operator, complex value): the original block changed", desc)
                corner = tuple(m_ + p_[0] + p_[1] - 1 for m_, p_ in zip(M, pads)) + tuple(n_ + p_[0] + p_[1] - 1 for n_, p_ in zip(N, pads))
                if complex(f[corner]) != val: V.fail("pad (operator, complex value): the last diagonal entry is not the fill value", dict(desc, got=str(complex(f[corner]))))
            else:
                ref = torch.full([n_ + p_[0] + p_[1] for n_, p_ in zip(N, pads)], val, dtype=f.dtype)
                ref[tuple(slice(p_[0], p_[0] + n_) for n_, p_ in zip(N, pads))] = xf
                if list(f.shape) != list(ref.shape) or not (float((f - ref).abs().max()) <= 1e-5): V.fail("pad (tensor, complex value) differs from the dense padding", desc)
        except Exception as ex:
            V.fail("pad with a complex fill value raises %s" % type(ex).__name__, dict(desc, exc=str(ex)[:200]))
        dist["pad complex value " + ("operator" if ttm else "tensor")] = dist.get("pad complex value " + ("operator" if ttm else "tensor"), 0) + 1
    # the concatenation axis / the mode of a mode product given as a numpy integer
    for j in range(6 if tier == "quick" else 40):
        dt = [torch.float64, torch.complex128, torch.float32][j % 3]; npt = [np.int64, np.int32, np.intp][j % 3]
        d = rng.choice([1, 2, 3]); N = [rng.choice([2, 3]) for _ in range(d)]; k_ = rng.randrange(d)
        x = mk(dt, N, [1] + [rng.choice([1, 2]) for _ in range(d - 1)] + [1]); N2 = list(N); N2[k_] = rng.choice([1, 2])
        y = mk(dt, N2, [1] + [rng.choice([1, 2]) for _ in range(d - 1)] + [1])
        desc = {"numpy_integer_axis": True, "dtype": str(dt), "N": N, "axis": k_, "type": npt.__name__}
        try:
            r = torchtt.cat((x, y), npt(k_)); ref = torch.cat((x.full(), y.full()), k_)
            if list(r.full().shape) != list(ref.shape) or not torch.equal(r.full(), ref): V.fail("cat along an axis given as a numpy integer differs from the dense concatenation", desc)
            F_ = torch.tensor(np.array([[rng.randint(-2, 2) for _ in range(N[k_])] for _ in range(2)], dtype=np.float64)).to(dt)
            refm = torch.movedim(torch.tensordot(F_, x.full(), dims=([1], [k_])), 0, k_)
            for nm, f in (("mprod(F, numpy int)", lambda: x.mprod(F_, npt(k_))), ("mprod([F], [numpy int])", lambda: x.mprod([F_], [npt(k_)]))):
                r2 = f()
                if list(r2.full().shape) != list(refm.shape) or not torch.equal(r2.full(), refm): V.fail("%s differs from the dense mode product" % nm, desc)
        except Exception as ex:
            V.fail("cat / mprod with a numpy integer axis raises %s" % type(ex).__name__, dict(desc, exc=str(ex)[:200]))
        dist["axis as numpy integer"] = dist.get("axis as numpy integer", 0) + 1
    # a fill value that is huge next to the data (float32: 1e8, float64: 1e17, and the mirror image: data 1e-12 next to a fill of 1): the padded tensor still
    # holds the data (torch's constant pad keeps it bit for bit) - measured relative to the DATA, not to the largest entry of the result
    for j in range(8 if tier == "quick" else 60):
        dt = [torch.float64, torch.float32, torch.complex128, torch.float64][j % 4]
        d = rng.choice([1, 2, 3]); N = [rng.choice([2, 3]) for _ in range(d)]
        x = mk(dt, N, [1] + [rng.choice([1, 2, 3]) for _ in range(d - 1)] + [1])
        val = [1e17, 1e8, 1e17, 3.0][j % 4]; scale = 1e-12 if j % 4 == 3 else 1.0
        if scale != 1.0: x = scale * x
        pads = tuple((rng.choice([0, 1]), rng.choice([0, 1, 2])) for _ in range(d)) if j % 3 else ((0, 0),) * d
        desc = {"pad_huge_fill": True, "dtype": str(dt), "N": N, "R": [int(r_) for r_ in x.R], "value": val, "data_scale": scale, "padding": [list(p_) for p_ in pads]}
        try:
            f = torchtt.pad(x, pads, value=val).full(); xf = x.full()
            inner = f[tuple(slice(p_[0], p_[0] + n_) for n_, p_ in zip(N, pads))]
            tol_ = (1e-5 if dt == torch.float32 else 1e-12) * max(float(xf.abs().max()), 1e-300)
            if list(inner.shape) != list(xf.shape) or not (float((inner - xf).abs().max()) <= tol_):
                V.fail("pad (tensor) with a fill value far larger than the data: the original block is not kept", dict(desc, max_abs_err_in_block=float((inner - xf).abs().max()), max_abs_data=float(xf.abs().max())))
            mask_ = torch.ones_like(f, dtype=torch.bool); mask_[tuple(slice(p_[0], p_[0] + n_) for n_, p_ in zip(N, pads))] = False
            if mask_.any() and not (float((f[mask_] - val).abs().max()) <= 1e-5 * abs(val)): V.fail("pad (tensor) with a fill value far larger than the data: the padding is not the fill value", desc)
        except Exception as ex:
            V.fail("pad with a huge fill value raises %s" % type(ex).__name__, dict(desc, exc=str(ex)[:200]))
        dist["pad fill far larger than the data"] = dist.get("pad fill far larger than the data", 0) + 1
    return {"dtype_block": dist}

def run(tier, seed, replay=None):
    import torch
    dtypes = [(torch.float64, coqrun.Z), (torch.complex128, coqrun.ZI), (torch.float64, coqrun.Z), (torch.float32, coqrun.Z), (torch.complex64, coqrun.ZI)]
    return exprcheck.run(PID, tier, seed, gen_case, 400, 6000, RULE + ("; thorough tier additionally enumerates EVERY small structure of cat, pad (tensors and operators), "
                         "single mode products, diag and to_ttm" if tier == "thorough" else ""), nontrivial, dtypes, evaluate=evaluate,
                         extra_cases=exhaustive_structures if tier == "thorough" else None, post=_dtype_block)
