"""C16 - Riemannian projection is an orthogonal projector; AD gradient is its image."""
import time, random, json, math
import numpy as np
import common, coqrun, proofcheck, history, solverkit

PID = "C16"
TOL = 1e-9

def minimal_ranks(N, rng, ttm_M=None, allow_one=True):
    """an achievable rank profile (r_k <= min(prod left, prod right)), interior rank 1 allowed"""
    d = len(N)
    sz = [n * (ttm_M[k] if ttm_M else 1) for k, n in enumerate(N)]
    R = [1]
    for k in range(1, d):
        left = int(np.prod(sz[:k])); right = int(np.prod(sz[k:]))
        cap = min(left, right, R[-1] * sz[k - 1], 3)
        R.append(rng.randint(1 if allow_one else min(2, cap), cap))
    R.append(1)
    for k in range(d - 1, 0, -1):                      # also r_k <= r_{k+1} * n_k
        R[k] = min(R[k], R[k + 1] * sz[k])
    return R

def interface_projectors(x, torch, torchtt):
    """dense A_1..A_{d-1}, B_1..B_{d-1} (n x n matrices, n = number of entries) built from the orthogonal gauges that riemannian_projection computes"""
    from torchtt._decomposition import lr_orthogonal, rl_orthogonal
    l_cores, R = lr_orthogonal(x.cores, x.R, x.is_ttm)
    r_cores, _ = rl_orthogonal(l_cores, R, x.is_ttm)
    d = len(x.N)
    sz = [int(c.numel() // (c.shape[0] * c.shape[-1])) for c in l_cores]
    n = int(np.prod(sz))
    mats = lambda cs: [c.reshape(c.shape[0], -1, c.shape[-1]) for c in cs]
    lc, rc = mats(l_cores), mats(r_cores)
    A, B = [torch.eye(n, dtype=torch.float64)], [None]
    U = torch.ones(1, 1, dtype=torch.float64)
    for k in range(1, d):
        U = torch.einsum('ar,rib->aib', U, lc[k - 1]).reshape(-1, lc[k - 1].shape[-1])          # (n_1..n_k) x r_k
        rest = int(np.prod(sz[k:]))
        A.append(torch.kron(U @ U.T, torch.eye(rest, dtype=torch.float64)))
    Vs = {}
    Vm = torch.ones(1, 1, dtype=torch.float64)
    for k in range(d - 1, 0, -1):
        Vm = torch.einsum('rib,bs->ris', rc[k], Vm).reshape(rc[k].shape[0], -1)                    # r_k x (n_{k+1}..n_d)
        Vs[k] = Vm
    for k in range(1, d):
        B.append(torch.kron(torch.eye(int(np.prod(sz[:k])), dtype=torch.float64), Vs[k].T @ Vs[k]))
    return A, B

def hypotheses_failures(x, z, Pz, torch, torchtt, tol=1e-9):
    """the hypotheses of C16_proj_idempotent / _selfadjoint measured on the gauges of the implementation, and the bridge P_impl(z) = proj formula"""
    A, B = interface_projectors(x, torch, torchtt)
    d = len(x.N); fails = []
    nr = lambda M_: float(M_.norm())
    for j in range(1, d):
        if not (nr(A[j] - A[j].T) <= tol * nr(A[j])): fails.append("hypothesis: A_%d is not self-adjoint" % j)
        if not (nr(B[j] - B[j].T) <= tol * nr(B[j])): fails.append("hypothesis: B_%d is not self-adjoint" % j)
        if not (nr(B[j] @ B[j] - B[j]) <= tol * nr(B[j])): fails.append("hypothesis: B_%d is not idempotent" % j)
        for k in range(1, d):
            if not (nr(A[j] @ A[k] - A[max(j, k)]) <= tol * nr(A[max(j, k)])): fails.append("hypothesis: A_%d A_%d != A_%d (nesting)" % (j, k, max(j, k)))
            if j <= k and not (nr(A[j] @ B[k] - B[k] @ A[j]) <= tol * nr(A[j]) * nr(B[k])): fails.append("hypothesis: A_%d does not commute with B_%d" % (j, k))
    def vec(t):                                   # entries in the order (m_1 n_1)(m_2 n_2)... of the cores
        f = t.full()
        if t.is_ttm: f = f.permute([i for k in range(d) for i in (k, d + k)])
        return f.reshape(-1)
    xv = vec(x); zv = vec(z)
    for j in range(1, d):
        if not (float((A[j] @ xv - xv).norm()) <= tol * float(xv.norm())): fails.append("hypothesis: A_%d x != x" % j)
        if not (float((B[j] @ xv - xv).norm()) <= tol * float(xv.norm())): fails.append("hypothesis: B_%d x != x" % j)
    form = A[d - 1] @ zv
    for k in range(1, d):
        form = form + (A[k - 1] - A[k]) @ (B[k] @ zv)
    if not (float((vec(Pz) - form).norm()) <= tol * max(float(zv.norm()), 1e-300)):
        fails.append("bridge: riemannian_projection(x, z) differs from sum_k (A_{k-1} - A_k) B_k z + A_{d-1} z built from the same gauges")
    return fails

def run(tier, seed, replay=None):
    import torch, torchtt
    from torchtt.manifold import riemannian_projection as P, riemannian_gradient as RG
    t0 = time.time()
    rng = random.Random(seed)
    V = common.Verdict(PID)
    ok_make, obl = proofcheck.obligations(PID, V)
    n = 70 if tier == "quick" else 1200
    dist, samples = {}, []
    n_hyp = 0
    dt = torch.float64
    dot = lambda a, b: float((a.full() * b.full()).sum())
    nrm = lambda a: float(a.full().norm())
    for i in range(n):
        d = rng.choice([2, 3, 3, 4, 5])
        ttm = rng.random() < 0.3
        N = [rng.choice([2, 3, 4]) for _ in range(d)]
        M = [rng.choice([1, 2, 3]) for _ in range(d)] if ttm else None
        R = minimal_ranks(N, rng, M)
        mk = (lambda RR: solverkit.rand_ttm_float(rng, M, N, RR, dt)) if ttm else (lambda RR: solverkit.rand_tt_float(rng, N, RR, dt))
        x = mk(R).round(1e-14)
        tiny = rng.random() < 0.15
        if tiny:                 # minimal ranks with one singular value ~1e-13 (relative) at every bond: nothing may be truncated away from the base point
            sz_ = [n * (M[k] if ttm else 1) for k, n in enumerate(N)]
            x0_ = mk([1] + [max(1, r - 1) for r in R[1:-1]] + [1]).round(1e-14)
            R1_ = [int(r) + 1 for r in x0_.R[1:-1]]
            caps_ = [min(int(np.prod(sz_[:k])), int(np.prod(sz_[k:]))) for k in range(1, d)]
            if all(r <= c_ for r, c_ in zip(R1_, caps_)) and all(R1_[k] <= (R1_[k - 1] if k else 1) * sz_[k] and (R1_[k] <= (R1_[k + 1] if k + 1 < len(R1_) else 1) * sz_[k + 1]) for k in range(len(R1_))):
                x = x0_ + 1e-13 * float(x0_.norm()) * (lambda t: t * (1.0 / float(t.norm())))(mk([1] * (d + 1)))
            else:
                tiny = False
        tall = i in (5, 25) or (tier != "quick" and i % 40 == 5)
        if tall:                 # a long mode next to a small rank, the two columns of the first core nearly parallel (sigma_2 / sigma_1 ~ 4e-7): the gauges must still be orthonormal
            d = 3; ttm = False; M = None; N = [rng.choice([96, 200]), 3, 3]; tiny = False
            mk = lambda RR: solverkit.rand_tt_float(rng, N, RR, dt)
            b_ = torch.tensor([[rng.gauss(0, 1)] for _ in range(N[0])], dtype=dt); p_ = torch.tensor([[rng.gauss(0, 1)] for _ in range(N[0])], dtype=dt)
            rest_ = mk([1, 2, 2, 1])
            x = torchtt.TT([torch.cat([b_, b_ + 4e-7 * p_], 1).reshape(1, N[0], 2), rest_.cores[1].clone(), rest_.cores[2].clone()])
        R = [int(r) for r in x.R]
        z = mk(solverkit.ranks(rng, d, rng.choice([1, 2, 4]))); w = mk(solverkit.ranks(rng, d, rng.choice([1, 3])))
        desc = {"ttm": ttm, "N": N, "M": M, "R_x": R, "R_z": [int(r) for r in z.R], "interior_rank_1": any(r == 1 for r in R[1:-1])}
        key = ("ttm" if ttm else "tt") + (" interior-rank-1" if desc["interior_rank_1"] else "") + (" tiny-singular-value" if tiny else "") + (" tall-ill-conditioned-core" if tall else "")
        dist[key] = dist.get(key, 0) + 1
        if i % 12 == 0 and len(samples) < 5: samples.append(desc)
        snaps = {"x": history.Snap(x), "z": history.Snap(z), "w": history.Snap(w)}
        try:
            Pz, Pw = P(x, z), P(x, w)
            fails = []
            sc = max(nrm(z), 1e-300)
            if any(int(a) > 2 * int(b) for a, b in zip(Pz.R, x.R)): fails.append("ranks of P(z) exceed twice those of x: %s vs %s" % (list(Pz.R), R))
            if history.wf_failures(Pz) or list(Pz.N) != list(x.N): fails.append("P(z) has the wrong shape / is ill formed")
            a, b = rng.choice([2.0, -0.5, 3.0]), rng.choice([1.0, -2.0])
            lin = P(x, a * z + b * w)
            if not (nrm(lin - (a * Pz + b * Pw)) <= TOL * (abs(a) * nrm(z) + abs(b) * nrm(w))): fails.append("not linear")
            PPz = P(x, Pz)
            if not (nrm(PPz - Pz) <= TOL * sc): fails.append("not idempotent: ||P(P z) - P z|| = %.3g ||z||" % (nrm(PPz - Pz) / sc))
            if not (abs(dot(Pz, w) - dot(z, Pw)) <= TOL * nrm(z) * nrm(w)): fails.append("not self-adjoint: <Pz,w> - <z,Pw> = %.3g" % (dot(Pz, w) - dot(z, Pw)))
            Px = P(x, x)
            if not (nrm(Px - x) <= TOL * nrm(x)): fails.append("P(x) != x: relative difference %.3g" % (nrm(Px - x) / nrm(x)))
            if not (abs(dot(z - Pz, Pw)) <= TOL * nrm(z) * nrm(w)): fails.append("residual z - P(z) is not orthogonal to P(w)")
            if int(np.prod(N)) * (int(np.prod(M)) if ttm else 1) <= 600:      # the theorems' hypotheses and the formula, measured on this base point's gauges
                fails += hypotheses_failures(x, z, Pz, torch, torchtt); n_hyp += 1
            Pz2 = P(x, z)                                           # the argument must still be usable
            if not (nrm(Pz2 - Pz) <= TOL * sc): fails.append("a second P(x, z) differs from the first (argument overwritten?)")
            bad = solverkit.intact(snaps, [x, z, w])
            if bad: fails.append("operand modified: " + bad[0])
            # the base point as an object that moves: cores edited in place between two projections (the optimiser idiom x.cores[k] += step): the second
            # projection is the one at the point as it is now
            if not tiny and i % 2 == 0:
                xm = torchtt.TT([c.clone() for c in x.cores]); _ = P(xm, z)
                gnp = np.random.default_rng(rng.randrange(1 << 30)); k_ = rng.randrange(d)
                xm.cores[k_] += 0.4 * torch.tensor(gnp.standard_normal(tuple(xm.cores[k_].shape)), dtype=xm.cores[k_].dtype) * float(xm.cores[k_].abs().max())
                Pm = P(xm, xm)
                if not (nrm(Pm - xm) <= TOL * nrm(xm)): fails.append("P(x) != x after an in-place edit of a core of x: relative difference %.3g" % (nrm(Pm - xm) / nrm(xm)))
                fresh = torchtt.TT([c.clone() for c in xm.cores])
                if not (nrm(P(xm, z) - P(fresh, z)) <= TOL * sc): fails.append("P(x, z) after an in-place edit of a core differs from the projection at a fresh copy of the same point")
            # Riemannian gradient = projection of the dense Euclidean gradient
            fam = rng.choice(["quadratic", "linear", "quartic"])
            tgt = mk(solverkit.ranks(rng, d, 2))
            cw = rng.choice([1.0, 1.0, 1.0, 1e-20, 1e-12, 1e5])          # weight of the objective: grad(c f) = c grad(f) at every magnitude
            if fam == "quadratic": f0 = lambda y: (y - tgt).norm() ** 2; egrad = 2.0 * (x - tgt)
            elif fam == "linear": f0 = lambda y: torchtt.dot(y, tgt) if not ttm else (y * tgt).sum(); egrad = tgt
            else: f0 = lambda y: ((y * y) * (y * y)).sum() if True else None; egrad = 4.0 * (x * x * x)
            f = (lambda y: cw * f0(y)) if cw != 1.0 else f0
            egrad = cw * egrad if cw != 1.0 else egrad
            dist["objective weight %g" % cw] = dist.get("objective weight %g" % cw, 0) + 1
            g = RG(x, f)                                  # on the base point object itself (it must come back untouched) ...
            tgt2 = mk(solverkit.ranks(rng, d, 2))
            f2 = (lambda y: torchtt.dot(y, tgt2)) if not ttm else (lambda y: (y * tgt2).sum())
            g2 = RG(x, f2)                                # ... and a second objective at the SAME base point object
            ref2 = P(x, tgt2)
            if not (nrm(g2 - ref2) <= 1e-8 * max(nrm(ref2), 1e-300) + 1e-10): fails.append("a second riemannian_gradient at the same base point object differs from P(Euclidean gradient): rel %.3g" % (nrm(g2 - ref2) / max(nrm(ref2), 1e-300)))
            if int((x.M if ttm else x.N)[0]) >= 2:
                # an objective whose VALUE is exactly zero at the base point while its gradient is not: a linear functional supported on the index-0
                # slice of the first mode, at a base point whose index-0 slice vanishes (f = 0 does not mean "already at a minimiser")
                xc0 = [c.clone() for c in x.cores]; xc0[0][:, 0] = 0; x0_ = torchtt.TT(xc0)
                a3 = mk(solverkit.ranks(rng, d, 2)); ac3 = [c.clone() for c in a3.cores]; ac3[0][:, 1:] = 0; a3 = torchtt.TT(ac3)
                f3 = (lambda y: torchtt.dot(y, a3)) if not ttm else (lambda y: (y * a3).sum())
                if float(abs(f3(x0_))) == 0.0: dist["objective exactly zero at the base point"] = dist.get("objective exactly zero at the base point", 0) + 1
                g3 = RG(x0_, f3); ref3 = P(x0_, a3)
                if not (nrm(g3 - ref3) <= 1e-8 * max(nrm(ref3), 1e-300) + 1e-10): fails.append("riemannian_gradient of an objective that vanishes at the base point differs from P(Euclidean gradient): rel %.3g" % (nrm(g3 - ref3) / max(nrm(ref3), 1e-300)))
            bad2 = solverkit.intact(snaps, [x, z, w])
            if bad2: fails.append("operand modified by riemannian_gradient: " + bad2[0])
            ref = P(x, egrad)
            if not (nrm(g - ref) <= 1e-8 * max(nrm(ref), 1e-300) + 1e-10 * cw): fails.append("riemannian_gradient differs from P(Euclidean gradient) [%s]: rel %.3g" % (fam, nrm(g - ref) / max(nrm(ref), 1e-300)))
            if any(int(a_) > 2 * int(b_) for a_, b_ in zip(g.R, x.R)): fails.append("ranks of the gradient exceed twice those of x")
        except Exception as ex:
            V.fail("raises %s [%s]" % (type(ex).__name__, key), dict(desc, exc=str(ex)[:200])); continue
        for f_ in fails:
            V.fail("%s [%s]" % (f_.split(":")[0][:70], "ttm" if ttm else "tt"), dict(desc, failure=f_))
    # ---- exact correspondence of the einsum recursion + _delta2cores with Model/Tangent.v: the two orthogonalisation sweeps are replaced (inside
    # torchtt.manifold only) by stubs returning GIVEN small-integer cores l, r - any cores, orthogonal or not - so that everything after them
    # is exact integer arithmetic; the returned cores must equal proj_model l r z core by core (ranks, mode sizes, every entry)
    import torchtt.manifold as MF
    nt = 40 if tier == "quick" else 400
    tcases, tmeta = [], []
    def icore(shape): return np.array([rng.randint(-2, 2) for _ in range(int(np.prod(shape)))], dtype=np.float64).reshape(shape)
    def obs3(cs): return "[" + ";".join("(%d%%nat,%d%%nat,%d%%nat,%s)" % (c.shape[0], int(np.prod(c.shape[1:-1])), c.shape[-1], coqrun.zlist(np.asarray(c).reshape(-1))) for c in cs) + "]"
    old_l, old_r = MF.lr_orthogonal, MF.rl_orthogonal
    try:
        for j in range(nt):
            d = rng.choice([2, 2, 3, 3, 4]); ttm = rng.random() < 0.35
            N = [rng.choice([1, 2, 2, 3]) for _ in range(d)]; M = [rng.choice([1, 2]) for _ in range(d)] if ttm else None
            rk = [1] + [rng.choice([1, 2, 2, 3]) for _ in range(d - 1)] + [1]; zr = [1] + [rng.choice([1, 2, 3]) for _ in range(d - 1)] + [1]
            shp = lambda R_, k: (R_[k], M[k], N[k], R_[k + 1]) if ttm else (R_[k], N[k], R_[k + 1])
            lc = [icore(shp(rk, k)) for k in range(d)]; rc = [icore(shp(rk, k)) for k in range(d)]; zc = [icore(shp(zr, k)) for k in range(d)]
            X = torchtt.TT([torch.tensor(c) for c in lc]); Zt = torchtt.TT([torch.tensor(c) for c in zc])
            MF.lr_orthogonal = lambda cores, R_, is_ttm, lc=lc: ([torch.tensor(c) for c in lc], list(R_))
            MF.rl_orthogonal = lambda cores, R_, is_ttm, rc=rc: ([torch.tensor(c) for c in rc], list(R_))
            desc = {"tangent_correspondence": True, "ttm": ttm, "N": N, "M": M, "ranks_x": rk, "ranks_z": zr, "l": [c.tolist() for c in lc], "r": [c.tolist() for c in rc], "z": [c.tolist() for c in zc]}
            try:
                out = MF.riemannian_projection(X, Zt)
            except Exception as ex:
                V.fail("riemannian_projection raises %s on stubbed gauges" % type(ex).__name__, dict(desc, exc=str(ex)[:200])); continue
            oc = [c.detach().numpy() for c in out.cores]
            if any(np.any(c != np.round(c)) for c in oc): V.fail("tangent correspondence: non-integer entries from integer data", desc); continue
            tcases.append("[check_tangent (R:=Z) %s %s %s %s]" % (obs3(lc), obs3(rc), obs3(zc), obs3(oc))); tmeta.append(desc)
            dist["tangent cores exact (%s, d=%d)" % ("ttm" if ttm else "tt", d)] = dist.get("tangent cores exact (%s, d=%d)" % ("ttm" if ttm else "tt", d), 0) + 1
    finally:
        MF.lr_orthogonal, MF.rl_orthogonal = old_l, old_r
    n_tangent = 0
    if ok_make and tcases:
        try:
            codes = coqrun.eval_nat_lists("C16_tangent", "From TT Require Import RingSig Instances Core Tangent.", "", tcases, shard=100)
            for dsc, c in zip(tmeta, codes):
                if c != [0]: V.fail("correspondence(model/impl): cores of riemannian_projection on given gauges differ from Model/Tangent.v, code=%s" % c, dict(dsc, model_code=c))
                else: n_tangent += 1
        except Exception as ex:
            V.fail("tangent correspondence: the model could not be evaluated", {"exc": str(ex)[:300]}, failing_input=False)
    import qrcontract
    qrcontract.run(V, random.Random(seed + 23), torch, torchtt, tier, dist, "tangent-space projector")
    nviol = V.finish()
    cov = proofcheck.coverage(PID, obl, evaluations=n + nt, distinct_nontrivial=len(dist),
        rule=("base points x of order 2..5 with achievable (rounded) rank profiles incl. interior ranks equal to 1, TT tensors and TT matrices, tensors z, w of arbitrary ranks; "
              "measured on the implementation to 1e-9 relative: linearity, idempotence, self-adjointness, P(x) = x, orthogonality of z - P(z) to P(w), rank bound 2r, repeatability "
              "of P(x, z), bitwise integrity of x, z, w; on base points with at most 600 entries the hypotheses of the idempotence / self-adjointness theorems (A_j A_k = A_max, "
              "B_k^2 = B_k, A_j B_k = B_k A_j for j <= k, symmetry, A_k x = B_k x = x) are measured on dense projectors built from lr_orthogonal / rl_orthogonal, and P(x, z) is compared with the "
              "formula of the model; EXACT: with the two QR sweeps stubbed by given integer cores l, r, the cores returned by riemannian_projection (interface recursion + _delta2cores, TT and TT-matrix) equal those of Model/Tangent.v evaluated in Coq, entry by entry; riemannian_gradient against the projection of the dense Euclidean gradient for quadratic / linear / quartic f weighted by 1, 1e-20, 1e-12, 1e5"),
        samples=samples, distribution=dist, known_findings_reproduced=V.known_hit, base_points_with_hypotheses_and_formula_measured=n_hyp, tangent_core_agreements_with_model=n_tangent,
        partial=["proved (for every order and rank profile): the formula P = sum_k (A_{k-1} - A_k) B_k + A_{d-1} is linear, idempotent, self-adjoint, fixes the base point and leaves "
                 "residuals orthogonal to its range, GIVEN the nesting / idempotence / commutation / self-adjointness relations of the interface projectors; that the gauges computed "
                 "by lr_orthogonal / rl_orthogonal satisfy those relations and that the einsum recursions compute the formula is measured on every small base point (dense A_k, B_k built "
                 "from the implementation's own gauges), not proved"])
    common.write_evidence(PID, tier, seed, cov, time.time() - t0, nviol, common.TRUSTED_BASE)
    return 1 if nviol else 0
