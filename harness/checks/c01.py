"""C01 - TT-SVD meets the requested accuracy and rank bounds for every dense input."""
import time, math, random, itertools, json
from fractions import Fraction
import numpy as np
import common, coqrun, proofcheck

PID = "C01"
IMPORTS = "From TT Require Import OrdRing RankChop."

def model_rank_exprs(cases):
    """cases: (q ints (squared singular values, scaled), pos, thr2 int) -> Coq expr of type list nat"""
    return ["[rank_chop %s %s (%d)%%Z]" % (coqrun.zlist(q), "true" if pos else "false", thr2) for q, pos, thr2 in cases]

def exact_scaled(s, eps_arg):
    """float singular values and float threshold -> exact integers (q_i = s_i^2, thr2 = eps^2) scaled by a common power of two;
    returns (q, thr2, margin) with margin = min relative distance of a tail energy from the threshold"""
    fs = [Fraction(float(abs(x))) ** 2 for x in s]
    ft = Fraction(float(eps_arg)) ** 2
    den = 1
    for f in fs + [ft]:
        den = max(den, f.denominator)
    q = [int(f * den) for f in fs]
    thr2 = int(ft * den)
    tails, acc = [], 0
    for v in reversed(q):
        acc += v; tails.append(acc)
    margin = min((abs(t - thr2) / thr2) if thr2 else 1.0 for t in tails) if thr2 else 1.0
    return q, thr2, float(margin)

def layer1_cases(rng, tier):
    """direct calls of rank_chop on small integer vectors (ties everywhere), scaled variants"""
    out = []
    vals = [0, 1, 2, 3]
    maxlen = 4 if tier == "quick" else 5
    for n in range(1, maxlen + 1):
        for s in itertools.product(vals, repeat=n):
            if any(s[i] < s[i + 1] for i in range(n - 1)): continue
            for k in ([0, 1, 2, 3, 4, 5] if tier == "quick" else range(0, 8)):
                out.append((list(s), k))
    if tier == "quick":
        rng.shuffle(out); out = out[:1500]
    return out

def run(tier, seed, replay=None):
    import torch, torchtt
    import torchtt._decomposition as D
    t0 = time.time()
    rng = random.Random(seed)
    V = common.Verdict(PID)
    ok_make, obl = proofcheck.obligations(PID, V)
    import translate
    tr_cov = translate.obligation(V, PID) if ok_make else {"translated": False}          # rank_chop re-translated from the current source + proof that it equals the model
    dist = {}
    samples = []
    # ---------------- layer 1: rank_chop itself, exact, model over Z
    l1 = layer1_cases(rng, tier)
    impl_r, mcases = [], []
    for s, k in l1:
        for scale, dt in ((1.0, np.float64), (0.5, np.float64), (1.0, np.float32), (2.0 ** -70, np.float64), (2.0 ** -30, np.float32)):
            try:
                r = int(D.rank_chop(np.array(s, dtype=dt) * dt(scale), float(k) * scale))
            except Exception as ex:
                r = -1
            impl_r.append((s, k, scale, str(dt.__name__), r))
            mcases.append(([v * v for v in s], k > 0, k * k))
    dist["rank_chop-direct"] = len(mcases)
    n_l1_ok = 0
    if ok_make:
        mres = coqrun.eval_nat_lists("C01_l1", IMPORTS, "", model_rank_exprs(mcases))
        for (s, k, scale, dt, r), m in zip(impl_r, mres):
            if r != m[0]:
                V.fail("correspondence(model/impl) rank_chop direct", {"s": s, "eps": k, "scale": scale, "dtype": dt, "impl": r, "model": m[0]}, failing_input=False)
            else:
                n_l1_ok += 1
    # ---- layer 1b: spectra with a noise floor / slow decay many decades below the first value, tight eps: the COLLECTIVE energy of the small values decides
    # (a running sum that starts at the large end loses it); exact replay of the float data in the model (cases within 1e-9 of a tie are left out)
    nf_cases, nf_meta = [], []
    rng_nf = random.Random(seed + 71)
    for j in range(24 if tier == "quick" else 240):
        kind_ = j % 3
        if kind_ == 0:
            s_ = np.array([1.0] + [1e-9 * rng_nf.uniform(0.8, 1.2) for _ in range(rng_nf.choice([15, 31, 63]))]); eps_ = rng_nf.choice([2e-9, 3e-9, 5e-9, 8e-9])
        elif kind_ == 1:
            s_ = np.array([rng_nf.uniform(0.75, 0.85) ** k_ for k_ in range(rng_nf.choice([90, 120]))]); eps_ = rng_nf.choice([1e-8, 1e-9, 1e-10])
        else:
            s_ = np.array([1.0, 0.5] + [3e-10] * rng_nf.choice([20, 40]) + [1e-12] * 10); eps_ = rng_nf.choice([1e-9, 2e-9, 4e-9])
        s_ = np.sort(s_)[::-1].copy() * rng_nf.choice([1.0, 1e3, 2.0 ** -20])
        eps_ = eps_ * float(s_[0])
        try: r_ = int(D.rank_chop(s_.copy(), float(eps_)))
        except Exception as ex: r_ = -1
        q_, thr2_, margin_ = exact_scaled(s_, eps_)
        if margin_ < 1e-9: continue
        nf_cases.append((q_, True, thr2_)); nf_meta.append((s_.tolist(), float(eps_), r_))
        disc_ = float(np.sum(s_[r_:] ** 2)) if r_ >= 1 else float("inf")
        if r_ < 1 or disc_ > eps_ * eps_ * (1 + 1e-9): V.fail("rank_chop discards more than eps^2 [noise-floor spectrum]", {"s_head": s_[:3].tolist(), "len": len(s_), "eps": float(eps_), "impl": r_, "discarded": disc_})
    if ok_make and nf_cases:
        mres = coqrun.eval_nat_lists("C01_l1b", IMPORTS, "", model_rank_exprs(nf_cases), shard=12)
        for (s_, e_, r_), m in zip(nf_meta, mres):
            if r_ != m[0]: V.fail("correspondence(model/impl) rank_chop on a noise-floor spectrum", {"s_head": s_[:3], "len": len(s_), "eps": e_, "impl": r_, "model": m[0]}, failing_input=True)
            else: n_l1_ok += 1
    dist["rank_chop noise-floor spectra"] = len(nf_cases)
    # the property on rank_chop itself (independent of the model): discarded energy <= eps^2, incl. ties
    for s, k, scale, dt, r in impl_r:
        if r < 1 or r > len(s):
            V.fail("rank_chop returns a rank outside 1..len(s)", {"s": s, "eps": k, "impl": r}); continue
        if k > 0 and sum(v * v for v in s[r:]) > k * k:
            V.fail("rank_chop discards more than eps^2", {"s": s, "eps": k * scale, "scale": scale, "dtype": dt, "impl": r,
                                                          "discarded": sum(v * v for v in s[r:]) * scale * scale, "eps2": (k * scale) ** 2})
    # ---------------- layers 2/3: TT-SVD end to end, with the rank decisions recorded and replayed in the model
    n = 220 if tier == "quick" else 3000
    rec = []
    orig = D.rank_chop
    def spy(s, eps):
        r = orig(s, eps)
        rec.append((np.array(s, copy=True), float(eps), int(r)))
        return r
    replay_cases, replay_meta = [], []
    n_skipped_tie = 0
    n_identity = 0
    n_struct = 0
    svd_rec = []
    orig_svd = D.SVD
    def spy_svd(mat):
        u, s_, v = orig_svd(mat)
        svd_rec.append((mat.detach().clone(), u.detach().clone(), s_.detach().clone(), v.detach().clone()))
        return u, s_, v
    try:
        D.rank_chop = spy
        D.SVD = spy_svd
        # every family of the generator is represented in EVERY run, whatever the seed: families the main stream missed (or hit once) are drawn from a
        # second stream (generation is cheap; only the kept cases are run)
        all_cases = [engineered_case(i) if i in ENGINEERED else gen_case(rng, i) for i in range(n)]
        have_f = {}
        for c_ in all_cases: have_f[c_[6]] = have_f.get(c_[6], 0) + 1
        rng_cov = random.Random(seed * 7919 + 13)
        for i_ in range(6000):
            if len(all_cases) >= n + 60: break
            c_ = gen_case(rng_cov, n + i_)
            if have_f.get(c_[6], 0) < 2: all_cases.append(c_); have_f[c_[6]] = have_f.get(c_[6], 0) + 1
        for i, case in enumerate(all_cases):
            rec.clear(); svd_rec.clear()
            A, shape, eps, rmax, dtype, src, family = case
            if i % 4 == 3 and family != "tie":          # the contract is relative: tiny and huge absolute scales
                sc = rng.choice([1e-30, 1e-18, 1e-9, 1e9, 1e20]) if dtype not in (torch.float32, torch.complex64) else rng.choice([1e-12, 1e-6, 1e6])
                A = np.asarray(A) * sc; family += "-scaled"
            dist[family] = dist.get(family, 0) + 1
            desc = {"family": family, "shape": shape, "eps": eps, "rmax": rmax, "dtype": str(dtype), "source": src}
            if len(samples) < 5 and i % 40 == 0: samples.append(desc)
            try:
                At = torch.tensor(A, dtype=dtype)
                srcA = At.numpy() if src == "numpy" else At
                if i % 3 == 1 and At.dim() >= 2:            # the same logical array in column-major memory (a numpy F-ordered array / a torch view with reversed strides)
                    rev = list(range(At.dim()))[::-1]
                    srcA = np.asfortranarray(At.numpy()) if src == "numpy" else At.permute(rev).contiguous().permute(rev)
                    desc["memory_layout"] = "column-major"; dist["column-major source" + (" with a prescribed shape" if shape is not None else "")] = dist.get("column-major source" + (" with a prescribed shape" if shape is not None else ""), 0) + 1
                elif i % 6 == 2 and src == "numpy" and At.dim() >= 1:   # a numpy view with a negative stride (a[::-1] of the reversed array: the same logical array)
                    srcA = np.ascontiguousarray(At.numpy()[::-1])[::-1]
                    desc["memory_layout"] = "negative stride"; dist["numpy source with a negative stride"] = dist.get("numpy source with a negative stride", 0) + 1
                kw = {}
                if rmax is not None: kw["rmax"] = rmax
                x = torchtt.TT(srcA, shape=shape, eps=eps, **kw) if shape is not None else torchtt.TT(srcA, eps=eps, **kw)
            except Exception as ex:
                V.fail("TT(dense) raises %s [%s]" % (type(ex).__name__, family), dict(desc, exc=str(ex)[:200]))
                continue
            fails = check_property(A, At, x, shape, eps, rmax, dtype, torch)
            for f in fails:
                V.fail("%s [%s]" % (f.split(":")[0], family), dict(desc, failure=f, R=[int(r) for r in x.R], data=(np.asarray(A).tolist() if np.asarray(A).size <= 64 else "omitted")))
            # the matrix-level model (C01_sweep_error_eq): squared error = sum of the energies discarded at the bonds
            Rk = [int(r) for r in x.R]
            if len(rec) == len(Rk) - 2 and not fails:
                import ttgen as _tg
                full = _tg.ref_full([c.detach().resolve_conj().resolve_neg().numpy() for c in x.cores]).reshape(-1)
                err2 = float(np.sum(np.abs(full - At.numpy().reshape(-1).astype(full.dtype)) ** 2))
                disc = sum(float(np.sum(np.abs(s[Rk[b + 1]:].astype(np.float64)) ** 2)) for b, (s, _, _) in enumerate(rec))
                nrm2 = float(np.sum(np.abs(At.numpy().astype(np.complex128)) ** 2))
                tol_id = (1e-4 if dtype in (torch.float32, torch.complex64) else 1e-10) * nrm2 + 1e-300
                n_identity += 1
                if not (abs(err2 - disc) <= tol_id):
                    V.fail("squared error differs from the sum of the discarded energies [%s]" % family, dict(desc, err2=err2, discarded=disc, R=Rk))
            # the model's sweep_cores / stage relations on the implementation's own SVD factors (tensors only): core k is the reshaped kept
            # factor, the next remainder is diag(s) v, the last core is the final remainder; the oracle hypotheses (orthonormal U, U^H C = S V)
            is_op_ = shape is not None and isinstance(shape[0], tuple)
            if not is_op_ and not fails and len(svd_rec) == len(Rk) - 2 and len(Rk) > 2:
                Nk = [int(v_) for v_ in x.N]; n_struct += 1
                htol = 1e-4 if dtype in (torch.float32, torch.complex64) else 1e-11
                prev = None
                for k_, (Cm, u_, s__, v_) in enumerate(svd_rec):
                    r_ = Rk[k_ + 1]
                    close = lambda a_, b_: a_.shape == b_.shape and float((a_ - b_).abs().max() if a_.numel() else 0.0) <= 100 * htol * max(1e-300, float(b_.abs().max() if b_.numel() else 0.0))
                    if not close(x.cores[k_], u_[:, :r_].reshape(Rk[k_], Nk[k_], r_)):
                        V.fail("correspondence(model/impl): core %d is not the reshaped kept left factor (sweep_cores)" % k_, desc, failing_input=False); break
                    if prev is not None and not close(Cm, prev.reshape(Rk[k_] * Nk[k_], -1)):
                        V.fail("correspondence(model/impl): remainder of bond %d is not the reshaped diag(s) v of the previous bond (stage_next)" % k_, desc, failing_input=False); break
                    prev = torch.diag(s__[:r_]) @ v_[:r_, :]
                    uk = u_[:, :r_]
                    if not (float((uk.conj().T @ uk - torch.eye(r_, dtype=uk.dtype)).abs().max()) <= htol):
                        V.fail("hypothesis orth_stages: the kept left factor is not orthonormal [%s]" % family, dict(desc, bond=k_)); break
                    cn = float(Cm.abs().pow(2).sum().sqrt())
                    if not (float((uk.conj().T @ Cm - prev).abs().pow(2).sum().sqrt()) <= 100 * htol * cn + 1e-300):
                        V.fail("hypothesis spectrum_link: U^H C differs from diag(s) v [%s]" % family, dict(desc, bond=k_)); break
                else:
                    if not close(x.cores[-1], prev.reshape(Rk[-2], Nk[-1], 1)):
                        V.fail("correspondence(model/impl): the last core is not the final remainder (sweep_cores)", desc, failing_input=False)
            # decisions: threshold passed to rank_chop, and the rank chosen, against the model
            is_op = shape is not None and isinstance(shape[0], tuple)
            d = len(shape) if shape is not None else np.asarray(A).ndim
            tol = 1e-4 if dtype in (torch.float32, torch.complex64) else 1e-9
            for (s, eps_arg, r) in rec:
                nrm = float(np.linalg.norm(s.astype(np.float64)))
                want = eps / math.sqrt(d - 1) * nrm if d > 1 else None
                if want is not None and not (abs(eps_arg - want) <= 1e-6 * max(want, 1e-300) + 1e-300):
                    V.fail("threshold passed to rank_chop is not eps/sqrt(d-1)*||s|| [%s]" % family, dict(desc, eps_arg=eps_arg, expected=want))
                q, thr2, margin = exact_scaled(s, eps_arg)
                if margin < tol:
                    n_skipped_tie += 1; continue
                replay_cases.append((q, eps_arg > 0, thr2)); replay_meta.append((desc, r, s.tolist()))
    finally:
        D.rank_chop = orig
        D.SVD = orig_svd
    n_replay_ok = 0
    if ok_make and replay_cases:
        mres = coqrun.eval_nat_lists("C01_l3", IMPORTS, "", model_rank_exprs(replay_cases))
        for (desc, r, s), m in zip(replay_meta, mres):
            if r != m[0]:
                V.fail("correspondence(model/impl) rank decision in TT-SVD", dict(desc, s=s, impl=r, model=m[0]), failing_input=False)
            else:
                n_replay_ok += 1
    # a binding rank cap given as a SMALL numpy integer type next to a long mode (n * r does not fit the type of r)
    for j, (tp_, r_) in enumerate(((np.int8, 2), (np.uint8, 3), (np.int16, 2), (np.int8, 3))):
        Nn = [[4, 100, 6], [3, 90, 5], [2, 20000, 3], [70, 60]][j]
        A_ = torch.tensor(np.array([rng.gauss(0, 1) for _ in range(int(np.prod(Nn)))]).reshape(Nn), dtype=torch.float64)
        desc = {"rmax_small_integer_type": tp_.__name__, "rmax": r_, "N": Nn}
        try:
            x_ = torchtt.TT(A_, eps=1e-12, rmax=tp_(r_))
            if [int(v) for v in x_.N] != Nn or any(int(v) > r_ for v in x_.R) or list(x_.full().shape) != Nn: V.fail("TT(dense, rmax=<small numpy integer type>): wrong shape / rank above the cap", dict(desc, R=[int(v) for v in x_.R]))
        except Exception as ex:
            V.fail("TT(dense, rmax=<small numpy integer type>) raises %s" % type(ex).__name__, dict(desc, exc=str(ex)[:200]))
        dist["rank cap of a small numpy integer type"] = dist.get("rank cap of a small numpy integer type", 0) + 1
    # operands whose squared norm under- / overflows although the norm itself is an ordinary number (harness/extremes.py)
    import extremes
    extremes.run(V, random.Random(seed + 5), torch, torchtt, [("TT(dense, eps)", lambda d_: torchtt.TT(d_, eps=1e-6), True, None),
                 ("TT(dense, shape, eps)", lambda d_: torchtt.TT(d_, [4, 9, 6], eps=1e-6), True, lambda a_: a_.reshape(4, 9, 6))], dist, "TT(dense, eps)")
    nviol = V.finish()
    cov = proofcheck.coverage(PID, obl, translation=tr_cov, evaluations=len(mcases) + n, distinct_nontrivial=len(set(json.dumps(m[:1], default=str) for m in replay_meta)) + len(l1),
        rule=("layer 1: every non-increasing integer vector (entries 0..3, length <= 4 quick / 5 thorough) x eps in 0..5(7), three scalings/dtypes, rank_chop called directly and "
              "compared exactly with the Coq model over Z (ties at the threshold are the bulk of this family); layers 2/3: TT(dense, shape, eps, rmax) on random dense, exactly "
              "low-rank, super-diagonal (every unfolding shares the prescribed spectrum, engineered so each bond sits at the edge of its allowance or exactly at a tie), singleton-"
              "mode, operator-shaped, numpy-sourced, float32/complex inputs; every recorded rank_chop call is replayed in the model in exact integer arithmetic (near-ties skipped "
              "and counted), the threshold argument is compared with eps/sqrt(d-1)*||s||, and error / shape / rank bounds are measured; non-trivial = a case in which a rank "
              "decision was replayed; distinct = distinct case descriptions"),
        samples=samples, distribution=dist, rank_chop_direct_agreements=n_l1_ok, rank_decisions_replayed=len(replay_cases),
        rank_decisions_agree=n_replay_ok, near_ties_skipped=n_skipped_tie, error_equals_sum_of_discarded_energies_checked=n_identity, sweeps_with_core_structure_and_hypotheses_checked=n_struct, known_findings_reproduced=V.known_hit,
        partial=["floating-point round-off and LAPACK's SVD are modelled as exact truncated SVDs (oracle hypotheses spectrum_link / orth_stages of tt_svd_error_bound); the identity "
                 "'squared error = sum of discarded energies' that the theorem derives is also measured on every case; the bridge 'chain of cores = recursive matrix reconstruction' is now a theorem "
                 "(C01_sweep_cores_entry) and the relations it starts from (core k = reshaped kept factor, next remainder = diag(s) v, last core = final remainder) are compared (to round-off: another order of the same floating-point operations is not a violation) with "
                 "the implementation's own SVD factors on every tensor case, the oracle hypotheses (orthonormal U, U^H C = S V) are measured there"])
    common.write_evidence(PID, tier, seed, cov, time.time() - t0, nviol, common.TRUSTED_BASE)
    return 1 if nviol else 0


ENGINEERED = (7, 11, 13, 17)
def engineered_case(i):
    """deterministic cases that random generation reaches too rarely: order-1 operators with M != N from torch sources (the matrix is the core),
    and unfoldings with a few rows and more than a million columns (and the transpose) whose second singular value is 1e-9 of the first"""
    import torch
    g = np.random.default_rng(1000 + i)
    if i == 7:
        return g.integers(-3, 4, size=(2, 3)).astype(np.float64), [(2, 3)], 1e-10, None, torch.float64, "torch", "order-1-operator"
    if i == 11:
        A = g.integers(-3, 4, size=(4, 2)) + 1j * g.integers(-2, 3, size=(4, 2))
        return A.astype(np.complex128), [(4, 2)], 1e-10, None, torch.complex128, "torch", "order-1-operator"
    wide = i == 13
    n_big = 1 << 20
    U, _ = np.linalg.qr(g.standard_normal((3, 2)))
    Vt = g.standard_normal((2, n_big)); Vt[1] -= Vt[0] * (Vt[1] @ Vt[0]) / (Vt[0] @ Vt[0]); Vt /= np.linalg.norm(Vt, axis=1, keepdims=True)
    A = (U * np.array([1.0, 1e-9])) @ Vt                      # exact rank 2, singular values 1 and 1e-9
    return (A if wide else np.ascontiguousarray(A.T)), None, 1e-10, None, torch.float64, "torch", "million-column-unfolding" if wide else "million-row-unfolding"

def superdiag(rng, d, n, sig, cplx=False):
    A = np.zeros([n] * d, dtype=np.complex128 if cplx else np.float64)
    for i, s in enumerate(sig):
        A[(i,) * d] = s * ((1j) ** i if cplx else 1)
    return A

def gen_case(rng, i):
    """returns (A numpy, shape or None, eps, rmax, torch dtype, source kind, family)"""
    import torch
    r = rng.random()
    dtype = rng.choice([torch.float64, torch.float64, torch.float64, torch.float32, torch.complex128, torch.complex128, torch.complex64])
    cplx = dtype in (torch.complex128, torch.complex64)
    src = rng.choice(["torch", "torch", "numpy"])
    rmax = None
    if r < 0.30:      # super-diagonal: all unfoldings share the spectrum sqrt(sig2); engineered allowances and ties
        d = rng.choice([2, 3, 3, 4, 5])
        n = rng.choice([2, 3, 4, 5])
        sig2 = sorted([rng.choice([1, 1, 2, 3, 4, 9, 16, 25]) for _ in range(n)], reverse=True)
        if rng.random() < 0.5: sig2[0] = rng.choice([16, 36, 64, 100])
        eps = rng.choice([0.5, 0.25, 0.3, 0.6, 0.1, 0.7, 0.9, math.sqrt(sig2[-1] * (d - 1) / sum(sig2)) if sum(sig2) else 0.5])
        eps = min(eps, 0.95)
        dtype = torch.complex128 if cplx else torch.float64
        return superdiag(rng, d, n, [math.sqrt(v) for v in sig2], cplx), None, float(eps), None, dtype, src, "superdiagonal"
    if r < 0.40:      # exact ties on the identity / scaled identity
        n = rng.choice([2, 3, 4, 5])
        d = rng.choice([2, 2, 5])
        A = superdiag(rng, d, n, [1.0] * n)
        eps = math.sqrt((d - 1) * rng.randint(1, n) / n)
        if eps >= 1: eps = 0.5
        return A, None, eps, None, torch.float64, src, "tie"
    N = [rng.choice([1, 2, 2, 3, 3, 4, 5]) for _ in range(rng.choice([2, 3, 3, 4, 5]))]
    if rng.random() < 0.15: N = [rng.choice([2, 3, 4, 6])]
    eps = rng.choice([1e-12, 1e-10, 1e-8, 1e-6, 1e-4, 1e-3, 1e-2, 0.1, 0.3, 0.5, 0.9])
    if dtype in (torch.float32, torch.complex64): eps = max(eps, 1e-5)
    if r < 0.60:      # exactly low rank (integer CP terms): rank bound by the unfolding rank
        rk = rng.randint(1, 3)
        A = np.zeros(N, dtype=np.complex128 if cplx else np.float64)
        for _ in range(rk):
            t = np.array(1.0)
            for n_ in N:
                v = np.array([rng.randint(-2, 2) for _ in range(n_)], dtype=np.float64)
                if cplx: v = v + 1j * np.array([rng.randint(-1, 1) for _ in range(n_)])
                t = np.multiply.outer(t, v)
            A = A + t
        fam = "lowrank"
    else:
        A = np.array([rng.gauss(0, 1) for _ in range(int(np.prod(N)))]).reshape(N)
        if rng.random() < 0.3:       # decaying spectrum
            A = A * np.array([2.0 ** (-rng.randint(0, 12)) for _ in range(N[0])]).reshape([N[0]] + [1] * (len(N) - 1))
        if cplx: A = A + 1j * np.array([rng.gauss(0, 1) for _ in range(int(np.prod(N)))]).reshape(N)
        fam = "random"
    shape = None
    k = rng.random()
    if k < 0.2 and len(N) % 2 == 0 and len(N) >= 2:      # operator shape
        h = len(N) // 2
        shape = [(N[j], N[h + j]) for j in range(h)]; fam += "-operator"
        g = rng.random()                                  # the dense source need not come grouped as M+N: any array with the same entries in the same flat order
        if g < 0.25 and N[1:] + N[:1] != N: A = A.reshape(N[1:] + N[:1]); fam += "-regrouped"
        elif g < 0.4: A = A.reshape(int(np.prod(N[:h])), int(np.prod(N[h:]))); fam += "-matrix-source"
        elif g < 0.5: A = A.reshape(-1); fam += "-flat-source"
    elif k < 0.35 and len(N) >= 2:                        # explicit (different) tensor shape
        flat = int(np.prod(N)); shape = [N[0] * N[1]] + N[2:] if len(N) > 2 else [flat]
        fam += "-reshaped"
    dd = len(shape) if shape is not None else len(N)
    if rng.random() < 0.3 and dd >= 2:
        rmax = rng.choice([1, 2, 3]) if rng.random() < 0.6 else [1] + [rng.choice([1, 2, 3, 100]) for _ in range(dd - 1)] + [1]
        if isinstance(rmax, int) and rng.random() < 0.4: rmax = rng.choice([np.int64, np.int32, np.int8, np.uint8] if rmax < 100 else [np.int64, np.int32])(rmax)        # rank caps computed with numpy (np.min, an entry of an integer array)
        fam += "-rmax"
    return A, shape, float(eps), rmax, dtype, src, fam

def check_property(A, At, x, shape, eps, rmax, dtype, torch):
    fails = []
    A = np.asarray(A)
    is_op = shape is not None and isinstance(shape[0], tuple)
    want_shape = list(shape) if shape is not None else list(A.shape)
    if is_op:
        if not x.is_ttm or [(int(m), int(n)) for m, n in zip(x.M, x.N)] != [tuple(s) for s in shape]:
            fails.append("shape: operator shape %s, requested %s" % (list(zip(x.M, x.N)), shape))
        full_shape = [s[0] for s in shape] + [s[1] for s in shape]
    else:
        if x.is_ttm or [int(n) for n in x.N] != [int(v) for v in want_shape]:
            fails.append("shape: N=%s, requested %s" % (list(x.N), want_shape))
        full_shape = want_shape
    R = [int(r) for r in x.R]
    d = len(want_shape)
    if R[0] != 1 or R[-1] != 1 or len(R) != d + 1:
        fails.append("ranks: boundary ranks / length of R wrong: %s" % R)
    cores = [c.detach().resolve_conj().resolve_neg().numpy() for c in x.cores]
    if any(c.shape[0] != R[k] or c.shape[-1] != R[k + 1] for k, c in enumerate(cores)):
        fails.append("ranks: R does not describe the cores")
    for k, c in enumerate(cores):                         # every core has the layout its object reports: (r, n, r') / (r, m, n, r')
        want_c = ((R[k], int(x.M[k]), int(x.N[k]), R[k + 1]) if x.is_ttm else (R[k], int(x.N[k]), R[k + 1])) if k + 1 < len(R) else None
        if want_c is not None and tuple(c.shape) != want_c:
            fails.append("shape: core %d has shape %s, the object reports %s" % (k, tuple(c.shape), want_c)); break
    try:
        xf = x.full()
        if list(xf.shape) != [int(v) for v in full_shape]: fails.append("shape: full() has shape %s, requested %s" % (list(xf.shape), full_shape))
    except Exception as ex:
        fails.append("shape: full() raises %s" % type(ex).__name__)
    rm = rmax if isinstance(rmax, list) else ([1] + [rmax] * (d - 1) + [1] if rmax is not None else None)
    if rm is not None and any(R[k] > rm[k] for k in range(1, d)):
        fails.append("ranks: a rank exceeds rmax: R=%s rmax=%s" % (R, rm))
    import ttgen
    try:
        full = ttgen.ref_full(cores).reshape(full_shape)
    except Exception as ex:
        return fails + ["shape: cores cannot be contracted (%s)" % type(ex).__name__]
    ref = At.numpy().reshape(full_shape)
    f32 = dtype in (torch.float32, torch.complex64)
    nrm = float(np.linalg.norm(ref.astype(np.complex128)))
    err = float(np.linalg.norm((full - ref).astype(np.complex128)))
    binding = rm is not None and any(R[k] == rm[k] for k in range(1, d))
    slack = (2e-5 if f32 else 1e-12) * nrm
    if not (d <= 1) and not binding and not (err <= eps * nrm * (1 + 1e-9) + slack):
        fails.append("accuracy: ||A - full|| = %.6g > eps ||A|| = %.6g (rel %.4g, eps %.4g)" % (err, eps * nrm, err / max(nrm, 1e-300), eps))
    if d == 1 and not (err <= slack):
        fails.append("accuracy: order-1 input not reproduced")
    # rank <= exact unfolding rank (for eps above round-off level), on the array the decomposition works on
    if eps >= (1e-4 if f32 else 1e-9) and d > 1 and not f32:
        W = ref
        if is_op:
            h = d
            W = np.transpose(ref, [j for k in range(h) for j in (k, h + k)]).reshape([s[0] * s[1] for s in shape])
        for k in range(1, d):
            m = int(np.prod(W.shape[:k]))
            ur = int(np.linalg.matrix_rank(W.reshape(m, -1)))
            if R[k] > max(1, ur):
                fails.append("ranks: R[%d]=%d exceeds the rank %d of the unfolding" % (k, R[k], ur))
    if cores and str(cores[0].dtype) != str(At.numpy().dtype):
        fails.append("dtype: cores are %s, input %s" % (cores[0].dtype, At.numpy().dtype))
    return fails
