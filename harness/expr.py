"""Python mirror of coq/Model/Expr.v: expressions that can be (a) printed as Coq terms,
(b) executed on the implementation (torchtt), (c) executed on dense arrays with torch (the
property's literal right-hand side)."""
import numpy as np
import ttgen
from coqrun import nlist, nnlist

def _imp():
    import torch, torchtt
    return torch, torchtt

ERRMAP = {"ShapeMismatch": "EShape", "RankMismatch": "ERank", "IncompatibleTypes": "ETypes",
          "InvalidArguments": "EArgs", "NotImplementedError": "ENotImpl", "RuntimeError": "ETorch",
          "TypeError": "EPyType", "UnboundLocalError": "EPyUnbound", "AttributeError": "EPyAttr",
          "IndexError": "EPyIndex", "ValueError": "EPyValue"}

EVAL_ID = [0]
CUR_DTYPE = ['torch.float64']
def wide_dyadic(rng):
    """a scalar with more significant bits than float32 holds (exact in float64) when the current dtype is double precision; a short dyadic otherwise"""
    if CUR_DTYPE[0] in ('torch.float64', 'torch.complex128'):
        return rng.choice([1 + 2.0 ** -30, 3 - 2.0 ** -35, -(2 + 2.0 ** -28), 2.0 ** -33 - 1])
    return rng.choice([1 + 2.0 ** -10, 3 - 2.0 ** -8, -(2 + 2.0 ** -6)])
def _memo_impl(self, dtype):
    """one implementation object per literal and per evaluation: a literal used twice in an expression is the SAME TT object"""
    if getattr(self, "_eval_id", None) != EVAL_ID[0] or getattr(self, "_dtype", None) != dtype:
        ov = getattr(self, "_override", None)      # C15: cores supplied as (tracked) torch tensors
        if ov is not None:
            _, torchtt = _imp()
            obj = torchtt.TT(list(ov))
        else:
            obj = ttgen.mk_tt(self.cores, dtype)
        self._obj, self._eval_id, self._dtype = obj, EVAL_ID[0], dtype
    return self._obj

def torch_full(cores):
    """differentiable dense reconstruction from torch cores (independent of torchtt)"""
    torch, _ = _imp()
    t = cores[0][0]
    for c in cores[1:]:
        t = torch.tensordot(t, c, dims=([-1], [0]))
    t = t[..., 0]
    if cores[0].dim() == 4:
        d = len(cores)
        t = t.permute([2 * k for k in range(d)] + [2 * k + 1 for k in range(d)])
    return t
def _lit_dense(self, dtype):
    ov = getattr(self, "_override", None)
    if ov is not None: return torch_full(list(ov))
    return ttgen.to_torch(ttgen.ref_full(self.cores), dtype)

class Lit3:
    def __init__(self, cores): self.cores = [np.asarray(c) for c in cores]
    def coq(self, car):
        cs = []
        for c in self.cores:
            cs.append("(%d%%nat,%d%%nat,%d%%nat,%s)" % (c.shape[0], c.shape[1], c.shape[2], car.lit(car.conv(c))))
        return "ELit3 [" + ";".join(cs) + "]"
    def impl(self, env, dtype): return _memo_impl(self, dtype)
    def dense(self, env, dtype): return _lit_dense(self, dtype)
    def desc(self): return {"tt": {"N": [c.shape[1] for c in self.cores], "R": [1] + [c.shape[2] for c in self.cores]}}
    def to_json(self): return {"lit3": [np.asarray(c).tolist() if not np.iscomplexobj(c) else [np.asarray(c).real.tolist(), np.asarray(c).imag.tolist()] for c in self.cores], "shapes": [list(c.shape) for c in self.cores]}

class Lit4:
    def __init__(self, cores): self.cores = [np.asarray(c) for c in cores]
    def coq(self, car):
        cs = []
        for c in self.cores:
            cs.append("(%d%%nat,%d%%nat,%d%%nat,%d%%nat,%s)" % (c.shape[0], c.shape[1], c.shape[2], c.shape[3], car.lit(car.conv(c))))
        return "ELit4 [" + ";".join(cs) + "]"
    def impl(self, env, dtype): return _memo_impl(self, dtype)
    def dense(self, env, dtype): return _lit_dense(self, dtype)
    def desc(self): return {"ttm": {"M": [c.shape[1] for c in self.cores], "N": [c.shape[2] for c in self.cores], "R": [1] + [c.shape[3] for c in self.cores]}}
    def to_json(self): return {"lit4": [np.asarray(c).tolist() if not np.iscomplexobj(c) else [np.asarray(c).real.tolist(), np.asarray(c).imag.tolist()] for c in self.cores], "shapes": [list(c.shape) for c in self.cores]}

class Dense:
    def __init__(self, arr): self.arr = np.asarray(arr)
    def coq(self, car):
        return "EDense %s %s" % (nlist(self.arr.shape), car.lit(car.conv(self.arr)))
    def impl(self, env, dtype):
        # one tensor object per evaluation: a Dense node used twice in an expression is the SAME tensor object
        if getattr(self, "_eval_id", None) != EVAL_ID[0] or getattr(self, "_dtype", None) != dtype:
            self._obj, self._eval_id, self._dtype = ttgen.to_torch(self.arr, dtype), EVAL_ID[0], dtype
        return self._obj
    def dense(self, env, dtype): return ttgen.to_torch(self.arr, dtype)
    def desc(self): return {"dense": list(self.arr.shape)}
    def to_json(self): return {"dense": self.arr.tolist() if not np.iscomplexobj(self.arr) else [self.arr.real.tolist(), self.arr.imag.tolist()], "shape": list(self.arr.shape)}

SK = {"int": "KInt", "float": "KFloat", "complex": "KComplex", "bool": "KBool", "npf64": "KNpF64",
      "npf32": "KNpF32", "npi64": "KNpI64", "t0": "KT0", "t1": "KT1",
      "npu8": "KNpI64", "npi32": "KNpI64", "tu8": "KT0", "ti64": "KT0", "npc128": "KComplex", "tc0": "KT0"}      # further integer kinds: same tag in the model (the kind does not change the value)

class Scal:
    """scalar operand of a given Python kind holding an integer value (complex: Gaussian integer)"""
    def __init__(self, kind, value, coq_value=None): self.kind, self.value, self.coq_value = kind, value, coq_value
    def coq(self, car):
        return "EScal %s %s" % (SK[self.kind], car.one(car.scalar_value(self.coq_value if self.coq_value is not None else self.value)))
    def pyobj(self, dtype):
        torch, _ = _imp()
        v, k = self.value, self.kind
        if k == "int": return int(v)
        if k == "float": return float(v)
        if k == "complex": return complex(v)
        if k == "bool": return bool(v)
        if k == "npf64": return np.float64(v)
        if k == "npf32": return np.float32(v)
        if k == "npi64": return np.int64(v)
        if k == "npc128": return np.complex128(v)
        if k == "tc0": return torch.tensor(complex(v))
        if k == "npu8": return np.uint8(v)
        if k == "npi32": return np.int32(v)
        if k == "tu8": return torch.tensor(int(v), dtype=torch.uint8)
        if k == "ti64": return torch.tensor(int(v), dtype=torch.int64)
        if k == "t0": return torch.tensor(complex(v) if ttgen.np_dtype_is_complex(dtype) else float(v), dtype=dtype)
        if k == "t1": return torch.tensor([complex(v) if ttgen.np_dtype_is_complex(dtype) else float(v)], dtype=dtype)
        raise KeyError(k)
    def impl(self, env, dtype): return self.pyobj(dtype)
    def dense(self, env, dtype):
        return self.pyobj(dtype)
    def desc(self): return {"scalar": self.kind, "zero": self.value == 0}
    def to_json(self): return {"scalar": self.kind, "value": str(self.value)}

class NoneE:
    def coq(self, car): return "ENone"
    def impl(self, env, dtype): return None
    def dense(self, env, dtype): return None
    def desc(self): return "None"
    def to_json(self): return None

class Var:
    def __init__(self, n): self.n = n
    def coq(self, car): return "EVar %d%%nat" % self.n
    def impl(self, env, dtype): return env[self.n]
    def dense(self, env, dtype): return env[self.n]
    def desc(self): return {"var": self.n}
    def to_json(self): return {"var": self.n}

def _kron_dense(a, b):
    torch, _ = _imp()
    if b is None: return a
    if a is None: return b
    return torch.tensordot(a, b, dims=0)

IMPL_OPS = {
    "OAdd": lambda a, ia: a[0] + a[1], "ORAdd": lambda a, ia: a[1] + a[0],
    "OSub": lambda a, ia: a[0] - a[1], "ORSub": lambda a, ia: a[1] - a[0],
    "OMul": lambda a, ia: a[0] * a[1], "ORMul": lambda a, ia: a[1] * a[0],
    "ODiv": lambda a, ia: a[0] / a[1],
    "ONeg": lambda a, ia: -a[0], "OPos": lambda a, ia: +a[0],
    "OKron": lambda a, ia: a[0] ** a[1],
}
def _tt():
    import torchtt
    return torchtt
def _matmul_dense(a, ia):
    torch, _ = _imp()
    d, br = ia[0]
    if br == 0: return torch.tensordot(a[0], a[1], dims=d)
    if br == 1: return torch.tensordot(a[0], a[1], dims=d)
    if br == 2: return torch.tensordot(a[0], a[1], dims=d)
    X, A = a[1], a[0]
    nb = X.dim() - d
    return torch.tensordot(X, A, dims=(list(range(nb, nb + d)), list(range(d, 2 * d))))
def _tr_dense(a, ia):
    d = ia[0][0]
    return a[0].permute(list(range(d, 2 * d)) + list(range(d)))
def _eye_dense(a, ia, dtype):
    torch, _ = _imp()
    ns = ia[0]
    n = int(np.prod(ns))
    return torch.eye(n, dtype=dtype).reshape(list(ns) + list(ns))
IMPL_OPS.update({
    "OMatmul": lambda a, ia: a[0] @ a[1],
    "OTr": lambda a, ia: a[0].t(),
})
def _norm2_impl(a, ia):
    """squared norm through the autograd (Gram) branch: exact on integer data"""
    torch, torchtt = _imp()
    x = a[0]
    if any(c.requires_grad for c in x.cores):       # already tracked (C15): the Gram branch is taken, keep the tape
        return x.norm(True)
    y = torchtt.TT([c.clone().requires_grad_(True) for c in x.cores])
    return y.norm(True).detach()
def _sum_impl(a, ia):
    return a[0].sum() if not ia else a[0].sum(list(ia[0]))
def _sum_dense(a, ia):
    torch, _ = _imp()
    if not ia: return a[0].sum()
    if len(ia[0]) == 0: return a[0]
    return torch.sum(a[0], dim=list(ia[-1]))      # operators: ia = [index, dense axes (row and column mode of each pair)]
def _dot_impl(a, ia):
    _, torchtt = _imp()
    return torchtt.dot(a[0], a[1]) if not ia else torchtt.dot(a[0], a[1], list(ia[0]))
def _dot_dense(a, ia):
    torch, _ = _imp()
    if not ia: return (a[0] * a[1].conj()).sum()
    ax = list(ia[0])
    return torch.tensordot(a[0], a[1].conj(), dims=(ax, list(range(len(ax)))))
def _bilinear_dense(a, ia):
    torch, _ = _imp()
    x, A, y = a
    d = x.dim()
    t = torch.tensordot(x.conj(), A, dims=(list(range(d)), list(range(d))))
    return torch.tensordot(t, y, dims=(list(range(d)), list(range(d))))
IMPL_OPS.update({
    "ONorm2": _norm2_impl, "OSum": _sum_impl, "ODot": _dot_impl,
    "OBilinear": lambda a, ia: _imp()[1].bilinear_form(a[0], a[1], a[2]),
})
# factories need the dtype: handled in Op.impl / Op.dense
FACTORY_IMPL = {
    "OEye": lambda ia, dtype: _tt().eye(ia[0], dtype=dtype),
    "OOnes": lambda ia, dtype: _tt().ones(ia[0] if len(ia) == 1 else [(m, n) for m, n in zip(ia[0], ia[1])], dtype=dtype),
    "OZeros": lambda ia, dtype: _tt().zeros(ia[0] if len(ia) == 1 else [(m, n) for m, n in zip(ia[0], ia[1])], dtype=dtype),
}
FACTORY_DENSE = {
    "OEye": lambda ia, dtype: _eye_dense(None, ia, dtype),
    "OOnes": lambda ia, dtype: _imp()[0].ones(ia[0] if len(ia) == 1 else list(ia[0]) + list(ia[1]), dtype=dtype),
    "OZeros": lambda ia, dtype: _imp()[0].zeros(ia[0] if len(ia) == 1 else list(ia[0]) + list(ia[1]), dtype=dtype),
}
DENSE_OPS = dict(IMPL_OPS)
DENSE_OPS["OKron"] = lambda a, ia: _kron_dense(a[0], a[1])
DENSE_OPS["OMatmul"] = _matmul_dense
DENSE_OPS["OTr"] = _tr_dense
DENSE_OPS["ONorm2"] = lambda a, ia: (a[0] * a[0].conj()).sum()
DENSE_OPS["OSum"] = _sum_dense
DENSE_OPS["ODot"] = _dot_dense
DENSE_OPS["OBilinear"] = _bilinear_dense

class Op:
    def __init__(self, name, args, ia=()):
        self.name, self.args, self.ia = name, list(args), [list(x) for x in ia]
    def coq(self, car):
        return "EOp %s [%s] %s" % (self.name, ";".join("(" + a.coq(car) + ")" for a in self.args), nnlist(self.ia))
    def impl(self, env, dtype):
        if self.name in FACTORY_IMPL: return FACTORY_IMPL[self.name](self.ia, dtype)
        if self.name == "OMprod" and getattr(self, "impl_modes", None) is not None:      # the same modes written with negative values for the implementation
            a = [x.impl(env, dtype) for x in self.args]
            return _mprod_impl(a, [list(self.impl_modes), self.ia[1]])
        if self.name == "OSum" and getattr(self, "int_index", False):      # the documented bare-int form of sum(index)
            return self.args[0].impl(env, dtype).sum(int(self.ia[0][0]))
        if self.name == "OSum" and getattr(self, "impl_axes", None) is not None:   # the same SET of modes handed over in another order (a sum does not depend on it)
            return self.args[0].impl(env, dtype).sum(list(self.impl_axes))
        return IMPL_OPS[self.name]([a.impl(env, dtype) for a in self.args], self.ia)
    def dense(self, env, dtype):
        if self.name in FACTORY_DENSE: return FACTORY_DENSE[self.name](self.ia, dtype)
        return DENSE_OPS[self.name]([a.dense(env, dtype) for a in self.args], self.ia)
    def desc(self): return dict({"op": self.name, "args": [a.desc() for a in self.args], "ia": self.ia}, **({"int_index": True} if getattr(self, "int_index", False) else {}), **({"impl_modes": list(self.impl_modes)} if getattr(self, "impl_modes", None) is not None else {}), **({"impl_axes": list(self.impl_axes)} if getattr(self, "impl_axes", None) is not None else {}))
    def to_json(self): return dict({"op": self.name, "args": [a.to_json() for a in self.args], "ia": self.ia}, **({"int_index": True} if getattr(self, "int_index", False) else {}), **({"impl_modes": list(self.impl_modes)} if getattr(self, "impl_modes", None) is not None else {}), **({"impl_axes": list(self.impl_axes)} if getattr(self, "impl_axes", None) is not None else {}))


def observe_impl(v):
    """canonical observation of an implementation result (or exception)"""
    torch, torchtt = _imp()
    if isinstance(v, BaseException):
        return {"kind": "E", "cls": type(v).__name__, "err": ERRMAP.get(type(v).__name__, "EPyValue"), "msg": str(v)[:200]}
    if isinstance(v, torchtt.TT):
        cores = [c.detach().cpu().resolve_conj().resolve_neg().numpy() for c in v.cores]
        o = {"kind": "M" if v.is_ttm else "T", "R": [int(r) for r in v.R], "N": [int(n) for n in v.N],
             "dtype": str(cores[0].dtype) if cores else None,
             "core_dtypes": sorted(set(str(c.dtype) for c in cores)),
             "core_shapes": [list(c.shape) for c in cores]}
        if v.is_ttm:
            o["M"] = [int(m) for m in v.M]
        try:
            rf = ttgen.ref_full(cores)
            o["dense"] = ttgen.exact_ints(rf)
            o["dense_raw"] = rf
        except Exception as e:
            o["dense"] = None; o["dense_err"] = repr(e)
        try:
            f = v.full().detach().cpu().resolve_conj().resolve_neg().numpy()
            o["full_shape"] = list(f.shape)
            o["full_matches_cores"] = bool(o.get("dense_raw") is not None and f.size == o["dense_raw"].size and np.array_equal(f.reshape(-1), o["dense_raw"].reshape(-1)))
        except Exception as e:
            o["full_shape"] = None; o["full_err"] = type(e).__name__
        return o
    if torch.is_tensor(v):
        a = v.detach().cpu().resolve_conj().resolve_neg().numpy()
        return {"kind": "D", "shape": list(a.shape), "dense": ttgen.exact_ints(a), "dense_raw": a, "dtype": str(a.dtype)}
    if v is None:
        return {"kind": "N"}
    if isinstance(v, (int, float, complex, np.number)):
        return {"kind": "S", "dense": ttgen.exact_ints(np.asarray(v)), "dense_raw": np.asarray(v)}
    return {"kind": "?", "repr": repr(v)[:100]}

def obs_coq(o, car):
    """Coq literal of an implementation observation; None when its data are not exactly representable in the carrier."""
    k = o["kind"]
    if k in ("T", "M", "D", "S"):
        if o.get("dense_raw") is None: return None
        vals = car.conv(o["dense_raw"])
        if vals is None: return None
    if k == "T": return "OT %s %s %s" % (nlist(o["R"]), nlist(o["N"]), car.lit(vals))
    if k == "M": return "OM %s %s %s %s" % (nlist(o["R"]), nlist(o["M"]), nlist(o["N"]), car.lit(vals))
    if k == "D": return "OD %s %s" % (nlist(o["shape"]), car.lit(vals))
    if k == "S": return "OS %s" % car.one(vals[0])
    if k == "N": return "ONone_"
    if k == "E": return "OE %s" % o["err"]
    return None

def strip_raw(o):
    return {k: v for k, v in o.items() if k not in ("dense_raw",)}

def literals(e, acc=None):
    acc = [] if acc is None else acc
    if isinstance(e, (Lit3, Lit4)):
        if e not in acc: acc.append(e)
    for a in getattr(e, "args", []):
        literals(a, acc)
    return acc

def operands_intact(e, dtype):
    """after run_impl: every literal operand object still holds exactly its literal cores, ranks and mode sizes"""
    bad = []
    for lit in literals(e):
        o = getattr(lit, "_obj", None)
        if o is None or getattr(lit, "_eval_id", None) != EVAL_ID[0]: continue
        try:
            cs = [c.detach().cpu().resolve_conj().resolve_neg().numpy() for c in o.cores]
            ok = len(cs) == len(lit.cores) and all(c.shape == l.shape and np.array_equal(c, l.astype(c.dtype)) for c, l in zip(cs, lit.cores))
            ok = ok and [int(r) for r in o.R] == [1] + [l.shape[-1] for l in lit.cores] and [int(n) for n in o.N] == [l.shape[-2] for l in lit.cores]
            if o.is_ttm: ok = ok and [int(m) for m in o.M] == [l.shape[1] for l in lit.cores]
        except Exception as ex:
            ok = False
        if not ok: bad.append(lit)
    return bad

def run_impl(e, dtype, env=None):
    import warnings
    EVAL_ID[0] += 1
    try:
        with warnings.catch_warnings():
            warnings.simplefilter("ignore")
            return e.impl(env or [], dtype)
    except Exception as ex:
        return ex

def run_dense(e, dtype, env=None):
    import warnings
    try:
        with warnings.catch_warnings():
            warnings.simplefilter("ignore")
            return e.dense(env or [], dtype)
    except Exception as ex:
        return ex


# ---------------------------------------------------------------- C09: structural operations
def _pad_args(ia):
    return tuple((int(p[0]), int(p[1])) for p in ia[1:])
def _pad_impl(a, ia):
    _, torchtt = _imp()
    return torchtt.pad(a[0], _pad_args(ia), a[1])
def _pad_dense(a, ia):
    torch, _ = _imp()
    import torch.nn.functional as F
    kind, d = ia[0]
    pads = [(0, 0)] * (d - len(ia) + 1) + list(_pad_args(ia))
    x, v = a[0], a[1]
    if kind == 0:
        flat = []
        for p in reversed(pads): flat += [p[0], p[1]]
        return F.pad(x, flat, value=v)
    # operator: original block kept, value * identity on the leading and trailing corner blocks
    Ms, Ns = list(x.shape[:d]), list(x.shape[d:])
    out = torch.zeros([p[0] + m + p[1] for m, p in zip(Ms, pads)] + [p[0] + n + p[1] for n, p in zip(Ns, pads)], dtype=x.dtype)
    out[tuple(slice(p[0], p[0] + m) for m, p in zip(Ms, pads)) + tuple(slice(p[0], p[0] + n) for n, p in zip(Ns, pads))] = x
    import itertools
    for lead in itertools.product(*[range(p[0]) for p in pads]):
        out[tuple(lead) + tuple(lead)] = v
    for tr in itertools.product(*[range(p[1]) for p in pads]):
        out[tuple(p[0] + m + t for t, m, p in zip(tr, Ms, pads)) + tuple(p[0] + n + t for t, n, p in zip(tr, Ns, pads))] = v
    return out
def _mprod_impl(a, ia):
    modes = list(ia[0])
    if len(modes) == 1 and ia[1] == [0]:
        return a[0].mprod(a[1], modes[0])
    return a[0].mprod(list(a[1:]), modes)
def _mprod_dense(a, ia):
    torch, _ = _imp()
    x = a[0]
    for k, m in zip(ia[0], a[1:]):
        x = torch.movedim(torch.tensordot(m, x, dims=([1], [k])), 0, k)
    return x
def _diag_dense(a, ia):
    torch, _ = _imp()
    x = a[0]
    if ia[0][0] == 0:
        d = x.dim()
        out = torch.zeros(list(x.shape) + list(x.shape), dtype=x.dtype)
        import itertools
        for idx in itertools.product(*[range(n) for n in x.shape]):
            out[tuple(idx) + tuple(idx)] = x[tuple(idx)]
        return out
    d = ia[0][1]
    shp = [min(x.shape[k], x.shape[d + k]) for k in range(d)]
    out = torch.zeros(shp, dtype=x.dtype)
    import itertools
    for idx in itertools.product(*[range(n) for n in shp]):
        out[tuple(idx)] = x[tuple(idx) + tuple(idx)]
    return out
IMPL_OPS.update({
    "OCat": lambda a, ia: _imp()[1].cat(tuple(a), ia[0][0]),
    "OPad": _pad_impl, "OMprod": _mprod_impl,
    "ODiag": lambda a, ia: _imp()[1].diag(a[0]),
    "OToTTM": lambda a, ia: a[0].to_ttm(),
    "OConj": lambda a, ia: a[0].conj(),
    "OClone": lambda a, ia: a[0].clone(),
})
DENSE_OPS.update({
    "OCat": lambda a, ia: _imp()[0].cat(tuple(a), ia[0][0]),
    "OPad": _pad_dense, "OMprod": _mprod_dense, "ODiag": _diag_dense,
    "OToTTM": lambda a, ia: a[0].reshape(list(a[0].shape) + [1] * a[0].dim()),
    "OConj": lambda a, ia: a[0].conj().resolve_conj(),
    "OClone": lambda a, ia: a[0].clone(),
})

def _meshgrid_dense(a, ia):
    torch, _ = _imp()
    i = ia[0][0]
    shp = [int(v.shape[0]) for v in a]
    view = [1] * len(a); view[i] = shp[i]
    return a[i].reshape(view).expand(shp).clone()
def _rank1_dense(a, ia):
    torch, _ = _imp()
    dims = set(v.dim() for v in a)
    if dims not in ({1}, {2}): raise InvalidArgumentsDense("rank1TT of a list mixing vectors and matrices")
    out = a[0]
    for v in a[1:]: out = torch.tensordot(out, v, dims=0)
    if dims == {2}:                               # (m1,n1,m2,n2,..) -> (m1,m2,..,n1,n2,..)
        d = len(a); out = out.permute([2 * k for k in range(d)] + [2 * k + 1 for k in range(d)])
    return out
class InvalidArgumentsDense(Exception): pass
IMPL_OPS.update({"ORank1": lambda a, ia: _imp()[1].rank1TT(list(a)), "OMeshgrid": lambda a, ia: _imp()[1].meshgrid(list(a))[ia[0][0]]})
DENSE_OPS.update({"ORank1": _rank1_dense, "OMeshgrid": _meshgrid_dense})

# ---------------------------------------------------------------- C08: indexing
def _zopt(v):
    return "None" if v is None else "(Some (%d)%%Z)" % v
class Get:
    """x[index]; items: ('i', z) | ('s', a, b, step) | ('n',) | ('e',); tuple_=False for a bare int / slice / Ellipsis"""
    name = "EGet"
    def __init__(self, x, items, tuple_=True):
        self.x, self.items, self.tuple_ = x, list(items), tuple_
        self.args = [x]
    def pyindex(self):
        out = []
        for it in self.items:
            if it[0] == "i": out.append(int(it[1]))
            elif it[0] == "s": out.append(slice(it[1], it[2], it[3]))
            elif it[0] == "n": out.append(None)
            else: out.append(Ellipsis)
        return tuple(out) if self.tuple_ else out[0]
    def coq(self, car):
        its = []
        for it in self.items:
            if it[0] == "i": its.append("IInt (%d)%%Z" % it[1])
            elif it[0] == "s": its.append("ISlice %s %s %s" % (_zopt(it[1]), _zopt(it[2]), _zopt(it[3])))
            elif it[0] == "n": its.append("INone")
            else: its.append("IEll")
        return "EGet (%s) %s [%s]" % (self.x.coq(car), "true" if self.tuple_ else "false", ";".join(its))
    def implindex(self):
        """the same index with its integers in the type named by int_kind (numpy integers / 0-d integer tensors are integers for the dense array)"""
        kind = getattr(self, "int_kind", "int")
        if kind == "int": return self.pyindex()
        torch, _ = _imp()
        conv = {"numpy-int64": lambda v: np.int64(v), "numpy-int32": lambda v: np.int32(v), "tensor0d": lambda v: torch.tensor(int(v))}[kind]
        idx = self.pyindex()
        return tuple(conv(v) if isinstance(v, int) else v for v in idx) if self.tuple_ else (conv(idx) if isinstance(idx, int) else idx)
    def impl(self, env, dtype): return self.x.impl(env, dtype)[self.implindex()]
    def dense(self, env, dtype): return self.x.dense(env, dtype)[self.pyindex()]
    def desc(self): return {"get": self.x.desc(), "items": [list(map(str, it)) for it in self.items], "tuple": self.tuple_, "int_kind": getattr(self, "int_kind", "int")}
    def to_json(self): return {"get": self.x.to_json(), "items": [list(it) for it in self.items], "tuple": self.tuple_, "int_kind": getattr(self, "int_kind", "int")}

class Mask:
    name = "EMask"
    def __init__(self, x, rows):
        self.x, self.rows = x, [list(r) for r in rows]
        self.args = [x]
    def coq(self, car):
        # negative entries (counted from the end, as dense indexing does) are normalised for the model; the implementation gets them as they are
        shp = [c.shape[1] for c in self.x.cores] if hasattr(self.x, "cores") else None
        rows = [[(v + shp[k] if (v < 0 and shp is not None) else v) for k, v in enumerate(r)] for r in self.rows]
        return "EMask (%s) %s" % (self.x.coq(car), nnlist(rows))
    def impl(self, env, dtype):
        torch, _ = _imp()
        kind = getattr(self, "index_kind", "int64")
        if kind == "list": idx = [list(r) for r in self.rows]
        elif kind.startswith("numpy-"): idx = np.array(self.rows, dtype=getattr(np, kind[6:]))
        else: idx = torch.tensor(self.rows, dtype=getattr(torch, kind))
        return self.x.impl(env, dtype).apply_mask(idx)
    def dense(self, env, dtype):
        torch, _ = _imp()
        a = self.x.dense(env, dtype)
        return torch.stack([a[tuple(r)] for r in self.rows])          # dense indexing with a list of index rows: one entry per row
    def desc(self): return {"mask": self.x.desc(), "rows": len(self.rows), "index_kind": getattr(self, "index_kind", "int64")}
    def to_json(self): return {"mask": self.x.to_json(), "rows": self.rows, "index_kind": getattr(self, "index_kind", "int64")}
