"""./check <ID> --replay <file>: re-runs the recorded case on the implementation (and, for expression cases, on the dense
expression and the Coq model) and prints what each gives.  Exit 1 if the failure reproduces, 0 otherwise."""
import json, sys
import numpy as np

def expr_from_json(j):
    import expr
    if j is None: return expr.NoneE()
    if "lit3" in j or "lit4" in j:
        key = "lit3" if "lit3" in j else "lit4"
        cores = []
        for c, shp in zip(j[key], j["shapes"]):
            a = np.array(c)
            if a.ndim == len(shp) + 1: a = a[0] + 1j * a[1]
            cores.append(a.reshape(shp))
        return expr.Lit3(cores) if key == "lit3" else expr.Lit4(cores)
    if "dense" in j:
        a = np.array(j["dense"])
        if a.ndim == len(j["shape"]) + 1: a = a[0] + 1j * a[1]
        return expr.Dense(a.reshape(j["shape"]))
    if "scalar" in j:
        v = j["value"]
        try: val = int(v)
        except ValueError:
            try: val = float(v)
            except ValueError: val = complex(v)
        return expr.Scal(j["scalar"], val)
    if "get" in j: return expr.Get(expr_from_json(j["get"]), [tuple(it) for it in j["items"]], j.get("tuple", True))
    if "mask" in j: return expr.Mask(expr_from_json(j["mask"]), j["rows"])
    if "op" in j:
        e = expr.Op(j["op"], [expr_from_json(a) for a in j["args"]], j.get("ia", []))
        if j.get("int_index"): e.int_index = True
        if j.get("impl_modes") is not None: e.impl_modes = list(j["impl_modes"])
        return e
    raise ValueError("unknown expression node %r" % (list(j)[:3],))

def run(pid, path):
    d = json.load(open(path))
    r = d.get("replay", {})
    print("replay of %s: %s" % (d.get("property"), d.get("key")))
    print("failing input recorded: %s" % d.get("failing_input_found"))
    if not d.get("failing_input_found", True):
        print("no failing input was found when this was recorded; what no longer checks:")
        print(json.dumps({k: r[k] for k in list(r)[:6]}, indent=1, default=str)[:3000])
        return 1
    if "expr" in r and isinstance(r["expr"], dict):
        import torch, expr, exprcheck, coqrun
        e = expr_from_json(r["expr"])
        dtype = getattr(torch, r.get("dtype", "torch.float64").split(".")[-1])
        oi, fails = exprcheck.dense_equiv(e, dtype)
        print("implementation:", {k: v for k, v in expr.strip_raw(oi).items() if k != "dense"} , "dense head:", (oi.get("dense") or [])[:12])
        print("property failures now:", fails)
        car = {"Z": coqrun.Z, "ZI": coqrun.ZI, "Qc": coqrun.QC}.get(r.get("carrier", "Z"), coqrun.Z)
        print("model (observation by eval, then by the dense spec; truncated):", coqrun.eval_show(pid + "_replay", car.name, e.coq(car))[:700])
        return 1 if fails else 0
    if "walk_seed" in r:
        import torch, history
        dtype = getattr(torch, r["dtype"].split(".")[-1])
        torch.manual_seed(r["walk_seed"])
        w = history.run_walk(r["walk_seed"], max(30, len(r.get("history", []))), dtype)
        print("history:", w.log)
        print("failures now:", w.fails[:5])
        return 1 if w.fails else 0
    print(json.dumps(r, indent=1, default=str)[:4000])
    print("(this kind of case is re-run by the check itself with the recorded seed: VERIF_SEED=<seed> ./check %s)" % pid)
    return 1
