"""Random histories of public torchtt calls on a pool of objects (C05, C06).
After every call: every object in existence is checked for well-formedness, every object other than the target of a
documented in-place call is compared bit-for-bit with its snapshot, and the call is appended to the Coq history whose
final state (Model/Meta.v) is compared with the observed descriptors."""
import random, math
import numpy as np
import ttgen, coqrun

def _imp():
    import torch, torchtt
    return torch, torchtt

def Mof(o):
    return [int(v) for v in o.M] if o.is_ttm else []

def cshape_coq(shp):
    return ("C3 %d %d %d" % tuple(shp)) if len(shp) == 3 else ("C4 %d %d %d %d" % tuple(shp))
def shlist_coq(obj):
    return "[" + ";".join(cshape_coq(tuple(c.shape)) for c in obj.cores) + "]"

def wf_failures(o):
    """the property of C05 evaluated on a real object; returns a list of failure strings"""
    torch, torchtt = _imp()
    f = []
    try:
        cs = [tuple(int(v) for v in c.shape) for c in o.cores]
        if not cs: return ["no cores"]
        dims = set(len(c) for c in cs)
        if dims not in ({3}, {4}): f.append("cores are not all 3-d or all 4-d: %s" % cs)
        if cs[0][0] != 1 or cs[-1][-1] != 1: f.append("boundary ranks are not 1: %s" % cs)
        if any(cs[k][-1] != cs[k + 1][0] for k in range(len(cs) - 1)): f.append("neighbouring cores disagree on a rank: %s" % cs)
        ttm = dims == {4}
        if bool(o.is_ttm) != ttm: f.append("is_ttm=%s but cores are %s" % (o.is_ttm, cs))
        N = [c[2] if len(c) == 4 else c[1] for c in cs]; M = [c[1] for c in cs] if ttm else []
        R = [cs[0][0]] + [c[-1] for c in cs]
        if [int(v) for v in o.N] != N: f.append("N=%s but cores say %s" % (list(o.N), N))
        if ttm and Mof(o) != M: f.append("M=%s but cores say %s" % (list(o.M), M))
        if [int(v) for v in o.R] != R: f.append("R=%s but cores say %s" % (list(o.R), R))
        shp = [(m, n) for m, n in zip(M, N)] if ttm else N
        got = [tuple(int(a) for a in s) if isinstance(s, tuple) else int(s) for s in o.shape]
        if got != shp: f.append("shape=%s but cores say %s" % (o.shape, shp))
        if not f and int(np.prod(M + N)) <= 4096:
            fs = list(o.full().shape)
            if fs != M + N: f.append("full() has shape %s, expected %s" % (fs, M + N))
    except Exception as ex:
        f.append("inspection raised %s: %s" % (type(ex).__name__, str(ex)[:100]))
    return f

class Snap:
    def __init__(self, o):
        self.lid = id(o.cores); self.ids = [id(c) for c in o.cores]
        self.vers = [c._version for c in o.cores]; self.ptrs = [c.untyped_storage().data_ptr() for c in o.cores]
        self.data = [c.detach().clone() for c in o.cores]
        self.R, self.N, self.M = [int(v) for v in o.R], [int(v) for v in o.N], Mof(o)
        self.ttm = bool(o.is_ttm); self.shape = list(o.shape); self.dtype = o.cores[0].dtype
    def diff(self, o):
        torch, _ = _imp()
        d = []
        if id(o.cores) != self.lid: d.append("core list replaced")
        if len(o.cores) != len(self.data): return d + ["number of cores changed"]
        if [id(c) for c in o.cores] != self.ids: d.append("a core was rebound")
        if [c._version for c in o.cores] != self.vers: d.append("a core was written in place (version counter)")
        if any(c.shape != s.shape or c.dtype != s.dtype or not torch.equal(c.detach(), s) for c, s in zip(o.cores, self.data)): d.append("core values changed")
        if [int(v) for v in o.R] != self.R: d.append("R changed %s -> %s" % (self.R, list(o.R)))
        if [int(v) for v in o.N] != self.N or Mof(o) != self.M: d.append("N/M changed")
        if list(o.shape) != self.shape: d.append("shape attribute changed")
        if bool(o.is_ttm) != self.ttm: d.append("is_ttm changed")
        return d

def rand_tt(rng, dtype, ttm=False, d=None, N=None, M=None, rmax=3):
    torch, torchtt = _imp()
    d = d or (len(N) if N else rng.choice([1, 2, 2, 3, 3, 4]))
    N = N or [rng.choice([1, 2, 2, 3, 4]) for _ in range(d)]
    R = [1] + [rng.randint(1, rmax) for _ in range(d - 1)] + [1]
    if ttm:
        M = M or [rng.choice([1, 2, 3]) for _ in range(d)]
        cores = ttgen.rand_ttm_cores(rng, M, N, R)
    else:
        cores = ttgen.rand_tt_cores(rng, N, R)
    return torchtt.TT([torch.tensor(c, dtype=dtype) for c in cores])

class Walk:
    def __init__(self, rng, dtype):
        self.rng, self.dtype = rng, dtype
        self.pool, self.snaps, self.calls, self.log = [], [], [], []
        self.fails = []          # (kind, message, step)
        self.force_count = 0
        self.force = False       # scripted coverage walks: optional arguments (initial guesses) are always given when a candidate exists
    def add(self, o, call):
        self.pool.append(o); self.snaps.append(Snap(o)); self.calls.append(call)
    def pick(self, pred=lambda o: True):
        c = [i for i, o in enumerate(self.pool) if pred(o)]
        return self.rng.choice(c) if c else None
    def after(self, name, inplace_target=None):
        for i, (o, s) in enumerate(zip(self.pool, self.snaps)):
            for m in wf_failures(o):
                self.fails.append(("wf", "after %s: object %d: %s" % (name, i, m), len(self.log)))
            if i == inplace_target:
                self.snaps[i] = Snap(o); continue
            if i < len(self.snaps) - (0 if inplace_target is not None else 0):
                for m in s.diff(o):
                    self.fails.append(("intact", "after %s: object %d: %s" % (name, i, m), len(self.log)))

def size_ok(o):
    return int(np.prod([int(v) for v in o.N] + Mof(o))) <= 20000 and max(int(r) for r in o.R) <= 40

OPS = ["new", "new", "svd", "add", "sub", "mul", "kron", "matmul", "transpose", "scalar", "clone", "to_ttm", "round", "sum", "getitem",
       "permute", "reshape", "cat", "pad", "diag", "mprod", "set_core", "reduce_dims", "dmrg", "hadamard", "amen_mm", "amen_mv", "solve", "divide",
       "interp", "qtt", "dot", "norm", "factory", "saveload", "set_core_neg", "ctor_from_N", "ctor_from_N", "ctor_from_cores", "ctor_from_cores", "scribble", "scribble", "ctor_bad", "set_core_badrank", "iop", "set_core_rowonly", "set_core_colonly", "extreme_reads"]

def do_step(w, op):
    """performs one call; returns the log entry (name) or None when the op is not applicable"""
    torch, torchtt = _imp()
    rng, dt = w.rng, w.dtype
    P = w.pool
    if op == "new_family":
        # float64 objects that fit together (operator M x N, vectors on N and on M, operator N x K, a square operator with its vectors): the iterative
        # routines of the scripted walks then always find operands AND initial guesses
        d_ = rng.choice([2, 3]); N_ = [rng.choice([2, 3]) for _ in range(d_)]; M_ = [rng.choice([2, 3]) for _ in range(d_)]; K_ = [rng.choice([1, 2]) for _ in range(d_)]
        for o in (rand_tt(rng, torch.float64, ttm=True, N=N_, M=M_), rand_tt(rng, torch.float64, N=N_), rand_tt(rng, torch.float64, N=N_), rand_tt(rng, torch.float64, N=M_),
                  rand_tt(rng, torch.float64, ttm=True, N=K_, M=N_), rand_tt(rng, torch.float64, ttm=True, N=K_, M=M_),
                  rand_tt(rng, torch.float64, ttm=True, N=N_, M=N_) * 0.1 + torchtt.eye(N_, dtype=torch.float64) * 3.0):
            w.add(o, "KNew %s" % shlist_coq(o))
        return "new_family(%s)" % (N_,), None
    if op == "new":
        o = rand_tt(rng, dt, ttm=rng.random() < 0.35)
        w.add(o, "KNew %s" % shlist_coq(o)); return "TT(cores)", None
    if op == "svd":
        N = [rng.choice([1, 2, 3, 4]) for _ in range(rng.choice([1, 2, 3, 4]))]
        A = torch.tensor(np.array([rng.gauss(0, 1) for _ in range(int(np.prod(N)))]).reshape(N), dtype=dt)
        if rng.random() < 0.3 and len(N) % 2 == 0:
            h = len(N) // 2
            o = torchtt.TT(A, [(N[j], N[h + j]) for j in range(h)], eps=rng.choice([1e-10, 0.3]))
        else:
            o = torchtt.TT(A, eps=rng.choice([1e-10, 0.3, 0.6]), rmax=rng.choice([2, 100]))
        w.add(o, "KNew %s" % shlist_coq(o)); return "TT(dense)", None
    if op == "factory":
        N = [rng.choice([1, 2, 3]) for _ in range(rng.choice([1, 2, 3]))]
        k = rng.choice(["ones", "zeros", "eye", "randn", "random"])
        if k == "ones": o = torchtt.ones(N, dtype=dt)
        elif k == "zeros": o = torchtt.zeros(N, dtype=dt)
        elif k == "eye": o = torchtt.eye(N, dtype=dt)
        elif k == "randn": o = torchtt.randn(N, [1] + [2] * (len(N) - 1) + [1], dtype=dt)
        else: o = torchtt.random(N, 2, dtype=dt)
        w.add(o, "KNew %s" % shlist_coq(o)); return k, None
    if op in ("add", "sub", "mul"):
        i = w.pick(size_ok)
        if i is None: return None
        x = P[i]
        cands = [j for j, y in enumerate(P) if y.is_ttm == x.is_ttm and list(y.N) == list(x.N) and Mof(y) == Mof(x) and size_ok(y) and y.cores[0].dtype == x.cores[0].dtype]
        j = rng.choice(cands)
        if max(x.R) * max(P[j].R) > 30 and op == "mul": return None
        o = x + P[j] if op == "add" else (x - P[j] if op == "sub" else x * P[j])
        w.add(o, ("KMul %d %d" if op == "mul" else "KAdd %d %d") % (i, j)); return "%s(%d,%d)" % (op, i, j), None
    if op == "kron":
        i = w.pick(lambda o: len(o.N) <= 3); 
        if i is None: return None
        j = w.pick(lambda o: o.is_ttm == P[i].is_ttm and len(o.N) <= 3 and o.cores[0].dtype == P[i].cores[0].dtype)
        if j is None: return None
        form = rng.choice(["**", "**", "kron()", "x**None", "None**x", "kron(x,None)", "kron(None,x)"])
        if form in ("x**None", "None**x", "kron(x,None)", "kron(None,x)"):      # the accumulation idiom: the result is a new object holding copies of x's cores
            x = P[i]
            o = (x ** None) if form == "x**None" else ((None ** x) if form == "None**x" else (torchtt.kron(x, None) if form == "kron(x,None)" else torchtt.kron(None, x)))
            w.add(o, "KClone %d" % i); return "%s(%d)" % (form, i), None
        o = (P[i] ** P[j]) if form == "**" else torchtt.kron(P[i], P[j])
        w.add(o, "KKron %d %d" % (i, j)); return "kron(%d,%d)" % (i, j), None
    if op == "matmul":
        i = w.pick(lambda o: o.is_ttm and size_ok(o))
        if i is None: return None
        A = P[i]
        r = rng.random()
        cands = [j for j, y in enumerate(P) if size_ok(y) and y.cores[0].dtype == A.cores[0].dtype and max(y.R) * max(A.R) <= 30 and
                 ((not y.is_ttm and list(y.N) == list(A.N)) or (y.is_ttm and Mof(y) == list(A.N)))]
        if cands and r < 0.7:
            j = rng.choice(cands); o = A @ P[j]
            w.add(o, "KMatmul %d %d" % (i, j)); return "matmul(%d,%d)" % (i, j), None
        cands = [j for j, y in enumerate(P) if not y.is_ttm and y.cores[0].dtype == A.cores[0].dtype and list(y.N) == Mof(A) and max(y.R) * max(A.R) <= 30]
        if cands:
            j = rng.choice(cands); o = P[j] @ A
            w.add(o, "KMatmul %d %d" % (j, i)); return "vecmat(%d,%d)" % (j, i), None
        return None
    if op == "transpose":
        i = w.pick(lambda o: o.is_ttm)
        if i is None: return None
        w.add(P[i].t(), "KTranspose %d" % i); return "t(%d)" % i, None
    if op == "scalar":
        i = w.pick()
        if i is None: return None
        k = rng.choice(["*2", "2*", "-", "/2", "*0", "+", "0-", "-0", "+0", "0+", "1-", "/t0", "/t1", "*t0", "*t1", "+t0", "-t1", "/np", "*np"])
        x = P[i]
        if k in ("/t0", "/t1", "*t0", "*t1", "+t0", "-t1", "/np", "*np"):      # scalars given as 0-d / 1-element torch tensors and numpy scalars
            t0 = torch.tensor(2.0, dtype=x.cores[0].dtype); t1 = torch.tensor([2.0], dtype=x.cores[0].dtype); npv = np.float64(2.0)
            o = {"/t0": lambda: x / t0, "/t1": lambda: x / t1, "*t0": lambda: x * t0, "*t1": lambda: x * t1, "+t0": lambda: x + t0, "-t1": lambda: x - t1,
                 "/np": lambda: x / npv, "*np": lambda: x * npv}[k]()
            if k in ("+t0", "-t1"): w.add(o, "KNew %s" % shlist_coq(o))
            else: w.add(o, "KScalar %d" % i)
            return "scalar%s(%d)" % (k, i), None
        if k in ("0-", "-0", "+0", "0+", "1-"):
            o = (0 - x) if k == "0-" else ((x - 0) if k == "-0" else ((x + 0) if k == "+0" else ((0 + x) if k == "0+" else (1 - x))))
            w.add(o, "KNew %s" % shlist_coq(o)); return "scalar%s(%d)" % (k, i), None
        o = x * 2 if k == "*2" else (2.0 * x if k == "2*" else (-x if k == "-" else (x / 2.0 if k == "/2" else (x * 0 if k == "*0" else +x))))
        if k == "*0": w.add(o, "KNew %s" % shlist_coq(o))
        else: w.add(o, "KScalar %d" % i)
        return "scalar%s(%d)" % (k, i), None
    if op == "clone":
        i = w.pick()
        if i is None: return None
        x = P[i]
        kinds_ = ["clone", "detach", "to", "cpu", "conj"]
        if w.force: kinds_ = kinds_[w.force_count % 5:] + kinds_[:w.force_count % 5]; w.force_count += 1        # scripted walks: every kind in turn (the LAST object added is the one the aliasing probe edits)
        k = kinds_[0] if w.force else rng.choice(kinds_)
        o = x.clone() if k == "clone" else (x.detach() if k == "detach" else (x.to(dtype=torch.float32 if dt == torch.float64 else torch.float64) if k == "to" else (x.cpu() if k == "cpu" else x.conj())))
        w.add(o, "KClone %d" % i); return "%s(%d)" % (k, i), None
    if op == "to_ttm":
        i = w.pick(lambda o: not o.is_ttm)
        if i is None: return None
        w.add(P[i].to_ttm(), "KToTTM %d" % i); return "to_ttm(%d)" % i, None
    if op == "round":
        i = w.pick(size_ok)
        if i is None: return None
        o = P[i].round(rng.choice([1e-12, 1e-3, 0.3, 0.7]), rng.choice([1, 2, 100]))
        w.add(o, "KRerank %d %s" % (i, coqrun.nlist([int(r) for r in o.R[1:-1]]))); return "round(%d)" % i, None
    if op == "sum":
        i = w.pick(lambda o: len(o.N) >= 2)
        if i is None: return None
        idx = sorted(rng.sample(range(len(P[i].N)), rng.randint(1, len(P[i].N) - 1)))
        o = P[i].sum(idx)
        w.add(o, "KNew %s" % shlist_coq(o)); return "sum(%d,%s)" % (i, idx), None
    if op == "getitem":
        i = w.pick(lambda o: not o.is_ttm and any(n > 1 for n in o.N))
        if i is None: return None
        x = P[i]
        idx = tuple((rng.randrange(n) if rng.random() < 0.4 else slice(rng.randrange(n), None, rng.choice([None, 2]))) for n in x.N)
        if all(isinstance(t, int) for t in idx): idx = idx[:-1] + (slice(None),)
        o = x[idx]
        w.add(o, "KNew %s" % shlist_coq(o)); return "getitem(%d)" % i, None
    if op == "permute":
        i = w.pick(lambda o: 2 <= len(o.N) <= 4 and size_ok(o))
        if i is None: return None
        p = list(range(len(P[i].N))); rng.shuffle(p)
        o = torchtt.permute(P[i], p, 1e-10)
        w.add(o, "KNew %s" % shlist_coq(o)); return "permute(%d,%s)" % (i, p), None
    if op == "reshape":
        i = w.pick(lambda o: not o.is_ttm and size_ok(o) and len(o.N) >= 2)
        if i is None: return None
        N = [int(n) for n in P[i].N]
        k = rng.randrange(len(N) - 1)
        shp = N[:k] + [N[k] * N[k + 1]] + N[k + 2:]
        if rng.random() < 0.4: shp = shp + [1]
        o = torchtt.reshape(P[i], shp)
        w.add(o, "KNew %s" % shlist_coq(o)); return "reshape(%d,%s)" % (i, shp), None
    if op == "cat":
        i = w.pick(lambda o: not o.is_ttm)
        if i is None: return None
        x = P[i]; dim = rng.randrange(len(x.N))
        cands = [j for j, y in enumerate(P) if not y.is_ttm and y.cores[0].dtype == x.cores[0].dtype and len(y.N) == len(x.N) and all(a == b or k == dim for k, (a, b) in enumerate(zip(x.N, y.N)))]
        j = rng.choice(cands)
        o = torchtt.cat((x, P[j]), dim)
        w.add(o, "KNew %s" % shlist_coq(o)); return "cat(%d,%d,%d)" % (i, j, dim), None
    if op == "pad":
        i = w.pick(size_ok)
        if i is None: return None
        x = P[i]
        pd = tuple((rng.choice([0, 1]), rng.choice([0, 1, 2])) for _ in range(rng.randint(1, len(x.N))))
        o = torchtt.pad(x, pd, rng.choice([0.0, 2.0]))
        w.add(o, "KNew %s" % shlist_coq(o)); return "pad(%d)" % i, None
    if op == "diag":
        i = w.pick(size_ok)
        if i is None: return None
        o = torchtt.diag(P[i])
        w.add(o, "KNew %s" % shlist_coq(o)); return "diag(%d)" % i, None
    if op == "mprod":
        i = w.pick(lambda o: not o.is_ttm)
        if i is None: return None
        x = P[i]; k = rng.randrange(len(x.N))
        Mx = torch.tensor(ttgen.rand_core(rng, (rng.choice([1, 2, 3]), int(x.N[k]))), dtype=x.cores[0].dtype)
        o = x.mprod(Mx, k)
        w.add(o, "KNew %s" % shlist_coq(o)); return "mprod(%d,%d)" % (i, k), None
    if op == "set_core":
        i = w.pick()
        if i is None: return None
        x = P[i]; k = rng.randrange(len(x.N))
        shp = list(x.cores[k].shape)
        if rng.random() < 0.5:                # half of the replacements keep the shape of the core (objects that are views of the old core - t(), slices, to_ttm, detach - must not move)
            shp[1] = rng.choice([1, 2, 3, 5])
            if x.is_ttm: shp[2] = rng.choice([1, 2, 3])
        x.set_core(k, torch.tensor(ttgen.rand_core(rng, tuple(shp)), dtype=x.cores[0].dtype))
        w.calls.append("KSetCore %d %d (%s)" % (i, k, cshape_coq(tuple(shp)))); return "set_core(%d,%d)" % (i, k), i
    if op in ("set_core_rowonly", "set_core_colonly"):
        # operators: a replacement core that changes ONLY the row size (or only the column size) - every attribute derived from the cores must follow
        i = w.pick(lambda o: o.is_ttm)
        if i is None: return None
        x = P[i]; k = rng.randrange(len(x.N))
        shp = list(x.cores[k].shape); ax = 1 if op == "set_core_rowonly" else 2
        shp[ax] = shp[ax] + rng.choice([1, 2])
        x.set_core(k, torch.tensor(ttgen.rand_core(rng, tuple(shp)), dtype=x.cores[0].dtype))
        w.calls.append("KSetCore %d %d (%s)" % (i, k, cshape_coq(tuple(shp)))); return "%s(%d,%d)" % (op, i, k), i
    if op == "set_core_neg":
        # a negative core index is not a valid argument (InvalidArguments); if it is accepted the object must still be well formed
        i = w.pick()
        if i is None: return None
        x = P[i]; d = len(x.N); k = -rng.randint(1, d)
        R = [int(r) for r in x.R]
        shp = [R[k], rng.choice([1, 2, 3])] + ([rng.choice([1, 2])] if x.is_ttm else []) + [R[k + 1]]     # ranks read the way a careless guard would
        try:
            x.set_core(k, torch.tensor(ttgen.rand_core(rng, tuple(shp)), dtype=x.cores[0].dtype))
        except Exception:
            return "set_core_neg(%d,%d) [rejected]" % (i, k), None
        return "set_core_neg(%d,%d) [accepted]" % (i, k), i
    if op == "set_core_badrank":
        # a replacement core with exactly ONE rank that does not fit its neighbours (or a boundary rank that is not 1): rejected, or - if accepted - the object must still be well formed
        i = w.pick()
        if i is None: return None
        x = P[i]; d = len(x.N); k = rng.randrange(d)
        R = [int(r) for r in x.R]; side = rng.choice([0, 1])
        r0_, r1_ = R[k] + (1 if side == 0 else 0), R[k + 1] + (1 if side == 1 else 0)
        shp = [r0_] + list(x.cores[k].shape[1:-1]) + [r1_]
        try:
            x.set_core(k, torch.tensor(ttgen.rand_core(rng, tuple(shp)), dtype=x.cores[0].dtype))
        except Exception:
            return "set_core_badrank(%d,%d) [rejected]" % (i, k), None
        return "set_core_badrank(%d,%d,side=%d) [accepted]" % (i, k, side), i
    if op == "iop":
        # augmented assignment with a scalar (x *= a, x /= a, x += a, x -= a): python rebinds the name to a NEW object unless the class defines the in-place
        # method; either way every OTHER object (views of x taken before) keeps its value
        i = w.pick(lambda o: size_ok(o))
        if i is None: return None
        y = P[i]; a_ = rng.choice([2.0, -0.5, 3]); sym = rng.choice(["*=", "/=", "*=", "+=", "-="])
        if sym == "*=": y *= a_
        elif sym == "/=": y /= a_
        elif sym == "+=": y += a_
        else: y -= a_
        if y is not P[i]: w.add(y, "KNew %s" % shlist_coq(y))          # the name was rebound to a new object: object i itself is unchanged
        return "y = obj%d; y %s %r" % (i, sym, a_), None               # (an in-place method would leave y is obj_i: the frame check then shows what moved)
    if op == "ctor_from_cores":
        # a new object built from the core list of an existing one (TT(x.cores), the documented constructor from cores): the two objects must not
        # share the list - the aliasing probe of run_walk then calls set_core on the new one and the frame check shows whether the old one moves
        i = w.pick(lambda o: size_ok(o))
        if i is None: return None
        o = torchtt.TT(P[i].cores)
        w.add(o, "KNew %s" % shlist_coq(o))
        return "TT(cores of %d)" % i, None
    if op == "ctor_from_N":
        # a new object built from the dense value and the N list of an existing one: the two must not share their mode-size lists
        i = w.pick(lambda o: not o.is_ttm and size_ok(o) and int(np.prod(o.N)) <= 4096)
        if i is None: return None
        x = P[i]
        lst = list(x.N)
        o = torchtt.TT(x.full(), lst, eps=1e-12)
        w.add(o, "KNew %s" % shlist_coq(o))
        lst[rng.randrange(len(lst))] = 97          # the list handed IN is the caller's too: editing it afterwards must not reach the object
        return "TT(full(%d), N of %d)" % (i, i), None
    if op == "ctor_bad":
        # malformed core lists (mixed 3-d / 4-d cores, broken chaining, boundary rank != 1) through TT(), rank1TT and random(): each must raise;
        # whatever is returned instead joins the pool and is held to the same well-formedness as every other object
        mk = lambda shp: torch.ones(shp, dtype=dt)
        kinds = ["mixed", "mixed-rank1", "mixed-random", "chain", "boundary", "boundary-last", "boundary-last-ttm", "sub-train"]
        out = []
        for kind in (kinds if w.force else [rng.choice(kinds)]):       # scripted coverage walks try every kind
            try:
                if kind == "mixed": o = torchtt.TT([mk((1, 2, 2)), mk((2, 3, 2, 2)), mk((2, 2, 1))])
                elif kind == "mixed-rank1": o = torchtt.rank1TT([mk((3,)), mk((2, 2)), mk((2,))])
                elif kind == "mixed-random": o = torchtt.random([4, (2, 3), 2], [1, 2, 2, 1], dtype=dt)
                elif kind == "chain": o = torchtt.TT([mk((1, 2, 2)), mk((3, 2, 1))])
                elif kind == "boundary-last": o = torchtt.TT([mk((1, 2, 2)), mk((2, 2, 2))])
                elif kind == "boundary-last-ttm": o = torchtt.TT([mk((1, 2, 3, 2)), mk((2, 2, 2, 3))])
                elif kind == "sub-train":            # the leading cores of a well-formed object whose next rank is not 1
                    src_ = rand_tt(rng, dt, d=3, N=[2, 3, 2]); src_ = src_ + src_
                    o = torchtt.TT(src_.cores[:2])
                else: o = torchtt.TT([mk((2, 2, 2)), mk((2, 2, 1))])
            except Exception:
                out.append("%s raised" % kind); continue
            w.add(o, "KNew %s" % shlist_coq(o)); out.append("%s RETURNED an object" % kind)
        return "ctor_bad(%s)" % ", ".join(out), None
    if op == "extreme_reads":
        # read-only calls on objects with finite entries of extreme magnitude (squares overflow / underflow) and on one-core objects: the cores afterwards are
        # bit for bit the cores before (self-contained: these objects do not join the pool)
        real = dt.to_real() if hasattr(dt, "to_real") else dt
        big, tiny = (1e30, 1e-30) if real == torch.float32 else (1e200, 1e-200)
        bad = []
        for kind in (["one core, huge", "one operator core, huge", "huge then tiny", "tiny", "one core, ordinary"] if w.force else [rng.choice(["one core, huge", "one operator core, huge", "huge then tiny", "tiny", "one core, ordinary"])]):
            if kind.startswith("one core"): shp = [(1, rng.choice([2, 3, 4]), 1)]
            elif kind.startswith("one operator"): shp = [(1, 2, rng.choice([2, 3]), 1)]
            else: shp = [(1, 2, 2), (2, 3, 1)]
            cs = [torch.tensor(ttgen.rand_core(rng, sh_, dt.is_complex, lo=1, hi=3, density=1.0), dtype=dt) for sh_ in shp]
            if "huge" in kind: cs[0] = cs[0] * big
            if kind == "huge then tiny": cs[1] = cs[1] * tiny
            if kind == "tiny": cs = [c * tiny for c in cs]
            x = torchtt.TT(cs); keep = [c.clone() for c in x.cores]
            for rd, f in (("norm()", lambda: x.norm()), ("norm(squared)", lambda: x.norm(True)), ("sum()", lambda: x.sum()), ("full()", lambda: x.full()), ("round()", lambda: x.round(1e-10)),
                          ("x + x", lambda: x + x), ("x * 2", lambda: x * 2), ("x / 2", lambda: x / 2.0), ("-x", lambda: -x), ("clone()", lambda: x.clone())) + (() if x.is_ttm else (("dot(x, x)", lambda: torchtt.dot(x, x)),)):
                try: f()
                except Exception: pass
                if len(x.cores) != len(keep) or any(a.shape != b.shape or not torch.equal(a, b) for a, b in zip(x.cores, keep)):
                    bad.append("%s on an object with %s entries changes its cores" % (rd, kind)); break
        for m in bad: w.fails.append(("intact", m, len(w.log)))
        return "extreme_reads", None
    if op == "scribble":
        # the lists handed out by N / M / R / shape are the caller's: writing into them must not reach the object
        i = w.pick()
        if i is None: return None
        x = P[i]
        for name in ("N", "R") + (("M",) if x.is_ttm else ()):      # `shape` is a plain attribute, not an accessor: writing to it is the caller overwriting a field
            try:
                l = getattr(x, name)
                if isinstance(l, list) and l:
                    l[rng.randrange(len(l))] = 97
            except Exception:
                pass
        return "scribble(%d)" % i, None
    if op == "reduce_dims":
        i = w.pick(lambda o: any(n > 1 for n in o.N))
        if i is None: return None
        x = P[i]
        excl = [k for k in range(len(x.N)) if rng.random() < 0.3]
        x.reduce_dims(excl)
        w.calls.append("KReduce %d %s" % (i, coqrun.nlist(excl))); return "reduce_dims(%d,%s)" % (i, excl), i
    # ---- iterative routines, with initial guesses taken from the pool when a compatible object exists
    if op in ("dmrg", "amen_mv"):
        i = w.pick(lambda o: o.is_ttm and size_ok(o) and o.cores[0].dtype == torch.float64 and len(o.N) >= 2)
        if i is None: return None
        A = P[i]
        cx = [j for j, y in enumerate(P) if not y.is_ttm and list(y.N) == list(A.N) and y.cores[0].dtype == torch.float64]
        if not cx: return None
        j = rng.choice(cx)
        cg = [g for g, y in enumerate(P) if not y.is_ttm and list(y.N) == Mof(A) and y.cores[0].dtype == torch.float64]
        g = rng.choice(cg) if cg and (w.force or rng.random() < 0.7) else None
        if op == "dmrg": o = A.fast_matvec(P[j], initial=P[g] if g is not None else None, nswp=4, eps=1e-8)
        else: o = torchtt.amen_mv(A, P[j], nswp=4, x0=P[g] if g is not None else None, eps=1e-8)
        w.add(o, "KNew %s" % shlist_coq(o))
        if w.force or rng.random() < 0.3:            # once more with the product just found as the guess (an exact guess: the result is still an object of its own)
            o2 = A.fast_matvec(P[j], initial=o, nswp=4, eps=1e-8) if op == "dmrg" else torchtt.amen_mv(A, P[j], nswp=4, x0=o, eps=1e-8)
            w.add(o2, "KNew %s" % shlist_coq(o2)); return "%s(%d,%d,guess=%s) and again with the result as guess" % (op, i, j, g), None
        return "%s(%d,%d,guess=%s)" % (op, i, j, g), None
    if op == "hadamard":
        i = w.pick(lambda o: not o.is_ttm and size_ok(o) and o.cores[0].dtype == torch.float64 and len(o.N) >= 2)
        if i is None: return None
        x = P[i]
        c = [j for j, y in enumerate(P) if not y.is_ttm and list(y.N) == list(x.N) and y.cores[0].dtype == torch.float64]
        j, g = rng.choice(c), (rng.choice(c) if (w.force or rng.random() < 0.7) else None)
        o = torchtt.dmrg_hadamard(x, P[j], P[g] if g is not None else None, nswp=4, eps=1e-8)
        w.add(o, "KNew %s" % shlist_coq(o))
        if w.force or rng.random() < 0.3:
            o2 = torchtt.dmrg_hadamard(x, P[j], o, nswp=4, eps=1e-8)
            w.add(o2, "KNew %s" % shlist_coq(o2)); return "hadamard(%d,%d,guess=%s) and again with the result as guess" % (i, j, g), None
        return "hadamard(%d,%d,guess=%s)" % (i, j, g), None
    if op == "amen_mm":
        i = w.pick(lambda o: o.is_ttm and size_ok(o) and o.cores[0].dtype == torch.float64 and len(o.N) >= 2)
        if i is None: return None
        A = P[i]
        c = [j for j, y in enumerate(P) if y.is_ttm and Mof(y) == list(A.N) and y.cores[0].dtype == torch.float64]
        if not c: return None
        j = rng.choice(c)
        cg = [g for g, y in enumerate(P) if y.is_ttm and Mof(y) == Mof(A) and list(y.N) == list(P[j].N) and y.cores[0].dtype == torch.float64]
        g = rng.choice(cg) if cg and (w.force or rng.random() < 0.7) else None
        o = torchtt.amen_mm(A, P[j], nswp=4, X0=P[g] if g is not None else None, eps=1e-8)
        w.add(o, "KNew %s" % shlist_coq(o))
        if w.force or rng.random() < 0.3:
            o2 = torchtt.amen_mm(A, P[j], nswp=4, X0=o, eps=1e-8)
            w.add(o2, "KNew %s" % shlist_coq(o2)); return "amen_mm(%d,%d,guess=%s) and again with the result as guess" % (i, j, g), None
        return "amen_mm(%d,%d,guess=%s)" % (i, j, g), None
    if op == "solve":
        i = w.pick(lambda o: not o.is_ttm and o.cores[0].dtype == torch.float64 and 2 <= len(o.N) <= 3 and all(n >= 2 for n in o.N) and size_ok(o))
        if i is None: return None
        b = P[i]
        A = torchtt.eye([int(n) for n in b.N], dtype=torch.float64) * 3.0 + torchtt.TT([torch.tensor(c, dtype=torch.float64) * 0.1 for c in ttgen.rand_ttm_cores(rng, [int(n) for n in b.N], [int(n) for n in b.N], [1] + [2] * (len(b.N) - 1) + [1])])
        w.add(A, "KNew %s" % shlist_coq(A))
        cg = [g for g, y in enumerate(P) if not y.is_ttm and list(y.N) == list(b.N) and y.cores[0].dtype == torch.float64]
        g = rng.choice(cg) if (w.force or rng.random() < 0.7) else None
        o = torchtt.solvers.amen_solve(A, b, x0=P[g] if g is not None else None, nswp=6, eps=1e-6, verbose=False, use_cpp=False)
        w.add(o, "KNew %s" % shlist_coq(o))
        if w.force or rng.random() < 0.3:            # once more, the guess being the solution just found (nothing left to do: the result must still be an object of its own)
            o2 = torchtt.solvers.amen_solve(A, b, x0=o, nswp=6, eps=1e-6, verbose=False, use_cpp=False)
            w.add(o2, "KNew %s" % shlist_coq(o2)); return "amen_solve(b=%d,guess=%s) and again with the solution as guess" % (i, g), None
        return "amen_solve(b=%d,guess=%s)" % (i, g), None
    if op == "divide":
        i = w.pick(lambda o: not o.is_ttm and o.cores[0].dtype == torch.float64 and len(o.N) >= 2 and size_ok(o) and max(o.R) <= 3)
        if i is None: return None
        x = P[i]
        y = x * x + 1.0
        w.add(y, "KNew %s" % shlist_coq(y))
        c = [j for j, z in enumerate(P) if not z.is_ttm and list(z.N) == list(x.N) and z.cores[0].dtype == torch.float64]
        g = rng.choice(c) if rng.random() < 0.6 else None
        o = torchtt.elementwise_divide(x, y, nswp=4, starting_tensor=P[g] if g is not None else None, eps=1e-6)
        w.add(o, "KNew %s" % shlist_coq(o))
        if g is not None and (w.force or rng.random() < 0.3):      # no sweep at all: what comes back is the guess, as an object of its own, and the guess is not written to
            o0 = torchtt.elementwise_divide(x, y, nswp=0, starting_tensor=P[g], eps=1e-6)
            w.add(o0, "KNew %s" % shlist_coq(o0))
        if w.force or rng.random() < 0.3:
            o2 = torchtt.elementwise_divide(x, y, nswp=4, starting_tensor=o, eps=1e-6)
            w.add(o2, "KNew %s" % shlist_coq(o2)); return "divide(%d,guess=%s) and again with the quotient as guess" % (i, g), None
        return "divide(%d,guess=%s)" % (i, g), None
    if op == "interp":
        i = w.pick(lambda o: not o.is_ttm and o.cores[0].dtype == torch.float64 and len(o.N) >= 2 and all(n >= 2 for n in o.N) and size_ok(o))
        if i is None: return None
        x = P[i]
        c = [j for j, z in enumerate(P) if not z.is_ttm and list(z.N) == list(x.N) and z.cores[0].dtype == torch.float64]
        g = rng.choice(c) if rng.random() < 0.6 else None
        o = torchtt.interpolate.function_interpolate(lambda v: v * 2.0 + 1.0, x, eps=1e-6, start_tens=P[g] if g is not None else None, nswp=3)
        w.add(o, "KNew %s" % shlist_coq(o)); return "function_interpolate(%d,guess=%s)" % (i, g), None
    if op == "qtt":
        i = w.pick(lambda o: not o.is_ttm and all(n in (4, 2) for n in o.N) and size_ok(o))
        if i is None: return None
        o = P[i].to_qtt()
        w.add(o, "KNew %s" % shlist_coq(o)); return "to_qtt(%d)" % i, None
    if op in ("dot", "norm"):
        i = w.pick(lambda o: not o.is_ttm and size_ok(o))
        if i is None: return None
        if op == "norm": P[i].norm()
        else:
            c = [j for j, y in enumerate(P) if not y.is_ttm and list(y.N) == list(P[i].N) and y.cores[0].dtype == P[i].cores[0].dtype]
            torchtt.dot(P[i], P[rng.choice(c)])
        return "%s(%d)" % (op, i), None
    if op == "saveload":
        import tempfile, os
        i = w.pick()
        if i is None: return None
        with tempfile.TemporaryDirectory() as td:
            f = os.path.join(td, "x.TT")
            torchtt.save(P[i], f); o = torchtt.load(f)
        w.add(o, "KClone %d" % i); return "save/load(%d)" % i, None
    return None

def coverage_script():
    """a fixed schedule in which every operation of the walks occurs (twice), after enough constructions for tensors and operators to exist: run in every
    check run, whatever the seed, so that no operation is left to the luck of the draw"""
    ops = []
    for o in OPS:
        if o not in ops: ops.append(o)
    return ["new"] * 6 + ["new_family"] + ops + ["clone"] * 3 + ["new"] * 2 + ["new_family"] + list(reversed(ops))      # clone x 5 in all: clone, detach, to, cpu, conj

def run_walk(seed, length, dtype, script=None):
    """returns (Walk, error or None)"""
    rng = random.Random(seed)
    w = Walk(rng, dtype)
    if script is not None: length = len(script); w.force = True
    for step in range(length):
        op = script[step] if script is not None else ("new" if step < 2 else rng.choice(OPS))
        try:
            res = do_step(w, op)
        except Exception as ex:
            w.fails.append(("raise", "%s raised %s: %s" % (op, type(ex).__name__, str(ex)[:160]), len(w.log)))
            res = ("%s [raised]" % op, None)
        if res is None: continue
        name, target = res
        n_before = len(w.snaps) if target is not None else None
        w.log.append(name)
        w.after(name, target)
        # a NEW result that is an existing object, or that holds an existing object's core list, is one documented in-place call away from altering
        # that object: make the call (set_core on the new result, same shape) so that the ordinary frame check sees whether anything else moves
        if target is None and w.pool:
            j = len(w.pool) - 1; o = w.pool[j]
            copy_like = name.split("(")[0] in ("clone", "detach", "to", "cpu", "conj", "save/load")      # copies are probed always: shared bookkeeping (N / M / R lists) does not show in `is`
            if (copy_like or any(o is p_ or o.cores is p_.cores for p_ in w.pool[:j])) and not name.startswith("scribble"):
                try:
                    torch, _ = _imp()
                    c0 = o.cores[0].detach()
                    shp0 = list(c0.shape); shp0[-2] += 1                      # another mode size: a stale N / shape of the aliased object shows as ill-formedness too
                    o.set_core(0, torch.ones(shp0, dtype=c0.dtype))
                    w.calls.append("KSetCore %d 0 (%s)" % (j, cshape_coq(tuple(o.cores[0].shape))))
                    w.log.append("set_core(%d,0) [aliasing probe]" % j)
                    w.after("set_core(%d,0) [aliasing probe after %s]" % (j, name), j)
                except Exception:
                    pass
    return w

def encode_obj(o):
    N, M, R = [int(v) for v in o.N], Mof(o), [int(v) for v in o.R]
    e = [1 if o.is_ttm else 0, len(N)] + N + (M if o.is_ttm else []) + R
    if o.is_ttm: e += [1] + [v for s in o.shape for v in (int(s[0]), int(s[1]))]
    else: e += [0] + [int(s) for s in o.shape]
    for c in o.cores:
        e += [len(c.shape)] + [int(v) for v in c.shape]
    return e

def decode_state(flat):
    out, k = [], 0
    while k < len(flat):
        n = flat[k]; out.append(flat[k + 1:k + 1 + n]); k += 1 + n
    return out
