"""Shared machinery of the checks: paths, Coq build, evidence, known findings, verdicts."""
import os, sys, json, time, subprocess, hashlib, re, random, fcntl, shutil

VERIF = os.path.dirname(os.path.dirname(os.path.abspath(__file__)))
REPO = os.environ.get("VERIF_REPO", "/repo")
COQ = os.path.join(VERIF, "coq")
BUILD = os.path.join(VERIF, "build")
EVID = os.path.join(VERIF, "evidence")
REPLAYS = os.path.join(VERIF, "evidence", "replays")
NPROC = int(os.environ.get("VERIF_JOBS", "16"))
COQFLAGS = ["-Q", "Base", "TT", "-Q", "Model", "TT", "-Q", "Proofs", "TT", "-Q", "Properties", "TT"]

ALLOWED_AXIOMS = set()   # every theorem is expected to be "Closed under the global context"

FORBIDDEN = re.compile(r"\b(Admitted|admit|Axiom|Parameter|Conjecture|Admit Obligations)\b|Unset Guard|bypass_check|-type-in-type|-impredicative-set|Unset Universe Checking|Unset Positivity")


def seed_and_tier(argv_tier=None):
    seed = int(os.environ.get("VERIF_SEED", "20260926"))
    tier = argv_tier or os.environ.get("VERIF_TIER", "quick")
    return seed, tier


class Lock:
    def __init__(self, name):
        os.makedirs(BUILD, exist_ok=True)
        self.path = os.path.join(BUILD, name + ".lock")
    def __enter__(self):
        self.f = open(self.path, "w")
        fcntl.flock(self.f, fcntl.LOCK_EX)
        return self
    def __exit__(self, *a):
        fcntl.flock(self.f, fcntl.LOCK_UN)
        self.f.close()


def run(cmd, cwd=None, timeout=1800, env=None):
    p = subprocess.run(cmd, cwd=cwd, stdout=subprocess.PIPE, stderr=subprocess.STDOUT, timeout=timeout, env=env, text=True)
    return p.returncode, p.stdout


def coq_make():
    """Full .vo build of the development (incremental). Returns (ok, log)."""
    with Lock("coqmake"):
        if not os.path.exists(os.path.join(COQ, "Makefile")):
            rc, out = run(["coq_makefile", "-f", "_CoqProject", "-o", "Makefile"], cwd=COQ)
            if rc != 0:
                return False, out
        rc, out = run(["timeout", "1500", "make", "-j%d" % NPROC], cwd=COQ, timeout=1600)
        return rc == 0, out


def grep_forbidden():
    bad = []
    for root, _, files in os.walk(COQ):
        for f in files:
            if f.endswith(".v"):
                p = os.path.join(root, f)
                for ln, line in enumerate(open(p), 1):
                    code = re.sub(r"\(\*.*?\*\)", "", line)
                    if FORBIDDEN.search(code):
                        bad.append("%s:%d: %s" % (os.path.relpath(p, VERIF), ln, line.strip()))
    return bad


def property_obligations(pid):
    """Compile Properties/<pid>.v on its own, return list of (theorem, ok, assumptions-text)."""
    src = os.path.join(COQ, "Properties", pid + ".v")
    text = open(src).read()
    thms = re.findall(r"^\s*(?:Theorem|Lemma)\s+([A-Za-z0-9_']+)", text, flags=re.M)
    with Lock("coqmake"):
        rc, out = run(["timeout", "600", "coqc"] + COQFLAGS + ["Properties/%s.v" % pid], cwd=COQ, timeout=700)
    res = []
    # Print Assumptions output: either "Closed under the global context" or "Axioms:\n ..." per theorem, in order
    blocks = re.split(r"(?=Closed under the global context|Axioms:|Section Variables:)", out)
    blocks = [b for b in blocks if b.startswith(("Closed", "Axioms", "Section"))]
    for i, t in enumerate(thms):
        if rc != 0:
            res.append((t, False, "coqc failed: " + out[-400:]))
        elif i < len(blocks):
            b = blocks[i].strip()
            ok = b.startswith("Closed under the global context")
            if not ok:
                axs = set(re.findall(r"^([A-Za-z0-9_.']+)\s*:", b, flags=re.M))
                ok = axs <= ALLOWED_AXIOMS
            res.append((t, ok, b[:300]))
        else:
            res.append((t, False, "no Print Assumptions output for this theorem"))
    return rc == 0, res, out


def sha(obj):
    return hashlib.sha256(json.dumps(obj, sort_keys=True, default=str).encode()).hexdigest()[:12]


def load_known():
    p = os.path.join(VERIF, "known_findings.json")
    if not os.path.exists(p):
        return {"findings": [], "fixed": []}
    return json.load(open(p))


class Verdict:
    """Collects failures of one check run; prints KNOWN-FINDING / VIOLATION lines; writes replays."""
    def __init__(self, pid):
        self.pid = pid
        self.known = {f["key"]: f for f in load_known().get("findings", []) if f["property"] == pid}
        self.violations = []        # (key, replay dict, has_failing_input)
        self.known_hit = {}
        self.known_examples = {}

    def fail(self, key, replay, failing_input=True):
        if key in self.known:
            self.known_hit[key] = self.known_hit.get(key, 0) + 1
            self.known_examples.setdefault(key, replay)
        else:
            self.violations.append((key, replay, failing_input))

    def finish(self):
        os.makedirs(REPLAYS, exist_ok=True)
        for key, f in self.known.items():
            if key in self.known_hit:
                print("KNOWN-FINDING: property=%s %s [%s; reproduced on %d case(s)]" % (self.pid, f["what"], key, self.known_hit[key]))
            else:
                print("NOTE: property=%s listed finding '%s' was not reproduced in this run" % (self.pid, key))
        seen = set()
        n = 0
        for key, replay, fi in self.violations:
            if key in seen:
                continue
            seen.add(key)
            path = os.path.join(REPLAYS, "%s-%s.json" % (self.pid, sha([key, replay])))
            json.dump({"property": self.pid, "key": key, "failing_input_found": fi, "replay": replay}, open(path, "w"), indent=1, default=str)
            print("VIOLATION property=%s replay=%s%s" % (self.pid, path, "" if fi else " no-failing-input-found"))
            n += 1
        return n


def write_evidence(pid, tier, seed, coverage, wall, violations, assumptions, extra=None):
    os.makedirs(EVID, exist_ok=True)
    ev = {"property_id": pid, "tier": tier, "seed": seed, "level": "proof", "coverage": coverage,
          "assumptions": assumptions, "wall_s": round(wall, 2), "violations": violations}
    if extra:
        ev.update(extra)
    json.dump(ev, open(os.path.join(EVID, pid + ".json"), "w"), indent=1, default=str)


TRUSTED_BASE = [
    "Coq 8.16.1 kernel (coqc full .vo build, no -vos); vm_compute used for model evaluation of cases and for refuted-witness Examples; no native_compute",
    "axioms: none - every theorem in Properties/ is 'Closed under the global context' (checked from Print Assumptions on every run)",
    "hand-written Gallina model of the torchtt code (coq/Model/*.v): tied to /repo only by the exact correspondence run of this check",
    "torch / numpy / LAPACK primitives, floating-point round-off, autograd tape, RNG: modelled (exact ring arithmetic on integer-valued data), not verified",
    "the Python harness (generators, canonicalisation to exact integers, Coq literal printer, result parser)",
    "harness/translate.py (C01, C02): the fail-closed python-ast translator of torchtt/_decomposition.py:rank_chop, with the meaning it gives to the numpy idioms (coq/Translated/NumpyPrims.v; np.abs(s)**2 -> q, np.linalg.norm(s) == 0 -> sum q <= 0, np.max(np.abs(s)) == 0 -> every q_i <= 0, eps**2 -> thr2, eps <= 0 -> not pos, s / smax and eps / smax after the early return on smax == 0 -> q and thr2 multiplied by one arbitrary positive factor c); what it emits is proved equal to the model on every run",
]
