"""Shared prologue of the non-expression checks: build, proof obligations, forbidden-word scan."""
import common

def obligations(pid, V):
    ok_make, log = common.coq_make()
    ok_prop, obl, plog = common.property_obligations(pid) if ok_make else (False, [], log)
    forb = common.grep_forbidden()
    if not ok_make or not ok_prop or forb or not obl or not all(o[1] for o in obl):
        V.fail("proof-obligation-broken", {"theorems_not_checked": [o for o in obl if not o[1]], "forbidden": forb,
                                            "log": (plog if ok_make else log)[-2000:]}, failing_input=False)
    return ok_make, obl

def coverage(pid, obl, **kw):
    cov = {"obligations": len(obl), "discharged": sum(1 for o in obl if o[1]),
           "checker_cmd": "make -C coq (coq_makefile, full .vo build) && coqc Properties/%s.v (Print Assumptions per theorem)" % pid,
           "trusted_base": common.TRUSTED_BASE,
           "theorems": [{"name": o[0], "ok": o[1], "assumptions": o[2]} for o in obl]}
    cov.update(kw)
    return cov
