(* C20 - The TT linear layer computes the dense affine map it represents. *)
From Coq Require Import List Arith.
From TT Require Import RingSig SumN Mat Dense Core Arith MatOps CoreP ArithP MatOpsP.
Import ListNotations.

Section C20.
Context {R : Type} {RO : RingOps R} {RL : RingLaws R}.
Open Scope R_scope.

(* forward(x)[b, m] = sum_n W[m, n] x[b, n] + bias[m] for every size_in/size_out (rectangular), every rank
   profile, every batch shape b (any number of leading dimensions, none included) *)
Theorem C20_forward_affine (W : ttm R) (bias X : dense R) b ms :
  wf4 W -> length ms = length W -> length b = (length (dshape X) - length W)%nat ->
  (length W <= length (dshape X))%nat -> dshape bias = shapeM W ->
  dget (forward W bias X) (b ++ ms) =
    sum_idx (shapeN W) (fun ns => entry4 W ms ns * dget X (b ++ ns)) + dget bias ms.
Proof. exact (forward_affine W bias X b ms). Qed.

(* the loop invariant behind it: after the cores consumed so far the running tensor is the partial
   contraction (dmv_loop_spec), for any starting tensor v *)
Theorem C20_loop_spec (x : ttm R) v ms r0_ : chained4 r0_ x -> length ms = length x ->
  dmv_loop x v ms =
  sum_idx (shapeN x) (fun ns => sum_n r0_ (fun r => v r ns * chainM (slices4 x ms ns) r O)).
Proof. exact (dmv_loop_spec x v ms r0_). Qed.

End C20.
Print Assumptions C20_forward_affine.
Print Assumptions C20_loop_spec.
