(* C20 - The TT linear layer computes the dense affine map it represents. *)
From Coq Require Import List Arith Bool.
From TT Require Import RingSig Instances Dual SumN Mat Dense Core Arith MatOps Reduce Struct Index Meta Expr CoreP ArithP MatOpsP ReduceDimsP FrameP DualP CoreGradP GuardsP.
Import ListNotations.

Section C20.
Context {R : Type} {RO : RingOps R} {RL : RingLaws R}.
Open Scope R_scope.

(* forward(x)[b, m] = sum_n W[m, n] x[b, n] + bias[m] for every size_in/size_out (rectangular), every rank
   profile, every batch shape b (any number of leading dimensions, none included) *)
Theorem C20_forward_affine (W : ttm R) (bias X : dense R) b ms :
  wf4 W -> length ms = length W -> length b = (length (dshape X) - length W)%nat ->
  (length W <= length (dshape X))%nat -> dshape bias = shapeM W ->
  dget (forward W bias X) (b ++ ms) =
    sum_idx (shapeN W) (fun ns => entry4 W ms ns * dget X (b ++ ns)) + dget bias ms.
Proof. exact (forward_affine W bias X b ms). Qed.

(* the CALL: when the trailing dimensions of the input are size_in the guarded entry point is this forward map (and otherwise it refuses: C18_forward_rejects) *)
Theorem C20_forward_call (W : ttm R) (bias X : dense R) ia :
  (length W <=? length (dshape X))%nat && eqb_ln (shapeN W) (skipn (length (dshape X) - length W) (dshape X)) = true ->
  apply_op OForward [VM W; VD bias; VD X] ia = VD (forward W bias X).
Proof. exact (forward_accepts W bias X ia). Qed.

(* the loop invariant behind it: after the cores consumed so far the running tensor is the partial
   contraction (dmv_loop_spec), for any starting tensor v *)
Theorem C20_loop_spec (x : ttm R) v ms r0_ : chained4 r0_ x -> length ms = length x ->
  dmv_loop x v ms =
  sum_idx (shapeN x) (fun ns => sum_n r0_ (fun r => v r ns * chainM (slices4 x ms ns) r O)).
Proof. exact (dmv_loop_spec x v ms r0_). Qed.

(* gradients: over dual numbers (C15) the eps-component of forward is its directional derivative - the product rule against the dense operator, plus
   the direction of the bias; and the derivative of an operator entry with respect to ONE core of the layer is the frame of the other cores applied to
   the perturbation of that core (through the merged row-column mode): the gradients autograd accumulates in the layer's parameters *)
Theorem C20_forward_grad (W : ttm (dual R)) (bias X : dense (dual R)) b ms :
  wf4 W -> length ms = length W -> length b = (length (dshape X) - length W)%nat ->
  (length W <= length (dshape X))%nat -> dshape bias = shapeM W ->
  tg (dget (forward W bias X) (b ++ ms)) =
    sum_idx (shapeN W) (fun ns => pr (entry4 W ms ns) * tg (dget X (b ++ ns)) + tg (entry4 W ms ns) * pr (dget X (b ++ ns))) + tg (dget bias ms).
Proof. exact (forward_grad W bias X b ms). Qed.
Theorem C20_operator_core_grad k (W : ttm (dual R)) ms ns c : wf4 W -> nth_error W k = Some c -> length ms = length W -> Forall2 lt ns (shapeN W) ->
  Forall tg0 (firstn k (flatM W)) -> Forall tg0 (skipn (S k) (flatM W)) ->
  let idx := merge_idx (shapeN W) ms ns in
  tg (entry4 W ms ns) = sum_n (q0 c) (fun p => sum_n (q1 c) (fun q =>
    pr (phiL (flatM W) idx k p) * tg (e3 (flat4 c) p (nth k idx 0%nat) q) * pr (phiR (flatM W) idx k q))).
Proof. exact (entry4_core_grad k W ms ns c). Qed.

End C20.
Print Assumptions C20_forward_affine.
Print Assumptions C20_forward_call.
Print Assumptions C20_loop_spec.
Print Assumptions C20_forward_grad.
Print Assumptions C20_operator_core_grad.
