(* C12 - AMEn solve: the residual-driven rank search and the rank clamp.  Convergence of the sweeps is NOT a theorem (partial).
   Only theorem statements closed by `exact`, each followed by Print Assumptions. *)
From Coq Require Import List Arith.
From TT Require Import RingSig SumN Mat Core Skel SkelP FrameP.
(* for r in range(n-1,0,-1): if res(r) > bound: break;  r += 1  -  with ok r := (res(r) <= bound) as oracle:
   the returned rank lies in 1..n, every candidate rank from it up to n-1 has a residual within the bound, and the rank just
   below it does not (unless the search reached the bottom) *)
Theorem C12_rank_search_spec ok n : 1 <= n ->
  let r := rank_search ok n in
  1 <= r <= n /\ (forall j, r <= j < n -> ok j = true) /\ (r <= 2 \/ ok (r - 1) = false).
Proof. exact (rank_search_spec ok n). Qed.
Theorem C12_clamp_rank_le r n rmax : clamp_rank r n rmax <= r /\ clamp_rank r n rmax <= n /\ clamp_rank r n rmax <= rmax.
Proof. exact (clamp_rank_le r n rmax). Qed.
(* ---- the identity every local problem of ALS / AMEn / DMRG is built on (also used by C11, C13): around any core k,
   x[i] = sum_{p,q} L_k(i_<k)[p] * G_k[p, i_k, q] * R_k(i_>k)[q]; replacing the core keeps both interfaces, so the tensor is a linear
   function of each single core - for every order, all mode sizes and ranks, any commutative ring ---- *)
Section Frame.
Context {R : Type} {RO : RingOps R} {RL : RingLaws R}.
Theorem C12_entry_frame k (x : tt R) idx c : wf x -> nth_error x k = Some c -> length idx = length x ->
  entry x idx = sum_n (r0 c) (fun p => sum_n (r1 c) (fun q => rmul (rmul (phiL x idx k p) (e3 c p (nth k idx 0%nat) q)) (phiR x idx k q))).
Proof. exact (entry_frame k x idx c). Qed.
Theorem C12_entry_setc k (x : tt R) idx c c' : wf x -> nth_error x k = Some c' -> r0 c = r0 c' -> r1 c = r1 c' -> length idx = length x ->
  entry (setc k c x) idx = sum_n (r0 c) (fun p => sum_n (r1 c) (fun q => rmul (rmul (phiL x idx k p) (e3 c p (nth k idx 0%nat) q)) (phiR x idx k q))).
Proof. exact (entry_setc k x idx c c'). Qed.
Theorem C12_entry_setc_add k (x : tt R) idx c1 c2 c' : wf x -> nth_error x k = Some c' ->
  r0 c1 = r0 c' -> r1 c1 = r1 c' -> r0 c2 = r0 c' -> r1 c2 = r1 c' -> length idx = length x ->
  entry (setc k (cadd c1 c2) x) idx = radd (entry (setc k c1 x) idx) (entry (setc k c2 x) idx).
Proof. exact (entry_setc_add k x idx c1 c2 c'). Qed.
Theorem C12_entry_setc_scale k (x : tt R) idx s c c' : wf x -> nth_error x k = Some c' -> r0 c = r0 c' -> r1 c = r1 c' -> length idx = length x ->
  entry (setc k (cscale s c) x) idx = rmul s (entry (setc k c x) idx).
Proof. exact (entry_setc_scale k x idx s c c'). Qed.
End Frame.

Print Assumptions C12_rank_search_spec.
Print Assumptions C12_clamp_rank_le.
Print Assumptions C12_entry_frame.
Print Assumptions C12_entry_setc.
Print Assumptions C12_entry_setc_add.
Print Assumptions C12_entry_setc_scale.
