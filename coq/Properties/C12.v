(* C12 - AMEn solve: the residual-driven rank search and the rank clamp.  Convergence of the sweeps is NOT a theorem (partial).
   Only theorem statements closed by `exact`, each followed by Print Assumptions. *)
From Coq Require Import List Arith.
From TT Require Import RingSig SumN Mat Core Skel SkelP FrameP Reduce MatOps Local LocalP StationaryP.
(* for r in range(n-1,0,-1): if res(r) > bound: break;  r += 1  -  with ok r := (res(r) <= bound) as oracle:
   the returned rank lies in 1..n, every candidate rank from it up to n-1 has a residual within the bound, and the rank just
   below it does not (unless the search reached the bottom) *)
Theorem C12_rank_search_spec ok n : 1 <= n ->
  let r := rank_search ok n in
  1 <= r <= n /\ (forall j, r <= j < n -> ok j = true) /\ (r <= 2 \/ ok (r - 1) = false).
Proof. exact (rank_search_spec ok n). Qed.
Theorem C12_clamp_rank_le r n rmax : clamp_rank r n rmax <= r /\ clamp_rank r n rmax <= n /\ clamp_rank r n rmax <= rmax.
Proof. exact (clamp_rank_le r n rmax). Qed.
(* ---- the identity every local problem of ALS / AMEn / DMRG is built on (also used by C11, C13): around any core k,
   x[i] = sum_{p,q} L_k(i_<k)[p] * G_k[p, i_k, q] * R_k(i_>k)[q]; replacing the core keeps both interfaces, so the tensor is a linear
   function of each single core - for every order, all mode sizes and ranks, any commutative ring ---- *)
Section Frame.
Context {R : Type} {RO : RingOps R} {RL : RingLaws R}.
Theorem C12_entry_frame k (x : tt R) idx c : wf x -> nth_error x k = Some c -> length idx = length x ->
  entry x idx = sum_n (r0 c) (fun p => sum_n (r1 c) (fun q => rmul (rmul (phiL x idx k p) (e3 c p (nth k idx 0%nat) q)) (phiR x idx k q))).
Proof. exact (entry_frame k x idx c). Qed.
Theorem C12_entry_setc k (x : tt R) idx c c' : wf x -> nth_error x k = Some c' -> r0 c = r0 c' -> r1 c = r1 c' -> length idx = length x ->
  entry (setc k c x) idx = sum_n (r0 c) (fun p => sum_n (r1 c) (fun q => rmul (rmul (phiL x idx k p) (e3 c p (nth k idx 0%nat) q)) (phiR x idx k q))).
Proof. exact (entry_setc k x idx c c'). Qed.
Theorem C12_entry_setc_add k (x : tt R) idx c1 c2 c' : wf x -> nth_error x k = Some c' ->
  r0 c1 = r0 c' -> r1 c1 = r1 c' -> r0 c2 = r0 c' -> r1 c2 = r1 c' -> length idx = length x ->
  entry (setc k (cadd c1 c2) x) idx = radd (entry (setc k c1 x) idx) (entry (setc k c2 x) idx).
Proof. exact (entry_setc_add k x idx c1 c2 c'). Qed.
Theorem C12_entry_setc_scale k (x : tt R) idx s c c' : wf x -> nth_error x k = Some c' -> r0 c = r0 c' -> r1 c = r1 c' -> length idx = length x ->
  entry (setc k (cscale s c) x) idx = rmul s (entry (setc k c x) idx).
Proof. exact (entry_setc_scale k x idx s c c'). Qed.
End Frame.

(* ---- the local problem (Model/Local.v: the interface recursions and the local operator of torchtt/solvers.py, tied exactly on integer data).
   (1) Forward and backward interface steps are dual: contracting a forward step with any right interface equals contracting the left interface
   with the backward step - the identity that lets the two half sweeps share their interfaces.  (2) THE GALERKIN IDENTITY: the entry
   ((l,m,L),(r,n,R)) of the local operator at ANY position of a train of ANY order is the bilinear form of A on the two trains that carry a unit
   core there and the current cores elsewhere; (3) hence, by C07's bilinear-form theorem, it is sum_{i,j} conj(F e1 [i]) A[i,j] F e2 [j] on the
   dense objects: the local system the solver builds IS the projection of A onto the frame of the current iterate. ---- *)
Section LocalProblem.
Context {R : Type} {RO : RingOps R} {RL : RingLaws R}.
Theorem C12_phi_fwd_bck_dual (T P : nat -> nat -> nat -> R) (a : core3 R) (c : core4 R) (b : core3 R) :
  sum_n (r1 a) (fun L => sum_n (q1 c) (fun S => sum_n (r1 b) (fun R' => rmul (phi_fwd T a c b L S R') (P L S R'))))
  = sum_n (r0 a) (fun l => sum_n (q0 c) (fun s => sum_n (r0 b) (fun r => rmul (T l s r) (phi_bck P a c b l s r)))).
Proof. exact (phi_fwd_bck_dual T P a c b). Qed.
Theorem C12_local_mat_galerkin (pre post : tt R) (Apre Apost : ttm R) (ck : core4 R) ra rb l0 m0 L0 r0' n0 R0 :
  length Apre = length pre -> length Apost = length post ->
  l0 < ra -> r0' < ra -> L0 < rb -> R0 < rb -> m0 < mm ck -> n0 < nm ck ->
  chained rb post -> chained4 (q1 ck) Apost ->
  bilinear_form (pre ++ unit3 ra (mm ck) rb l0 m0 L0 :: post) (Apre ++ ck :: Apost) (pre ++ unit3 ra (nm ck) rb r0' n0 R0 :: post)
  = local_mat (phiF pre Apre pre ones3) ck (phiB post Apost post) l0 m0 L0 r0' n0 R0.
Proof. exact (local_mat_galerkin pre post Apre Apost ck ra rb l0 m0 L0 r0' n0 R0). Qed.
Theorem C12_local_mat_dense (pre post : tt R) (Apre Apost : ttm R) (ck : core4 R) ra rb l0 m0 L0 r0' n0 R0 :
  length Apre = length pre -> length Apost = length post ->
  l0 < ra -> r0' < ra -> L0 < rb -> R0 < rb -> m0 < mm ck -> n0 < nm ck ->
  wf (pre ++ unit3 ra (mm ck) rb l0 m0 L0 :: post) -> wf4 (Apre ++ ck :: Apost) -> wf (pre ++ unit3 ra (nm ck) rb r0' n0 R0 :: post) ->
  chained rb post -> chained4 (q1 ck) Apost ->
  local_mat (phiF pre Apre pre ones3) ck (phiB post Apost post) l0 m0 L0 r0' n0 R0
  = sum_idx (shapeM (Apre ++ ck :: Apost)) (fun is_ => sum_idx (shapeN (Apre ++ ck :: Apost)) (fun js =>
      rmul (rmul (rconj (entry (pre ++ unit3 ra (mm ck) rb l0 m0 L0 :: post) is_)) (entry4 (Apre ++ ck :: Apost) is_ js))
           (entry (pre ++ unit3 ra (nm ck) rb r0' n0 R0 :: post) js))).
Proof. exact (local_mat_dense pre post Apre Apost ck ra rb l0 m0 L0 r0' n0 R0). Qed.
End LocalProblem.

(* ---- consistency of the local systems (Proofs/StationaryP.v).  (4) The local operator built from the interfaces of two DIFFERENT trains is the
   Petrov-Galerkin projection (the enrichment step projects on the frame of the residual train z); (5) the local product applied to a core is the
   projection of the DENSE product A y on the frame; (6) the local right-hand side is the projection of b on the frame; (7) hence an exact
   solution is STATIONARY: if A x = b entry by entry, the k-th core of x satisfies the k-th local system exactly, for every k, order, mode sizes
   and rank profile; (8) the hypotheses are met by every well-formed pair (A, x) with b := A x as TT product. ---- *)
Section Stationary.
Context {R : Type} {RO : RingOps R} {RL : RingLaws R}.
Theorem C12_local_mat_galerkin2 (xpre xpost ypre ypost : tt R) (Apre Apost : ttm R) (ck : core4 R) ra rb ra' rb' l0 m0 L0 r0' n0 R0 :
  length Apre = length xpre -> length ypre = length xpre -> length Apost = length xpost -> length ypost = length xpost ->
  l0 < ra -> r0' < ra' -> L0 < rb -> R0 < rb' -> m0 < mm ck -> n0 < nm ck ->
  chained rb xpost -> chained4 (q1 ck) Apost -> chained rb' ypost ->
  bilinear_form (xpre ++ unit3 ra (mm ck) rb l0 m0 L0 :: xpost) (Apre ++ ck :: Apost) (ypre ++ unit3 ra' (nm ck) rb' r0' n0 R0 :: ypost)
  = local_mat (phiF xpre Apre ypre ones3) ck (phiB xpost Apost ypost) l0 m0 L0 r0' n0 R0.
Proof. exact (local_mat_galerkin2 xpre xpost ypre ypost Apre Apost ck ra rb ra' rb' l0 m0 L0 r0' n0 R0). Qed.
Theorem C12_local_product_galerkin (xpre xpost ypre ypost : tt R) (Apre Apost : ttm R) (ck : core4 R) (g : core3 R) ra rb l m L :
  length Apre = length xpre -> length ypre = length xpre -> length Apost = length xpost -> length ypost = length xpost ->
  l < ra -> L < rb -> m < mm ck -> nn g = nm ck ->
  wf (xpre ++ unit3 ra (mm ck) rb l m L :: xpost) -> wf4 (Apre ++ ck :: Apost) -> wf (ypre ++ g :: ypost) ->
  e3 (local_product (phiF xpre Apre ypre ones3) ck (phiB xpost Apost ypost) g) l m L
  = sum_idx (shapeM (Apre ++ ck :: Apost)) (fun is_ => sum_idx (shapeN (Apre ++ ck :: Apost)) (fun js =>
      rmul (rmul (rconj (entry (xpre ++ unit3 ra (mm ck) rb l m L :: xpost) is_)) (entry4 (Apre ++ ck :: Apost) is_ js)) (entry (ypre ++ g :: ypost) js))).
Proof. exact (local_product_galerkin xpre xpost ypre ypost Apre Apost ck g ra rb l m L). Qed.
Theorem C12_local_rhs_galerkin (xpre xpost bpre bpost : tt R) (bk : core3 R) ra rb r m R0 :
  length bpre = length xpre -> length bpost = length xpost -> r < ra -> R0 < rb -> m < nn bk ->
  wf (xpre ++ unit3 ra (nn bk) rb r m R0 :: xpost) -> wf (bpre ++ bk :: bpost) ->
  e3 (local_rhs (phibF bpre xpre ones2) bk (phibB bpost xpost) ra rb) r m R0
  = sum_idx (shape (bpre ++ bk :: bpost)) (fun is_ =>
      rmul (rconj (entry (xpre ++ unit3 ra (nn bk) rb r m R0 :: xpost) is_)) (entry (bpre ++ bk :: bpost) is_)).
Proof. exact (local_rhs_galerkin xpre xpost bpre bpost bk ra rb r m R0). Qed.
Theorem C12_exact_solution_stationary (pre post bpre bpost : tt R) (Apre Apost : ttm R) (ck : core4 R) (g bk : core3 R) l m L :
  length Apre = length pre -> length bpre = length pre -> length Apost = length post -> length bpost = length post ->
  l < r0 g -> L < r1 g -> m < mm ck -> nn g = nm ck -> nn bk = mm ck ->
  shape (bpre ++ bk :: bpost) = shapeM (Apre ++ ck :: Apost) ->
  wf (pre ++ g :: post) -> wf4 (Apre ++ ck :: Apost) -> wf (bpre ++ bk :: bpost) ->
  (forall is_, length is_ = length (shapeM (Apre ++ ck :: Apost)) -> Forall2 lt is_ (shapeM (Apre ++ ck :: Apost)) ->
     sum_idx (shapeN (Apre ++ ck :: Apost)) (fun js => rmul (entry4 (Apre ++ ck :: Apost) is_ js) (entry (pre ++ g :: post) js)) = entry (bpre ++ bk :: bpost) is_) ->
  e3 (local_product (phiF pre Apre pre ones3) ck (phiB post Apost post) g) l m L
  = e3 (local_rhs (phibF bpre pre ones2) bk (phibB bpost post) (r0 g) (r1 g)) l m L.
Proof. exact (exact_solution_stationary pre post bpre bpost Apre Apost ck g bk l m L). Qed.
Theorem C12_product_solution_stationary (pre post : tt R) (Apre Apost : ttm R) (ck : core4 R) (g : core3 R) l m L :
  length Apre = length pre -> length Apost = length post ->
  l < r0 g -> L < r1 g -> m < mm ck -> nn g = nm ck ->
  wf (pre ++ g :: post) -> wf4 (Apre ++ ck :: Apost) ->
  e3 (local_product (phiF pre Apre pre ones3) ck (phiB post Apost post) g) l m L
  = e3 (local_rhs (phibF (matvec Apre pre) pre ones2) (matvec_core ck g) (phibB (matvec Apost post) post) (r0 g) (r1 g)) l m L.
Proof. exact (product_solution_stationary pre post Apre Apost ck g l m L). Qed.
End Stationary.

Print Assumptions C12_rank_search_spec.
Print Assumptions C12_clamp_rank_le.
Print Assumptions C12_entry_frame.
Print Assumptions C12_entry_setc.
Print Assumptions C12_entry_setc_add.
Print Assumptions C12_entry_setc_scale.
Print Assumptions C12_phi_fwd_bck_dual.
Print Assumptions C12_local_mat_galerkin.
Print Assumptions C12_local_mat_dense.
Print Assumptions C12_local_mat_galerkin2.
Print Assumptions C12_local_product_galerkin.
Print Assumptions C12_local_rhs_galerkin.
Print Assumptions C12_exact_solution_stationary.
Print Assumptions C12_product_solution_stationary.
