(* C12 - AMEn solve: the residual-driven rank search and the rank clamp.  Convergence of the sweeps is NOT a theorem (partial).
   Only theorem statements closed by `exact`, each followed by Print Assumptions. *)
From Coq Require Import List Arith.
From TT Require Import Skel SkelP.
(* for r in range(n-1,0,-1): if res(r) > bound: break;  r += 1  -  with ok r := (res(r) <= bound) as oracle:
   the returned rank lies in 1..n, every candidate rank from it up to n-1 has a residual within the bound, and the rank just
   below it does not (unless the search reached the bottom) *)
Theorem C12_rank_search_spec ok n : 1 <= n ->
  let r := rank_search ok n in
  1 <= r <= n /\ (forall j, r <= j < n -> ok j = true) /\ (r <= 2 \/ ok (r - 1) = false).
Proof. exact (rank_search_spec ok n). Qed.
Theorem C12_clamp_rank_le r n rmax : clamp_rank r n rmax <= r /\ clamp_rank r n rmax <= n /\ clamp_rank r n rmax <= rmax.
Proof. exact (clamp_rank_le r n rmax). Qed.
Print Assumptions C12_rank_search_spec.
Print Assumptions C12_clamp_rank_le.
