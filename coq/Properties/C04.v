(* C04 - TT-matrix algebra equals dense linear-operator algebra. *)
From Coq Require Import List Arith.
From TT Require Import RingSig SumN Mat Dense Core Arith MatOps CoreP ArithP MatOpsP.
Import ListNotations.

Section C04.
Context {R : Type} {RO : RingOps R} {RL : RingLaws R}.
Open Scope R_scope.

Theorem C04_matvec_full (A : ttm R) (x : tt R) is_ :
  wf4 A -> wf x -> length x = length A -> length is_ = length A ->
  entry (matvec A x) is_ = sum_idx (shapeN A) (fun js => entry4 A is_ js * entry x js).
Proof. exact (matvec_full A x is_). Qed.

Theorem C04_vecmat_full (x : tt R) (A : ttm R) js :
  wf4 A -> wf x -> length x = length A -> length js = length A ->
  entry (vecmat x A) js = sum_idx (shapeM A) (fun is_ => entry x is_ * entry4 A is_ js).
Proof. exact (vecmat_full x A js). Qed.

Theorem C04_matmat_full (A B : ttm R) is_ ns :
  wf4 A -> wf4 B -> length B = length A -> length is_ = length A -> length ns = length A ->
  entry4 (matmat A B) is_ ns = sum_idx (shapeN A) (fun ks => entry4 A is_ ks * entry4 B ks ns).
Proof. exact (matmat_full A B is_ ns). Qed.

Theorem C04_dense_matvec_full (A : ttm R) (X : dense R) b ms :
  wf4 A -> length ms = length A -> length b = (length (dshape X) - length A)%nat ->
  dget (dense_matvec A X) (b ++ ms) = sum_idx (shapeN A) (fun ns => entry4 A ms ns * dget X (b ++ ns)).
Proof. exact (dense_matvec_full A X b ms). Qed.

Theorem C04_transpose_full (A : ttm R) is_ js : entry4 (transpose A) is_ js = entry4 A js is_.
Proof. exact (transpose_full A is_ js). Qed.

Theorem C04_add4_full (x y : ttm R) is_ js :
  wf4 x -> wf4 y -> length y = length x -> shapeN y = shapeN x -> length is_ = length x ->
  Forall2 lt js (shapeN x) -> entry4 (add4 x y) is_ js = entry4 x is_ js + entry4 y is_ js.
Proof. exact (add4_full x y is_ js). Qed.

Theorem C04_sub4_full (x y : ttm R) is_ js :
  wf4 x -> wf4 y -> length y = length x -> shapeN y = shapeN x -> length is_ = length x ->
  Forall2 lt js (shapeN x) -> entry4 (sub4 x y) is_ js = entry4 x is_ js - entry4 y is_ js.
Proof. exact (sub4_full x y is_ js). Qed.

Theorem C04_mul4_full (x y : ttm R) is_ js :
  wf4 x -> wf4 y -> length y = length x -> shapeN y = shapeN x -> length is_ = length x ->
  Forall2 lt js (shapeN x) -> entry4 (mul4 x y) is_ js = entry4 x is_ js * entry4 y is_ js.
Proof. exact (mul4_full x y is_ js). Qed.

Theorem C04_neg4_full (x : ttm R) is_ js : wf4 x -> length is_ = length x -> Forall2 lt js (shapeN x) ->
  entry4 (neg4 x) is_ js = - entry4 x is_ js.
Proof. exact (neg4_full x is_ js). Qed.

Theorem C04_add_scalar4_full (x : ttm R) is_ js s : wf4 x -> length is_ = length x -> Forall2 lt js (shapeN x) ->
  entry4 (add_scalar4 x s) is_ js = entry4 x is_ js + s.
Proof. intros; apply add_scalar4_full; assumption. Qed.

Theorem C04_sub_scalar4_full (x : ttm R) is_ js s : wf4 x -> length is_ = length x -> Forall2 lt js (shapeN x) ->
  entry4 (sub_scalar4 x s) is_ js = entry4 x is_ js - s.
Proof. intros; apply sub_scalar4_full; assumption. Qed.

Theorem C04_rsub_scalar4_full (x : ttm R) is_ js s : wf4 x -> length is_ = length x -> Forall2 lt js (shapeN x) ->
  entry4 (rsub_scalar4 x s) is_ js = s - entry4 x is_ js.
Proof. intros; apply rsub_scalar4_full; assumption. Qed.

Theorem C04_mul_scalar4_full (x : ttm R) is_ js s : wf4 x -> length is_ = length x -> Forall2 lt js (shapeN x) ->
  entry4 (mul_scalar4 x s) is_ js = s * entry4 x is_ js.
Proof. intros; apply mul_scalar4_full; assumption. Qed.

Theorem C04_div_scalar4_full (x : ttm R) is_ js s sinv : wf4 x -> length is_ = length x ->
  Forall2 lt js (shapeN x) -> s * sinv = 1 -> s * entry4 (div_scalar4 x sinv) is_ js = entry4 x is_ js.
Proof. intros; apply div_scalar4_full; assumption. Qed.

Theorem C04_eye_full ns is_ js : length is_ = length ns -> length js = length ns ->
  entry4 (eye_ttm ns) is_ js = fold_right (fun ij acc => delta (fst ij) (snd ij) * acc) 1 (combine is_ js).
Proof. exact (eye_full ns is_ js). Qed.

(* product ranks = products of the operand ranks; results well formed *)
Theorem C04_matvec_ranks (A : ttm R) (x : tt R) : length x = length A ->
  map r1 (matvec A x) = map (fun ab => (fst ab * snd ab)%nat) (combine (map q1 A) (map r1 x)).
Proof. exact (matvec_ranks A x). Qed.
Theorem C04_matmat_ranks (A B : ttm R) : length B = length A ->
  map q1 (matmat A B) = map (fun ab => (fst ab * snd ab)%nat) (combine (map q1 A) (map q1 B)).
Proof. exact (matmat_ranks A B). Qed.
Theorem C04_matvec_wf (A : ttm R) (x : tt R) : wf4 A -> wf x -> length x = length A -> wf (matvec A x).
Proof. exact (matvec_wf A x). Qed.
Theorem C04_matmat_wf (A B : ttm R) : wf4 A -> wf4 B -> length B = length A -> wf4 (matmat A B).
Proof. exact (matmat_wf A B). Qed.
Theorem C04_entry4_l_correct (x : ttm R) is_ js : wf4 x -> length is_ = length x -> length js = length x ->
  entry4_l x is_ js = entry4 x is_ js.
Proof. exact (entry4_l_correct x is_ js). Qed.

End C04.

Print Assumptions C04_matvec_full.
Print Assumptions C04_vecmat_full.
Print Assumptions C04_matmat_full.
Print Assumptions C04_dense_matvec_full.
Print Assumptions C04_transpose_full.
Print Assumptions C04_add4_full.
Print Assumptions C04_sub4_full.
Print Assumptions C04_mul4_full.
Print Assumptions C04_neg4_full.
Print Assumptions C04_add_scalar4_full.
Print Assumptions C04_sub_scalar4_full.
Print Assumptions C04_rsub_scalar4_full.
Print Assumptions C04_mul_scalar4_full.
Print Assumptions C04_div_scalar4_full.
Print Assumptions C04_eye_full.
Print Assumptions C04_matvec_ranks.
Print Assumptions C04_matmat_ranks.
Print Assumptions C04_matvec_wf.
Print Assumptions C04_matmat_wf.
Print Assumptions C04_entry4_l_correct.
