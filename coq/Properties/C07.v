(* C07 - Norm, inner product, sums and bilinear forms equal their dense values. *)
From Coq Require Import List Arith.
From TT Require Import RingSig SumN Mat Dense Core Arith MatOps Reduce CoreP ArithP MatOpsP ReduceP ReduceDimsP SumModesP BilinearP FrobP OrthP.
Import ListNotations.

Section C07.
Context {R : Type} {RO : RingOps R} {RL : RingLaws R}.
Open Scope R_scope.

(* dot(a,b) = sum_i a_i conj(b_i): the einsum('ab,aim,bin->mn') sweep, every order, sizes and ranks *)
Theorem C07_dot_full (x y : tt R) : wf x -> wf y -> length y = length x ->
  dot_full x y = sum_idx (shape x) (fun idx => entry x idx * rconj (entry y idx)).
Proof. exact (dot_full_spec x y). Qed.

(* squared norm through the Gram sweep (autograd branch), tensors and operators *)
Theorem C07_norm2 (x : tt R) : wf x ->
  norm2 x = sum_idx (shape x) (fun idx => entry x idx * rconj (entry x idx)).
Proof. exact (norm2_spec x). Qed.
Theorem C07_norm2_ttm (x : ttm R) : wf4 x ->
  norm2_4 x = sum_idx (shapeM x) (fun is_ => sum_idx (shapeN x) (fun js =>
                entry4 x is_ js * rconj (entry4 x is_ js))).
Proof. exact (norm2_4_spec x). Qed.

(* the general invariant of the sweep, for any starting matrix G and any boundary ranks *)
Theorem C07_dot_loop (x y : tt R) G ra rb : length y = length x -> chained ra x -> chained rb y ->
  dot_loop x y G =
  sum_idx (shape x) (fun idx => gval ra rb G (chainM (slices x idx)) (chainM (slices y idx))).
Proof. exact (dot_loop_spec x y G ra rb). Qed.

(* sum() over all modes *)
Theorem C07_sum_all (x : tt R) : wf x -> sum_all x = sum_idx (shape x) (entry x).
Proof. exact (sum_all_spec x). Qed.
Theorem C07_sum_all_ttm (x : ttm R) : wf4 x ->
  sum_all4 x = sum_idx (shapeM x) (fun is_ => sum_idx (shapeN x) (fun js => entry4 x is_ js)).
Proof. exact (sum_all4_spec x). Qed.

(* x.sum(index) with at least one mode left: the keep-dim core sums followed by reduce_dims(exclude = the other modes) hold, at
   every position of the remaining modes, the dense sum over the listed modes (first, last, adjacent, scattered subsets alike) *)
Theorem C07_sum_modes_full (x : tt R) index idx' :
  (0 < length (keep_pos 0 (shape x) index))%nat -> length idx' = length (keep_pos 0 (shape x) index) ->
  entry (sum_modes x index) idx' = dsum_rec 0 (shape x) index (entry x) idx'.
Proof. exact (sum_modes_full x index idx'). Qed.

(* dot(a, b, axis): contraction of the listed modes of a with conj(b) *)
Theorem C07_dot_axis_full (a b : tt R) axis idx' :
  wf a -> wf b -> length b = length (take_pos 0 (shape a) axis) ->
  (0 < length (keep_pos 0 (shape a) axis))%nat -> length idx' = length (keep_pos 0 (shape a) axis) ->
  entry (dot_axis a b axis) idx' =
    dsum_rec 0 (shape a) axis (fun idx => entry a idx * rconj (entry b (take_pos 0 idx axis))) idx'.
Proof. exact (dot_axis_full a b axis idx'). Qed.

(* bilinear_form(x, A, y) = sum_{i,j} conj(x_i) A_ij y_j, rectangular modes included *)
Theorem C07_bilinear_full (x : tt R) (A : ttm R) (y : tt R) :
  wf x -> wf4 A -> wf y -> length A = length x -> length y = length x ->
  bilinear_form x A y =
  sum_idx (shapeM A) (fun is_ => sum_idx (shapeN A) (fun js => rconj (entry x is_) * entry4 A is_ js * entry y js)).
Proof. exact (bilinear_full x A y). Qed.

(* reduce_dims(exclude) preserves the value on the surviving modes *)
Theorem C07_reduce_dims_full (x : tt R) excl idx' :
  (0 < nkept 0 x excl)%nat -> length idx' = nkept 0 x excl ->
  entry (reduce_dims x excl) idx' = entry x (fullidx 0 x excl idx').
Proof. exact (reduce_dims_full x excl idx'). Qed.

(* ---- the non-autograd branch of norm(): after the left-to-right QR sweep every core but the last has an orthonormal left
   unfolding; then the interface vectors are orthonormal and the squared norm of the tensor is the squared norm of the last core
   (any order, mode sizes, ranks; real and complex).  The same fact makes the spectrum of the last core of an orthogonalised train
   the spectrum of the tensor (C02) and U_(<=k) U_(<=k)^H a projector (C16). ---- *)
Theorem C07_interface_orthonormal (x : tt R) p q : linked 1 x -> Forall left_orth x -> (p < endrank 1 x)%nat -> (q < endrank 1 x)%nat ->
  sum_idx (shape x) (fun idx => rmul (rconj (chainM (slices x idx) 0%nat p)) (chainM (slices x idx) 0%nat q)) = delta p q.
Proof. exact (interface_orthonormal x p q). Qed.
Theorem C07_norm2_last_core (pre : tt R) (c : core3 R) : linked 1 pre -> Forall left_orth pre -> r1 c = 1%nat ->
  sum_idx (shape (pre ++ [c])) (fun idx => rmul (entry (pre ++ [c]) idx) (rconj (entry (pre ++ [c]) idx)))
  = sum_n (nn c) (fun i => sum_n (endrank 1 pre) (fun p => rmul (e3 c p i 0%nat) (rconj (e3 c p i 0%nat)))).
Proof. exact (norm2_last_core pre c). Qed.
Theorem C07_norm2_first_core (c : core3 R) (post : tt R) : r0 c = 1%nat -> chained (r1 c) post -> Forall right_orth post ->
  sum_idx (shape (c :: post)) (fun idx => rmul (entry (c :: post) idx) (rconj (entry (c :: post) idx)))
  = sum_n (nn c) (fun i => sum_n (r1 c) (fun p => rmul (e3 c 0%nat i p) (rconj (e3 c 0%nat i p)))).
Proof. exact (norm2_first_core c post). Qed.
End C07.
Print Assumptions C07_dot_full.
Print Assumptions C07_norm2.
Print Assumptions C07_norm2_ttm.
Print Assumptions C07_dot_loop.
Print Assumptions C07_sum_all.
Print Assumptions C07_sum_all_ttm.
Print Assumptions C07_sum_modes_full.
Print Assumptions C07_dot_axis_full.
Print Assumptions C07_bilinear_full.
Print Assumptions C07_reduce_dims_full.
Print Assumptions C07_interface_orthonormal.
Print Assumptions C07_norm2_last_core.
Print Assumptions C07_norm2_first_core.
