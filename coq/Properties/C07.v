(* C07 - Norm, inner product, sums and bilinear forms equal their dense values. *)
From Coq Require Import List Arith.
From TT Require Import RingSig SumN Mat Dense Core Arith MatOps Reduce CoreP ArithP MatOpsP ReduceP.
Import ListNotations.

Section C07.
Context {R : Type} {RO : RingOps R} {RL : RingLaws R}.
Open Scope R_scope.

(* dot(a,b) = sum_i a_i conj(b_i): the einsum('ab,aim,bin->mn') sweep, every order, sizes and ranks *)
Theorem C07_dot_full (x y : tt R) : wf x -> wf y -> length y = length x ->
  dot_full x y = sum_idx (shape x) (fun idx => entry x idx * rconj (entry y idx)).
Proof. exact (dot_full_spec x y). Qed.

(* squared norm through the Gram sweep (autograd branch), tensors and operators *)
Theorem C07_norm2 (x : tt R) : wf x ->
  norm2 x = sum_idx (shape x) (fun idx => entry x idx * rconj (entry x idx)).
Proof. exact (norm2_spec x). Qed.
Theorem C07_norm2_ttm (x : ttm R) : wf4 x ->
  norm2_4 x = sum_idx (shapeM x) (fun is_ => sum_idx (shapeN x) (fun js =>
                entry4 x is_ js * rconj (entry4 x is_ js))).
Proof. exact (norm2_4_spec x). Qed.

(* the general invariant of the sweep, for any starting matrix G and any boundary ranks *)
Theorem C07_dot_loop (x y : tt R) G ra rb : length y = length x -> chained ra x -> chained rb y ->
  dot_loop x y G =
  sum_idx (shape x) (fun idx => gval ra rb G (chainM (slices x idx)) (chainM (slices y idx))).
Proof. exact (dot_loop_spec x y G ra rb). Qed.

(* sum() over all modes *)
Theorem C07_sum_all (x : tt R) : wf x -> sum_all x = sum_idx (shape x) (entry x).
Proof. exact (sum_all_spec x). Qed.
Theorem C07_sum_all_ttm (x : ttm R) : wf4 x ->
  sum_all4 x = sum_idx (shapeM x) (fun is_ => sum_idx (shapeN x) (fun js => entry4 x is_ js)).
Proof. exact (sum_all4_spec x). Qed.

End C07.
Print Assumptions C07_dot_full.
Print Assumptions C07_norm2.
Print Assumptions C07_norm2_ttm.
Print Assumptions C07_dot_loop.
Print Assumptions C07_sum_all.
Print Assumptions C07_sum_all_ttm.
