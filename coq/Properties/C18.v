(* C18 - Incompatible operands raise an error instead of returning a wrong tensor.
   Only theorem statements closed by `exact`, each followed by Print Assumptions. *)
From Coq Require Import List Arith Bool.
From TT Require Import RingSig SumN Mat Dense Core Arith MatOps Reduce Struct Index Meta Expr GuardsP MetaP.
Import ListNotations.

Section C18.
Context {R : Type} {RO : RingOps R}.

Theorem C18_tt_binop_rejects (plain bc : tt R -> tt R -> tt R) x y :
  eqb_ln (shape x) (shape y) = false -> bcast_ok (shape x) y = false -> tt_binop plain bc x y = VErr EShape.
Proof. exact (tt_binop_rejects plain bc x y). Qed.
Theorem C18_ttm_binop_rejects (f : ttm R -> ttm R -> ttm R) x y :
  eqb_ln (shapeM x) (shapeM y) && eqb_ln (shapeN x) (shapeN y) = false -> ttm_binop f x y = VErr EShape.
Proof. exact (ttm_binop_rejects f x y). Qed.
Theorem C18_kind_mismatch_rejects (x : tt R) (A : ttm R) ia :
  apply_op OAdd [VT x; VM A] ia = VErr ETypes /\ apply_op OAdd [VM A; VT x] ia = VErr ETypes /\
  apply_op OSub [VT x; VM A] ia = VErr ETypes /\ apply_op OSub [VM A; VT x] ia = VErr ETypes /\
  apply_op OMul [VT x; VM A] ia = VErr ETypes /\ apply_op OMul [VM A; VT x] ia = VErr ETypes.
Proof. exact (kind_mismatch_rejects x A ia). Qed.
Theorem C18_matmul_rejects (A B : ttm R) (x y : tt R) (X : dense R) :
  (eqb_ln (shapeN A) (shape x) = false -> matmul_dispatch (VM A) (VT x) = VErr EShape) /\
  (eqb_ln (shapeN A) (shapeM B) = false -> matmul_dispatch (VM A) (VM B) = VErr EShape) /\
  (eqb_ln (shape x) (shapeM A) = false -> matmul_dispatch (VT x) (VM A) = VErr EShape) /\
  ((length A <=? length (dshape X))%nat && eqb_ln (shapeN A) (skipn (length (dshape X) - length A) (dshape X)) = false ->
     matmul_dispatch (VM A) (VD X) = VErr EShape) /\
  matmul_dispatch (VT x) (VT y) = VErr EArgs.
Proof. exact (matmul_rejects A B x y X). Qed.
Theorem C18_sum_rejects (x : tt R) index : all_lt index (length x) = false -> apply_op OSum [VT x] [index] = VErr EArgs.
Proof. exact (sum_rejects x index). Qed.
Theorem C18_sum_ttm_rejects (x : ttm R) index rest : all_lt index (length x) = false -> apply_op OSum [VM x] (index :: rest) = VErr EArgs.
Proof. exact (sum_ttm_rejects x index rest). Qed.
Theorem C18_dot_rejects (a b : tt R) : eqb_ln (shape a) (shape b) = false -> apply_op ODot [VT a; VT b] [] = VErr EShape.
Proof. exact (dot_rejects a b). Qed.
Theorem C18_dot_axis_rejects (a b : tt R) axis : (length a <? length b)%nat = true -> apply_op ODot [VT a; VT b] [axis] = VErr EShape.
Proof. exact (dot_axis_rejects a b axis). Qed.
Theorem C18_bilinear_rejects (x y : tt R) (A : ttm R) ia :
  eqb_ln (shape x) (shapeM A) && eqb_ln (shape y) (shapeN A) = false -> apply_op OBilinear [VT x; VM A; VT y] ia = VErr EShape.
Proof. exact (bilinear_rejects x y A ia). Qed.
Theorem C18_pad_rejects (x : tt R) k v hd_ pds : (length x <? length pds)%nat = true ->
  apply_op OPad [VT x; VS k v] (hd_ :: pds) = VErr EArgs.
Proof. exact (pad_rejects x k v hd_ pds). Qed.
Theorem C18_cat_rejects (x : tt R) (l : list (tt R)) dim :
  (dim <? length x)%nat && forallb (fun t => Nat.eqb (length t) (length x) && eqb_ln (upd dim 0 (shape t)) (upd dim 0 (shape x))) l = false ->
  apply_op OCat (VT x :: map (@VT R) l) [[dim]] = VErr EArgs.
Proof. exact (cat_rejects x l dim). Qed.
Theorem C18_pad_ttm_rejects (x : ttm R) k v hd_ pds : (length x <? length pds)%nat = true ->
  apply_op OPad [VM x; VS k v] (hd_ :: pds) = VErr EArgs.
Proof. exact (pad_ttm_rejects x k v hd_ pds). Qed.
(* the TT layer: an input whose trailing dimensions are not size_in (too few dimensions, a singleton or any other size where a mode of size_in is expected) is refused *)
Theorem C18_forward_rejects (W : ttm R) (bias X : dense R) ia :
  (length W <=? length (dshape X))%nat && eqb_ln (shapeN W) (skipn (length (dshape X) - length W) (dshape X)) = false ->
  apply_op OForward [VM W; VD bias; VD X] ia = VErr EShape.
Proof. exact (forward_rejects W bias X ia). Qed.
Theorem C18_transpose_tt_rejects (x : tt R) ia : apply_op OTr [VT x] ia = VErr EArgs.
Proof. exact (transpose_tt_rejects x ia). Qed.
Theorem C18_mul_tensor_rejects (x : tt R) (t : dense R) ia : dshape t <> [] ->
  apply_op OMul [VT x; VD t] ia = VErr EArgs /\ apply_op ORMul [VT x; VD t] ia = VErr EArgs.
Proof. exact (mul_tensor_rejects x t ia). Qed.
Theorem C18_dot_ttm_rejects (A : ttm R) (v : val R) ia :
  apply_op ODot [VM A; v] ia = VErr ENotImpl /\ (forall x : tt R, apply_op ODot [VT x; VM A] ia = VErr ENotImpl).
Proof. exact (dot_ttm_rejects A v ia). Qed.
Theorem C18_getitem_rejects (x : tt R) ix :
  ((1 <? length (filter is_ell ix))%nat = true -> getitem_tuple x ix = GE ENotImpl) /\
  (forall c1 c2 t it, x = c1 :: c2 :: t -> it <> IEll -> getitem_single x it = GE EArgs).
Proof. exact (getitem_rejects x ix). Qed.
End C18.

Theorem C18_ctor_rejects cs :
  (map fst cs = [] -> ctor cs = inl EPyIndex) /\
  (forall c0 t, map fst cs = c0 :: t -> chain_ok (cs_left c0) (c0 :: t) = false -> ctor cs = inl ERank) /\
  (forall c0 t, map fst cs = c0 :: t -> chain_ok (cs_left c0) (c0 :: t) = true ->
     forallb is4 (c0 :: t) || forallb (fun c => negb (is4 c)) (c0 :: t) = false -> ctor cs = inl EArgs) /\
  (forall c0 t, map fst cs = c0 :: t -> chain_ok (cs_left c0) (c0 :: t) = true ->
     forallb is4 (c0 :: t) || forallb (fun c => negb (is4 c)) (c0 :: t) = true ->
     Nat.eqb (cs_left c0) 1 && Nat.eqb (last (map cs_right (c0 :: t)) 0) 1 = false -> ctor cs = inl EArgs).
Proof. exact (ctor_rejects cs). Qed.
Theorem C18_ctor_accepts_only_wf cs o : ctor cs = inr o -> wf_obj o = true.
Proof. exact (ctor_wf cs o). Qed.

Print Assumptions C18_tt_binop_rejects.
Print Assumptions C18_ttm_binop_rejects.
Print Assumptions C18_kind_mismatch_rejects.
Print Assumptions C18_matmul_rejects.
Print Assumptions C18_sum_rejects.
Print Assumptions C18_sum_ttm_rejects.
Print Assumptions C18_dot_rejects.
Print Assumptions C18_dot_axis_rejects.
Print Assumptions C18_bilinear_rejects.
Print Assumptions C18_pad_rejects.
Print Assumptions C18_cat_rejects.
Print Assumptions C18_pad_ttm_rejects.
Print Assumptions C18_forward_rejects.
Print Assumptions C18_transpose_tt_rejects.
Print Assumptions C18_mul_tensor_rejects.
Print Assumptions C18_dot_ttm_rejects.
Print Assumptions C18_getitem_rejects.
Print Assumptions C18_ctor_rejects.
Print Assumptions C18_ctor_accepts_only_wf.
