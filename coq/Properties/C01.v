(* C01 - TT-SVD meets the requested accuracy and rank bounds.
   Only theorem statements closed by `exact`, each followed by Print Assumptions.
   T is any ordered commutative semiring (Z, Q, R); q is the list of squared singular values. *)
From Coq Require Import List Arith ZArith.
From TT Require Import OrdRing RankChop RankChopP.
Import ListNotations.

Section C01.
Context {T : Type} {OO : OrdOps T} {OL : OrdLaws T}.

Theorem C01_rank_chop_range (q : list T) pos thr2 : q <> [] -> (1 <= rank_chop q pos thr2 <= length q)%nat.
Proof. exact (rank_chop_range q pos thr2). Qed.

(* the energy discarded by the selected rank never exceeds the threshold - including ties at the threshold *)
Theorem C01_rank_chop_tail (q : list T) pos thr2 : q <> [] -> Forall (ole oz) q -> ole oz thr2 ->
  ole (discarded q (rank_chop q pos thr2)) thr2.
Proof. exact (rank_chop_tail q pos thr2). Qed.

(* no rank is kept that the tolerance did not need: one less would reach the threshold *)
Theorem C01_rank_chop_minimal (q : list T) thr2 : q <> [] -> oleb (sumT q) oz = false ->
  let r := rank_chop q true thr2 in r = 1%nat \/ ole thr2 (discarded q (r - 1)).
Proof. exact (rank_chop_minimal q thr2). Qed.

Theorem C01_rank_chop_zero (q : list T) pos thr2 : ole (sumT q) oz -> rank_chop q pos thr2 = 1%nat.
Proof. exact (rank_chop_zero q pos thr2). Qed.

(* one bond of the sweep, threshold eps/sqrt(d-1) * ||remainder||:  (d-1) * discarded <= eps^2 * ||remainder||^2 *)
Theorem C01_bond_allowance dm1 (q : list T) pos eps2 : q <> [] -> Forall (ole oz) q -> ole oz eps2 ->
  let r := rank_chop (map (omul (ofnat dm1)) q) pos (omul eps2 (sumT q)) in
  ole (omul (ofnat dm1) (discarded q r)) (omul eps2 (sumT q)).
Proof. exact (bond_allowance dm1 q pos eps2). Qed.

(* the whole sweep over any number of bonds and any spectra (oracle stream), remainders' norms = kept energies:
   (d-1) * total discarded energy <= #bonds * eps^2 * ||A||^2 *)
Theorem C01_sweep_budget dm1 pos eps2 (qs : list (list T)) rs q1 qt : qs = q1 :: qt ->
  Forall (fun q => q <> [] /\ Forall (ole oz) q) qs -> ole oz eps2 ->
  unbounded_ranks dm1 pos eps2 qs rs -> energy_chain qs rs ->
  ole (omul (ofnat dm1) (sweep_discarded qs rs)) (omul (ofnat (length qs)) (omul eps2 (sumT q1))).
Proof. exact (sweep_budget dm1 pos eps2 qs rs q1 qt). Qed.

End C01.

(* the comparison of the pinned tree (sc[-1] > eps**2) broke the bound at a tie: s = [1,1,1,1], eps = 1 *)
Theorem C01_pinned_tie_refuted :
  exists (q : list Z) thr2, q <> [] /\ Forall (ole oz) q /\ ole oz thr2 /\
    oleb (discarded q (rank_chop_pinned q true thr2)) thr2 = false.
Proof. exact rank_chop_pinned_tail_refuted. Qed.

Print Assumptions C01_rank_chop_range.
Print Assumptions C01_rank_chop_tail.
Print Assumptions C01_rank_chop_minimal.
Print Assumptions C01_rank_chop_zero.
Print Assumptions C01_bond_allowance.
Print Assumptions C01_sweep_budget.
Print Assumptions C01_pinned_tie_refuted.
