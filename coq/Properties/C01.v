(* C01 - TT-SVD meets the requested accuracy and rank bounds.
   Only theorem statements closed by `exact`, each followed by Print Assumptions.
   T is any ordered commutative semiring (Z, Q, R); q is the list of squared singular values. *)
From Coq Require Import List Arith ZArith.
From TT Require Import RingSig SumN Mat Core OrdRing RankChop RankChopP FrobP Sweep SweepP ReshapeV SweepBridgeP.
Import ListNotations.

Section C01.
Context {T : Type} {OO : OrdOps T} {OL : OrdLaws T}.

Theorem C01_rank_chop_range (q : list T) pos thr2 : q <> [] -> (1 <= rank_chop q pos thr2 <= length q)%nat.
Proof. exact (rank_chop_range q pos thr2). Qed.

(* the energy discarded by the selected rank never exceeds the threshold - including ties at the threshold *)
Theorem C01_rank_chop_tail (q : list T) pos thr2 : q <> [] -> Forall (ole oz) q -> ole oz thr2 ->
  ole (discarded q (rank_chop q pos thr2)) thr2.
Proof. exact (rank_chop_tail q pos thr2). Qed.

(* no rank is kept that the tolerance did not need: one less would reach the threshold *)
Theorem C01_rank_chop_minimal (q : list T) thr2 : q <> [] -> oleb (sumT q) oz = false ->
  let r := rank_chop q true thr2 in r = 1%nat \/ ole thr2 (discarded q (r - 1)).
Proof. exact (rank_chop_minimal q thr2). Qed.

Theorem C01_rank_chop_zero (q : list T) pos thr2 : ole (sumT q) oz -> rank_chop q pos thr2 = 1%nat.
Proof. exact (rank_chop_zero q pos thr2). Qed.

(* the decision is a property of the RELATIVE spectrum: a common positive factor on the squared singular values and on the squared threshold changes
   nothing. rank_chop uses it (s / max|s|, eps / max|s|) so that the squares of very small / very large singular values neither underflow nor overflow;
   this theorem is why that is the same function in exact arithmetic (and Translated/RankChopSrcP.v proves the current source equal to the model with it) *)
Theorem C01_rank_chop_scale_invariant (c : T) (q : list T) pos thr2 : oltb oz c = true ->
  rank_chop (map (omul c) q) pos (omul c thr2) = rank_chop q pos thr2.
Proof. exact (rank_chop_scale c q pos thr2). Qed.

(* one bond of the sweep, threshold eps/sqrt(d-1) * ||remainder||:  (d-1) * discarded <= eps^2 * ||remainder||^2 *)
Theorem C01_bond_allowance dm1 (q : list T) pos eps2 : q <> [] -> Forall (ole oz) q -> ole oz eps2 ->
  let r := rank_chop (map (omul (ofnat dm1)) q) pos (omul eps2 (sumT q)) in
  ole (omul (ofnat dm1) (discarded q r)) (omul eps2 (sumT q)).
Proof. exact (bond_allowance dm1 q pos eps2). Qed.

(* the whole sweep over any number of bonds and any spectra (oracle stream), remainders' norms = kept energies:
   (d-1) * total discarded energy <= #bonds * eps^2 * ||A||^2 *)
Theorem C01_sweep_budget dm1 pos eps2 (qs : list (list T)) rs q1 qt : qs = q1 :: qt ->
  Forall (fun q => q <> [] /\ Forall (ole oz) q) qs -> ole oz eps2 ->
  unbounded_ranks dm1 pos eps2 qs rs -> energy_chain qs rs ->
  ole (omul (ofnat dm1) (sweep_discarded qs rs)) (omul (ofnat (length qs)) (omul eps2 (sumT q1))).
Proof. exact (sweep_budget dm1 pos eps2 qs rs q1 qt). Qed.

End C01.

(* the comparison of the pinned tree (sc[-1] > eps**2) broke the bound at a tie: s = [1,1,1,1], eps = 1 *)
Theorem C01_pinned_tie_refuted :
  exists (q : list Z) thr2, q <> [] /\ Forall (ole oz) q /\ ole oz thr2 /\
    oleb (discarded q (rank_chop_pinned q true thr2)) thr2 = false.
Proof. exact rank_chop_pinned_tail_refuted. Qed.


(* ---- the sweep at matrix level, in exact arithmetic (commutative ring with involution: real and complex data) ---- *)
Section C01_sweep.
Context {R : Type} {RO : RingOps R} {RL : RingLaws R}.

(* one truncation step: for U with orthonormal columns, B = U^H C, and ANY later approximation Bh of B:
   || C - U Bh ||^2 = || C - U B ||^2 + || B - Bh ||^2   (Pythagoras; nothing is lost or counted twice) *)
Theorem C01_stage_error m r n (U C Bh : mat R) : orth m r U ->
  let B := mmul m (adj U) C in
  frob2 m n (msub C (mmul r U Bh)) = radd (frob2 m n (msub C (mmul r U B))) (frob2 r n (msub B Bh)).
Proof. exact (stage_error m r n U C Bh). Qed.

(* the whole sweep, any number of bonds and any mode sizes: the squared error of the reconstruction is EXACTLY the sum of the
   energies discarded at the bonds *)
Theorem C01_sweep_error_eq (ss : list (stage R)) C : stages_ok ss -> orth_stages ss ->
  match ss with
  | [] => True
  | s :: _ => frob2 (sm s) (sn s * sq s) (msub C (approx ss C)) = disc_total ss C
  end.
Proof. exact (sweep_error_eq ss C). Qed.

(* THE ERROR BOUND: exact truncated SVDs at every bond (spectrum_link), ranks chosen by rank_chop with the threshold
   eps/sqrt(dm1)*||remainder|| (ties included, no rmax binding):  dm1 * ||C - reconstruction||^2 <= #bonds * eps^2 * ||C||^2,
   i.e. for #bonds = dm1 = d-1 the relative error is at most eps - for every order, all mode sizes (1 included), every spectrum *)
Theorem C01_tt_svd_error_bound (leb : R -> R -> bool) {OL : @OrdLaws R (OO_of_ring leb)}
  dm1 pos eps2 (ss : list (stage R)) (qs : list (list R)) (C : mat R) s0 st :
  ss = s0 :: st -> stages_ok ss -> orth_stages ss -> spectrum_link leb ss qs C ->
  Forall (fun q => q <> [] /\ Forall (@ole R (OO_of_ring leb) (@oz R (OO_of_ring leb))) q) qs -> @ole R (OO_of_ring leb) (@oz R (OO_of_ring leb)) eps2 ->
  unbounded_ranks (OO := OO_of_ring leb) dm1 pos eps2 qs (map (@sr R) ss) ->
  @ole R (OO_of_ring leb) (rmul (@ofnat R (OO_of_ring leb) dm1) (frob2 (sm s0) (sn s0 * sq s0) (msub C (approx ss C))))
      (rmul (@ofnat R (OO_of_ring leb) (length ss)) (rmul eps2 (frob2 (sm s0) (sn s0 * sq s0) C))).
Proof. exact (tt_svd_error_bound leb dm1 pos eps2 ss qs C s0 st). Qed.
(* THE RETURNED OBJECT: the TT tensor whose cores are the reshaped kept factors U_k and the final remainder has, entry by entry,
   the dense value `approx` that the two theorems above compare with the input; it is well formed and its ranks are the chosen ones *)
Theorem C01_sweep_cores_entry (ss : list (stage R)) n1 C i idx :
  stages_ok ss -> last_q1 ss -> Forall2 lt idx (map (@sn R) ss) ->
  entry (sweep_cores 1 n1 ss C) (i :: idx) = approx ss C i (flat_pos (map (@sn R) ss) idx).
Proof. exact (sweep_cores_entry ss n1 C i idx). Qed.
Theorem C01_sweep_cores_wf (ss : list (stage R)) n1 C :
  wf (sweep_cores 1 n1 ss C) /\ shape (sweep_cores 1 n1 ss C) = n1 :: map (@sn R) ss /\
  map (@r1 R) (sweep_cores 1 n1 ss C) = map (@sr R) ss ++ [1%nat].
Proof. exact (conj (sweep_cores_wf ss n1 C) (conj (sweep_cores_shape ss 1%nat n1 C) (sweep_cores_ranks ss 1%nat n1 C))). Qed.
End C01_sweep.

Print Assumptions C01_rank_chop_range.
Print Assumptions C01_rank_chop_tail.
Print Assumptions C01_rank_chop_minimal.
Print Assumptions C01_rank_chop_scale_invariant.
Print Assumptions C01_rank_chop_zero.
Print Assumptions C01_bond_allowance.
Print Assumptions C01_sweep_budget.
Print Assumptions C01_pinned_tie_refuted.
Print Assumptions C01_stage_error.
Print Assumptions C01_sweep_error_eq.
Print Assumptions C01_tt_svd_error_bound.
Print Assumptions C01_sweep_cores_entry.
Print Assumptions C01_sweep_cores_wf.
