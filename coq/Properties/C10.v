(* C10 - Reshape / permute.
   Shape level: the two-cursor merge / split loop of reshape terminates and returns exactly the requested mode sizes; the swap
   schedule of permute terminates after as many supercore swaps as there are inversions and leaves the modes in the requested order.
   Value level: each elementary step - merging two adjacent cores, replacing a core by ANY exact factorisation, exchanging two
   adjacent modes through ANY exact re-factorisation of the transposed supercore - preserves every entry at the re-indexed position,
   and merging preserves the row-major position; so with untruncated splits the mechanisms compute torch.reshape / torch.permute
   exactly (no sign, phase or scale change is possible).  The SVD is an oracle; the truncation error of a split is C01's theorem;
   the composition with the floating-point loop is measured by the check (DESIGN.md).
   Only theorem statements closed by `exact`, each followed by Print Assumptions. *)
From Coq Require Import List Arith Permutation.
From TT Require Import RingSig SumN Mat Core Reshape ReshapeP ReshapeV ReshapeVP Permute PermuteP.
Import ListNotations.

(* the loop invariant, for any starting state: with fuel above #input cores + #targets, equal element counts and
   positive sizes, the loop returns the already produced modes followed by exactly the remaining targets *)
Theorem C10_reshape_loop_spec fuel c ins tg acc :
  length ins + length tg < fuel -> 1 <= c -> allpos ins -> allpos tg ->
  c * prodl ins = prodl tg -> reshape_loop fuel c ins tg acc = Some (rev acc ++ tg).
Proof. exact (reshape_loop_spec fuel c ins tg acc). Qed.

(* every input shape, every target shape with the same number of elements - any ordered factorisation or merging, singleton
   modes at the front, in the middle and at the end: termination within the fuel and exactly the requested mode sizes *)
Theorem C10_reshape_shape ns tg : ns <> [] -> allpos ns -> allpos tg -> prodl ns = prodl tg ->
  reshape_modes ns tg = Some tg.
Proof. exact (reshape_shape ns tg). Qed.

(* the same for TT matrices: every list of input (row, column) pairs and every target list with the same row and column element counts *)
Theorem C10_reshape_shape4 ns tg : ns <> [] -> allpos2 ns -> allpos2 tg -> prodM ns = prodM tg -> prodN ns = prodN tg ->
  reshape_modes4 ns tg = Some tg.
Proof. exact (reshape_shape4 ns tg). Qed.

(* permute: for every permutation dims of 0..d-1 the bubble loop terminates, performs exactly inv(dims) swaps, each at a valid
   bond, and ends with the modes in the order dims *)
Theorem C10_permute_schedule (dims : list nat) : Permutation (seq 0 (length dims)) dims ->
  exists sw, permute_schedule dims = Some (dims, sw) /\
             length sw = inv (fun x => index_of x dims) (seq 0 (length dims)) /\
             Forall (fun p => p + 1 < length dims) sw.
Proof. exact (permute_schedule_spec dims). Qed.

(* to_qtt (mode_size 2) on modes 2^k_i, k_i >= 1: exactly sum k_i modes of size 2, same number of entries *)
Theorem C10_qtt_modes (ks : list nat) : Forall (fun k => 1 <= k) ks ->
  qtt_modes (map (fun k => 2 ^ k) ks) = repeat 2 (fold_right Nat.add 0 ks) /\
  fold_right Nat.mul 1 (qtt_modes (map (fun k => 2 ^ k) ks)) = fold_right Nat.mul 1 (map (fun k => 2 ^ k) ks).
Proof. exact (qtt_modes_spec ks). Qed.

Section Values.
Context {R : Type} {RO : RingOps R} {RL : RingLaws R}.

(* merging cores k, k+1: the entry at the fused index i*n_{k+1} + j is the old entry at (i, j) *)
Theorem C10_merge_entry k (x : tt R) idx :
  (k + 1 < length x)%nat -> length idx = length x -> (nth (k + 1) idx 0 < nth (k + 1) (shape x) 0)%nat ->
  entry (merge_at k x) (merge_idx_at k (shape x) idx) = entry x idx.
Proof. exact (merge_entry k x idx). Qed.

(* ... and the fused index is at the same row-major position of the reshaped array *)
Theorem C10_flat_merge k ns idx : (k + 1 < length ns)%nat -> length idx = length ns ->
  flat_pos (merge_shape k ns) (merge_idx_at k ns idx) = flat_pos ns idx.
Proof. exact (flat_merge k ns idx). Qed.

(* replacing core k by any exact factorisation (a, b) - the untruncated SVD split *)
Theorem C10_split_entry k (x : tt R) (a b : core3 R) idx :
  (k < length x)%nat -> length idx = S (length x) -> exact_split (nth k x a) a b -> (nth (k + 1) idx 0 < nn b)%nat ->
  entry (split_at k a b x) idx = entry x (merge_idx_at k (shape (split_at k a b x)) idx).
Proof. exact (split_entry k x a b idx). Qed.

(* exchanging modes k, k+1 through any exact re-factorisation of the transposed supercore - permute's elementary step *)
Theorem C10_swap_entry k (x : tt R) (a' b' : core3 R) idx :
  (k + 1 < length x)%nat -> length idx = length x -> exact_swap (nth k x a') (nth (k + 1) x a') a' b' ->
  entry (swap_at k a' b' x) (swap_idx k idx) = entry x idx.
Proof. exact (swap_entry k x a' b' idx). Qed.
End Values.

Print Assumptions C10_reshape_loop_spec.
Print Assumptions C10_reshape_shape.
Print Assumptions C10_reshape_shape4.
Print Assumptions C10_permute_schedule.
Print Assumptions C10_qtt_modes.
Print Assumptions C10_merge_entry.
Print Assumptions C10_flat_merge.
Print Assumptions C10_split_entry.
Print Assumptions C10_swap_entry.
