(* C10 - Reshape: the two-cursor merge / split loop terminates and returns exactly the requested mode sizes.
   The value clause (the dense value is preserved up to eps) is measured by the check (partial): the splits go through
   the TT-SVD whose rank rule is C01's; permute and the QTT conversions are covered by measurement only.
   Only theorem statements closed by `exact`, each followed by Print Assumptions. *)
From Coq Require Import List Arith.
From TT Require Import Reshape ReshapeP.
Import ListNotations.

(* the loop invariant, for any starting state: with fuel above #input cores + #targets, equal element counts and
   positive sizes, the loop returns the already produced modes followed by exactly the remaining targets *)
Theorem C10_reshape_loop_spec fuel c ins tg acc :
  length ins + length tg < fuel -> 1 <= c -> allpos ins -> allpos tg ->
  c * prodl ins = prodl tg -> reshape_loop fuel c ins tg acc = Some (rev acc ++ tg).
Proof. exact (reshape_loop_spec fuel c ins tg acc). Qed.

(* every input shape, every target shape with the same number of elements - any ordered factorisation or merging, singleton
   modes at the front, in the middle and at the end: termination within the fuel and exactly the requested mode sizes *)
Theorem C10_reshape_shape ns tg : ns <> [] -> allpos ns -> allpos tg -> prodl ns = prodl tg ->
  reshape_modes ns tg = Some tg.
Proof. exact (reshape_shape ns tg). Qed.

Print Assumptions C10_reshape_loop_spec.
Print Assumptions C10_reshape_shape.
