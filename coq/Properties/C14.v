(* C14 - Cross approximation samples only valid indices.
   Only theorem statements closed by `exact`, each followed by Print Assumptions. *)
From Coq Require Import List Arith.
From TT Require Import Cross CrossP.
Import ListNotations.

(* one index-set update of either sweep keeps every kept tuple inside its box *)
Theorem C14_left_update_in (N : list nat) k Lk pv : k < length N -> all_in (firstn k N) Lk ->
  Forall (fun p => p < length Lk * nth k N 0) pv -> all_in (firstn (S k) N) (left_update Lk (nth k N 0) pv).
Proof. exact (left_update_in N k Lk pv). Qed.
Theorem C14_right_update_in (N : list nat) k Rk2 pv : S k < length N -> all_in (skipn (k + 2) N) Rk2 ->
  Forall (fun p => p < nth (S k) N 0 * length Rk2) pv -> all_in (skipn (S k) N) (right_update Rk2 pv).
Proof. exact (right_update_in N k Rk2 pv). Qed.
Theorem C14_right_init_in (N : list nat) k Rk1 pv : k < length N -> all_in (skipn (S k) N) Rk1 ->
  Forall (fun p => p < length Rk1 * nth k N 0) pv -> all_in (skipn k N) (right_init Rk1 (nth k N 0) pv).
Proof. exact (right_init_in N k Rk1 pv). Qed.
(* the matrix assembled from (I3, I1, I2, I4): every row has d entries, column c in [0, N[c]) *)
Theorem C14_eval_rows_in (N : list nat) k Lk Rk2 : S k < length N -> all_in (firstn k N) Lk -> all_in (skipn (k + 2) N) Rk2 ->
  all_in N (eval_rows Lk (nth k N 0) (nth (S k) N 0) Rk2).
Proof. exact (eval_rows_in N k Lk Rk2). Qed.
(* the invariant is preserved by every micro-step, for any pivots that are row indices of the matrix given to maxvol *)
Theorem C14_cross_step_inv N s c : cinv N s -> pivots_ok N s c -> cinv N (cross_step N s c).
Proof. exact (cross_step_inv N s c). Qed.
(* any run: any mode sizes, any number of sweeps in any order, any ranks, any maxvol answers - every index matrix that can be
   handed to the user's function holds only rows of length d with column c in [0, N[c]) *)
Theorem C14_cross_indices_in_range N cs k : N <> [] -> run_pivots_ok N (cinit (length N)) cs -> S k < length N ->
  all_in N (eval_at N (fold_left (cross_step N) cs (cinit (length N))) k).
Proof. exact (cross_indices_in_range N cs k). Qed.

Print Assumptions C14_left_update_in.
Print Assumptions C14_right_update_in.
Print Assumptions C14_right_init_in.
Print Assumptions C14_eval_rows_in.
Print Assumptions C14_cross_step_inv.
Print Assumptions C14_cross_indices_in_range.
