(* C11 - DMRG and AMEn products: the decisions that are logic (truncation thresholds, rank clamps).  The a-priori accuracy of
   the randomised alternating iteration is NOT a theorem (partial, see DESIGN.md); it is measured by the check.
   Only theorem statements closed by `exact`, each followed by Print Assumptions. *)
From Coq Require Import List Arith.
From Coq Require Import ZArith Lia.
From TT Require Import RingSig Instances SumN Mat Core OrdRing RankChop RankChopP Skel SkelP FrobP OrthP GaugeP MatOps Reduce Local LocalP StationaryP AmenMMP.
Import ListNotations.
Section C11.
Context {T : Type} {OO : OrdOps T} {OL : OrdLaws T}.
(* the truncation of the final sweep, threshold eps/sqrt(d) * ||supercore||: d * discarded <= eps^2 ||supercore||^2 at
   each of the d-1 bonds (ties included), so the final truncation moves the iterate by less than eps *)
Theorem C11_dmrg_last_allowance d (q : list T) pos eps2 : q <> [] -> Forall (ole oz) q -> ole oz eps2 ->
  let r := rank_chop (map (omul (ofnat d)) q) pos (omul eps2 (sumT q)) in
  ole (omul (ofnat d) (discarded q r)) (omul eps2 (sumT q)).
Proof. exact (dmrg_last_allowance d q pos eps2). Qed.
(* the rank kept at a bond never exceeds the number of singular values nor rmax *)
Theorem C11_dmrg_bond_rank_le d last (q : list T) pos eps2 rmax : q <> [] ->
  (dmrg_bond_rank d last q pos eps2 rmax <= length q)%nat /\ (dmrg_bond_rank d last q pos eps2 rmax <= rmax)%nat.
Proof. exact (dmrg_bond_rank_le d last q pos eps2 rmax). Qed.
(* the allowances of a whole sweep add up (same budget theorem as the TT-SVD, with d in place of d-1) *)
Theorem C11_sweep_budget dm1 pos eps2 (qs : list (list T)) rs q1 qt : qs = q1 :: qt ->
  Forall (fun q => q <> [] /\ Forall (ole oz) q) qs -> ole oz eps2 ->
  unbounded_ranks dm1 pos eps2 qs rs -> energy_chain qs rs ->
  ole (omul (ofnat dm1) (sweep_discarded qs rs)) (omul (ofnat (length qs)) (omul eps2 (sumT q1))).
Proof. exact (sweep_budget dm1 pos eps2 qs rs q1 qt). Qed.
End C11.
(* ---- why truncating the small (super)core truncates the tensor by the same amount: in the mixed orthogonal gauge the DMRG / AMEn sweeps
   maintain (orthonormal left unfoldings before the centre, orthonormal right unfoldings after it), the squared norm of the train is the
   squared norm of the centre core, and replacing the centre core by any other core - e.g. the product of its truncated SVD factors - moves
   the tensor by exactly the Frobenius distance of the two cores.  Any order, sizes, ranks; real and complex. ---- *)
Section Gauge.
Context {R : Type} {RO : RingOps R} {RL : RingLaws R}.
Theorem C11_norm2_centre_core (pre post : tt R) (c : core3 R) : linked 1 pre -> Forall left_orth pre -> chained (r1 c) post -> Forall right_orth post ->
  sum_idx (shape (pre ++ c :: post)) (fun idx => rmul (entry (pre ++ c :: post) idx) (rconj (entry (pre ++ c :: post) idx)))
  = sum_n (Core.nn c) (fun i => sum_n (endrank 1 pre) (fun p => sum_n (r1 c) (fun q => rmul (e3 c p i q) (rconj (e3 c p i q))))).
Proof. exact (norm2_centre_core pre post c). Qed.
Theorem C11_centre_core_error (pre post : tt R) (c c' : core3 R) :
  linked 1 pre -> Forall left_orth pre -> chained (r1 c) post -> Forall right_orth post -> r1 c' = r1 c -> Core.nn c' = Core.nn c ->
  sum_idx (shape (pre ++ c :: post)) (fun idx => rmul (rsub (entry (pre ++ c :: post) idx) (entry (pre ++ c' :: post) idx))
                                                       (rconj (rsub (entry (pre ++ c :: post) idx) (entry (pre ++ c' :: post) idx))))
  = sum_n (Core.nn c) (fun i => sum_n (endrank 1 pre) (fun p => sum_n (r1 c) (fun q => rmul (rsub (e3 c p i q) (e3 c' p i q)) (rconj (rsub (e3 c p i q) (e3 c' p i q)))))).
Proof. exact (centre_core_error pre post c c'). Qed.
End Gauge.

(* ---- the local step of the AMEn products (Model/Local.v; `_local_AB`, `_compute_phi_fwd_AB`, `_compute_phi_bck_AB` of torchtt/_amen.py are tied to it
   exactly on integer data for the matrix-vector case).  (1) The core the step assigns is the projection of the DENSE product A x on the frame of the
   current approximation y: entry (l,m,L) = < F_y e_(l,m,L), A x >, any order / position / mode sizes / ranks.  (2) In the mixed orthogonal gauge the
   sweeps maintain this projection is orthogonal, and if the exact product is representable on the frame (A x = ypre ++ c :: ypost entry by entry)
   the step returns exactly the core c: once the ranks suffice, a sweep reproduces the exact product. ---- *)
Section AmenLocal.
Context {R : Type} {RO : RingOps R} {RL : RingLaws R}.
Theorem C11_amen_local_update (ypre ypost xpre xpost : tt R) (Apre Apost : ttm R) (ck : core4 R) (xk : core3 R) ra rb l m L :
  length Apre = length ypre -> length xpre = length ypre -> length Apost = length ypost -> length xpost = length ypost ->
  l < ra -> L < rb -> m < mm ck -> Core.nn xk = nm ck ->
  wf (ypre ++ unit3 ra (mm ck) rb l m L :: ypost) -> wf4 (Apre ++ ck :: Apost) -> wf (xpre ++ xk :: xpost) ->
  e3 (local_product (phiF ypre Apre xpre ones3) ck (phiB ypost Apost xpost) xk) l m L
  = sum_idx (shapeM (Apre ++ ck :: Apost)) (fun is_ => sum_idx (shapeN (Apre ++ ck :: Apost)) (fun js =>
      rmul (rmul (rconj (entry (ypre ++ unit3 ra (mm ck) rb l m L :: ypost) is_)) (entry4 (Apre ++ ck :: Apost) is_ js)) (entry (xpre ++ xk :: xpost) js))).
Proof. exact (local_product_galerkin ypre ypost xpre xpost Apre Apost ck xk ra rb l m L). Qed.
Theorem C11_amen_update_exact (ypre ypost xpre xpost : tt R) (Apre Apost : ttm R) (ck : core4 R) (xk c : core3 R) l m L :
  length Apre = length ypre -> length xpre = length ypre -> length Apost = length ypost -> length xpost = length ypost ->
  l < r0 c -> L < r1 c -> m < Core.nn c -> Core.nn xk = nm ck -> Core.nn c = mm ck ->
  shape (ypre ++ c :: ypost) = shapeM (Apre ++ ck :: Apost) ->
  wf (ypre ++ c :: ypost) -> wf4 (Apre ++ ck :: Apost) -> wf (xpre ++ xk :: xpost) ->
  Forall left_orth ypre -> Forall right_orth ypost ->
  (forall is_, length is_ = length (shapeM (Apre ++ ck :: Apost)) -> Forall2 lt is_ (shapeM (Apre ++ ck :: Apost)) ->
     sum_idx (shapeN (Apre ++ ck :: Apost)) (fun js => rmul (entry4 (Apre ++ ck :: Apost) is_ js) (entry (xpre ++ xk :: xpost) js)) = entry (ypre ++ c :: ypost) is_) ->
  e3 (local_product (phiF ypre Apre xpre ones3) ck (phiB ypost Apost xpost) xk) l m L = e3 c l m L.
Proof. exact (amen_update_exact ypre ypost xpre xpost Apre Apost ck xk c l m L). Qed.
End AmenLocal.

(* ---- the two-site supercore of the DMRG products (Model/Local.v `supercore`: W1 x W2 of dmrg_matvec, tied exactly to the first supercore the routine
   decomposes when its QR is stubbed by the identity factorisation).  It is the projection of the dense product A x on the two-site frame of the iterate;
   hence a component of the product that this frame annihilates does not enter the supercore at all - the mechanism behind the recorded finding
   (a guess that is exact on one index block is blind to the complementary block: the sweep can only see it through the random kick columns). ---- *)
Section DmrgSupercore.
Context {R : Type} {RO : RingOps R} {RL : RingLaws R}.
Theorem C11_supercore_galerkin (ypre ypost xpre xpost : tt R) (Apre Apost : ttm R) (c1 c2 : core4 R) (x1 x2 : core3 R) ra rc l m1 m2 L :
  length Apre = length ypre -> length xpre = length ypre -> length Apost = length ypost -> length xpost = length ypost ->
  l < ra -> L < rc -> m1 < mm c1 -> m2 < mm c2 -> Core.nn x1 = nm c1 ->
  wf (ypre ++ unit3 ra (mm c1) 1 l m1 0 :: unit3 1 (mm c2) rc 0 m2 L :: ypost) -> wf4 (Apre ++ c1 :: c2 :: Apost) -> wf (xpre ++ x1 :: x2 :: xpost) ->
  supercore (phiF ypre Apre xpre ones3) c1 x1 c2 x2 (phiB ypost Apost xpost) l m1 m2 L
  = sum_idx (shapeM (Apre ++ c1 :: c2 :: Apost)) (fun is_ => sum_idx (shapeN (Apre ++ c1 :: c2 :: Apost)) (fun js =>
      rmul (rmul (rconj (entry (ypre ++ unit3 ra (mm c1) 1 l m1 0 :: unit3 1 (mm c2) rc 0 m2 L :: ypost) is_)) (entry4 (Apre ++ c1 :: c2 :: Apost) is_ js))
           (entry (xpre ++ x1 :: x2 :: xpost) js))).
Proof. exact (supercore_galerkin ypre ypost xpre xpost Apre Apost c1 c2 x1 x2 ra rc l m1 m2 L). Qed.
Theorem C11_supercore_blind_component (ypre ypost xpre xpost : tt R) (Apre Apost : ttm R) (c1 c2 : core4 R) (x1 x2 : core3 R) ra rc l m1 m2 L (u v : list nat -> R) :
  length Apre = length ypre -> length xpre = length ypre -> length Apost = length ypost -> length xpost = length ypost ->
  l < ra -> L < rc -> m1 < mm c1 -> m2 < mm c2 -> Core.nn x1 = nm c1 ->
  wf (ypre ++ unit3 ra (mm c1) 1 l m1 0 :: unit3 1 (mm c2) rc 0 m2 L :: ypost) -> wf4 (Apre ++ c1 :: c2 :: Apost) -> wf (xpre ++ x1 :: x2 :: xpost) ->
  (forall is_, length is_ = length (shapeM (Apre ++ c1 :: c2 :: Apost)) -> Forall2 lt is_ (shapeM (Apre ++ c1 :: c2 :: Apost)) ->
     sum_idx (shapeN (Apre ++ c1 :: c2 :: Apost)) (fun js => rmul (entry4 (Apre ++ c1 :: c2 :: Apost) is_ js) (entry (xpre ++ x1 :: x2 :: xpost) js)) = radd (u is_) (v is_)) ->
  sum_idx (shapeM (Apre ++ c1 :: c2 :: Apost)) (fun is_ => rmul (rconj (entry (ypre ++ unit3 ra (mm c1) 1 l m1 0 :: unit3 1 (mm c2) rc 0 m2 L :: ypost) is_)) (v is_)) = rO ->
  supercore (phiF ypre Apre xpre ones3) c1 x1 c2 x2 (phiB ypost Apost xpost) l m1 m2 L
  = sum_idx (shapeM (Apre ++ c1 :: c2 :: Apost)) (fun is_ => rmul (rconj (entry (ypre ++ unit3 ra (mm c1) 1 l m1 0 :: unit3 1 (mm c2) rc 0 m2 L :: ypost) is_)) (u is_)).
Proof. exact (supercore_blind_component ypre ypost xpre xpost Apre Apost c1 c2 x1 x2 ra rc l m1 m2 L u v). Qed.
End DmrgSupercore.

(* ---- operator-operator products (amen_mm): Model/Local.v phi_fwd4 / phi_bck4 / local_AB, tied exactly to `_compute_phi_fwd_AB`, `_compute_phi_bck_AB`,
   `_local_AB` for column modes of any size.  The core the step assigns is the projection of the DENSE product A B on the frame of the approximation X:
   the frame element carries the cores of X outside position k, the unit core (r, m, R) with column index n at position k, and is paired with A B column
   multi-index by column multi-index (js1 before position k, n at it, js2 after). ---- *)
Section AmenMM.
Context {R : Type} {RO : RingOps R} {RL : RingLaws R}.
Theorem C11_amen_mm_local_update (Xpre Xpost Apre Apost Bpre Bpost : ttm R) (ck bk : core4 R) ra rb r m n R0 :
  length Apre = length Xpre -> length Bpre = length Xpre -> length Apost = length Xpost -> length Bpost = length Xpost ->
  r < ra -> R0 < rb -> m < mm ck -> n < nm bk -> mm bk = nm ck ->
  wf4 (Xpre ++ unit4 ra (mm ck) (nm bk) rb r m n R0 :: Xpost) -> wf4 (Apre ++ ck :: Apost) -> wf4 (Bpre ++ bk :: Bpost) ->
  e4 (local_AB (phiF4 Xpre Apre Bpre ones3) ck bk (phiB4 Xpost Apost Bpost) ra rb) r m n R0
  = sum_idx (shapeN Bpre) (fun js1 => sum_idx (shapeN Bpost) (fun js2 =>
      sum_idx (shapeM (Apre ++ ck :: Apost)) (fun is_ => sum_idx (shapeN (Apre ++ ck :: Apost)) (fun ks =>
        rmul (rmul (rconj (entry (cols Xpre js1 ++ unit3 ra (mm ck) rb r m R0 :: cols Xpost js2) is_)) (entry4 (Apre ++ ck :: Apost) is_ ks))
             (entry4 (Bpre ++ bk :: Bpost) ks (js1 ++ n :: js2)))))).
Proof. exact (local_AB_galerkin Xpre Xpost Apre Apost Bpre Bpost ck bk ra rb r m n R0). Qed.
End AmenMM.

(* the hypotheses of C11_amen_update_exact are satisfiable: y = x = [Q; c] with Q the 1 x 2 x 2 core whose slices are the rows of the identity
   (a left-orthogonal core), c = [[3],[5]; [-2],[7]], A the identity operator *)
Example C11_amen_update_exact_instance :
  let Q := mk3 1 2 2 (fun _ i q => if Nat.eqb i q then 1%Z else 0%Z) in
  let c := mk3 2 2 1 (fun p i _ => nth (p * 2 + i) [3; 5; -2; 7]%Z 0%Z) in
  let I2 := eye_core (R:=Z) 2 in
  Forall left_orth [Q] /\ wf ([Q] ++ c :: []) /\ wf4 ([I2] ++ I2 :: []) /\
  (forall is_, length is_ = 2 -> Forall2 lt is_ [2; 2] ->
     sum_idx [2; 2] (fun js => rmul (entry4 [I2; I2] is_ js) (entry [Q; c] js)) = entry [Q; c] is_) /\
  map (fun lm => e3 (local_product (phiF [Q] [I2] [Q] ones3) I2 (phiB [] [] []) c) (fst lm) (snd lm) 0) [(0,0); (0,1); (1,0); (1,1)] = [3; 5; -2; 7]%Z.
Proof.
  cbv zeta. split; [|split; [|split; [|split]]].
  - constructor; [|constructor]. intros p q Hp Hq. cbn [r1 nn r0] in *.
    destruct p as [|[|p]]; destruct q as [|[|q]]; try lia; vm_compute; reflexivity.
  - split; [discriminate|]. cbn. auto.
  - split; [discriminate|]. cbn. auto.
  - intros is_ Hl HF. destruct is_ as [|i [|j [|? ?]]]; try discriminate.
    inversion HF as [|? ? ? ? Hi HF']; subst. inversion HF' as [|? ? ? ? Hj _]; subst.
    destruct i as [|[|i]]; destruct j as [|[|j]]; try lia; vm_compute; reflexivity.
  - vm_compute. reflexivity.
Qed.

Print Assumptions C11_dmrg_last_allowance.
Print Assumptions C11_dmrg_bond_rank_le.
Print Assumptions C11_sweep_budget.
Print Assumptions C11_norm2_centre_core.
Print Assumptions C11_centre_core_error.
Print Assumptions C11_amen_local_update.
Print Assumptions C11_amen_update_exact.
Print Assumptions C11_supercore_galerkin.
Print Assumptions C11_supercore_blind_component.
Print Assumptions C11_amen_mm_local_update.
