(* C11 - DMRG and AMEn products: the decisions that are logic (truncation thresholds, rank clamps).  The a-priori accuracy of
   the randomised alternating iteration is NOT a theorem (partial, see DESIGN.md); it is measured by the check.
   Only theorem statements closed by `exact`, each followed by Print Assumptions. *)
From Coq Require Import List Arith.
From TT Require Import RingSig SumN Mat Core OrdRing RankChop RankChopP Skel SkelP FrobP OrthP GaugeP.
Import ListNotations.
Section C11.
Context {T : Type} {OO : OrdOps T} {OL : OrdLaws T}.
(* the truncation of the final sweep, threshold eps/sqrt(d) * ||supercore||: d * discarded <= eps^2 ||supercore||^2 at
   each of the d-1 bonds (ties included), so the final truncation moves the iterate by less than eps *)
Theorem C11_dmrg_last_allowance d (q : list T) pos eps2 : q <> [] -> Forall (ole oz) q -> ole oz eps2 ->
  let r := rank_chop (map (omul (ofnat d)) q) pos (omul eps2 (sumT q)) in
  ole (omul (ofnat d) (discarded q r)) (omul eps2 (sumT q)).
Proof. exact (dmrg_last_allowance d q pos eps2). Qed.
(* the rank kept at a bond never exceeds the number of singular values nor rmax *)
Theorem C11_dmrg_bond_rank_le d last (q : list T) pos eps2 rmax : q <> [] ->
  (dmrg_bond_rank d last q pos eps2 rmax <= length q)%nat /\ (dmrg_bond_rank d last q pos eps2 rmax <= rmax)%nat.
Proof. exact (dmrg_bond_rank_le d last q pos eps2 rmax). Qed.
(* the allowances of a whole sweep add up (same budget theorem as the TT-SVD, with d in place of d-1) *)
Theorem C11_sweep_budget dm1 pos eps2 (qs : list (list T)) rs q1 qt : qs = q1 :: qt ->
  Forall (fun q => q <> [] /\ Forall (ole oz) q) qs -> ole oz eps2 ->
  unbounded_ranks dm1 pos eps2 qs rs -> energy_chain qs rs ->
  ole (omul (ofnat dm1) (sweep_discarded qs rs)) (omul (ofnat (length qs)) (omul eps2 (sumT q1))).
Proof. exact (sweep_budget dm1 pos eps2 qs rs q1 qt). Qed.
End C11.
(* ---- why truncating the small (super)core truncates the tensor by the same amount: in the mixed orthogonal gauge the DMRG / AMEn sweeps
   maintain (orthonormal left unfoldings before the centre, orthonormal right unfoldings after it), the squared norm of the train is the
   squared norm of the centre core, and replacing the centre core by any other core - e.g. the product of its truncated SVD factors - moves
   the tensor by exactly the Frobenius distance of the two cores.  Any order, sizes, ranks; real and complex. ---- *)
Section Gauge.
Context {R : Type} {RO : RingOps R} {RL : RingLaws R}.
Theorem C11_norm2_centre_core (pre post : tt R) (c : core3 R) : linked 1 pre -> Forall left_orth pre -> chained (r1 c) post -> Forall right_orth post ->
  sum_idx (shape (pre ++ c :: post)) (fun idx => rmul (entry (pre ++ c :: post) idx) (rconj (entry (pre ++ c :: post) idx)))
  = sum_n (Core.nn c) (fun i => sum_n (endrank 1 pre) (fun p => sum_n (r1 c) (fun q => rmul (e3 c p i q) (rconj (e3 c p i q))))).
Proof. exact (norm2_centre_core pre post c). Qed.
Theorem C11_centre_core_error (pre post : tt R) (c c' : core3 R) :
  linked 1 pre -> Forall left_orth pre -> chained (r1 c) post -> Forall right_orth post -> r1 c' = r1 c -> Core.nn c' = Core.nn c ->
  sum_idx (shape (pre ++ c :: post)) (fun idx => rmul (rsub (entry (pre ++ c :: post) idx) (entry (pre ++ c' :: post) idx))
                                                       (rconj (rsub (entry (pre ++ c :: post) idx) (entry (pre ++ c' :: post) idx))))
  = sum_n (Core.nn c) (fun i => sum_n (endrank 1 pre) (fun p => sum_n (r1 c) (fun q => rmul (rsub (e3 c p i q) (e3 c' p i q)) (rconj (rsub (e3 c p i q) (e3 c' p i q)))))).
Proof. exact (centre_core_error pre post c c'). Qed.
End Gauge.

Print Assumptions C11_dmrg_last_allowance.
Print Assumptions C11_dmrg_bond_rank_le.
Print Assumptions C11_sweep_budget.
Print Assumptions C11_norm2_centre_core.
Print Assumptions C11_centre_core_error.
