(* C05 - Every reachable TT object is structurally well formed.
   Only theorem statements closed by `exact`, each followed by Print Assumptions. *)
From Coq Require Import List Arith.
From TT Require Import Core Meta MetaP.
Import ListNotations.

(* the constructor from a core list validates the chaining / boundary ranks / 3-d-xor-4-d and derives N, M, R, shape,
   is_ttm that describe exactly those cores *)
Theorem C05_ctor_wf cs o : ctor cs = inr o -> wf_obj o = true.
Proof. exact (ctor_wf cs o). Qed.

(* in-place replacement of a core (set_core, as repaired: shape is refreshed) keeps the object well formed *)
Theorem C05_set_core_wf (x : obj) k c old id :
  wf_obj x = true -> nth_error (map fst (ocores x)) k = Some old ->
  cs_left c = cs_left old -> cs_right c = cs_right old -> is4 c = is4 old ->
  let cs' := upd_nth k (c, id) (ocores x) in
  let fN' := upd_nth k (cs_n c) (fN x) in
  let fM' := if fttm x then upd_nth k (cs_m c) (fM x) else fM x in
  wf_obj (mkObj cs' (fttm x) fM' fN' (fR x) (if fttm x then ShM (combine fM' fN') else ShT fN')) = true.
Proof. exact (set_core_wf x k c old id). Qed.

(* reduce_dims(exclude), shape level: for every well formed object and every exclusion list the surviving cores chain,
   keep the boundary ranks 1 and the kind (left / right absorption, carries across several removed cores, everything removed) *)
Theorem C05_rd_sh_wf (x : obj) excl : wf_obj x = true -> wf_sh (fttm x) (rd_sh 0 (shapes x) None [] excl) = true.
Proof. exact (rd_sh_wf x excl). Qed.

(* one call (any of: + - * ** @ t scalar clone to_ttm round/rerank, any constructor / factory / solver result,
   set_core, reduce_dims) keeps every object of the pool well formed - no side condition *)
Theorem C05_step_wf st c : WFpool st -> WFpool (step st c).
Proof. exact (step_wf_all st c). Qed.

(* any finite sequence of calls, starting from nothing: every object in existence is well formed *)
Theorem C05_reachable_wf cs : WFpool (run init cs).
Proof. exact (reachable_wf_all cs). Qed.

Print Assumptions C05_ctor_wf.
Print Assumptions C05_set_core_wf.
Print Assumptions C05_rd_sh_wf.
Print Assumptions C05_step_wf.
Print Assumptions C05_reachable_wf.
