(* C13 - Elementwise division: scalar division is exact (a ring identity); amen_divide shares the rank search of the solver.
   Convergence of the sweeps is NOT a theorem (partial).
   Only theorem statements closed by `exact`, each followed by Print Assumptions. *)
From Coq Require Import List Arith.
From TT Require Import RingSig SumN Mat Core Arith CoreP ArithP MatOps MatOpsP Skel SkelP.
Import ListNotations.
Section C13.
Context {R : Type} {RO : RingOps R} {RL : RingLaws R}.
Open Scope R_scope.
(* x / s for a scalar s: multiplying the result back by s gives x, entry for entry, exactly *)
Theorem C13_div_scalar_exact (x : tt R) s sinv idx : x <> [] -> length idx = length x -> s * sinv = 1 ->
  s * entry (div_scalar x sinv) idx = entry x idx.
Proof. exact (div_scalar_full x s sinv idx). Qed.
(* q * y for TT tensors is the entrywise product: the residual q*y - x measured by the check is the dense one *)
Theorem C13_mul_full (q y : tt R) idx : wf q -> wf y -> length y = length q -> length idx = length q ->
  entry (mul q y) idx = entry q idx * entry y idx.
Proof. exact (mul_full q y idx). Qed.
End C13.
Theorem C13_rank_search_spec ok n : 1 <= n ->
  let r := rank_search ok n in
  1 <= r <= n /\ (forall j, r <= j < n -> ok j = true) /\ (r <= 2 \/ ok (r - 1) = false).
Proof. exact (rank_search_spec ok n). Qed.
Print Assumptions C13_div_scalar_exact.
Print Assumptions C13_mul_full.
Print Assumptions C13_rank_search_spec.
