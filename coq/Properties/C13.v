(* C13 - Elementwise division: scalar division is exact (a ring identity); amen_divide shares the rank search of the solver.
   Convergence of the sweeps is NOT a theorem (partial).
   Only theorem statements closed by `exact`, each followed by Print Assumptions. *)
From Coq Require Import List Arith.
From TT Require Import RingSig SumN Mat Core Arith CoreP ArithP MatOps MatOpsP Skel SkelP Struct Local LocalP StationaryP.
Import ListNotations.
Section C13.
Context {R : Type} {RO : RingOps R} {RL : RingLaws R}.
Open Scope R_scope.
(* x / s for a scalar s: multiplying the result back by s gives x, entry for entry, exactly *)
Theorem C13_div_scalar_exact (x : tt R) s sinv idx : x <> [] -> length idx = length x -> s * sinv = 1 ->
  s * entry (div_scalar x sinv) idx = entry x idx.
Proof. exact (div_scalar_full x s sinv idx). Qed.
(* q * y for TT tensors is the entrywise product: the residual q*y - x measured by the check is the dense one *)
Theorem C13_mul_full (q y : tt R) idx : wf q -> wf y -> length y = length q -> length idx = length q ->
  entry (mul q y) idx = entry q idx * entry y idx.
Proof. exact (mul_full q y idx). Qed.
End C13.
Theorem C13_rank_search_spec ok n : 1 <= n ->
  let r := rank_search ok n in
  1 <= r <= n /\ (forall j, r <= j < n -> ok j = true) /\ (r <= 2 \/ ok (r - 1) = false).
Proof. exact (rank_search_spec ok n). Qed.
(* the local operator of the division at ANY position (Model/Local.v with the divisor's cores as a diagonal operator; the interface recursions of
   torchtt/_division.py are tied to it exactly over Gaussian integers): it is the projection of the entrywise product with y on the frame of the
   current quotient - sum_i conj(F e1 [i]) y[i] F e2 [i] - for every order, position, mode sizes and rank profile, real and complex *)
Theorem C13_division_local_dense {R : Type} {RO : RingOps R} {RL : RingLaws R} (pre post ypre ypost : tt R) (yk : core3 R) ra rb l0 m0 L0 r0' n0 R0 :
  length ypre = length pre -> length ypost = length post ->
  l0 < ra -> r0' < ra -> L0 < rb -> R0 < rb -> m0 < nn yk -> n0 < nn yk ->
  wf (pre ++ unit3 ra (nn yk) rb l0 m0 L0 :: post) -> wf (ypre ++ yk :: ypost) -> wf (pre ++ unit3 ra (nn yk) rb r0' n0 R0 :: post) ->
  chained rb post -> chained (r1 yk) ypost ->
  local_mat (phiF pre (diag_tt ypre) pre ones3) (diag_core yk) (phiB post (diag_tt ypost) post) l0 m0 L0 r0' n0 R0
  = sum_idx (shape (ypre ++ yk :: ypost)) (fun is_ =>
      rmul (rmul (rconj (entry (pre ++ unit3 ra (nn yk) rb l0 m0 L0 :: post) is_)) (entry (ypre ++ yk :: ypost) is_))
           (entry (pre ++ unit3 ra (nn yk) rb r0' n0 R0 :: post) is_)).
Proof. exact (division_local_dense pre post ypre ypost yk ra rb l0 m0 L0 r0' n0 R0). Qed.
(* an exact quotient is STATIONARY for amen_divide: if q * y = x entry by entry, the k-th core of q satisfies the k-th local system
   (operator diag(y) projected on the frame of q, right-hand side x projected on the same frame) exactly - every position, order, mode sizes,
   rank profile, real and complex; and the hypotheses are met by every well-formed pair (q, y) with x := q * y as TT product *)
Theorem C13_exact_quotient_stationary {R : Type} {RO : RingOps R} {RL : RingLaws R} (pre post ypre ypost xpre xpost : tt R) (g yk xk : core3 R) l m L :
  length ypre = length pre -> length xpre = length pre -> length ypost = length post -> length xpost = length post ->
  l < r0 g -> L < r1 g -> m < nn yk -> nn g = nn yk -> nn xk = nn yk ->
  shape (xpre ++ xk :: xpost) = shape (ypre ++ yk :: ypost) ->
  wf (pre ++ g :: post) -> wf (ypre ++ yk :: ypost) -> wf (xpre ++ xk :: xpost) ->
  (forall is_, length is_ = length (shape (ypre ++ yk :: ypost)) -> Forall2 lt is_ (shape (ypre ++ yk :: ypost)) ->
     rmul (entry (pre ++ g :: post) is_) (entry (ypre ++ yk :: ypost) is_) = entry (xpre ++ xk :: xpost) is_) ->
  e3 (local_product (phiF pre (diag_tt ypre) pre ones3) (diag_core yk) (phiB post (diag_tt ypost) post) g) l m L
  = e3 (local_rhs (phibF xpre pre ones2) xk (phibB xpost post) (r0 g) (r1 g)) l m L.
Proof. exact (exact_quotient_stationary pre post ypre ypost xpre xpost g yk xk l m L). Qed.
Theorem C13_product_quotient_stationary {R : Type} {RO : RingOps R} {RL : RingLaws R} (pre post ypre ypost : tt R) (g yk : core3 R) l m L :
  length ypre = length pre -> length ypost = length post ->
  l < r0 g -> L < r1 g -> m < nn yk -> nn g = nn yk ->
  shape (pre ++ g :: post) = shape (ypre ++ yk :: ypost) ->
  wf (pre ++ g :: post) -> wf (ypre ++ yk :: ypost) ->
  e3 (local_product (phiF pre (diag_tt ypre) pre ones3) (diag_core yk) (phiB post (diag_tt ypost) post) g) l m L
  = e3 (local_rhs (phibF (mul pre ypre) pre ones2) (mul_core g yk) (phibB (mul post ypost) post) (r0 g) (r1 g)) l m L.
Proof. exact (product_quotient_stationary pre post ypre ypost g yk l m L). Qed.
Print Assumptions C13_div_scalar_exact.
Print Assumptions C13_mul_full.
Print Assumptions C13_rank_search_spec.
Print Assumptions C13_division_local_dense.
Print Assumptions C13_exact_quotient_stationary.
Print Assumptions C13_product_quotient_stationary.
