(* C02 - Rounding never exceeds eps, never raises a rank, and leaves its operand intact.
   Only theorem statements closed by `exact`, each followed by Print Assumptions. *)
From Coq Require Import List Arith ZArith.
From TT Require Import RingSig SumN Mat Core OrdRing RankChop RankChopP FrobP Sweep SweepP OrthP GaugeP.
Import ListNotations.

Section C02.
Context {T : Type} {OO : OrdOps T} {OL : OrdLaws T}.

(* the rank selected at one bond: at least 1, at most the number of singular values (= min of the unfolding sizes,
   hence at most the rank of x at that bond), at most rmax *)
Theorem C02_bond_rank_le dm1 (q : list T) pos eps2 rmax : q <> [] ->
  (1 <= bond_rank dm1 q pos eps2 rmax \/ rmax = 0)%nat /\ (bond_rank dm1 q pos eps2 rmax <= length q)%nat
  /\ (bond_rank dm1 q pos eps2 rmax <= rmax)%nat.
Proof. exact (bond_rank_le dm1 q pos eps2 rmax). Qed.

(* the orthogonalisation sweep does not raise a rank either *)
Theorem C02_qr_ranks_le ns r rs : Forall2 le (qr_ranks r ns rs) rs.
Proof. exact (qr_ranks_le ns r rs). Qed.

(* threshold eps/sqrt(d-1) * ||S|| at every bond: (d-1) * discarded <= eps^2 * ||x||^2 per bond, ties included ... *)
Theorem C02_bond_allowance dm1 (q : list T) pos eps2 : q <> [] -> Forall (ole oz) q -> ole oz eps2 ->
  let r := rank_chop (map (omul (ofnat dm1)) q) pos (omul eps2 (sumT q)) in
  ole (omul (ofnat dm1) (discarded q r)) (omul eps2 (sumT q)).
Proof. exact (bond_allowance dm1 q pos eps2). Qed.

(* ... and over the whole right-to-left sweep (any number of bonds, any spectra) the allowances add up to eps^2 ||x||^2 *)
Theorem C02_sweep_budget dm1 pos eps2 (qs : list (list T)) rs q1 qt : qs = q1 :: qt ->
  Forall (fun q => q <> [] /\ Forall (ole oz) q) qs -> ole oz eps2 ->
  unbounded_ranks dm1 pos eps2 qs rs -> energy_chain qs rs ->
  ole (omul (ofnat dm1) (sweep_discarded qs rs)) (omul (ofnat (length qs)) (omul eps2 (sumT q1))).
Proof. exact (sweep_budget dm1 pos eps2 qs rs q1 qt). Qed.

(* an exactly-low-rank tensor stored with inflated ranks: the surplus singular values are zero and are all dropped
   (no singular value is kept that the tolerance did not need); a zero tensor comes back with rank 1 *)
Theorem C02_rank_chop_minimal (q : list T) thr2 : q <> [] -> oleb (sumT q) oz = false ->
  let r := rank_chop q true thr2 in r = 1%nat \/ ole thr2 (discarded q (r - 1)).
Proof. exact (rank_chop_minimal q thr2). Qed.
Theorem C02_rank_chop_zero (q : list T) pos thr2 : ole (sumT q) oz -> rank_chop q pos thr2 = 1%nat.
Proof. exact (rank_chop_zero q pos thr2). Qed.

End C02.

(* ---- the sweep at matrix level, in exact arithmetic (commutative ring with involution: real and complex data) ---- *)
Section C02_sweep.
Context {R : Type} {RO : RingOps R} {RL : RingLaws R}.

(* one truncation step: for U with orthonormal columns, B = U^H C, and ANY later approximation Bh of B:
   || C - U Bh ||^2 = || C - U B ||^2 + || B - Bh ||^2   (Pythagoras; nothing is lost or counted twice) *)
Theorem C02_stage_error m r n (U C Bh : mat R) : orth m r U ->
  let B := mmul m (adj U) C in
  frob2 m n (msub C (mmul r U Bh)) = radd (frob2 m n (msub C (mmul r U B))) (frob2 r n (msub B Bh)).
Proof. exact (stage_error m r n U C Bh). Qed.

(* the whole sweep, any number of bonds and any mode sizes: the squared error of the reconstruction is EXACTLY the sum of the
   energies discarded at the bonds *)
Theorem C02_sweep_error_eq (ss : list (stage R)) C : stages_ok ss -> orth_stages ss ->
  match ss with
  | [] => True
  | s :: _ => frob2 (sm s) (sn s * sq s) (msub C (approx ss C)) = disc_total ss C
  end.
Proof. exact (sweep_error_eq ss C). Qed.

(* THE ERROR BOUND: exact truncated SVDs at every bond (spectrum_link), ranks chosen by rank_chop with the threshold
   eps/sqrt(dm1)*||remainder|| (ties included, no rmax binding):  dm1 * ||C - reconstruction||^2 <= #bonds * eps^2 * ||C||^2,
   i.e. for #bonds = dm1 = d-1 the relative error is at most eps - for every order, all mode sizes (1 included), every spectrum *)
Theorem C02_tt_svd_error_bound (leb : R -> R -> bool) {OL : @OrdLaws R (OO_of_ring leb)}
  dm1 pos eps2 (ss : list (stage R)) (qs : list (list R)) (C : mat R) s0 st :
  ss = s0 :: st -> stages_ok ss -> orth_stages ss -> spectrum_link leb ss qs C ->
  Forall (fun q => q <> [] /\ Forall (@ole R (OO_of_ring leb) (@oz R (OO_of_ring leb))) q) qs -> @ole R (OO_of_ring leb) (@oz R (OO_of_ring leb)) eps2 ->
  unbounded_ranks (OO := OO_of_ring leb) dm1 pos eps2 qs (map (@sr R) ss) ->
  @ole R (OO_of_ring leb) (rmul (@ofnat R (OO_of_ring leb) dm1) (frob2 (sm s0) (sn s0 * sq s0) (msub C (approx ss C))))
      (rmul (@ofnat R (OO_of_ring leb) (length ss)) (rmul eps2 (frob2 (sm s0) (sn s0 * sq s0) C))).
Proof. exact (tt_svd_error_bound leb dm1 pos eps2 ss qs C s0 st). Qed.
(* ---- tensor level: why the small matrices of the rounding sweep speak for the whole tensor.  After the left-to-right QR sweep every
   core but the last has an orthonormal left unfolding; then (a) the squared norm of the tensor is the squared norm of the last core -
   the first spectrum carries ||x|| - and (b) replacing the last core by ANY other core (its truncated SVD in particular) changes the
   tensor by exactly the Frobenius distance of the two cores: the discarded energy of the small matrix IS the squared error of the tensor.
   Any order, mode sizes and ranks; real and complex. ---- *)
Theorem C02_norm2_last_core (pre : tt R) (c : core3 R) : linked 1 pre -> Forall left_orth pre -> r1 c = 1%nat ->
  sum_idx (shape (pre ++ (c :: nil))) (fun idx => rmul (entry (pre ++ (c :: nil)) idx) (rconj (entry (pre ++ (c :: nil)) idx)))
  = sum_n (Core.nn c) (fun i => sum_n (endrank 1 pre) (fun p => rmul (e3 c p i 0%nat) (rconj (e3 c p i 0%nat)))).
Proof. exact (norm2_last_core pre c). Qed.
Theorem C02_last_core_error (pre : tt R) (c c' : core3 R) : linked 1 pre -> Forall left_orth pre -> r1 c = 1%nat -> r1 c' = 1%nat -> Core.nn c' = Core.nn c ->
  sum_idx (shape (pre ++ (c :: nil))) (fun idx => rmul (rsub (entry (pre ++ (c :: nil)) idx) (entry (pre ++ (c' :: nil)) idx)) (rconj (rsub (entry (pre ++ (c :: nil)) idx) (entry (pre ++ (c' :: nil)) idx))))
  = sum_n (Core.nn c) (fun i => sum_n (endrank 1 pre) (fun p => rmul (rsub (e3 c p i 0%nat) (e3 c' p i 0%nat)) (rconj (rsub (e3 c p i 0%nat) (e3 c' p i 0%nat))))).
Proof. exact (last_core_error pre c c'). Qed.
(* the general step of the sweep: a train in mixed gauge (orthonormal left unfoldings before the core, orthonormal right unfoldings after it):
   its squared norm is that of the centre core, and replacing the centre core by any other one moves the tensor by exactly their distance *)
Theorem C02_norm2_centre_core (pre post : tt R) (c : core3 R) : linked 1 pre -> Forall left_orth pre -> chained (r1 c) post -> Forall right_orth post ->
  sum_idx (shape (pre ++ c :: post)) (fun idx => rmul (entry (pre ++ c :: post) idx) (rconj (entry (pre ++ c :: post) idx)))
  = sum_n (Core.nn c) (fun i => sum_n (endrank 1 pre) (fun p => sum_n (r1 c) (fun q => rmul (e3 c p i q) (rconj (e3 c p i q))))).
Proof. exact (norm2_centre_core pre post c). Qed.
Theorem C02_centre_core_error (pre post : tt R) (c c' : core3 R) :
  linked 1 pre -> Forall left_orth pre -> chained (r1 c) post -> Forall right_orth post -> r1 c' = r1 c -> Core.nn c' = Core.nn c ->
  sum_idx (shape (pre ++ c :: post)) (fun idx => rmul (rsub (entry (pre ++ c :: post) idx) (entry (pre ++ c' :: post) idx))
                                                       (rconj (rsub (entry (pre ++ c :: post) idx) (entry (pre ++ c' :: post) idx))))
  = sum_n (Core.nn c) (fun i => sum_n (endrank 1 pre) (fun p => sum_n (r1 c) (fun q => rmul (rsub (e3 c p i q) (e3 c' p i q)) (rconj (rsub (e3 c p i q) (e3 c' p i q)))))).
Proof. exact (centre_core_error pre post c c'). Qed.
End C02_sweep.

Print Assumptions C02_bond_rank_le.
Print Assumptions C02_qr_ranks_le.
Print Assumptions C02_bond_allowance.
Print Assumptions C02_sweep_budget.
Print Assumptions C02_rank_chop_minimal.
Print Assumptions C02_rank_chop_zero.
Print Assumptions C02_stage_error.
Print Assumptions C02_sweep_error_eq.
Print Assumptions C02_tt_svd_error_bound.
Print Assumptions C02_norm2_last_core.
Print Assumptions C02_last_core_error.
Print Assumptions C02_norm2_centre_core.
Print Assumptions C02_centre_core_error.
