(* C02 - Rounding never exceeds eps, never raises a rank, and leaves its operand intact.
   Only theorem statements closed by `exact`, each followed by Print Assumptions. *)
From Coq Require Import List Arith ZArith.
From TT Require Import OrdRing RankChop RankChopP.
Import ListNotations.

Section C02.
Context {T : Type} {OO : OrdOps T} {OL : OrdLaws T}.

(* the rank selected at one bond: at least 1, at most the number of singular values (= min of the unfolding sizes,
   hence at most the rank of x at that bond), at most rmax *)
Theorem C02_bond_rank_le dm1 (q : list T) pos eps2 rmax : q <> [] ->
  (1 <= bond_rank dm1 q pos eps2 rmax \/ rmax = 0)%nat /\ (bond_rank dm1 q pos eps2 rmax <= length q)%nat
  /\ (bond_rank dm1 q pos eps2 rmax <= rmax)%nat.
Proof. exact (bond_rank_le dm1 q pos eps2 rmax). Qed.

(* the orthogonalisation sweep does not raise a rank either *)
Theorem C02_qr_ranks_le ns r rs : Forall2 le (qr_ranks r ns rs) rs.
Proof. exact (qr_ranks_le ns r rs). Qed.

(* threshold eps/sqrt(d-1) * ||S|| at every bond: (d-1) * discarded <= eps^2 * ||x||^2 per bond, ties included ... *)
Theorem C02_bond_allowance dm1 (q : list T) pos eps2 : q <> [] -> Forall (ole oz) q -> ole oz eps2 ->
  let r := rank_chop (map (omul (ofnat dm1)) q) pos (omul eps2 (sumT q)) in
  ole (omul (ofnat dm1) (discarded q r)) (omul eps2 (sumT q)).
Proof. exact (bond_allowance dm1 q pos eps2). Qed.

(* ... and over the whole right-to-left sweep (any number of bonds, any spectra) the allowances add up to eps^2 ||x||^2 *)
Theorem C02_sweep_budget dm1 pos eps2 (qs : list (list T)) rs q1 qt : qs = q1 :: qt ->
  Forall (fun q => q <> [] /\ Forall (ole oz) q) qs -> ole oz eps2 ->
  unbounded_ranks dm1 pos eps2 qs rs -> energy_chain qs rs ->
  ole (omul (ofnat dm1) (sweep_discarded qs rs)) (omul (ofnat (length qs)) (omul eps2 (sumT q1))).
Proof. exact (sweep_budget dm1 pos eps2 qs rs q1 qt). Qed.

(* an exactly-low-rank tensor stored with inflated ranks: the surplus singular values are zero and are all dropped
   (no singular value is kept that the tolerance did not need); a zero tensor comes back with rank 1 *)
Theorem C02_rank_chop_minimal (q : list T) thr2 : q <> [] -> oleb (sumT q) oz = false ->
  let r := rank_chop q true thr2 in r = 1%nat \/ ole thr2 (discarded q (r - 1)).
Proof. exact (rank_chop_minimal q thr2). Qed.
Theorem C02_rank_chop_zero (q : list T) pos thr2 : ole (sumT q) oz -> rank_chop q pos thr2 = 1%nat.
Proof. exact (rank_chop_zero q pos thr2). Qed.

End C02.
Print Assumptions C02_bond_rank_le.
Print Assumptions C02_qr_ranks_le.
Print Assumptions C02_bond_allowance.
Print Assumptions C02_sweep_budget.
Print Assumptions C02_rank_chop_minimal.
Print Assumptions C02_rank_chop_zero.
