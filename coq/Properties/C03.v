(* C03 - TT-tensor arithmetic equals dense arithmetic entry for entry.
   Only theorem statements closed by `exact`, each followed by Print Assumptions. *)
From Coq Require Import List Arith.
From TT Require Import RingSig SumN Mat Dense Core Arith CoreP ArithP.
Import ListNotations.

Section C03.
Context {R : Type} {RO : RingOps R} {RL : RingLaws R}.
Open Scope R_scope.

Theorem C03_add_full (x y : tt R) idx :
  wf x -> wf y -> length y = length x -> length idx = length x ->
  entry (add x y) idx = entry x idx + entry y idx.
Proof. exact (add_full x y idx). Qed.

Theorem C03_sub_full (x y : tt R) idx :
  wf x -> wf y -> length y = length x -> length idx = length x ->
  entry (sub x y) idx = entry x idx - entry y idx.
Proof. exact (sub_full x y idx). Qed.

Theorem C03_mul_full (x y : tt R) idx :
  wf x -> wf y -> length y = length x -> length idx = length x ->
  entry (mul x y) idx = entry x idx * entry y idx.
Proof. exact (mul_full x y idx). Qed.

Theorem C03_add_bcast_full (x y : tt R) idx :
  wf x -> wf y -> bcast_ok (shape x) y = true -> length idx = length x ->
  entry (add_bcast x y) idx = entry x idx + entry y (bcast_idx (shape x) y idx).
Proof. exact (add_bcast_full x y idx). Qed.

Theorem C03_sub_bcast_full (x y : tt R) idx :
  wf x -> wf y -> bcast_ok (shape x) y = true -> length idx = length x ->
  entry (sub_bcast x y) idx = entry x idx - entry y (bcast_idx (shape x) y idx).
Proof. exact (sub_bcast_full x y idx). Qed.

Theorem C03_mul_bcast_full (x y : tt R) idx :
  wf x -> wf y -> bcast_ok (shape x) y = true -> length idx = length x ->
  entry (mul_bcast x y) idx = entry x idx * entry y (bcast_idx (shape x) y idx).
Proof. exact (mul_bcast_full x y idx). Qed.

Theorem C03_add_scalar_full (x : tt R) s idx : wf x -> length idx = length x ->
  entry (add_scalar x s) idx = entry x idx + s.
Proof. exact (add_scalar_full x s idx). Qed.

Theorem C03_sub_scalar_full (x : tt R) s idx : wf x -> length idx = length x ->
  entry (sub_scalar x s) idx = entry x idx - s.
Proof. exact (sub_scalar_full x s idx). Qed.

Theorem C03_rsub_scalar_full (x : tt R) s idx : wf x -> length idx = length x ->
  entry (rsub_scalar x s) idx = s - entry x idx.
Proof. exact (rsub_scalar_full x s idx). Qed.

Theorem C03_mul_scalar_full (x : tt R) s idx : wf x -> length idx = length x ->
  entry (mul_scalar x s) idx = s * entry x idx.
Proof. exact (mul_scalar_full x s idx). Qed.

Theorem C03_div_scalar_full (x : tt R) s sinv idx : x <> [] -> length idx = length x -> s * sinv = 1 ->
  s * entry (div_scalar x sinv) idx = entry x idx.
Proof. exact (div_scalar_full x s sinv idx). Qed.

Theorem C03_neg_full (x : tt R) idx : x <> [] -> length idx = length x ->
  entry (neg x) idx = - entry x idx.
Proof. exact (neg_full x idx). Qed.

Theorem C03_kron_full (x y : tt R) i j : wf x -> length i = length x ->
  entry (kron_tt x y) (i ++ j) = entry x i * entry y j.
Proof. exact (kron_full x y i j). Qed.

Theorem C03_ones_full ns idx : length idx = length ns -> entry (ones_tt ns) idx = 1.
Proof. exact (ones_full ns idx). Qed.

Theorem C03_zeros_full ns idx : ns <> [] -> length idx = length ns -> entry (zeros_tt ns) idx = 0.
Proof. exact (zeros_full ns idx). Qed.

Theorem C03_rank1_full (vs : list (nat * (nat -> R))) idx : length idx = length vs ->
  entry (rank1 vs) idx = fold_right (fun vi acc => snd (fst vi) (snd vi) * acc) 1 (combine vs idx).
Proof. exact (rank1_full vs idx). Qed.

(* documented rank structure / well-formedness of the results *)
Theorem C03_add_wf (x y : tt R) : wf x -> wf y -> length y = length x -> wf (add x y).
Proof. exact (add_wf x y). Qed.
Theorem C03_mul_wf (x y : tt R) : wf x -> wf y -> length y = length x -> wf (mul x y).
Proof. exact (mul_wf x y). Qed.
Theorem C03_mul_ranks (x y : tt R) : length y = length x ->
  map r1 (mul x y) = map (fun ab => (fst ab * snd ab)%nat) (combine (map r1 x) (map r1 y)).
Proof. exact (mul_ranks x y). Qed.

(* the executable evaluator used by the correspondence run computes `entry` *)
Theorem C03_entry_l_correct (x : tt R) idx : wf x -> length idx = length x -> entry_l x idx = entry x idx.
Proof. exact (entry_l_correct x idx). Qed.

End C03.

Print Assumptions C03_add_full.
Print Assumptions C03_sub_full.
Print Assumptions C03_mul_full.
Print Assumptions C03_add_bcast_full.
Print Assumptions C03_sub_bcast_full.
Print Assumptions C03_mul_bcast_full.
Print Assumptions C03_add_scalar_full.
Print Assumptions C03_sub_scalar_full.
Print Assumptions C03_rsub_scalar_full.
Print Assumptions C03_mul_scalar_full.
Print Assumptions C03_div_scalar_full.
Print Assumptions C03_neg_full.
Print Assumptions C03_kron_full.
Print Assumptions C03_ones_full.
Print Assumptions C03_zeros_full.
Print Assumptions C03_rank1_full.
Print Assumptions C03_add_wf.
Print Assumptions C03_mul_wf.
Print Assumptions C03_mul_ranks.
Print Assumptions C03_entry_l_correct.
