(* C08 - Indexing and pointwise evaluation agree with dense indexing.
   Only theorem statements closed by `exact`, each followed by Print Assumptions. *)
From Coq Require Import List Arith ZArith.
From TT Require Import RingSig Instances SumN Mat Dense Core Arith Reduce Struct Index CoreP ArithP StructP ReduceDimsP IndexP GetitemP GetitemNoneP GetitemTTMP.
Import ListNotations.

Section C08.
Context {R : Type} {RO : RingOps R} {RL : RingLaws R}.
Open Scope R_scope.

(* apply_mask(indices)[m] = x[indices[m]] for every order, mode sizes and ranks *)
Theorem C08_apply_mask_full (x : tt R) rows m : wf x -> (m < length rows)%nat ->
  length (nth m rows []) = length x ->
  nth m (apply_mask x rows) 0 = entry x (nth m rows []).
Proof. exact (apply_mask_full x rows m). Qed.

(* the per-core step of slicing: cores[k][:, idx, :] for an integer or a slice is an index remapping of the mode,
   so the sliced cores (before the removal of the integer-indexed modes) hold exactly the selected entries *)
Theorem C08_remaps_entry (fs : list modemap) (x : tt R) idx :
  length x = length fs -> length idx = length fs ->
  entry (remaps fs x) idx = match map_idx fs idx with Some idx' => entry x idx' | None => 0 end.
Proof. exact (remaps_entry fs x idx). Qed.

(* the removal of the integer-indexed modes (reduce_dims(exclude)): whenever a mode survives, the result holds the
   entries of its argument with index 0 on every removed mode - for any order, any ranks (absorption to the left or to
   the right, carries across several removed cores), and with no assumption on the ranks at all *)
Theorem C08_reduce_dims_full (x : tt R) excl idx' :
  (0 < nkept 0 x excl)%nat -> length idx' = nkept 0 x excl ->
  entry (reduce_dims x excl) idx' = entry x (fullidx 0 x excl idx').
Proof. exact (reduce_dims_full x excl idx'). Qed.

(* slices (start, stop, step, each possibly None or negative): every selected position start + j*step lies in the mode *)
Theorem C08_slice_pos_in_range n a b s st sp len : slice_pos n a b s = Some (st, sp, len) ->
  (0 < sp)%nat /\ forall j, (j < len)%nat -> (st + j * sp < n)%nat.
Proof. exact (slice_pos_in_range n a b s st sp len). Qed.

(* integer indices, negative ones counted from the end *)
Theorem C08_norm_int_in_range n z j : norm_int n z = Some j ->
  (j < n)%nat /\ (Z.of_nat j = if (z <? 0)%Z then z + Z.of_nat n else z)%Z.
Proof. exact (norm_int_in_range n z j). Qed.

(* THE COMPOSITE STATEMENT for full tuples of integers (negative allowed) and slices (start/stop/step, None, negative, clipped):
   whenever the index expression is valid for the dense array (dgi, the model of numpy/torch basic indexing, returns a result shape
   shp and a source-index map g) and contains at least one slice, x[index] is a TT tensor y with  y[idx'] = x[g idx']  for every
   position idx' of the result - same values, same positions, for every order, mode sizes (1 included) and rank profile *)
Theorem C08_getitem_int_slice_full (x : tt R) ix fs shp g :
  x <> [] -> item_fs (shape x) ix = Some fs -> dgi ix (shape x) = Some (shp, g) -> existsb is_slice ix = true ->
  exists y, getitem_tuple x ix = GT y /\
            forall idx', length idx' = length shp -> entry y idx' = entry x (g idx').
Proof. exact (getitem_int_slice_full x ix fs shp g). Qed.

(* ... and for a full tuple of integers only (negative allowed): x[i1, ..., id] is the scalar the dense index expression selects
   (dgi returns the empty shape and the source index g []) - every order, mode sizes, ranks; the removal of ALL cores by reduce_dims
   (every remapped mode has size 1, nothing is excluded) is covered by reduce_dims_none_kept *)
Theorem C08_getitem_all_int (x : tt R) ix fs shp g :
  wf x -> item_fs (shape x) ix = Some fs -> dgi ix (shape x) = Some (shp, g) -> existsb is_slice ix = false ->
  shp = [] /\ getitem_tuple x ix = GS (entry x (g [])).
Proof. exact (getitem_all_int x ix fs shp g). Qed.
Theorem C08_reduce_dims_none_kept (x : tt R) excl : wf x -> nkept 0 x excl = 0%nat ->
  exists c, reduce_dims x excl = [c] /\ nn c = 1%nat /\ e3 c 0%nat 0%nat 0%nat = entry x (repeat O (length x)).
Proof. exact (reduce_dims_none_kept x excl). Qed.

(* THE COMPOSITE STATEMENT with None (newaxis) anywhere in the tuple: full tuples of integers, slices and None.  x[index] IS the call on the
   tensor with an identity core of mode size 1 inserted at every None and a full slice in that place (gi_unsq: the two slicing loops are
   equal step by step), that tensor has the entries of x (chain_unsq), and the dense index maps agree (unsq_specs) - so the result holds
   exactly the entries the dense expression selects, the inserted axes included *)
Theorem C08_getitem_with_none (x : tt R) ix shp g :
  wf x -> noell ix = true -> nonnone ix = length x -> dgi ix (shape x) = Some (shp, g) -> existsb is_slice_or_none ix = true ->
  exists y, getitem_tuple x ix = GT y /\ forall idx', length idx' = length shp -> entry y idx' = entry x (g idx').
Proof. exact (getitem_with_none x ix shp g). Qed.

(* a leading / trailing Ellipsis is exactly the tuple with the missing full slices written out: the composite theorem applies to
   the expanded tuple (the tensor branch expands no Ellipsis elsewhere; two of them are rejected, C18) *)
Theorem C08_getitem_leading_ellipsis (x : tt R) (t : list ixitem) : forallb (fun it => negb (is_ell it)) t = true ->
  getitem_tuple x (IEll :: t) =
  getitem_tuple x (repeat full_slice (length x + 1 + length (filter is_none t) - S (length t)) ++ t).
Proof. exact (getitem_leading_ellipsis x t). Qed.
Theorem C08_getitem_trailing_ellipsis (x : tt R) (t : list ixitem) it0 : forallb (fun it => negb (is_ell it)) (it0 :: t) = true ->
  getitem_tuple x ((it0 :: t) ++ [IEll]) =
  getitem_tuple x ((it0 :: t) ++ repeat full_slice (length x + 1 + length (filter is_none (it0 :: t)) - S (S (length t)))).
Proof. exact (getitem_trailing_ellipsis x t it0). Qed.
(* TT MATRICES: A[i1, ..., id, j1, ..., jd] for a full tuple of integers (negative allowed, each normalised against its row / column mode) is the
   entry of the dense operator at that (row, column) multi-index - every order, mode sizes and rank profile; the loop works on the merged mode *)
Theorem C08_getitem_ttm_all_int (x : ttm R) (zs ws : list Z) (is_ js : list nat) : wf4 x ->
  norm_ints (shapeM x) zs = Some is_ -> norm_ints (shapeN x) ws = Some js ->
  getitem_ttm x (map IInt zs ++ map IInt ws) = GS (entry4 x is_ js).
Proof. exact (getitem_ttm_all_int x zs ws is_ js). Qed.

(* ... and the COMPOSITE statement for operators: pairs (integer, integer) or (slice, slice) - negative integers, steps, clipped bounds - with at least one
   pair of slices: A[rows, cols] is a TT matrix whose row / column modes are the lengths of the slice pairs and whose entry at (is', js') is the entry of A at the
   source (row, column) multi-index pair_src computes (st + i * step per slice, the normalised integer otherwise); every order, rectangular modes, ranks *)
Theorem C08_getitem_ttm_int_slice (x : ttm R) rows cols fs shp ks : wf4 x -> pair_fs x rows cols = Some (fs, shp, ks) -> existsb (fun b => b) ks = true ->
  exists y, getitem_ttm x (rows ++ cols) = GM y /\
    forall is' js', length is' = length (kept_of shp ks) -> Forall2 lt js' (map snd (kept_of shp ks)) ->
      entry4 y is' js' = entry4 x (fst (pair_src x rows cols is' js')) (snd (pair_src x rows cols is' js')).
Proof. exact (getitem_ttm_int_slice x rows cols fs shp ks). Qed.

End C08.
Print Assumptions C08_apply_mask_full.
Print Assumptions C08_remaps_entry.
Print Assumptions C08_reduce_dims_full.
Print Assumptions C08_slice_pos_in_range.
Print Assumptions C08_norm_int_in_range.
Print Assumptions C08_getitem_int_slice_full.
Print Assumptions C08_getitem_all_int.
Print Assumptions C08_reduce_dims_none_kept.
Print Assumptions C08_getitem_with_none.
Print Assumptions C08_getitem_leading_ellipsis.
Print Assumptions C08_getitem_trailing_ellipsis.
Print Assumptions C08_getitem_ttm_all_int.
Print Assumptions C08_getitem_ttm_int_slice.
(* the hypotheses are satisfiable and the statement computes: a 2 x 3 (x) 2 x 2 integer operator indexed with [1, -1, -3, 0] *)
Example C08_getitem_ttm_instance :
  let A := [mk4 1 2 3 2 (fun _ i j q => Z.of_nat (i * 7 + j * 3 + q + 1)); mk4 2 2 2 1 (fun p i j _ => Z.of_nat (p * 5 + i * 2 + j + 2))] in
  norm_ints (shapeM A) [1; -1]%Z = Some [1; 1]%nat /\ norm_ints (shapeN A) [-3; 0]%Z = Some [0; 0]%nat /\
  getitem_ttm A (map IInt [1; -1]%Z ++ map IInt [-3; 0]%Z) = GS (entry4 A [1; 1]%nat [0; 0]%nat) /\ entry4 A [1; 1]%nat [0; 0]%nat = 113%Z.
Proof. vm_compute. repeat split; reflexivity. Qed.
(* the hypotheses of the composite operator theorem are satisfiable and the model computes: A[1:, -1, ::2, 0] for a (3 x 4) (x) (2 x 2) operator *)
Example C08_getitem_ttm_slice_instance :
  let A := [mk4 1 3 4 2 (fun _ i j q => Z.of_nat (i * 7 + j * 3 + q + 1)); mk4 2 2 2 1 (fun p i j _ => Z.of_nat (p * 5 + i * 2 + j + 2))] in
  let rows := [ISlice (Some 1%Z) None None; IInt (-1)%Z] in let cols := [ISlice None None (Some 2%Z); IInt 0%Z] in
  exists fs shp ks, pair_fs A rows cols = Some (fs, shp, ks) /\ shp = [(2, 2); (1, 1)]%nat /\ ks = [true; false] /\
    match getitem_ttm A (rows ++ cols) with
    | GM y => map (fun ij => entry4 y [fst ij] [snd ij]) [(0, 0); (0, 1); (1, 0); (1, 1)]%nat
              = map (fun ij => entry4 A [S (fst ij); 1]%nat [(2 * snd ij)%nat; 0%nat]) [(0, 0); (0, 1); (1, 0); (1, 1)]%nat
    | _ => False
    end.
Proof. vm_compute. eexists. eexists. eexists. repeat split; reflexivity. Qed.
