(* C19 - Copies and save/load round-trips reproduce the object exactly.
   Only theorem statements closed by `exact`, each followed by Print Assumptions. *)
From Coq Require Import List Arith.
From TT Require Import Core Meta MetaP.
Import ListNotations.

(* load(save(x)): load re-derives everything from the stored cores only; for a well formed x the result has the same
   cores (same contents), kind, N, M, R and shape, and is well formed *)
Theorem C19_load_save_id (x : obj) : wf_obj x = true ->
  exists y, load (save x) = inr y /\ ocores y = ocores x /\ fttm y = fttm x /\ fN y = fN x /\ fM y = fM x /\ fR y = fR x
            /\ shape_eqb (fshape x) (fshape y) = true /\ wf_obj y = true.
Proof. exact (load_save_id x). Qed.

(* clone(): every core lives in a new storage - no storage is shared with the original or any other object *)
Theorem C19_clone_fresh st x : ids_below st -> In x (pool st) ->
  forall y, pool (clone_obj st x) = pool st ++ [y] ->
  forall id, In id (storages y) -> ~ In id (storages x).
Proof. exact (clone_fresh st x). Qed.
Theorem C19_push_ids st sh : ids_below st -> ids_below (push st sh).
Proof. exact (push_ids st sh). Qed.

Print Assumptions C19_load_save_id.
Print Assumptions C19_clone_fresh.
Print Assumptions C19_push_ids.
