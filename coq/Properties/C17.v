(* C17 - the compiled backend: rank selection of the C++ code against the Python rule, and the backend dispatch.
   The C++ AMEn / DMRG bodies are a second implementation of the algorithms of C11 / C12: same gap (convergence is measured).
   Only theorem statements closed by `exact`, each followed by Print Assumptions. *)
From Coq Require Import List Arith Bool ZArith.
From TT Require Import OrdRing RankChop RankChopP CppRank CppRankP.
Import ListNotations.

Remark agree_all : forallb (fun q => forallb (agree_on q) domain_thr) domain_q = true.
Proof. vm_compute. reflexivity. Qed.

(* BOUNDED (stated in the theorem): for every vector of at most 4 squared singular values drawn from {0,1,4,9} (in any order)
   and every integer eps^2 in 1..30, the C++ loop selects the same rank as the (repaired) Python rule and discards at most
   eps^2 - ties included.  341 vectors x 30 thresholds, decided by evaluation inside the kernel. *)
Theorem C17_cpp_py_rank_agree_bounded q thr2 : In q domain_q -> In thr2 domain_thr -> q <> [] ->
  cpp_rank_chop q true thr2 = rank_chop q true thr2 /\ (discarded q (cpp_rank_chop q true thr2) <= thr2)%Z.
Proof.
  intros Hq Ht Hne. pose proof agree_all as H. rewrite forallb_forall in H. specialize (H q Hq).
  rewrite forallb_forall in H. specialize (H thr2 Ht). unfold agree_on in H. destruct q; [congruence|].
  apply andb_true_iff in H. destruct H as [H1 H2]. split; [apply Nat.eqb_eq; exact H1|apply Z.leb_le; exact H2].
Qed.

(* UNBOUNDED: for every non-empty list of non-negative squared singular values and every threshold, with eps > 0, the C++ loop
   selects exactly the rank of the (repaired) Python rule - hence everything proved about rank_chop (tail bound with ties,
   minimality, range) holds for the compiled backend as well *)
Theorem C17_cpp_py_rank_agree (q : list Z) thr2 : q <> [] -> Forall (ole oz) q ->
  cpp_rank_chop q true thr2 = rank_chop q true thr2.
Proof. exact (cpp_py_rank_agree q thr2). Qed.
Theorem C17_cpp_rank_tail (q : list Z) thr2 : q <> [] -> Forall (ole oz) q -> ole oz thr2 ->
  ole (discarded q (cpp_rank_chop q true thr2)) thr2.
Proof. intros H1 H2 H3. rewrite (cpp_py_rank_agree q thr2 H1 H2). exact (rank_chop_tail q true thr2 H1 H2 H3). Qed.

(* for eps <= 0 the two rules differ: the C++ code returns n-1, the Python code n *)
Theorem C17_cpp_py_differ_nonpositive_eps : exists q, cpp_rank_chop q false 0%Z <> rank_chop q false 0%Z.
Proof. exists [4; 1]%Z. vm_compute. discriminate. Qed.

(* the dispatch is total: every combination of (extension importable, use_cpp, preconditioner) selects exactly one backend or
   raises InvalidArguments; without the extension or with use_cpp=False the Python implementation is always used *)
Theorem C17_dispatch_total have use p : exists b, dispatch_solve have use p = b /\
  (use && have = false -> b = BPython) /\ (b = BInvalidArguments -> p = POther).
Proof.
  exists (dispatch_solve have use p). split; [reflexivity|]. unfold dispatch_solve.
  destruct (use && have); destruct p; split; intros H; try reflexivity; try discriminate.
Qed.

(* fast_matvec: the compiled DMRG is entered only with the extension, use_cpp and at least two cores; an order-1 product is always
   computed by the Python path (which returns the exact product, C11) *)
Theorem C17_dispatch_matvec have use d : (dispatch_matvec have use d = BCpp 0 <-> have = true /\ use = true /\ (2 <= d)%nat) /\
  (dispatch_matvec have use d <> BCpp 0 -> dispatch_matvec have use d = BPython) /\ dispatch_matvec have use 1%nat = BPython.
Proof. exact (dispatch_matvec_spec have use d). Qed.

Print Assumptions C17_cpp_py_rank_agree_bounded.
Print Assumptions C17_cpp_py_rank_agree.
Print Assumptions C17_cpp_rank_tail.
Print Assumptions C17_cpp_py_differ_nonpositive_eps.
Print Assumptions C17_dispatch_total.
Print Assumptions C17_dispatch_matvec.
