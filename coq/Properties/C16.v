(* C16 - Riemannian projection: the operator-algebra facts that hold for every order and rank profile at once.
   Idempotence and self-adjointness of P (which need the commutation relations of the interface projectors) are measured by the
   check, not proved here (partial, DESIGN.md).  Only theorem statements closed by `exact`, each followed by Print Assumptions. *)
From Coq Require Import List Arith.
From TT Require Import ProjP.
Import ListNotations.

(* P x = x: the base point is fixed by the projection onto its own tangent space *)
Theorem C16_proj_fixes (G : Type) (gz : G) (gadd gsub : G -> G -> G) :
  (forall a, gadd gz a = a) -> (forall a, gsub a a = gz) ->
  forall A B dm1 x, (forall k, A k x = x) -> (forall k, B k x = x) -> proj G gz gadd gsub A B dm1 x = x.
Proof. intros H1 H2. exact (proj_fixes G gz gadd gsub H1 H2). Qed.

(* P is linear whenever the interface projectors are *)
Theorem C16_proj_additive (G : Type) (gz : G) (gadd gsub : G -> G -> G) :
  (forall a, gadd gz a = a) -> (forall a b c, gadd a (gadd b c) = gadd (gadd a b) c) -> (forall a b, gadd a b = gadd b a) ->
  (forall a b c d, gsub (gadd a b) (gadd c d) = gadd (gsub a c) (gsub b d)) ->
  forall A B dm1, (forall k, additive G gadd (A k)) -> (forall k, additive G gadd (B k)) -> additive G gadd (proj G gz gadd gsub A B dm1).
Proof. intros H1 H2 H3 H4. exact (proj_additive G gz gadd gsub H1 H2 H3 H4). Qed.

(* the ranks of a tangent vector are at most twice those of the base point *)
Theorem C16_tangent_ranks_le rs : Forall2 (fun r' r => r' <= 2 * r) (tangent_ranks rs) rs.
Proof. exact (tangent_ranks_le rs). Qed.

Print Assumptions C16_proj_fixes.
Print Assumptions C16_proj_additive.
Print Assumptions C16_tangent_ranks_le.
