(* C16 - Riemannian projection: the operator-algebra facts that hold for every order and rank profile at once.
   Idempotence, self-adjointness and residual orthogonality are proved from exactly the relations the orthogonal gauges provide:
   the left projectors A_k are nested (A_j A_k = A_max(j,k)), the right projectors B_k are idempotent, A_j commutes with B_k for
   j <= k, all are additive and self-adjoint.  That the einsum code realises such A_k, B_k is measured by the check (DESIGN.md).
   Only theorem statements closed by `exact`, each followed by Print Assumptions. *)
From Coq Require Import List Arith ZArith.
From TT Require Import RingSig SumN Mat Core ProjP ProjAlgP ProjFullP FrobP OrthP Tangent TangentP TangentKernelP Instances.
Import ListNotations.

(* P x = x: the base point is fixed by the projection onto its own tangent space *)
Theorem C16_proj_fixes (G : Type) (gz : G) (gadd gsub : G -> G -> G) :
  (forall a, gadd gz a = a) -> (forall a, gsub a a = gz) ->
  forall A B dm1 x, (forall k, A k x = x) -> (forall k, B k x = x) -> proj G gz gadd gsub A B dm1 x = x.
Proof. intros H1 H2. exact (proj_fixes G gz gadd gsub H1 H2). Qed.

(* P is linear whenever the interface projectors are *)
Theorem C16_proj_additive (G : Type) (gz : G) (gadd gsub : G -> G -> G) :
  (forall a, gadd gz a = a) -> (forall a b c, gadd a (gadd b c) = gadd (gadd a b) c) -> (forall a b, gadd a b = gadd b a) ->
  (forall a b c d, gsub (gadd a b) (gadd c d) = gadd (gsub a c) (gsub b d)) ->
  forall A B dm1, (forall k, ProjP.additive G gadd (A k)) -> (forall k, ProjP.additive G gadd (B k)) -> ProjP.additive G gadd (proj G gz gadd gsub A B dm1).
Proof. intros H1 H2 H3 H4. exact (ProjP.proj_additive G gz gadd gsub H1 H2 H3 H4). Qed.

(* the ranks of a tangent vector are at most twice those of the base point *)
Theorem C16_tangent_ranks_le rs : Forall2 (fun r' r => r' <= 2 * r) (tangent_ranks rs) rs.
Proof. exact (tangent_ranks_le rs). Qed.

(* P (P z) = P z *)
Theorem C16_proj_idempotent (G : Type) (gz : G) (gadd : G -> G -> G) (gneg : G -> G) :
  (forall a, gadd gz a = a) -> (forall a b c, gadd a (gadd b c) = gadd (gadd a b) c) -> (forall a b, gadd a b = gadd b a) ->
  (forall a, gadd a (gneg a) = gz) ->
  forall (A B : nat -> G -> G) (dm1 : nat),
  (forall k, ProjAlgP.additive G gz gadd (A k)) -> (forall k, ProjAlgP.additive G gz gadd (B k)) ->
  (forall j k x, A j (A k x) = A (Nat.max j k) x) -> (forall k x, B k (B k x) = B k x) ->
  (forall j k x, j <= k -> A j (B k x) = B k (A j x)) ->
  forall z, proj G gz gadd (gsub G gadd gneg) A B dm1 (proj G gz gadd (gsub G gadd gneg) A B dm1 z) = proj G gz gadd (gsub G gadd gneg) A B dm1 z.
Proof. exact (proj_idempotent G gz gadd gneg). Qed.

(* <P x, y> = <x, P y> *)
Theorem C16_proj_selfadjoint (G : Type) (gz : G) (gadd : G -> G -> G) (gneg : G -> G) :
  (forall a, gadd gz a = a) -> (forall a b c, gadd a (gadd b c) = gadd (gadd a b) c) -> (forall a b, gadd a b = gadd b a) ->
  (forall a, gadd a (gneg a) = gz) ->
  forall (A B : nat -> G -> G) (dm1 : nat),
  (forall k, ProjAlgP.additive G gz gadd (A k)) -> (forall k, ProjAlgP.additive G gz gadd (B k)) ->
  (forall j k x, j <= k -> A j (B k x) = B k (A j x)) ->
  forall (K : Type) (kz : K) (kadd : K -> K -> K) (ip : G -> G -> K),
  (forall y, ip gz y = kz) -> (forall x, ip x gz = kz) ->
  (forall a b y, ip (gadd a b) y = kadd (ip a y) (ip b y)) -> (forall x a b, ip x (gadd a b) = kadd (ip x a) (ip x b)) ->
  (forall a y, ip (gneg a) y = ip a (gneg y)) ->
  (forall k x y, ip (A k x) y = ip x (A k y)) -> (forall k x y, ip (B k x) y = ip x (B k y)) ->
  forall x y, ip (proj G gz gadd (gsub G gadd gneg) A B dm1 x) y = ip x (proj G gz gadd (gsub G gadd gneg) A B dm1 y).
Proof. exact (proj_selfadjoint G gz gadd gneg). Qed.

(* <P z, P w> = <z, P w>: the residual z - P z is orthogonal to every projected tensor *)
Theorem C16_proj_residual_orthogonal (G : Type) (gz : G) (gadd : G -> G -> G) (gneg : G -> G) :
  (forall a, gadd gz a = a) -> (forall a b c, gadd a (gadd b c) = gadd (gadd a b) c) -> (forall a b, gadd a b = gadd b a) ->
  (forall a, gadd a (gneg a) = gz) ->
  forall (A B : nat -> G -> G) (dm1 : nat),
  (forall k, ProjAlgP.additive G gz gadd (A k)) -> (forall k, ProjAlgP.additive G gz gadd (B k)) ->
  (forall j k x, A j (A k x) = A (Nat.max j k) x) -> (forall k x, B k (B k x) = B k x) ->
  (forall j k x, j <= k -> A j (B k x) = B k (A j x)) ->
  forall (K : Type) (kz : K) (kadd : K -> K -> K) (ip : G -> G -> K),
  (forall y, ip gz y = kz) -> (forall x, ip x gz = kz) ->
  (forall a b y, ip (gadd a b) y = kadd (ip a y) (ip b y)) -> (forall x a b, ip x (gadd a b) = kadd (ip x a) (ip x b)) ->
  (forall a y, ip (gneg a) y = ip a (gneg y)) ->
  (forall k x y, ip (A k x) y = ip x (A k y)) -> (forall k x y, ip (B k x) y = ip x (B k y)) ->
  forall z w, ip (proj G gz gadd (gsub G gadd gneg) A B dm1 z) (proj G gz gadd (gsub G gadd gneg) A B dm1 w) = ip z (proj G gz gadd (gsub G gadd gneg) A B dm1 w).
Proof. exact (proj_residual_orthogonal G gz gadd gneg). Qed.

(* ---- where the hypotheses come from: the left interface projector A_k = U U^H built from an ORTHOGONAL gauge (what lr_orthogonal's QR
   sweep produces core by core), written as its kernel on the leading modes, is Hermitian and idempotent and fixes every tensor that
   continues the same prefix - for every order, mode sizes and ranks, real and complex.  (The nesting of the ranges and the commutation with
   the right projectors are measured, DESIGN.md.) ---- *)
Section Kernel.
Context {R : Type} {RO : RingOps R} {RL : RingLaws R}.
Theorem C16_left_projector_hermitian (x : tt R) i j : kernelL x j i = rconj (kernelL x i j).
Proof. exact (kernelL_hermitian x i j). Qed.
Theorem C16_left_projector_idempotent (x : tt R) i k : linked 1 x -> Forall left_orth x ->
  sum_idx (shape x) (fun j => rmul (kernelL x i j) (kernelL x j k)) = kernelL x i k.
Proof. exact (kernelL_idempotent x i k). Qed.
Theorem C16_left_projector_fixes (x : tt R) (t : nat -> R) i : linked 1 x -> Forall left_orth x ->
  sum_idx (shape x) (fun j => rmul (kernelL x i j) (sum_n (endrank 1 x) (fun q => rmul (chainM (slices x j) 0%nat q) (t q))))
  = sum_n (endrank 1 x) (fun p => rmul (chainM (slices x i) 0%nat p) (t p)).
Proof. exact (kernelL_fixes x t i). Qed.
Theorem C16_left_projector_nested (pre mid : tt R) i m q : linked 1 pre -> Forall left_orth pre -> length i = length pre ->
  sum_idx (shape pre) (fun j => rmul (kernelL pre i j) (chainM (slices (pre ++ mid) (j ++ m)) 0%nat q))
  = chainM (slices (pre ++ mid) (i ++ m)) 0%nat q.
Proof. exact (kernelL_nested pre mid i m q). Qed.
Theorem C16_projectors_commute (na nc : list nat) (KA KB : list nat -> list nat -> R) (f : list nat -> list nat -> R) a c :
  sum_idx na (fun a' => rmul (KA a a') (sum_idx nc (fun c' => rmul (KB c c') (f a' c'))))
  = sum_idx nc (fun c' => rmul (KB c c') (sum_idx na (fun a' => rmul (KA a a') (f a' c')))).
Proof. exact (kernels_commute na nc KA KB f a c). Qed.
End Kernel.

(* ---- the code itself: Model/Tangent.v is the interface recursion of riemannian_projection and the block cores of _delta2cores (tied to
   torchtt/manifold.py exactly on every run, with the two QR sweeps replaced by given cores).  (1) The block train represents, entry by entry,
   the sum over the position k of the train l_0 .. l_{k-1} delta_k r_{k+1} .. r_{d-1} - every order >= 2, all mode sizes, every rank profile
   that torch.cat accepts (tcompat).  (2) Every delta but the last lies in the tangent gauge: it is orthogonal to the orthonormal left
   unfolding of l_k, whatever z and the right interface are. ---- *)
Section Tangent.
Context {R : Type} {RO : RingOps R} {RL : RingLaws R}.
Theorem C16_tangent_entry_sum (l r s : tt R) idx : tcompat l r s -> length idx = length l -> 2 <= length l ->
  entry (tangent l r s) idx = sum_n (length l) (fun k => tterm l r s idx k 0 0).
Proof. exact (tangent_entry_sum l r s idx). Qed.
Theorem C16_delta_gauge (L : mat R) (l z : core3 R) (Rm : mat R) a p : orthT l -> nn z = nn l -> a < r1 l ->
  sum_n (r0 l) (fun r => sum_n (nn l) (fun i => rmul (e3 l r i a) (e3 (delta_mid L l z Rm) r i p))) = rO.
Proof. exact (delta_mid_gauge L l z Rm a p). Qed.
End Tangent.

(* ---- THE BRIDGE, proved: the entries of proj_model (the model of riemannian_projection after its two QR sweeps, tied exactly to the code) are
   sum_k [ (A_(k-1) (x) I - A_k) (x) B_k ] z + A_(d-2) z  applied to the dense entries of z, with A_m / B_k the kernels of the left interface of l and of the
   right interface of r (KA / KB; bilinear, as the code does not conjugate).  Pure algebra of the einsum recursion - no orthogonality is used; with the
   orthogonality of the gauges (left_projector_* above) these kernels are the commuting idempotents A_k, B_k of the operator algebra (proj_idempotent,
   proj_selfadjoint, proj_residual_orthogonal).  Every order >= 2, mode sizes and rank profile. ---- *)
Section KernelForm.
Context {R : Type} {RO : RingOps R} {RL : RingLaws R}.
Theorem C16_proj_model_kernel (l r z : tt R) idx :
  length r = length l -> length z = length l -> length idx = length l -> 2 <= length l ->
  map Core.nn z = map Core.nn l -> map Core.nn z = map Core.nn r ->
  linked 1 l -> chained 1 z -> chained 1 r ->
  (forall k, S k < length l -> chained (r1 (nth k l dflt3)) (skipn (S k) r)) ->
  tcompat l r (deltas ones11 l r z) ->
  entry (proj_model l r z) idx = sum_n (length l) (fun k => kterm l r z idx k).
Proof. exact (proj_model_kernel l r z idx). Qed.
End KernelForm.

Print Assumptions C16_proj_fixes.
Print Assumptions C16_proj_additive.
Print Assumptions C16_tangent_ranks_le.
Print Assumptions C16_proj_idempotent.
Print Assumptions C16_proj_selfadjoint.
Print Assumptions C16_proj_residual_orthogonal.
Print Assumptions C16_left_projector_hermitian.
Print Assumptions C16_left_projector_idempotent.
Print Assumptions C16_left_projector_fixes.
Print Assumptions C16_left_projector_nested.
Print Assumptions C16_projectors_commute.
Print Assumptions C16_tangent_entry_sum.
Print Assumptions C16_delta_gauge.
Print Assumptions C16_proj_model_kernel.
(* the hypotheses are satisfiable and both sides compute: order 3, modes 2, ranks [1,2,2,1], integer cores (no orthogonality needed) *)
Example C16_proj_model_kernel_instance :
  let mk := fun (a n b : nat) (off : Z) => mk3 a n b (fun p i q => (Z.of_nat (p * 3 + i * 2 + q) - off)%Z) in
  let l := [mk 1 2 2 1%Z; mk 2 2 2 3%Z; mk 2 2 1 2%Z] in
  let r := [mk 1 2 2 2%Z; mk 2 2 2 1%Z; mk 2 2 1 4%Z] in
  let z := [mk 1 2 2 0%Z; mk 2 2 2 5%Z; mk 2 2 1 1%Z] in
  tcompat l r (deltas ones11 l r z) /\ linked 1 l /\ chained 1 z /\ chained 1 r /\
  map (fun idx => entry (proj_model l r z) idx) [[0;0;0]; [1;0;1]; [1;1;1]]%nat = map (fun idx => sum_n 3 (fun k => kterm l r z idx k)) [[0;0;0]; [1;0;1]; [1;1;1]]%nat.
Proof. vm_compute. repeat split; reflexivity. Qed.
