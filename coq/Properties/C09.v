(* C09 - Concatenation, padding, diag, mode products and TT<->TTM conversion are exact.
   Only theorem statements closed by `exact`, each followed by Print Assumptions. *)
From Coq Require Import List Arith.
From TT Require Import RingSig SumN Mat Dense Core Arith MatOps Reduce Struct CoreP ArithP MatOpsP StructP CatNP PadTTMP.
Import ListNotations.

Section C09.
Context {R : Type} {RO : RingOps R} {RL : RingLaws R}.
Open Scope R_scope.

(* the per-mode remapping behind zero padding, block placement and slicing: every order, sizes, ranks *)
Theorem C09_remaps_entry (fs : list modemap) (x : tt R) idx :
  length x = length fs -> length idx = length fs ->
  entry (remaps fs x) idx = match map_idx fs idx with Some idx' => entry x idx' | None => 0 end.
Proof. exact (remaps_entry fs x idx). Qed.

(* pad(x, padding, value) on any trailing subset of modes, widths 0 included, any fill value *)
Theorem C09_pad_tt_full (x : tt R) padding v idx :
  wf x -> (length padding <= length x)%nat -> length idx = length x ->
  entry (pad_tt x padding v) idx =
    match in_block (shape x) (fill_pads (length x) padding) idx with Some i' => entry x i' | None => v end.
Proof. exact (pad_tt_full x padding v idx). Qed.

(* the fill is carried by the indicator of the complement of the original block, built with entries 0 and 1 only (two rank slots): it is
   EXACTLY 0 on the block - no "value - value" is ever formed there, whatever the fill - and 1 everywhere else *)
Theorem C09_pad_outside_indicator (ns : list nat) (pd : list (nat * nat)) idx :
  ns <> [] -> length pd = length ns -> length idx = length ns ->
  entry (outside_tt (R:=R) ns pd) idx = match in_block ns pd idx with Some _ => 0 | None => 1 end.
Proof. exact (outside_full ns pd idx). Qed.

(* cat((x, y), dim) for every axis *)
Theorem C09_cat2_full (dim : nat) (x y : tt R) idx :
  wf x -> wf y -> length y = length x -> (dim < length x)%nat -> length idx = length x ->
  (nth dim idx 0 < nth dim (shape x) 0 + nth dim (shape y) 0)%nat ->
  entry (cat2 dim x y) idx =
    if (nth dim idx 0 <? nth dim (shape x) 0)%nat then entry x idx
    else entry y (upd dim (nth dim idx 0 - nth dim (shape x) 0)%nat idx).
Proof. exact (cat2_full dim x y idx). Qed.

(* mode product along mode k with an l x n_k matrix (rectangular) *)
Theorem C09_mprod1_full (x : tt R) k l M idx : (k < length x)%nat -> length idx = length x ->
  entry (mprod1 x k l M) idx =
    sum_n (nth k (shape x) 0%nat) (fun j => M (nth k idx 0%nat) j * entry x (upd k j idx)).
Proof. exact (mprod1_full x k l M idx). Qed.
Theorem C09_mprod1_shape (x : tt R) k l M : (k < length x)%nat -> shape (mprod1 x k l M) = upd k l (shape x).
Proof. exact (mprod1_shape x k l M). Qed.

(* diag in both directions *)
Theorem C09_diag_tt_full (x : tt R) is_ js : length is_ = length x -> length js = length x ->
  entry4 (diag_tt x) is_ js = entry x is_ * deltas is_ js.
Proof. exact (diag_tt_full x is_ js). Qed.
Theorem C09_diag_ttm_full (A : ttm R) is_ : entry (diag_ttm A) is_ = entry4 A is_ is_.
Proof. exact (diag_ttm_full A is_). Qed.

(* to_ttm, conj *)
Theorem C09_to_ttm_full (x : tt R) is_ js : length js = length is_ -> entry4 (to_ttm x) is_ js = entry x is_.
Proof. exact (to_ttm_full x is_ js). Qed.
Theorem C09_to_ttm_shapes (x : tt R) : shapeM (to_ttm x) = shape x /\ shapeN (to_ttm x) = map (fun _ => 1%nat) x.
Proof. exact (to_ttm_shapes x). Qed.
Theorem C09_conj_full (x : tt R) idx : entry (conj_tt x) idx = rconj (entry x idx).
Proof. exact (conj_full x idx). Qed.
Theorem C09_conj_ttm_full (x : ttm R) is_ js : entry4 (conj_ttm x) is_ js = rconj (entry4 x is_ js).
Proof. exact (conj_ttm_full x is_ js). Qed.

(* cat of any number of operands (the fold over the tuple that torchtt.cat performs): the first operand whose range along dim contains
   the index (cat_spec / cat_total: CatNP.v) *)
Theorem C09_cat_tt_full dim (t : tt R) (rest : list (tt R)) idx :
  wf t -> (dim < length t)%nat -> length idx = length t ->
  Forall (fun u => wf u /\ length u = length t) rest ->
  (nth dim idx 0 < cat_total dim (t :: rest))%nat ->
  entry (cat_tt dim (t :: rest)) idx = cat_spec dim (t :: rest) idx.
Proof. exact (cat_tt_full dim t rest idx). Qed.

(* a list of mode products (x.mprod(list of matrices, list of modes)): the fold of the single-mode contraction (mprod_spec: CatNP.v) *)
Theorem C09_mprod_list_full ms (x : tt R) idx :
  Forall (fun m => (fst (fst m) < length x)%nat) ms -> length idx = length x ->
  entry (mprod_list x ms) idx = mprod_spec (entry x) (shape x) ms idx.
Proof. exact (mprod_list_full ms x idx). Qed.

(* padding of a TT matrix: value * I in the leading block, A in the middle, value * I in the trailing block, zero elsewhere *)
Theorem C09_pad_ttm_full (x : ttm R) padding value is_ js :
  wf4 x -> (length padding <= length x)%nat -> length is_ = length x ->
  Forall2 lt js (padN x (fill_pads (length x) padding)) ->
  entry4 (pad_ttm x padding value) is_ js =
    let pd := fill_pads (length x) padding in
    (if all_lead pd is_ js then value else 0)
    + match in_block4 x pd is_ js with Some (i', j') => entry4 x i' j' | None => 0 end
    + (if all_trail x pd is_ js then value else 0).
Proof. exact (pad_ttm_full x padding value is_ js). Qed.

End C09.
Print Assumptions C09_remaps_entry.
Print Assumptions C09_pad_tt_full.
Print Assumptions C09_pad_outside_indicator.
Print Assumptions C09_cat2_full.
Print Assumptions C09_mprod1_full.
Print Assumptions C09_mprod1_shape.
Print Assumptions C09_diag_tt_full.
Print Assumptions C09_diag_ttm_full.
Print Assumptions C09_to_ttm_full.
Print Assumptions C09_to_ttm_shapes.
Print Assumptions C09_conj_full.
Print Assumptions C09_conj_ttm_full.
Print Assumptions C09_cat_tt_full.
Print Assumptions C09_mprod_list_full.
Print Assumptions C09_pad_ttm_full.
