(* C15 - Gradients through TT operations match the dense derivative.
   Every ring-generic theorem of this development holds in the ring of dual numbers a + b*eps (Base/Dual.v, an instance of
   RingLaws for any base ring): if the eps-components of the cores hold a perturbation direction, the eps-component of a result
   is its directional derivative.  The statements below read the derivative rules off the V-level theorems.
   Only theorem statements closed by `exact`, each followed by Print Assumptions. *)
From Coq Require Import List Arith.
From TT Require Import RingSig Instances Dual SumN Mat Dense Core Arith MatOps Reduce Struct CoreP ArithP MatOpsP ReduceP StructP DualP ReduceDimsP FrameP CoreGrad CoreGradP.
Import ListNotations.

Section C15.
Context {R : Type} {RO : RingOps R} {RL : RingLaws R}.
Open Scope R_scope.

(* dual numbers over any commutative ring with involution are again such a ring *)
Theorem C15_dual_ring : RingLaws (dual R).
Proof. exact DualLaws. Qed.

Theorem C15_mul_grad (x y : tt (dual R)) idx : wf x -> wf y -> length y = length x -> length idx = length x ->
  tg (entry (mul x y) idx) = pr (entry x idx) * tg (entry y idx) + tg (entry x idx) * pr (entry y idx).
Proof. exact (mul_grad x y idx). Qed.
Theorem C15_add_grad (x y : tt (dual R)) idx : wf x -> wf y -> length y = length x -> length idx = length x ->
  tg (entry (add x y) idx) = tg (entry x idx) + tg (entry y idx).
Proof. exact (add_grad x y idx). Qed.
Theorem C15_sub_grad (x y : tt (dual R)) idx : wf x -> wf y -> length y = length x -> length idx = length x ->
  tg (entry (sub x y) idx) = tg (entry x idx) - tg (entry y idx).
Proof. exact (sub_grad x y idx). Qed.
Theorem C15_matvec_grad (A : ttm (dual R)) (x : tt (dual R)) is_ :
  wf4 A -> wf x -> length x = length A -> length is_ = length A ->
  tg (entry (matvec A x) is_) =
    sum_idx (shapeN A) (fun js => pr (entry4 A is_ js) * tg (entry x js) + tg (entry4 A is_ js) * pr (entry x js)).
Proof. exact (matvec_grad A x is_). Qed.
Theorem C15_kron_grad (x y : tt (dual R)) i j : wf x -> length i = length x ->
  tg (entry (kron_tt x y) (i ++ j)) = pr (entry x i) * tg (entry y j) + tg (entry x i) * pr (entry y j).
Proof. exact (kron_grad x y i j). Qed.
Theorem C15_sum_all_grad (x : tt (dual R)) : wf x -> tg (sum_all x) = sum_idx (shape x) (fun idx => tg (entry x idx)).
Proof. exact (sum_all_grad x). Qed.
Theorem C15_dot_grad (x y : tt (dual R)) : wf x -> wf y -> length y = length x ->
  tg (dot_full x y) = sum_idx (shape x) (fun idx => tg (entry x idx * rconj (entry y idx))).
Proof. exact (dot_grad x y). Qed.
Theorem C15_mprod1_grad (x : tt (dual R)) k l (M : nat -> nat -> dual R) idx : (k < length x)%nat -> length idx = length x ->
  tg (entry (mprod1 x k l M) idx) =
    sum_n (nth k (shape x) 0%nat) (fun j => tg (M (nth k idx 0%nat) j * entry x (upd k j idx))).
Proof. exact (mprod1_grad x k l M idx). Qed.
Theorem C15_remaps_grad (fs : list modemap) (x : tt (dual R)) idx : length x = length fs -> length idx = length fs ->
  tg (entry (remaps fs x) idx) = match map_idx fs idx with Some idx' => tg (entry x idx') | None => 0 end.
Proof. exact (remaps_grad fs x idx). Qed.
(* the value part of a dual computation is the ordinary computation *)
Theorem C15_entry_pr (x : tt (dual R)) idx : pr (entry x idx) = entry (map pr_core x) idx.
Proof. exact (entry_pr x idx). Qed.

(* the gradient with respect to ONE core: if only the k-th core carries a perturbation, the derivative of every entry is the frame of the other
   cores applied to it - d x[i] / d G_k[p, j, q] = L_k(i_<k)[p] * [i_k = j] * R_k(i_>k)[q] - what autograd returns for full() w.r.t. a core *)
Theorem C15_entry_core_grad k (x : tt (dual R)) idx c : wf x -> nth_error x k = Some c -> length idx = length x ->
  Forall tg0 (firstn k x) -> Forall tg0 (skipn (S k) x) ->
  tg (entry x idx) = sum_n (r0 c) (fun p => sum_n (r1 c) (fun q =>
    pr (phiL x idx k p) * tg (e3 c p (nth k idx 0%nat) q) * pr (phiR x idx k q))).
Proof. exact (entry_core_grad k x idx c). Qed.

(* Model/CoreGrad.v (tied exactly to autograd's core gradients on integer data) IS that derivative: perturbing entry (p0, i0, q0) of core k by one
   changes sum_idx w[idx] x[idx] by entry (p0, i0, q0) of core_grad - for every order, position, mode sizes, rank profile and weight array *)
Theorem C15_weighted_sum_core_grad k (x : tt (dual R)) (w : list nat -> R) c p0 i0 q0 :
  wf x -> nth_error x k = Some c -> p0 < r0 c -> q0 < r1 c ->
  Forall tg0 (firstn k x) -> Forall tg0 (skipn (S k) x) -> unit_dir c p0 i0 q0 ->
  tg (sum_idx (shape x) (fun idx => cst (w idx) * entry x idx)) = e3 (core_grad (map pr_core x) k w) p0 i0 q0.
Proof. exact (weighted_sum_core_grad k x w c p0 i0 q0). Qed.

End C15.
Print Assumptions C15_dual_ring.
Print Assumptions C15_mul_grad.
Print Assumptions C15_add_grad.
Print Assumptions C15_sub_grad.
Print Assumptions C15_matvec_grad.
Print Assumptions C15_kron_grad.
Print Assumptions C15_sum_all_grad.
Print Assumptions C15_dot_grad.
Print Assumptions C15_mprod1_grad.
Print Assumptions C15_remaps_grad.
Print Assumptions C15_entry_pr.
Print Assumptions C15_entry_core_grad.
Print Assumptions C15_weighted_sum_core_grad.
