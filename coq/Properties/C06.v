(* C06 - Operations never change the value of their operands.
   Only theorem statements closed by `exact`, each followed by Print Assumptions. *)
From Coq Require Import List Arith.
From TT Require Import Core Meta MetaP.
Import ListNotations.

(* one call that is not a documented in-place call aimed at object i leaves object i exactly as it was
   (same cores, same storages, same N, M, R, shape) *)
Theorem C06_step_frame st c i o : is_inplace_on i c = false ->
  nth_error (pool st) i = Some o -> nth_error (pool (step st c)) i = Some o.
Proof. exact (step_frame st c i o). Qed.

(* any history: an object - operand, optional initial guess or earlier result - is what it was when it was created
   unless set_core / reduce_dims was aimed at it; later operations on it or on things derived from it do not matter *)
Theorem C06_history_frame cs st i o : Forall (fun c => is_inplace_on i c = false) cs ->
  nth_error (pool st) i = Some o -> nth_error (pool (run st cs)) i = Some o.
Proof. exact (history_frame cs st i o). Qed.

(* objects are only ever added *)
Theorem C06_step_length st c : length (pool st) <= length (pool (step st c)).
Proof. exact (step_length st c). Qed.

Print Assumptions C06_step_frame.
Print Assumptions C06_history_frame.
Print Assumptions C06_step_length.
