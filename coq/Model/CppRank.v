(* The C++ rank selection (cpp/ortho.h:16-44) and the backend dispatch (torchtt/solvers.py:268-287, _dmrg.py:14-45) (C17).
   q = squared singular values (the loop sums ss[k]*ss[k]); thr2 = eps*eps; pos = (eps > 0). *)
From Coq Require Import List Arith Bool ZArith.
From TT Require Import OrdRing RankChop.
Import ListNotations.

(* while (r > 0) { sum = sum_{k>=r} ss[k]^2; if (sum >= eps*eps) break; r--; }   r++;  r = r > 0 ? r : 1; *)
Fixpoint cpp_loop (q : list Z) (thr2 : Z) (r : nat) : nat :=
  match r with
  | O => O
  | S r' => if Z.leb thr2 (sumT (skipn r q)) then r else cpp_loop q thr2 r'
  end.
Definition cpp_rank_chop (q : list Z) (pos : bool) (thr2 : Z) : nat :=
  let n := length q in
  if Z.leb (sumT q) 0 then 1
  else if negb pos then n - 1                       (* eps <= 0: returns n-1 (the Python code returns n) *)
  else let r := S (cpp_loop q thr2 (n - 1)) in if Nat.ltb 0 r then r else 1.

(* backend selection: extension imported? x use_cpp flag x preconditioner string *)
Inductive prec := PNone | PC | PR | POther.
Inductive backend := BCpp (code : nat) | BPython | BInvalidArguments.
Definition dispatch_solve (have_cpp use_cpp : bool) (p : prec) : backend :=
  if use_cpp && have_cpp then
    match p with PNone => BCpp 0 | PC => BCpp 1 | PR => BCpp 2 | POther => BInvalidArguments end
  else BPython.
(* _dmrg.py: `if _flag_use_cpp and use_cpp and len(A.N) > 1` - a single core has no bond to sweep over and never reaches dmrg_mv *)
Definition dispatch_matvec (have_cpp use_cpp : bool) (d : nat) : backend := if have_cpp && use_cpp && Nat.ltb 1 d then BCpp 0 else BPython.
(* numeric code of a selection, for the correspondence check: 0 = Python, k+1 = C++ entry point with preconditioner code k, 9 = InvalidArguments *)
Definition backend_code (b : backend) : nat := match b with BPython => 0 | BCpp k => S k | BInvalidArguments => 9 end.

(* bounded domain of the agreement theorem *)
Fixpoint lists_upto (vals : list Z) (n : nat) : list (list Z) :=
  match n with
  | O => [[]]
  | S k => let shorter := lists_upto vals k in
           shorter ++ flat_map (fun l => map (fun v => v :: l) vals) (filter (fun l => Nat.eqb (length l) k) shorter)
  end.
Definition agree_on (q : list Z) (thr2 : Z) : bool :=
  match q with
  | [] => true
  | _ => Nat.eqb (cpp_rank_chop q true thr2) (rank_chop q true thr2)
         && Z.leb (discarded q (cpp_rank_chop q true thr2)) thr2
  end.
Definition domain_q : list (list Z) := lists_upto [0; 1; 4; 9]%Z 4.
Definition domain_thr : list Z := map Z.of_nat (seq 1 30).
