(* Value level of the reshape / permute mechanisms (C10): the elementary steps the loops are made of.
   merge: two adjacent cores contracted over the shared rank and their modes fused (einsum 'ijk,klm->ijlm' + reshape);
   split: a core replaced by two cores whose contraction reproduces it (the SVD split when nothing is truncated);
   swap: two adjacent cores replaced by two cores whose contraction is the mode-transposed supercore (permute's bubble step).
   The SVD is an oracle: the theorems quantify over every pair of cores with the stated contraction identity. *)
From Coq Require Import List Arith Bool.
From TT Require Import RingSig SumN Mat Core.
Import ListNotations.

Section ReshapeV.
Context {R : Type} {RO : RingOps R}.
Open Scope R_scope.

Definition merge2 (a b : core3 R) : core3 R :=
  mk3 (r0 a) (nn a * nn b) (r1 b)
      (fun p i q => sum_n (r1 a) (fun l => e3 a p (i / nn b)%nat l * e3 b l (i mod nn b)%nat q)).
Fixpoint merge_at (k : nat) (x : tt R) : tt R :=
  match k, x with
  | O, a :: b :: t => merge2 a b :: t
  | S k', c :: t => c :: merge_at k' t
  | _, _ => x
  end.
Fixpoint merge_idx_at (k : nat) (ns idx : list nat) : list nat :=
  match k, ns, idx with
  | O, _ :: nb :: _, i :: j :: t => (i * nb + j)%nat :: t
  | S k', _ :: nt, i :: t => i :: merge_idx_at k' nt t
  | _, _, _ => idx
  end.
Fixpoint merge_shape (k : nat) (ns : list nat) : list nat :=
  match k, ns with
  | O, na :: nb :: t => (na * nb)%nat :: t
  | S k', n :: t => n :: merge_shape k' t
  | _, _ => ns
  end.

(* a, b reproduce c: ranks chain, the modes factor the mode of c, and the contraction over the new rank is c *)
Definition exact_split (c a b : core3 R) : Prop :=
  r0 a = r0 c /\ r1 b = r1 c /\ r0 b = r1 a /\ (nn a * nn b)%nat = nn c /\
  forall p i j q, (j < nn b)%nat -> sum_n (r1 a) (fun l => e3 a p i l * e3 b l j q) = e3 c p (i * nn b + j)%nat q.
Fixpoint split_at (k : nat) (a b : core3 R) (x : tt R) : tt R :=
  match k, x with
  | O, _ :: t => a :: b :: t
  | S k', c :: t => c :: split_at k' a b t
  | _, _ => x
  end.

(* a', b' are the two cores a, b with their modes exchanged: the supercores agree up to the transposition *)
Definition exact_swap (a b a' b' : core3 R) : Prop :=
  r0 a' = r0 a /\ r1 b' = r1 b /\ r0 b' = r1 a' /\ nn a' = nn b /\ nn b' = nn a /\
  forall p i j q, sum_n (r1 a') (fun l => e3 a' p j l * e3 b' l i q) = sum_n (r1 a) (fun l => e3 a p i l * e3 b l j q).
Fixpoint swap_at (k : nat) (a' b' : core3 R) (x : tt R) : tt R :=
  match k, x with
  | O, _ :: _ :: t => a' :: b' :: t
  | S k', c :: t => c :: swap_at k' a' b' t
  | _, _ => x
  end.
Fixpoint swap_idx (k : nat) (idx : list nat) : list nat :=
  match k, idx with
  | O, i :: j :: t => j :: i :: t
  | S k', i :: t => i :: swap_idx k' t
  | _, _ => idx
  end.

(* row-major position of a multi-index: what torch.reshape preserves *)
Fixpoint flat_pos (ns idx : list nat) : nat :=
  match ns, idx with
  | _ :: nt, i :: it => (i * fold_right Nat.mul 1 nt + flat_pos nt it)%nat
  | _, _ => O
  end.
End ReshapeV.
