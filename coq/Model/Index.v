(* Value-level model of TT.__getitem__ and apply_mask (torchtt/_tt_base.py, _aux_ops.py; C08). *)
From Coq Require Import List Arith Bool ZArith.
From TT Require Import RingSig SumN Mat Dense Core Arith MatOps Reduce.
Import ListNotations.

Inductive ixitem := IInt (z : Z) | ISlice (a b s : option Z) | INone | IEll.

(* CPython's PySlice_AdjustIndices for a positive step (torch rejects the others with ValueError) *)
Definition clipz (n : nat) (z : Z) : Z :=
  let z' := if (z <? 0)%Z then (z + Z.of_nat n)%Z else z in
  if (z' <? 0)%Z then 0%Z else if (Z.of_nat n <? z')%Z then Z.of_nat n else z'.
Definition slice_pos (n : nat) (a b s : option Z) : option (nat * nat * nat) :=   (* start, step, length *)
  let st := match s with None => 1%Z | Some s => s end in
  if (st <=? 0)%Z then None else
  let a' := match a with None => 0%Z | Some a => clipz n a end in
  let b' := match b with None => Z.of_nat n | Some b => clipz n b end in
  let len := if (a' <? b')%Z then ((b' - a' - 1) / st + 1)%Z else 0%Z in
  Some (Z.to_nat a', Z.to_nat st, Z.to_nat len).
(* integer index: negative counts from the end; out of range is an IndexError *)
Definition norm_int (n : nat) (z : Z) : option nat :=
  let z' := if (z <? 0)%Z then (z + Z.of_nat n)%Z else z in
  if (0 <=? z')%Z && (z' <? Z.of_nat n)%Z then Some (Z.to_nat z') else None.

Definition is_ell (i : ixitem) : bool := match i with IEll => true | _ => false end.
Definition is_none (i : ixitem) : bool := match i with INone => true | _ => false end.
Definition full_slice : ixitem := ISlice None None None.

(* Ellipsis expansion of the tensor branch: only a leading or a trailing one is expanded *)
Definition expand_ell (d : nat) (ix : list ixitem) : list ixitem :=
  let num_none := length (filter is_none ix) in
  let k := (d + 1 + num_none - length ix)%nat in
  match ix with
  | IEll :: t => repeat full_slice k ++ t
  | _ => match rev ix with
         | IEll :: t => rev t ++ repeat full_slice k
         | _ => ix
         end
  end.

Section Index.
Context {R : Type} {RO : RingOps R}.
Open Scope R_scope.

Inductive gres := GT (x : tt R) | GM (x : ttm R) | GS (s : R) | GE (e : errc).

(* the loop over the (expanded) index tuple: k-cursor = remaining cores, racc = cores_new reversed,
   excl = positions of the slices and of the None's *)
Fixpoint gi_loop (items : list ixitem) (rest racc : tt R) (i : nat) (excl : list nat) : errc + (tt R * list nat) :=
  match items with
  | [] => match rest with [] => inr (rev racc, excl) | _ => inl EArgs end
  | it :: items' =>
      match it with
      | INone =>
          let r := match racc with c :: _ => r1 c | [] => 1%nat end in
          gi_loop items' rest (mk3 r 1 r (fun p _ q => delta p q) :: racc) (S i) (excl ++ [i])
      | IEll => inl EArgs
      | ISlice a b s =>
          match rest with
          | [] => inl EPyIndex
          | c :: rest' =>
              match slice_pos (nn c) a b s with
              | None => inl EPyValue
              | Some (st, sp, len) =>
                  gi_loop items' rest' (remap_core len (fun j => Some (st + j * sp)%nat) c :: racc) (S i) (excl ++ [i])
              end
          end
      | IInt z =>
          match rest with
          | [] => inl EPyIndex
          | c :: rest' =>
              match norm_int (nn c) z with
              | None => inl EPyIndex
              | Some j => gi_loop items' rest' (remap_core 1 (fun _ => Some j) c :: racc) (S i) excl
              end
          end
      end
  end.

Definition getitem_tuple (x : tt R) (ix : list ixitem) : gres :=
  if (1 <? length (filter is_ell ix))%nat then GE ENotImpl else
  match gi_loop (expand_ell (length x) ix) x [] 0 [] with
  | inl e => GE e
  | inr (cores, excl) =>
      match cores with
      | [] => GE EPyIndex                               (* TT([]) *)
      | _ =>
        let y := reduce_dims cores excl in
        match excl with
        | [] => match y with c :: _ => GS (e3 c 0 0 0)%nat | [] => GE EModel end
        | _ => GT y
        end
      end
  end.

(* non-tuple index *)
Definition getitem_single (x : tt R) (it : ixitem) : gres :=
  match it, x with
  | IEll, _ => GT x
  | IInt z, [c] => match norm_int (nn c) z with Some j => GS (e3 c 0 j 0)%nat | None => GE EPyIndex end
  | ISlice a b s, [c] =>
      match slice_pos (nn c) a b s with
      | None => GE EPyValue
      | Some (st, sp, len) => GT [remap_core len (fun j => Some (st + j * sp)%nat) c]
      end
  | IInt _, _ | ISlice _ _ _, _ => GE EArgs
  | INone, _ => GE EArgs
  end.

(* TT matrices: the tuple is (row items ++ column items); pairs slice/slice, None/None, int/int.
   On the merged mode k = i*n + j a pair of maps is one map. *)
Fixpoint gi_loop4 (rows cols : list ixitem) (rest : ttm R) (racc : tt R) (shp : list (nat * nat)) (i : nat) (excl : list nat)
  : errc + (tt R * list (nat * nat) * list nat) :=
  match rows, cols with
  | [], _ | _, [] => match rest with [] => inr (rev racc, rev shp, excl) | _ => inl EArgs end
  | r :: rows', c_ :: cols' =>
      match r, c_ with
      | ISlice a b s, ISlice a2 b2 s2 =>
          match rest with
          | [] => inl EPyIndex
          | c :: rest' =>
              match slice_pos (mm c) a b s, slice_pos (nm c) a2 b2 s2 with
              | Some (st, sp, len), Some (st2, sp2, len2) =>
                  let f := fun k => Some (((st + (k / len2) * sp) * nm c + (st2 + (k mod len2) * sp2))%nat) in
                  gi_loop4 rows' cols' rest' (remap_core (len * len2) f (flat4 c) :: racc) ((len, len2) :: shp) (S i) (excl ++ [i])
              | _, _ => inl EPyValue
              end
          end
      | INone, INone =>
          let rk := match racc with c :: _ => r1 c | [] => 1%nat end in
          gi_loop4 rows' cols' rest (mk3 rk 1 rk (fun p _ q => delta p q) :: racc) ((1, 1)%nat :: shp) (S i) (excl ++ [i])
      | IInt z, IInt z2 =>
          match rest with
          | [] => inl EPyIndex
          | c :: rest' =>
              match norm_int (mm c) z, norm_int (nm c) z2 with
              | Some j, Some j2 =>
                  gi_loop4 rows' cols' rest' (remap_core 1 (fun _ => Some (j * nm c + j2)%nat) (flat4 c) :: racc) ((1, 1)%nat :: shp) (S i) excl
              | _, _ => inl EPyIndex
              end
          end
      | _, _ => inl EArgs
      end
  end.

Fixpoint keep_shapes (i : nat) (cores : tt R) (shp : list (nat * nat)) (excl : list nat) : list (nat * nat) :=
  match cores, shp with
  | c :: ct, s :: st => (if Nat.eqb (nn c) 1 && negb (memb i excl) then [] else [s]) ++ keep_shapes (S i) ct st excl
  | _, _ => []
  end.

Definition getitem_ttm (x : ttm R) (ix : list ixitem) : gres :=
  if (0 <? length (filter is_ell ix))%nat then GE ENotImpl else
  if Nat.odd (length ix) then GE EArgs else          (* as many row indices as column indices (InvalidArguments; the pinned code ignored a surplus index) *)
  let h := (length ix / 2)%nat in
  match gi_loop4 (firstn h ix) (firstn h (skipn h ix)) x [] [] 0 [] with
  | inl e => GE e
  | inr (cores, shp, excl) =>
      match cores with
      | [] => GE EPyIndex
      | _ =>
        let y := reduce_dims cores excl in
        match excl with
        | [] => match y with c :: _ => GS (e3 c 0 0 0)%nat | [] => GE EModel end
        | _ => let ks := keep_shapes 0 cores shp excl in GM (unflatM (map fst ks) (map snd ks) y)
        end
      end
  end.

(* apply_mask: result = ones((M,1)); result = einsum('ij,jik->ik', result, cores[i][:, indices[:, i], :]) *)
Fixpoint mask_loop (x : tt R) (idx : list nat) (v : nat -> R) : R :=
  match x, idx with
  | c :: cs, i :: it => mask_loop cs it (fun k => sum_n (r0 c) (fun j => v j * e3 c j i k))
  | _, _ => v 0%nat
  end.
Definition apply_mask (x : tt R) (rows : list (list nat)) : list R :=
  map (fun idx => mask_loop x idx (fun _ => 1)) rows.

End Index.

(* ---- dense specification of basic indexing (numpy / torch semantics) ---- *)
Section IndexSpec.
Context {R : Type} {RO : RingOps R}.

Fixpoint dexpand (k : nat) (ix : list ixitem) : list ixitem :=
  match ix with
  | [] => []
  | IEll :: t => repeat full_slice k ++ t
  | a :: t => a :: dexpand k t
  end.
(* result shape and, for every result index, the source index *)
Fixpoint dgi (items : list ixitem) (ns : list nat) : option (list nat * (list nat -> list nat)) :=
  match items, ns with
  | [], _ => Some (ns, fun idx => idx)
  | INone :: t, _ =>
      match dgi t ns with Some (shp, g) => Some (1%nat :: shp, fun idx => g (tl idx)) | None => None end
  | ISlice a b s :: t, n :: nt =>
      match slice_pos n a b s, dgi t nt with
      | Some (st, sp, len), Some (shp, g) => Some (len :: shp, fun idx => (st + hd 0%nat idx * sp)%nat :: g (tl idx))
      | _, _ => None
      end
  | IInt z :: t, n :: nt =>
      match norm_int n z, dgi t nt with
      | Some j, Some (shp, g) => Some (shp, fun idx => j :: g idx)
      | _, _ => None
      end
  | _, _ => None
  end.
Definition dgetitem (a : dense R) (ix : list ixitem) : option (dense R) :=
  let num_none := length (filter is_none ix) in
  let k := (length (dshape a) + 1 + num_none - length ix)%nat in
  match dgi (dexpand k ix) (dshape a) with
  | Some (shp, g) => Some (mkD shp (fun idx => dget a (g idx)))
  | None => None
  end.
(* operator indexing: the tuple (rows ++ cols) applied to the array of shape M ++ N *)
End IndexSpec.
