(* Index bookkeeping of the cross approximation routines (torchtt/interpolate.py: dmrg_cross, function_interpolate; C14).
   Every floating-point quantity is an oracle: the ranks, and the pivots returned by maxvol (ANY row indices of the
   right length).  What is modelled is exactly which index tuples are kept and which index matrix is handed to the user. *)
From Coq Require Import List Arith Bool.
Import ListNotations.

(* left index sets: L = list of tuples over modes 0..k-1; right index sets: tuples over modes k..d-1 *)
Definition tuple := list nat.

(* np.unravel_index(p, (a, b)) = (p / b, p mod b) *)
Definition unravel (p b : nat) : nat * nat := (p / b, p mod b).

(* forward sweep, bond k -> k+1:  Idx[k+1] = hstack(Idx[k][tmp[0], :], tmp[1]),  tmp = unravel(pivots, (rank[k], N[k])) *)
Definition left_update (Lk : list tuple) (n : nat) (pivots : list nat) : list tuple :=
  map (fun p => nth (fst (unravel p n)) Lk [] ++ [snd (unravel p n)]) pivots.
(* backward sweep: Idx[k+1] = vstack(tmp[0], Idx[k+2][:, tmp[1]]),  tmp = unravel(pivots, (N[k+1], rank[k+2])) *)
Definition right_update (Rk2 : list tuple) (pivots : list nat) : list tuple :=
  map (fun p => fst (unravel p (length Rk2)) :: nth (snd (unravel p (length Rk2))) Rk2 []) pivots.
(* initial right-to-left pass: tmp = unravel(pivots, (rank[k+1], N[k])); idx_new = vstack(tmp[1], Idx[k+1][:, tmp[0]]) *)
Definition right_init (Rk1 : list tuple) (n : nat) (pivots : list nat) : list tuple :=
  map (fun p => snd (unravel p n) :: nth (fst (unravel p n)) Rk1 []) pivots.

(* eval_index = concat(I3, I1, I2, I4): rows enumerated in the order (a, i, j, b) *)
Definition eval_rows (Lk : list tuple) (nk nk1 : nat) (Rk2 : list tuple) : list tuple :=
  flat_map (fun a => flat_map (fun i => flat_map (fun j => map (fun b => a ++ [i; j] ++ b) Rk2) (seq 0 nk1)) (seq 0 nk)) Lk.

(* in range: a tuple over the modes with sizes ns *)
Definition in_box (ns : list nat) (t : tuple) : Prop := Forall2 lt t ns.
Definition all_in (ns : list nat) (ts : list tuple) : Prop := Forall (in_box ns) ts.

(* the state of a run: for every bond k the current left set (modes 0..k-1) and right set (modes k..d-1) *)
Record cstate := mkC { cL : list (list tuple); cR : list (list tuple) }.
Inductive cstep :=
  | SLeft (k : nat) (pivots : list nat)      (* forward micro-step at bond k: updates L[k+1] *)
  | SRight (k : nat) (pivots : list nat)     (* backward micro-step at bond k: updates R[k+1] *)
  | SRightInit (k : nat) (pivots : list nat). (* initial pass: updates R[k] from R[k+1] *)
Definition set_nth {A} (k : nat) (v : A) (l : list A) : list A := firstn k l ++ v :: skipn (S k) l.
Definition cross_step (N : list nat) (s : cstate) (c : cstep) : cstate :=
  match c with
  | SLeft k pv => mkC (set_nth (S k) (left_update (nth k (cL s) []) (nth k N 0) pv) (cL s)) (cR s)
  | SRight k pv => mkC (cL s) (set_nth (S k) (right_update (nth (k + 2) (cR s) []) pv) (cR s))
  | SRightInit k pv => mkC (cL s) (set_nth k (right_init (nth (S k) (cR s) []) (nth k N 0) pv) (cR s))
  end.
(* pivots are row indices of the matrix maxvol was given *)
Definition pivots_ok (N : list nat) (s : cstate) (c : cstep) : Prop :=
  match c with
  | SLeft k pv => k + 1 < length N /\ Forall (fun p => p < length (nth k (cL s) []) * nth k N 0) pv
  | SRight k pv => k + 1 < length N /\ Forall (fun p => p < nth (S k) N 0 * length (nth (k + 2) (cR s) [])) pv
  | SRightInit k pv => 0 < k < length N /\ Forall (fun p => p < length (nth (S k) (cR s) []) * nth k N 0) pv
  end.
(* the index matrix handed to the user function at bond k in the current state *)
Definition eval_at (N : list nat) (s : cstate) (k : nat) : list tuple :=
  eval_rows (nth k (cL s) []) (nth k N 0) (nth (S k) N 0) (nth (k + 2) (cR s) []).
(* invariant: every kept tuple lies in its box *)
Definition cinv (N : list nat) (s : cstate) : Prop :=
  length (cL s) = S (length N) /\ length (cR s) = S (length N) /\
  (forall k, k <= length N -> all_in (firstn k N) (nth k (cL s) [])) /\
  (forall k, k <= length N -> all_in (skipn k N) (nth k (cR s) [])).
(* Idx = [zeros((1,0))] + (d-1)*[None] + [zeros((0,1))]: one empty tuple at both ends *)
Definition cinit (d : nat) : cstate := mkC ([[]] :: repeat [] d) (repeat [] d ++ [[[]]]).
