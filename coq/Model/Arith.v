(* Value-level model of the TT-tensor arithmetic of torchtt/_tt_base.py (C03).
   Every definition mirrors the construction in the code (padding sides, first/last core
   special cases, merged-index order of reshape(einsum(...))).  Executable, no proofs. *)
From Coq Require Import List Arith Bool.
From TT Require Import RingSig SumN Mat Core.
Import ListNotations.

Section Arith.
Context {R : Type} {RO : RingOps R}.
Open Scope R_scope.

(* tnf.pad(self.cores[i], pad1) + tnf.pad(other.cores[i], pad2)   (TT.__add__, lines 478-486):
   self padded with zeros on the right/bottom, other on the left/top; no rank padding on the
   left of the first core and on the right of the last one. *)
Definition add_core (first last : bool) (a b : core3 R) : core3 R :=
  mk3 (if first then 1%nat else (r0 a + r0 b)%nat)
      (nn a)
      (if last then 1%nat else (r1 a + r1 b)%nat)
      (fun p i q =>
         (if (p <? r0 a)%nat && (q <? r1 a)%nat then e3 a p i q else 0)
         + (let off0 := if first then O else r0 a in
            let off1 := if last then O else r1 a in
            if (off0 <=? p)%nat && (off1 <=? q)%nat then e3 b (p - off0)%nat i (q - off1)%nat else 0)).

Fixpoint add_rec (first : bool) (x y : tt R) : tt R :=
  match x, y with
  | a :: xs, b :: ys =>
      add_core first (match xs with [] => true | _ => false end) a b :: add_rec false xs ys
  | _, _ => []
  end.
Definition add (x y : tt R) : tt R := add_rec true x y.

(* multiply the first core by a scalar: `cores_new[0] *= other`, `-cores[0]`, `cores_new[0] /= other` *)
Definition scal_core (s : R) (c : core3 R) : core3 R :=
  mk3 (r0 c) (nn c) (r1 c) (fun p i q => s * e3 c p i q).
Definition scal_first (s : R) (x : tt R) : tt R :=
  match x with [] => [] | c :: cs => scal_core s c :: cs end.
Definition neg_core (c : core3 R) : core3 R :=
  mk3 (r0 c) (nn c) (r1 c) (fun p i q => - e3 c p i q).
Definition neg_first (x : tt R) : tt R :=
  match x with [] => [] | c :: cs => neg_core c :: cs end.
Definition neg (x : tt R) : tt R := neg_first x.

(* the constant tensor a scalar operand stands for:  ones([1,1,1]) * (other if i == 0 else 1),
   broadcast along the mode by the addition with the padded core *)
Definition const_core (s : R) (n : nat) : core3 R := mk3 1 n 1 (fun _ _ _ => s).
Fixpoint const_rec (s : R) (ns : list nat) : tt R :=
  match ns with [] => [] | n :: t => const_core s n :: const_rec 1 t end.
Definition const_tt (s : R) (ns : list nat) : tt R := const_rec s ns.

Definition add_scalar (x : tt R) (s : R) : tt R := add x (const_tt s (shape x)).
Definition sub_scalar (x : tt R) (s : R) : tt R := add x (const_tt (- s) (shape x)).

(* index remapping of the mode of a core: e' p i q = e p (f i) q, or 0 where f is undefined.
   Covers tile (broadcast of a size-1 mode), zero padding, block placement (cat), slicing. *)
Definition remap_core (n' : nat) (f : nat -> option nat) (c : core3 R) : core3 R :=
  mk3 (r0 c) n' (r1 c) (fun p i q => match f i with Some i' => e3 c p i' q | None => 0 end).

(* torch-style broadcasting of `other` against the mode sizes ns of self (len other <= len self):
   missing leading modes become ones((1,N_i,1)), size-1 modes are tiled *)
Definition tile_core (n : nat) (c : core3 R) : core3 R := remap_core n (fun _ => Some O) c.
Fixpoint expand_aligned (ns : list nat) (y : tt R) : tt R :=
  match ns, y with
  | n :: nt, c :: ct => (if Nat.eqb (nn c) n then c else tile_core n c) :: expand_aligned nt ct
  | _, _ => []
  end.
Definition expand (ns : list nat) (y : tt R) : tt R :=
  let k := (length ns - length y)%nat in
  const_tt 1 (firstn k ns) ++ expand_aligned (skipn k ns) y.
(* which alignments the code accepts: other.N[k] == self.N[i] or other.N[k] == 1 *)
Fixpoint bcast_okb (ns : list nat) (y : tt R) : bool :=
  match ns, y with
  | n :: nt, c :: ct => (Nat.eqb (nn c) n || Nat.eqb (nn c) 1) && bcast_okb nt ct
  | [], [] => true
  | _, _ => false
  end.
Definition bcast_ok (ns : list nat) (y : tt R) : bool :=
  (length y <=? length ns)%nat && bcast_okb (skipn (length ns - length y) ns) y.

Definition sub (x y : tt R) : tt R := add x (neg_first y).
Definition add_bcast (x y : tt R) : tt R := add x (expand (shape x) y).
Definition sub_bcast (x y : tt R) : tt R := add x (neg_first (expand (shape x) y)).
(* __rsub__: T = self - other; T.cores[0] = -T.cores[0] *)
Definition rsub_scalar (x : tt R) (s : R) : tt R := neg_first (sub_scalar x s).

(* reshape(einsum('aib,min->amibn'), [Ra*Rb, N, Ra'*Rb'])  (TT.__mul__, line 737) *)
Definition mul_core (a b : core3 R) : core3 R :=
  mk3 (r0 a * r0 b) (nn a) (r1 a * r1 b)
      (fun p i q => e3 a (p / r0 b)%nat i (q / r1 b)%nat * e3 b (p mod r0 b)%nat i (q mod r1 b)%nat).
Fixpoint mul (x y : tt R) : tt R :=
  match x, y with a :: xs, b :: ys => mul_core a b :: mul xs ys | _, _ => [] end.
Definition mul_bcast (x y : tt R) : tt R := mul x (expand (shape x) y).

Definition zeros_tt (ns : list nat) : tt R := map (fun n => mk3 1 n 1 (fun _ _ _ => 0)) ns.
Definition ones_tt (ns : list nat) : tt R := map (fun n => mk3 1 n 1 (fun _ _ _ => 1)) ns.
(* `if other != 0: cores_new[0] *= other  else: zeros` *)
Definition mul_scalar (x : tt R) (s : R) : tt R :=
  if reqb s 0 then zeros_tt (shape x) else scal_first s x.
(* x / s with s * sinv = 1 *)
Definition div_scalar (x : tt R) (sinv : R) : tt R := scal_first sinv x.
(* x ** y *)
Definition kron_tt (x y : tt R) : tt R := x ++ y.

(* rank1TT, meshgrid (rank-1 tensors from vectors) *)
Definition vec_core (n : nat) (v : nat -> R) : core3 R := mk3 1 n 1 (fun _ i _ => v i).
Definition rank1 (vs : list (nat * (nat -> R))) : tt R := map (fun nv => vec_core (fst nv) (snd nv)) vs.

End Arith.
