(* TT tensors / TT matrices as lists of cores; entries as matrix chains.
   Executable: cores built from flat row-major data, list-based evaluation. No proofs here. *)
From Coq Require Import List Arith Bool.
From TT Require Import RingSig SumN Mat Dense.
Import ListNotations.

(* exception classes, as the harness canonicalises them *)
Inductive errc := EShape | ERank | ETypes | EArgs | ENotImpl | ETorch | EPyType | EPyUnbound
                | EPyAttr | EPyIndex | EPyValue | EModel (* outside the modelled domain *).

Section Core.
Context {R : Type} {RO : RingOps R}.
Open Scope R_scope.

Record core3 := mk3 { r0 : nat; nn : nat; r1 : nat; e3 : nat -> nat -> nat -> R }.
Record core4 := mk4 { q0 : nat; mm : nat; nm : nat; q1 : nat; e4 : nat -> nat -> nat -> nat -> R }.
Definition tt := list core3.
Definition ttm := list core4.

(* --- semantics --- *)
Fixpoint slices (x : tt) (idx : list nat) : list (sl R) :=
  match x, idx with
  | c :: cs, i :: is_ => (r1 c, fun a b => e3 c a i b) :: slices cs is_
  | _, _ => []
  end.
Definition entry (x : tt) (idx : list nat) : R := chainM (slices x idx) 0%nat 0%nat.

Fixpoint slices4 (x : ttm) (is_ js : list nat) : list (sl R) :=
  match x, is_, js with
  | c :: cs, i :: it, j :: jt => (q1 c, fun a b => e4 c a i j b) :: slices4 cs it jt
  | _, _, _ => []
  end.
Definition entry4 (x : ttm) (is_ js : list nat) : R := chainM (slices4 x is_ js) 0%nat 0%nat.

(* --- well-formedness (what TT.__init__ checks for a list of cores) --- *)
Fixpoint chained (r : nat) (x : tt) : Prop :=
  match x with [] => r = 1%nat | c :: cs => r0 c = r /\ chained (r1 c) cs end.
Definition wf (x : tt) : Prop := x <> [] /\ chained 1 x.
Fixpoint chained4 (r : nat) (x : ttm) : Prop :=
  match x with [] => r = 1%nat | c :: cs => q0 c = r /\ chained4 (q1 c) cs end.
Definition wf4 (x : ttm) : Prop := x <> [] /\ chained4 1 x.

Fixpoint chainedb (r : nat) (x : tt) : bool :=
  match x with [] => Nat.eqb r 1 | c :: cs => Nat.eqb (r0 c) r && chainedb (r1 c) cs end.
Definition wfb (x : tt) : bool := match x with [] => false | _ => chainedb 1 x end.
Fixpoint chained4b (r : nat) (x : ttm) : bool :=
  match x with [] => Nat.eqb r 1 | c :: cs => Nat.eqb (q0 c) r && chained4b (q1 c) cs end.
Definition wf4b (x : ttm) : bool := match x with [] => false | _ => chained4b 1 x end.

Definition shape (x : tt) : list nat := map nn x.
Definition ranks (x : tt) : list nat := match x with [] => [1%nat; 1%nat] | c :: _ => r0 c :: map r1 x end.
Definition shapeM (x : ttm) : list nat := map mm x.
Definition shapeN (x : ttm) : list nat := map nm x.
Definition ranks4 (x : ttm) : list nat := match x with [] => [1%nat; 1%nat] | c :: _ => q0 c :: map q1 x end.

Definition inbox (idx ns : list nat) : Prop := Forall2 lt idx ns.

(* --- executable side --- *)
Definition core_of_flat (a n b : nat) (data : list R) : core3 :=
  mk3 a n b (fun p i q => nth ((p * n + i) * b + q) data 0).
Definition core4_of_flat (a m n b : nat) (data : list R) : core4 :=
  mk4 a m n b (fun p i j q => nth (((p * m + i) * n + j) * b + q) data 0).

Definition flat_of_core (c : core3) : list R :=
  flat_map (fun p => flat_map (fun i => map (fun q => e3 c p i q) (seq 0 (r1 c))) (seq 0 (nn c))) (seq 0 (r0 c)).
Definition flat_of_core4 (c : core4) : list R :=
  flat_map (fun p => flat_map (fun i => flat_map (fun j => map (fun q => e4 c p i j q) (seq 0 (q1 c)))
     (seq 0 (nm c))) (seq 0 (mm c))) (seq 0 (q0 c)).
(* tabulate: same core, entries looked up in a table (stops closure growth along histories) *)
Definition tab (c : core3) : core3 := core_of_flat (r0 c) (nn c) (r1 c) (flat_of_core c).
Definition tab4 (c : core4) : core4 := core4_of_flat (q0 c) (mm c) (nm c) (q1 c) (flat_of_core4 c).

(* column-vector evaluation, right to left: cost sum r_k r_{k+1} per entry *)
Fixpoint colvec (x : tt) (idx : list nat) : list R :=
  match x, idx with
  | c :: cs, i :: is_ =>
      let v := colvec cs is_ in
      map (fun p => sum_n (r1 c) (fun l => e3 c p i l * nth l v 0)) (seq 0 (r0 c))
  | _, _ => [1]
  end.
Definition entry_l (x : tt) (idx : list nat) : R := nth 0 (colvec x idx) 0.

Fixpoint colvec4 (x : ttm) (is_ js : list nat) : list R :=
  match x, is_, js with
  | c :: cs, i :: it, j :: jt =>
      let v := colvec4 cs it jt in
      map (fun p => sum_n (q1 c) (fun l => e4 c p i j l * nth l v 0)) (seq 0 (q0 c))
  | _, _, _ => [1]
  end.
Definition entry4_l (x : ttm) (is_ js : list nat) : R := nth 0 (colvec4 x is_ js) 0.

Definition full (x : tt) : list R := map (entry_l x) (all_idx (shape x)).
(* TT matrix: dense layout M1..Md x N1..Nd, row-major *)
Definition full4 (x : ttm) : list R :=
  flat_map (fun is_ => map (fun js => entry4_l x is_ js) (all_idx (shapeN x))) (all_idx (shapeM x)).

(* dense view of a TT tensor (specification side uses the chain semantics) *)
Definition to_dense (x : tt) : dense R := mkD (shape x) (entry x).
Definition to_dense_l (x : tt) : dense R := mkD (shape x) (entry_l x).

End Core.
Arguments core3 R : clear implicits.
Arguments core4 R : clear implicits.
Arguments tt R : clear implicits.
Arguments ttm R : clear implicits.
