(* Value-level model of cat / pad / diag / mprod / to_ttm / conj / clone (torchtt/_extras.py, _tt_base.py; C09)
   and of the per-mode index remapping that slicing (C08) shares with them.  Executable, no proofs. *)
From Coq Require Import List Arith Bool.
From TT Require Import RingSig SumN Mat Dense Core Arith MatOps.
Import ListNotations.

Section Struct.
Context {R : Type} {RO : RingOps R}.
Open Scope R_scope.

(* a mode map: new mode size and, for every new index, the old index it reads (None = a zero entry) *)
Definition modemap := (nat * (nat -> option nat))%type.
Fixpoint remaps (fs : list modemap) (x : tt R) : tt R :=
  match fs, x with
  | (n, f) :: ft, c :: ct => remap_core n f c :: remaps ft ct
  | _, _ => []
  end.
Fixpoint map_idx (fs : list modemap) (idx : list nat) : option (list nat) :=
  match fs, idx with
  | (_, f) :: ft, i :: it =>
      match f i, map_idx ft it with Some i', Some it' => Some (i' :: it') | _, _ => None end
  | _, _ => Some []
  end.

Definition mm_id (n : nat) : modemap := (n, fun i => Some i).
(* constant padding of a mode with zeros: b before, a after *)
Definition mm_pad (n b a : nat) : modemap :=
  ((b + n + a)%nat, fun i => if (b <=? i)%nat && (i <? b + n)%nat then Some (i - b)%nat else None).

(* ---- pad (TT tensors), as repaired (twice): zero padding, then  + value * (indicator of the complement of the block) ----
   padding is given for every mode (the code left-fills with (0,0)) *)
Fixpoint pad_maps (ns : list nat) (padding : list (nat * nat)) : list modemap :=
  match ns, padding with
  | n :: nt, (b, a) :: pt => mm_pad n b a :: pad_maps nt pt
  | _, _ => []
  end.
Definition fill_pads (d : nat) (padding : list (nat * nat)) : list (nat * nat) :=
  repeat (0%nat, 0%nat) (d - length padding) ++ padding.
Definition padz (x : tt R) (padding : list (nat * nat)) : tt R := remaps (pad_maps (shape x) padding) x.
(* the indicator of the complement of the original block, as the code builds it: cores with entries 0 / 1 only and two rank slots,
   row 0 = "every mode so far inside the block", row 1 = "already outside"; the last core closes with "outside" (nothing cancels) *)
Definition outside_core (first last : bool) (n b a : nat) : core3 R :=
  mk3 (if first then 1 else 2)%nat (b + n + a)%nat (if last then 1 else 2)%nat
      (fun p i q =>
         let ins := (b <=? i)%nat && (i <? b + n)%nat in
         if Nat.eqb p 0 then
           (if last then (if ins then 0 else 1)
            else if Nat.eqb q 0 then (if ins then 1 else 0) else (if ins then 0 else 1))
         else (if last then 1 else if Nat.eqb q 0 then 0 else 1)).
Fixpoint outside_cores (first : bool) (ns : list nat) (pd : list (nat * nat)) : tt R :=
  match ns, pd with
  | n :: nt, (b, a) :: pt => outside_core first (match nt with [] => true | _ => false end) n b a :: outside_cores false nt pt
  | _, _ => []
  end.
Definition outside_tt (ns : list nat) (pd : list (nat * nat)) : tt R := outside_cores true ns pd.
Definition pad_tt (x : tt R) (padding : list (nat * nat)) (value : R) : tt R :=
  let pd := fill_pads (length x) padding in
  let z := padz x pd in
  if reqb value 0 then z
  else add z (mul_scalar (outside_tt (shape x) pd) value).

(* ---- cat: block placement with running rank offsets = nested block sums of the operands embedded with
   zeros along the concatenation mode ---- *)
Fixpoint cat_maps (i dim : nat) (ns : list nat) (before after : nat) : list modemap :=
  match ns with
  | [] => []
  | n :: nt => (if Nat.eqb i dim then mm_pad n before after else mm_id n) :: cat_maps (S i) dim nt before after
  end.
Definition cat2 (dim : nat) (x y : tt R) : tt R :=
  let nx := nth dim (shape x) 0%nat in
  let ny := nth dim (shape y) 0%nat in
  add (remaps (cat_maps 0 dim (shape x) 0 ny) x) (remaps (cat_maps 0 dim (shape y) nx 0) y).
Definition cat_tt (dim : nat) (ts : list (tt R)) : tt R :=
  match ts with [] => [] | t :: rest => fold_left (cat2 dim) rest t end.

(* ---- mprod: einsum('ijk,lj->ilk', core, M) on the selected core; M given as (rows l, entry function) ---- *)
Definition mprod_core (l : nat) (M : nat -> nat -> R) (c : core3 R) : core3 R :=
  mk3 (r0 c) l (r1 c) (fun p i q => sum_n (nn c) (fun j => M i j * e3 c p j q)).
Fixpoint mprod1 (x : tt R) (k l : nat) (M : nat -> nat -> R) : tt R :=
  match x, k with
  | [], _ => []
  | c :: ct, O => mprod_core l M c :: ct
  | c :: ct, S k' => c :: mprod1 ct k' l M
  end.
Fixpoint mprod_list (x : tt R) (ms : list (nat * nat * (nat -> nat -> R))) : tt R :=
  match ms with
  | [] => x
  | (k, l, M) :: t => mprod_list (mprod1 x k l M) t
  end.

(* ---- diag ---- *)
(* tensor -> diagonal operator: einsum('ijk,jm->ijmk', c, eye) *)
Definition diag_core (c : core3 R) : core4 R :=
  mk4 (r0 c) (nn c) (nn c) (r1 c) (fun p i j q => e3 c p i q * delta i j).
Definition diag_tt (x : tt R) : ttm R := map diag_core x.
(* operator -> its diagonal: diagonal(c, dim1=1, dim2=2).permute([0,2,1]); length min(m, n) *)
Definition undiag_core (c : core4 R) : core3 R :=
  mk3 (q0 c) (Nat.min (mm c) (nm c)) (q1 c) (fun p i q => e4 c p i i q).
Definition diag_ttm (x : ttm R) : tt R := map undiag_core x.

(* ---- to_ttm: reshape(c, (r, n, 1, r')) ---- *)
Definition to_ttm_core (c : core3 R) : core4 R := mk4 (r0 c) (nn c) 1 (r1 c) (fun p i _ q => e3 c p i q).
Definition to_ttm (x : tt R) : ttm R := map to_ttm_core x.

(* ---- conj, clone ---- *)
Definition conj_tt (x : tt R) : tt R := map (fun c => mk3 (r0 c) (nn c) (r1 c) (fun p i q => rconj (e3 c p i q))) x.
Definition conj_ttm (x : ttm R) : ttm R :=
  map (fun c => mk4 (q0 c) (mm c) (nm c) (q1 c) (fun p i j q => rconj (e4 c p i j q))) x.

(* ---- pad (TT matrices): rank-augmenting block-diagonal padding.
   [lead | original | trail] channels; lead / trail carry value*eye on the last core and eye on the others ---- *)
Definition lead_core (m n b : nat) (ma na : nat) (v : R) : core4 R :=
  mk4 1 (b + m + ma) (b + n + na) 1
      (fun _ i j _ => if (i <? b)%nat && (j <? b)%nat then v * delta i j else 0).
Definition trail_core (m n b : nat) (a : nat) (v : R) : core4 R :=
  mk4 1 (b + m + a) (b + n + a) 1
      (fun _ i j _ => if (b + m <=? i)%nat && (b + n <=? j)%nat then v * delta (i - (b + m)) (j - (b + n)) else 0).
Definition padz_core4 (b a : nat) (c : core4 R) : core4 R :=
  mk4 (q0 c) (b + mm c + a) (b + nm c + a) (q1 c)
      (fun p i j q => if (b <=? i)%nat && (i <? b + mm c)%nat && (b <=? j)%nat && (j <? b + nm c)%nat
                      then e4 c p (i - b)%nat (j - b)%nat q else 0).
Fixpoint zip_pad {A} (f : bool -> nat -> nat -> core4 R -> A) (x : ttm R) (padding : list (nat * nat)) : list A :=
  match x, padding with
  | c :: ct, (b, a) :: pt => f (match ct with [] => true | _ => false end) b a c :: zip_pad f ct pt
  | _, _ => []
  end.
Definition pad_ttm (x : ttm R) (padding : list (nat * nat)) (value : R) : ttm R :=
  let pd := fill_pads (length x) padding in
  let z := zip_pad (fun _ b a c => padz_core4 b a c) x pd in
  let lead := zip_pad (fun last b a c => lead_core (mm c) (nm c) b a a (if last then value else 1)) x pd in
  let trail := zip_pad (fun last b a c => trail_core (mm c) (nm c) b a (if last then value else 1)) x pd in
  add4 (add4 lead z) trail.

End Struct.
