(* Control skeletons of the iterative routines (C11 DMRG / AMEn products, C12 AMEn solve, C13 division): only the decisions
   that are logic - the residual-driven rank search of amen_solve / amen_divide, the truncation thresholds of the DMRG sweeps,
   the final rank clamp.  Every floating-point quantity is an oracle. *)
From Coq Require Import List Arith Bool.
From TT Require Import OrdRing RankChop.
Import ListNotations.

(* solvers.py:556-571 / _division.py:   r = 0
                                         for r in range(n-1, 0, -1):
                                             if res(r) > bound: break
                                         r += 1
   ok r := (res(r) <= bound) is the oracle; n = number of singular values *)
Fixpoint search_down (ok : nat -> bool) (r : nat) : nat :=     (* value of the loop variable when the loop stops *)
  match r with
  | O => O
  | S r' => if ok (S r') then (match r' with O => 1 | _ => search_down ok r' end) else S r'
  end.
Definition rank_search (ok : nat -> bool) (n : nat) : nat :=
  match n with
  | O | S O => 1                           (* empty range: r stays 0, then r += 1 *)
  | S n' => S (search_down ok n')          (* n' = n-1 >= 1 *)
  end.
(* the rank finally used: min(r, len(s), rmax) *)
Definition clamp_rank (r n rmax : nat) : nat := Nat.min r (Nat.min n rmax).

(* DMRG sweeps (fast_matvec, dmrg_hadamard): rank_chop(S, ||W|| * eps / d^(0.5 if last else 1.5)), then min with rmax.
   In squared form: sc < eps^2 ||W||^2 / d^e with e = 1 (last sweep) or 3; both sides scaled by d^e. *)
Definition dmrg_bond_rank {T} `{OrdOps T} (d : nat) (last : bool) (q : list T) (pos : bool) (eps2 : T) (rmax : nat) : nat :=
  let scale := if last then d else d * d * d in
  Nat.min (rank_chop (map (omul (ofnat scale)) q) pos (omul eps2 (sumT q))) rmax.
