(* The local problem of the alternating solvers (C12 amen_solve; the same recursions drive amen_mv / amen_mm of C11 and the division of C13):
   torchtt/solvers.py _compute_phi_fwd_A / _compute_phi_bck_A (interface tensors of x^T A x), _compute_phi_fwd_rhs / _compute_phi_bck_rhs,
   the dense local operator B of the direct local solve and _local_product of the iterative one.
   The forward step is literally the step of bilinear_form (Reduce.v, bilin_loop); with the involution of the ring as conjugation the model is the
   mathematically intended (Hermitian) projection - what torchtt/_division.py does after its repair; the pinned solvers.py contracts without
   conjugation, which is the same thing on real data (the only data C12 quantifies over, and what the correspondence runs on). *)
From Coq Require Import List Arith Bool.
From TT Require Import RingSig SumN Mat Dense Core Reduce.
Import ListNotations.

Section Local.
Context {R : Type} {RO : RingOps R}.
Open Scope R_scope.

Notation t3 := (nat -> nat -> nat -> R) (only parsing).

(* einsum('lsr,lML,sMNS,rNR->LSR', Phi, conj(left), A, right) *)
Definition phi_fwd (T : t3) (a : core3 R) (c : core4 R) (b : core3 R) : t3 := fun L S R' =>
  sum_n (nm c) (fun n => sum_n (mm c) (fun m =>
    sum_n (r0 a) (fun l => sum_n (q0 c) (fun s => sum_n (r0 b) (fun r =>
      T l s r * rconj (e3 a l m L) * e4 c s m n S * e3 b r n R'))))).
(* einsum('LSR,lML,sMNS,rNR->lsr', Phi, conj(left), A, right) *)
Definition phi_bck (P : t3) (a : core3 R) (c : core4 R) (b : core3 R) : t3 := fun l s r =>
  sum_n (nm c) (fun n => sum_n (mm c) (fun m =>
    sum_n (r1 a) (fun L => sum_n (q1 c) (fun S => sum_n (r1 b) (fun R' =>
      P L S R' * rconj (e3 a l m L) * e4 c s m n S * e3 b r n R'))))).
Definition ones3 : t3 := fun _ _ _ => 1.
(* Phis[k] after the cores 0..k-1 (left to right), Phis[k+1] from the cores k+1..d-1 (right to left) *)
Fixpoint phiF (x : tt R) (A : ttm R) (y : tt R) (T : t3) : t3 :=
  match x, A, y with
  | a :: xs, c :: As, b :: ys => phiF xs As ys (phi_fwd T a c b)
  | _, _, _ => T
  end.
Fixpoint phiB (x : tt R) (A : ttm R) (y : tt R) : t3 :=
  match x, A, y with
  | a :: xs, c :: As, b :: ys => phi_bck (phiB xs As ys) a c b
  | _, _, _ => ones3
  end.

(* the dense local operator: einsum('lsr,smnS,LSR->lmLrnR', Phis[k], A_k, Phis[k+1]), rows (l,m,L), columns (r,n,R) *)
Definition local_mat (PL : t3) (c : core4 R) (PR : t3) (l m L r n R' : nat) : R :=
  sum_n (q0 c) (fun s => sum_n (q1 c) (fun S => PL l s r * e4 c s m n S * PR L S R')).
(* _local_product: einsum('lsr,smnS,LSR,rnR->lmL', Phi_left, A_k, Phi_right, core) *)
Definition local_product (PL : t3) (c : core4 R) (PR : t3) (x : core3 R) : core3 R :=
  mk3 (r0 x) (mm c) (r1 x) (fun l m L =>
    sum_n (r0 x) (fun r => sum_n (nm c) (fun n => sum_n (r1 x) (fun R' => local_mat PL c PR l m L r n R' * e3 x r n R')))).

(* right-hand side: einsum('br,bnB,rnR->BR', Phi, b_k, conj(x_k)) and its mirror, local rhs einsum('br,bmB,BR->rmR') *)
Definition phib_fwd (P : mat R) (bc x : core3 R) : mat R := fun B R' =>
  sum_n (r0 bc) (fun b => sum_n (r0 x) (fun r => sum_n (nn bc) (fun n => P b r * e3 bc b n B * rconj (e3 x r n R')))).
Definition phib_bck (P : mat R) (bc x : core3 R) : mat R := fun b r =>
  sum_n (r1 bc) (fun B => sum_n (r1 x) (fun R' => sum_n (nn bc) (fun n => P B R' * e3 bc b n B * rconj (e3 x r n R')))).
Definition local_rhs (PL : mat R) (bc : core3 R) (PR : mat R) (ra rb : nat) : core3 R :=
  mk3 ra (nn bc) rb (fun r m R' => sum_n (r0 bc) (fun b => sum_n (r1 bc) (fun B => PL b r * e3 bc b m B * PR B R'))).

(* the interfaces of the right-hand side after the cores 0..k-1 (left to right, from ones((1,1))) and from the cores k+1..d-1 (right to left) *)
Definition ones2 : mat R := fun _ _ => 1.
Fixpoint phibF (b x : tt R) (P : mat R) : mat R :=
  match b, x with
  | bc :: bs, a :: xs => phibF bs xs (phib_fwd P bc a)
  | _, _ => P
  end.
Fixpoint phibB (b x : tt R) : mat R :=
  match b, x with
  | bc :: bs, a :: xs => phib_bck (phibB bs xs) bc a
  | _, _ => ones2
  end.

(* the two-site supercore of the DMRG products (torchtt/_dmrg.py, dmrg_matvec): W1 = Phis[k] x A_k x x_k, W2 = Phis[k+2] x A_(k+1) x x_(k+1),
   W[l, m1, m2, L] = sum_{a, r} W1[l, m1, a, r] W2[a, m2, r, L]  (real data: the code conjugates operands and result, which cancels) *)
Definition super_right (c2 : core4 R) (x2 : core3 R) (PR : t3) (m2 L : nat) : nat -> nat -> R := fun S R' =>
  sum_n (nm c2) (fun n2 => sum_n (q1 c2) (fun S' => sum_n (r1 x2) (fun R'' => PR L S' R'' * e4 c2 S m2 n2 S' * e3 x2 R' n2 R''))).
Definition supercore (PL : t3) (c1 : core4 R) (x1 : core3 R) (c2 : core4 R) (x2 : core3 R) (PR : t3) (l m1 m2 L : nat) : R :=
  sum_n (r0 x1) (fun r => sum_n (nm c1) (fun n => sum_n (r1 x1) (fun R' =>
    sum_n (q0 c1) (fun s => sum_n (q1 c1) (fun S => PL l s r * e4 c1 s m1 n S * super_right c2 x2 PR m2 L S R')) * e3 x1 r n R'))).

(* ---- operator-operator products (amen_mm): `_compute_phi_fwd_AB` 'rab,amkA,bknB,rmnR->RAB', `_compute_phi_bck_AB` 'RAB,amkA,bknB,rmnR->rab' and
   `_local_AB` 'rab,amkA,bknB,RAB->rmnR' of torchtt/_amen.py.  The column index n of B and of the result is a spectator of the local product and is summed
   in the interface recursions: everything is the matrix-vector case on the column slices ---- *)
Definition colcore (c : core4 R) (n : nat) : core3 R := mk3 (q0 c) (mm c) (q1 c) (fun p i q => e4 c p i n q).
Definition phi_fwd4 (T : t3) (y A B : core4 R) : t3 := fun R' A' B' => sum_n (nm B) (fun n => phi_fwd T (colcore y n) A (colcore B n) R' A' B').
Definition phi_bck4 (P : t3) (y A B : core4 R) : t3 := fun r a b => sum_n (nm B) (fun n => phi_bck P (colcore y n) A (colcore B n) r a b).
Fixpoint phiF4 (x A B : ttm R) (T : t3) : t3 :=
  match x, A, B with
  | y :: xs, a :: As, b :: Bs => phiF4 xs As Bs (phi_fwd4 T y a b)
  | _, _, _ => T
  end.
Fixpoint phiB4 (x A B : ttm R) : t3 :=
  match x, A, B with
  | y :: xs, a :: As, b :: Bs => phi_bck4 (phiB4 xs As Bs) y a b
  | _, _, _ => ones3
  end.
Definition local_AB (PL : t3) (A B : core4 R) (PR : t3) (ra rb : nat) : core4 R :=
  mk4 ra (mm A) (nm B) rb (fun r m n R' => e3 (local_product PL A PR (colcore B n)) r m R').
(* the column slices of a TT matrix at a column multi-index: a TT tensor over the row modes *)
Fixpoint cols (x : ttm R) (js : list nat) : tt R :=
  match x, js with
  | c :: ct, j :: jt => colcore c j :: cols ct jt
  | _, _ => []
  end.

(* a core with a single entry equal to one: the basis vector (l0, m0, L0) of the local space *)
Definition unit3 (ra n rb l0 m0 L0 : nat) : core3 R :=
  mk3 ra n rb (fun l m L => delta l0 l * delta m0 m * delta L0 L).

(* observation for the correspondence check *)
Definition t3_flat (ra rs rb : nat) (T : t3) : list R :=
  flat_map (fun l => flat_map (fun s => map (fun r => T l s r) (seq 0 rb)) (seq 0 rs)) (seq 0 ra).
End Local.

(* ---- the correspondence check: the helper functions of torchtt/solvers.py on integer data against the definitions above ---- *)
Section LocalCheck.
Context {R : Type} {RO : RingOps R}.
Definition t3_of_flat (rs rb : nat) (data : list R) : nat -> nat -> nat -> R := fun l s r => nth ((l * rs + s) * rb + r) data rO.
Definition mat_of_flat (cols : nat) (data : list R) : mat R := fun i j => nth (i * cols + j) data rO.
Definition mat_flat (rows cols : nat) (A : mat R) : list R := flat_map (fun i => map (fun j => A i j) (seq 0 cols)) (seq 0 rows).
Definition c3 (o : nat * nat * nat * list R) : core3 R := match o with (a, n, b, d) => core_of_flat a n b d end.
Definition c4 (o : nat * nat * nat * nat * list R) : core4 R := match o with (a, m, n, b, d) => core4_of_flat a m n b d end.
Definition eqb_l (a b : list R) : bool := Nat.eqb (length a) (length b) && forallb (fun p => reqb (fst p) (snd p)) (combine a b).
(* each returns 0 on agreement *)
Definition check_phi_fwd (rs rb : nat) (T : list R) a c b (impl : list R) : nat :=
  if eqb_l (t3_flat (r1 (c3 a)) (q1 (c4 c)) (r1 (c3 b)) (phi_fwd (t3_of_flat rs rb T) (c3 a) (c4 c) (c3 b))) impl then 0 else 4.
Definition check_phi_bck (rs rb : nat) (P : list R) a c b (impl : list R) : nat :=
  if eqb_l (t3_flat (r0 (c3 a)) (q0 (c4 c)) (r0 (c3 b)) (phi_bck (t3_of_flat rs rb P) (c3 a) (c4 c) (c3 b))) impl then 0 else 4.
Definition check_phib_fwd (cols : nat) (P : list R) bc x (impl : list R) : nat :=
  if eqb_l (mat_flat (r1 (c3 bc)) (r1 (c3 x)) (phib_fwd (mat_of_flat cols P) (c3 bc) (c3 x))) impl then 0 else 4.
Definition check_phib_bck (cols : nat) (P : list R) bc x (impl : list R) : nat :=
  if eqb_l (mat_flat (r0 (c3 bc)) (r0 (c3 x)) (phib_bck (mat_of_flat cols P) (c3 bc) (c3 x))) impl then 0 else 4.
Definition check_local_product (rsL rbL : nat) (PL : list R) c (rsR rbR : nat) (PR : list R) x (impl : list R) : nat :=
  if eqb_l (flat_of_core (local_product (t3_of_flat rsL rbL PL) (c4 c) (t3_of_flat rsR rbR PR) (c3 x))) impl then 0 else 4.
(* the Petrov-Galerkin case (AMEn products): the result lives on the frame of the approximation, ranks ra x rb, not on that of the operand core *)
Definition check_local_product2 (ra rb rsL rbL : nat) (PL : list R) c (rsR rbR : nat) (PR : list R) x (impl : list R) : nat :=
  if eqb_l (flat_of_core (mk3 ra (mm (c4 c)) rb (e3 (local_product (t3_of_flat rsL rbL PL) (c4 c) (t3_of_flat rsR rbR PR) (c3 x))))) impl then 0 else 4.
Definition check_local_rhs (colsL : nat) (PL : list R) bc (colsR : nat) (PR : list R) (ra rb : nat) (impl : list R) : nat :=
  if eqb_l (flat_of_core (local_rhs (mat_of_flat colsL PL) (c3 bc) (mat_of_flat colsR PR) ra rb)) impl then 0 else 4.
(* whole-train composition, as the sweeps compose the helper functions: interfaces of (x, A, x) and of (b, x) from the ends up to position k, then the
   local product applied to the k-th core of x and the local right-hand side; 0 on agreement with both lists computed by the implementation *)
Definition check_chain (pre post : list (nat * nat * nat * list R)) (Apre Apost : list (nat * nat * nat * nat * list R)) ck g
                       (bpre bpost : list (nat * nat * nat * list R)) bk (impl_lp impl_rhs : list R) : nat :=
  let xpre := map c3 pre in let xpost := map c3 post in
  let PL := phiF xpre (map c4 Apre) xpre ones3 in let PR := phiB xpost (map c4 Apost) xpost in
  if eqb_l (flat_of_core (local_product PL (c4 ck) PR (c3 g))) impl_lp then
    if eqb_l (flat_of_core (local_rhs (phibF (map c3 bpre) xpre ones2) (c3 bk) (phibB (map c3 bpost) xpost) (r0 (c3 g)) (r1 (c3 g)))) impl_rhs then 0 else 5
  else 4.
Definition check_phi_fwd4 (rs rb : nat) (T : list R) y a b (impl : list R) : nat :=
  if eqb_l (t3_flat (q1 (c4 y)) (q1 (c4 a)) (q1 (c4 b)) (phi_fwd4 (t3_of_flat rs rb T) (c4 y) (c4 a) (c4 b))) impl then 0 else 4.
Definition check_phi_bck4 (rs rb : nat) (P : list R) y a b (impl : list R) : nat :=
  if eqb_l (t3_flat (q0 (c4 y)) (q0 (c4 a)) (q0 (c4 b)) (phi_bck4 (t3_of_flat rs rb P) (c4 y) (c4 a) (c4 b))) impl then 0 else 4.
Definition check_local_AB (ra rb rsL rbL : nat) (PL : list R) a b (rsR rbR : nat) (PR : list R) (impl : list R) : nat :=
  if eqb_l (flat_of_core4 (local_AB (t3_of_flat rsL rbL PL) (c4 a) (c4 b) (t3_of_flat rsR rbR PR) ra rb)) impl then 0 else 4.
(* the supercore as a flat list over (l, m1, m2, L), l < ra, L < rc *)
Definition check_supercore (ra rc rsL rbL : nat) (PL : list R) c1 x1 c2 x2 (rsR rbR : nat) (PR : list R) (impl : list R) : nat :=
  let W := supercore (t3_of_flat rsL rbL PL) (c4 c1) (c3 x1) (c4 c2) (c3 x2) (t3_of_flat rsR rbR PR) in
  let got := flat_map (fun l => flat_map (fun m1 => flat_map (fun m2 => map (fun L => W l m1 m2 L) (seq 0 rc)) (seq 0 (mm (c4 c2)))) (seq 0 (mm (c4 c1)))) (seq 0 ra) in
  if eqb_l got impl then 0 else 4.
(* the FIRST supercore dmrg_matvec decomposes (position 0, left interface ones): trains y (the guess), A, x given whole; the right interface is the
   backward recursion over the cores 2.. as the routine itself composes it *)
Definition check_dmrg_first (y : list (nat * nat * nat * list R)) (A : list (nat * nat * nat * nat * list R)) (x : list (nat * nat * nat * list R)) (impl : list R) : nat :=
  match map c4 A, map c3 x, map c3 y with
  | c1 :: c2 :: At, x1 :: x2 :: xt, _ :: y2 :: yt =>
      let W := supercore ones3 c1 x1 c2 x2 (phiB yt At xt) in
      let got := flat_map (fun m1 => flat_map (fun m2 => map (fun L => W 0%nat m1 m2 L) (seq 0 (r1 y2))) (seq 0 (mm c2))) (seq 0 (mm c1)) in
      if eqb_l got impl then 0 else 4
  | _, _, _ => 8
  end.
End LocalCheck.
