(* The gradient of a weighted sum of the entries of a tensor train with respect to one core (what torch.autograd puts into core.grad for
   (w * x.full()).sum()): G[p, i, q] = sum_{idx : idx_k = i} w[idx] * L_k(idx_<k)[p] * R_k(idx_>k)[q].  Executable; tied to autograd through
   torchtt.grad.grad / Tensor.backward on integer data (C15, and C20 through the merged mode of operator cores). No proofs here. *)
From Coq Require Import List Arith Bool.
From TT Require Import RingSig SumN Mat Dense Core.
Import ListNotations.

Section CoreGrad.
Context {R : Type} {RO : RingOps R}.
Open Scope R_scope.
Definition fL (x : tt R) (idx : list nat) (k p : nat) : R := chainM (slices (firstn k x) (firstn k idx)) 0%nat p.
Definition fR (x : tt R) (idx : list nat) (k q : nat) : R := chainM (slices (skipn (S k) x) (skipn (S k) idx)) q 0%nat.
Definition core_grad (x : tt R) (k : nat) (w : list nat -> R) : core3 R :=
  match nth_error x k with
  | Some c => mk3 (r0 c) (nn c) (r1 c) (fun p i q =>
      sum_idx (shape x) (fun idx => if Nat.eqb (nth k idx 0%nat) i then w idx * fL x idx k p * fR x idx k q else 0))
  | None => mk3 0 0 0 (fun _ _ _ => 0)
  end.
(* correspondence: cores as (r0, n, r1, flat data), weights as a flat row-major array over shape x; 0 on agreement *)
Definition check_core_grad (cs : list (nat * nat * nat * list R)) (k : nat) (wdata impl : list R) : nat :=
  let x := map (fun o : nat * nat * nat * list R => match o with (a, n, b, d) => core_of_flat a n b d end) cs in
  let w := dget (dense_of_flat (shape x) wdata) in
  let g := flat_of_core (core_grad x k w) in
  if Nat.eqb (length g) (length impl) && forallb (fun pq => reqb (fst pq) (snd pq)) (combine g impl) then 0%nat else 4%nat.
End CoreGrad.
