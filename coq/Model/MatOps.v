(* Value-level model of the TT-matrix algebra of torchtt/_tt_base.py and _aux_ops.py (C04). *)
From Coq Require Import List Arith Bool.
From TT Require Import RingSig SumN Mat Dense Core Arith.
Import ListNotations.

Section MatOps.
Context {R : Type} {RO : RingOps R}.
Open Scope R_scope.

(* a 4-d core seen as a 3-d core with the merged mode k = i*n + j, and back *)
Definition flat4 (c : core4 R) : core3 R :=
  mk3 (q0 c) (mm c * nm c) (q1 c) (fun p k q => e4 c p (k / nm c)%nat (k mod nm c)%nat q).
Definition unflat4 (m n : nat) (c : core3 R) : core4 R :=
  mk4 (r0 c) m n (r1 c) (fun p i j q => e3 c p (i * n + j)%nat q).
Definition flatM (x : ttm R) : tt R := map flat4 x.
Fixpoint unflatM (ms ns : list nat) (z : tt R) : ttm R :=
  match ms, ns, z with
  | m :: mt, n :: nt, c :: ct => unflat4 m n c :: unflatM mt nt ct
  | _, _, _ => []
  end.
Fixpoint merge_idx (ns is_ js : list nat) : list nat :=
  match ns, is_, js with
  | n :: nt, i :: it, j :: jt => (i * n + j)%nat :: merge_idx nt it jt
  | _, _, _ => []
  end.

(* TT-matrix + - * and scalars: the code pads / Kronecker-multiplies the 4-d cores exactly as the
   3-d ones, the two mode axes being carried along; through the merged mode this is the TT
   construction (same core entries). *)
Definition lift2 (f : tt R -> tt R -> tt R) (x y : ttm R) : ttm R :=
  unflatM (shapeM x) (shapeN x) (f (flatM x) (flatM y)).
Definition lift1 (f : tt R -> tt R) (x : ttm R) : ttm R :=
  unflatM (shapeM x) (shapeN x) (f (flatM x)).
Definition add4 := lift2 add.
Definition sub4 := lift2 sub.
Definition mul4 := lift2 mul.
Definition neg4 := lift1 neg.
Definition add_scalar4 (x : ttm R) (s : R) := lift1 (fun z => add_scalar z s) x.
Definition sub_scalar4 (x : ttm R) (s : R) := lift1 (fun z => sub_scalar z s) x.
Definition rsub_scalar4 (x : ttm R) (s : R) := lift1 (fun z => rsub_scalar z s) x.
Definition mul_scalar4 (x : ttm R) (s : R) := lift1 (fun z => mul_scalar z s) x.
Definition div_scalar4 (x : ttm R) (sinv : R) := lift1 (fun z => div_scalar z sinv) x.

(* permute(c, [0,2,1,3]) *)
Definition tr_core (c : core4 R) : core4 R := mk4 (q0 c) (nm c) (mm c) (q1 c) (fun p i j q => e4 c p j i q).
Definition transpose (x : ttm R) : ttm R := map tr_core x.

(* reshape(einsum('ijkl,mkp->imjlp', A, x), [i*m, j, l*p])   (TT.__matmul__, matrix-vector) *)
Definition matvec_core (a : core4 R) (b : core3 R) : core3 R :=
  mk3 (q0 a * r0 b) (mm a) (q1 a * r1 b)
      (fun p j q => sum_n (nm a) (fun k =>
         e4 a (p / r0 b)%nat j k (q / r1 b)%nat * e3 b (p mod r0 b)%nat k (q mod r1 b)%nat)).
Fixpoint matvec (A : ttm R) (x : tt R) : tt R :=
  match A, x with a :: At, b :: xt => matvec_core a b :: matvec At xt | _, _ => [] end.

(* reshape(einsum('mkp,ikjl->imjlp', x, A), [i*m, j, l*p])   (vector-matrix) *)
Definition vecmat_core (b : core3 R) (a : core4 R) : core3 R :=
  mk3 (q0 a * r0 b) (nm a) (q1 a * r1 b)
      (fun p j q => sum_n (mm a) (fun k =>
         e4 a (p / r0 b)%nat k j (q / r1 b)%nat * e3 b (p mod r0 b)%nat k (q mod r1 b)%nat)).
Fixpoint vecmat (x : tt R) (A : ttm R) : tt R :=
  match x, A with b :: xt, a :: At => vecmat_core b a :: vecmat xt At | _, _ => [] end.

(* reshape(einsum('ijkl,mknp->imjnlp', A, B), [i*m, j, n, l*p])   (matrix-matrix) *)
Definition matmat_core (a b : core4 R) : core4 R :=
  mk4 (q0 a * q0 b) (mm a) (nm b) (q1 a * q1 b)
      (fun p j n q => sum_n (nm a) (fun k =>
         e4 a (p / q0 b)%nat j k (q / q1 b)%nat * e4 b (p mod q0 b)%nat k n (q mod q1 b)%nat)).
Fixpoint matmat (A B : ttm R) : ttm R :=
  match A, B with a :: At, b :: Bt => matmat_core a b :: matmat At Bt | _, _ => [] end.

(* dense_matvec (torchtt/_aux_ops.py): result = unsqueeze(other,-1); for each core:
   tensordot(result, core, ([D-d,-1],[2,0])); squeeze(-1).
   v r ns = current tensor at rank index r and remaining column indices ns (batch index fixed);
   one step contracts the first remaining column index and the rank with the core. *)
Fixpoint dmv_loop (x : ttm R) (v : nat -> list nat -> R) (ms : list nat) : R :=
  match x, ms with
  | c :: cs, m :: mt =>
      dmv_loop cs (fun r' ns' => sum_n (nm c) (fun n => sum_n (q0 c) (fun r =>
                     v r (n :: ns') * e4 c r m n r'))) mt
  | _, _ => v 0%nat []
  end.
Definition dense_matvec (A : ttm R) (X : dense R) : dense R :=
  let nb := (length (dshape X) - length A)%nat in
  mkD (firstn nb (dshape X) ++ shapeM A)
      (fun idx => dmv_loop A (fun _ ns => dget X (firstn nb idx ++ ns)) (skipn nb idx)).

(* LinearLayerTT.forward (torchtt/nn.py): the same tensordot loop over the layer's cores, then + bias
   (bias broadcast over the leading batch dimensions) *)
Definition forward (W : ttm R) (bias X : dense R) : dense R := dmap2 radd (dense_matvec W X) bias.

(* eye(shape): rank-1 identity cores *)
Definition eye_core (n : nat) : core4 R := mk4 1 n n 1 (fun _ i j _ => delta i j).
Definition eye_ttm (ns : list nat) : ttm R := map eye_core ns.

End MatOps.
