(* The TT-SVD sweep (torchtt/_decomposition.py: to_tt) at matrix level, in exact arithmetic, with the truncated left
   singular factors as oracle data (C01; the right-to-left rounding sweep of C02 is the mirror image on an orthogonalised
   representation).  A stage = one bond: C (m x (n*q)) is the current remainder, U (m x r) the kept left singular vectors,
   B = U^H C (r x (n*q)) the projected remainder = diag(s) V restricted to the kept rank, reshaped to ((r*n) x q) for the next bond. *)
From Coq Require Import List Arith Bool.
From TT Require Import RingSig SumN Mat Core.
Import ListNotations.

Section Sweep.
Context {R : Type} {RO : RingOps R}.
Open Scope R_scope.

Record stage := mkStage { sm : nat; sr : nat; sn : nat; sq : nat; sU : nat -> nat -> R }.

Definition adjm (A : mat R) : mat R := fun i j => rconj (A j i).
Definition reshape_rows_m (n q : nat) (B : mat R) : mat R := fun row c => B (row / n)%nat ((row mod n) * q + c)%nat.
Definition unreshape_rows (n q : nat) (X : mat R) : mat R := fun a c => X (a * n + c / q)%nat (c mod q)%nat.

(* projected remainder of a stage and the matrix handed to the next stage *)
Definition stage_B (s : stage) (C : mat R) : mat R := mmul (sm s) (adjm (sU s)) C.
Definition stage_next (s : stage) (C : mat R) : mat R := reshape_rows_m (sn s) (sq s) (stage_B s C).

(* the tensor represented by the computed cores: U_1 (U_2 ( ... (U_k C_last))) with the reshapes undone *)
Fixpoint approx (ss : list stage) (C : mat R) : mat R :=
  match ss with
  | [] => C
  | s :: rest => mmul (sr s) (sU s) (unreshape_rows (sn s) (sq s) (approx rest (stage_next s C)))
  end.

(* dimensions chain: the rows of the next remainder are r*n, its columns q = n' * q' *)
Fixpoint stages_ok (ss : list stage) : Prop :=
  match ss with
  | [] => True
  | s :: rest =>
      (0 < sn s)%nat /\ (0 < sq s)%nat /\
      match rest with
      | [] => True
      | s' :: _ => sm s' = (sr s * sn s)%nat /\ sq s = (sn s' * sq s')%nat
      end /\ stages_ok rest
  end.

(* the cores the sweep returns: core k is the kept left factor U_k viewed as r_(k-1) x n_k x r_k (tn.reshape(u, [r, n, -1])), the
   last core is the final remainder viewed as r_(d-1) x n_d x 1.  rprev, ncur: left rank and mode size of the core being emitted. *)
Fixpoint sweep_cores (rprev ncur : nat) (ss : list stage) (C : mat R) : tt R :=
  match ss with
  | [] => [mk3 rprev ncur 1 (fun p i _ => C (p * ncur + i)%nat O)]
  | s :: rest => mk3 rprev ncur (sr s) (fun p i q => sU s (p * ncur + i)%nat q) :: sweep_cores (sr s) (sn s) rest (stage_next s C)
  end.
(* the last bond leaves a single column *)
Fixpoint last_q1 (ss : list stage) : Prop :=
  match ss with [] => True | [s] => sq s = 1%nat | _ :: rest => last_q1 rest end.
End Sweep.
Arguments stage R : clear implicits.
