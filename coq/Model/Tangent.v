(* Model of torchtt/manifold.py (C16): the interface recursion of riemannian_projection (lines 96-164: Pleft, Pright, the deltas Sds)
   and the block cores of _delta2cores (lines 11-44), for given left- and right-orthogonalised representations l, r of the base point.
   The two QR sweeps that produce l and r are NOT part of this model (their outputs are inputs here; what the sweeps guarantee -
   orthonormal unfoldings, same tensor - is measured by the check and is the hypothesis of the theorems of OrthP / GaugeP).
   TT matrices: the code contracts the index pair (i,j) exactly where the tensor code contracts i, so the model on the merged mode
   (flatM) is the model of the operator branch. *)
From Coq Require Import List Arith Bool.
From TT Require Import RingSig SumN Mat Dense Core.
Import ListNotations.

Section Tangent.
Context {R : Type} {RO : RingOps R}.
Open Scope R_scope.

(* tn.einsum('rs,riR,siS->RS', P, l, z) *)
Definition pl_step (P : mat R) (l z : core3 R) : mat R := fun a b =>
  sum_n (r0 l) (fun r => sum_n (r0 z) (fun s => sum_n (nn l) (fun i => P r s * e3 l r i a * e3 z s i b))).
(* tn.einsum('RS,riR,siS->rs', P, r, z) *)
Definition pr_step (P : mat R) (r z : core3 R) : mat R := fun a b =>
  sum_n (r1 r) (fun p => sum_n (r1 z) (fun q => sum_n (nn r) (fun i => P p q * e3 r a i p * e3 z b i q))).
Definition ones11 : mat R := fun _ _ => 1.
(* Pright[k], computed from the cores k+1 .. d-1 (the arguments are those suffixes) *)
Fixpoint pr_suffix (r z : tt R) : mat R :=
  match r, z with rc :: rt, zc :: zt => pr_step (pr_suffix rt zt) rc zc | _, _ => ones11 end.

(* Sds[k] for k < d-1:  tmp1 = L z_k;  tmp2 = l_k (l_k^T tmp1);  (tmp1 - tmp2) Rm^T *)
Definition delta_mid (L : mat R) (l z : core3 R) (Rm : mat R) : core3 R :=
  let G := pl_step L l z in
  mk3 (r0 l) (nn z) (r1 l) (fun r i p =>
    sum_n (r1 z) (fun S => (sum_n (r0 z) (fun s => L r s * e3 z s i S) - sum_n (r1 l) (fun q => e3 l r i q * G q S)) * Rm p S)).
(* Sds[d-1] = L z_{d-1} *)
Definition delta_last (L : mat R) (l z : core3 R) : core3 R :=
  mk3 (r0 l) (nn z) (r1 z) (fun r i S => sum_n (r0 z) (fun s => L r s * e3 z s i S)).
(* the loop over k: L is Pleft[k-1] (ones for k = 0); r is aligned with l (its head is not used) *)
Fixpoint deltas (L : mat R) (l r z : tt R) : tt R :=
  match l, r, z with
  | [lc], _, [zc] => [delta_last L lc zc]
  | lc :: lt, _ :: rt, zc :: zt => delta_mid L lc zc (pr_suffix rt zt) :: deltas (pl_step L lc zc) lt rt zt
  | _, _, _ => []
  end.

(* _delta2cores: first core cat((S, l), 2); middle cat((cat((r, 0), 2), cat((S, l), 2)), 0); last cat((r, S), 0) *)
Definition tcore_first (s l : core3 R) : core3 R :=
  mk3 (r0 s) (nn s) (r1 s + r1 l) (fun p i q => if (q <? r1 s)%nat then e3 s p i q else e3 l p i (q - r1 s)%nat).
Definition tcore_mid (r s l : core3 R) : core3 R :=
  mk3 (r0 r + r0 s) (nn r) (r1 r + r1 r)
      (fun p i q => if (p <? r0 r)%nat then (if (q <? r1 r)%nat then e3 r p i q else 0)
                    else (if (q <? r1 s)%nat then e3 s (p - r0 r)%nat i q else e3 l (p - r0 r)%nat i (q - r1 s)%nat)).
Definition tcore_last (r s : core3 R) : core3 R :=
  mk3 (r0 r + r0 s) (nn r) (r1 r) (fun p i q => if (p <? r0 r)%nat then e3 r p i q else e3 s (p - r0 r)%nat i q).
Fixpoint tail_cores (l r s : tt R) : tt R :=
  match l, r, s with
  | [_], [rc], [sc] => [tcore_last rc sc]
  | lc :: lt, rc :: rt, sc :: st => tcore_mid rc sc lc :: tail_cores lt rt st
  | _, _, _ => []
  end.
Definition tangent (l r s : tt R) : tt R :=
  match l, r, s with
  | lc :: lt, _ :: rt, sc :: st => tcore_first sc lc :: tail_cores lt rt st
  | _, _, _ => []
  end.

(* riemannian_projection(X, z), given the orthogonalised cores of X *)
Definition proj_model (l r z : tt R) : tt R := tangent l r (deltas ones11 l r z).

(* what the block train represents: delta at one position, the l cores before it, the r cores after it - summed over the positions.
   tsum l r s idx p: the part that starts in row p of the "still on the left" block *)
Fixpoint tsum (l r s : tt R) (idx : list nat) : nat -> R :=
  match l, r, s, idx with
  | lc :: lt, _ :: rt, sc :: st, i :: it => fun p =>
      chainM ((r1 sc, fun a b => e3 sc a i b) :: slices rt it) p 0%nat
      + match lt with [] => 0 | _ => sum_n (r1 lc) (fun q => e3 lc p i q * tsum lt rt st it q) end
  | _, _, _, _ => fun _ => 0
  end.
Definition dflt3 : core3 R := mk3 0 0 0 (fun _ _ _ => 0).
(* the same, written as an explicit sum over the position of the varied core *)
Definition tterm (l r s : tt R) (idx : list nat) (k : nat) : mat R :=
  chainM (slices (firstn k l) (firstn k idx)
          ++ (r1 (nth k s dflt3), fun a b => e3 (nth k s dflt3) a (nth k idx 0%nat) b)
          :: slices (skipn (S k) r) (skipn (S k) idx)).

(* rank bookkeeping that torch.cat enforces on the real data *)
Fixpoint tcompat (l r s : tt R) : Prop :=
  match l, r, s with
  | lc :: lt, rc :: rt, sc :: st =>
      r1 sc = r1 rc /\ match rt with [] => True | rn :: _ => r1 rc = r0 rn /\ r1 lc = r0 rn end /\ tcompat lt rt st
  | [], [], [] => True
  | _, _, _ => False
  end.

(* observation for the correspondence check: ranks, mode sizes and all entries of every core *)
Definition cores_obs (x : tt R) : list (nat * nat * nat * list R) :=
  map (fun c => (r0 c, nn c, r1 c, flat_of_core c)) x.

End Tangent.

(* ---- the correspondence check: the cores returned by the implementation (with the two orthogonalisation sweeps replaced by the given
   l, r) against the model, core by core: ranks, mode sizes, every entry ---- *)
Section TangentCheck.
Context {R : Type} {RO : RingOps R}.
Definition of_obs (cs : list (nat * nat * nat * list R)) : tt R :=
  map (fun c => match c with (a, n, b, d) => core_of_flat a n b d end) cs.
Definition eqb_lR (a b : list R) : bool :=
  Nat.eqb (length a) (length b) && forallb (fun p => reqb (fst p) (snd p)) (combine a b).
(* 0 = agreement; 1: number of cores, 2: a shape, 4: an entry *)
Definition check_tangent (l r z : list (nat * nat * nat * list R)) (impl : list (nat * nat * nat * list R)) : nat :=
  let m := cores_obs (proj_model (of_obs l) (of_obs r) (of_obs z)) in
  if negb (Nat.eqb (length m) (length impl)) then 1%nat else
  fold_left (fun acc p => match p with
     | ((a, n, b, d), (a', n', b', d')) =>
         Nat.max acc (Nat.max (if Nat.eqb a a' && Nat.eqb n n' && Nat.eqb b b' then 0 else 2) (if eqb_lR d d' then 0 else 4))
     end) (combine m impl) 0%nat.
End TangentCheck.
