(* Model of rank_chop (torchtt/_decomposition.py:289-324, as repaired: the tie keeps every singular value),
   of the rank / threshold decisions of to_tt and round_tt, and of the discarded-energy bookkeeping (C01, C02).
   q always denotes the list of SQUARED singular values; every comparison is made in squared form. *)
From Coq Require Import List Arith Bool.
From TT Require Import OrdRing.
Import ListNotations.

Section RankChop.
Context {T : Type} {OO : OrdOps T}.

Fixpoint sumT (l : list T) : T := match l with [] => oz | x :: t => oadd x (sumT t) end.
(* sc = np.cumsum(np.abs(s[::-1])**2)[::-1]: tail energies *)
Fixpoint tails (l : list T) : list T := match l with [] => [] | x :: t => sumT (x :: t) :: tails t end.
Fixpoint find_first (p : T -> bool) (l : list T) : option nat :=
  match l with
  | [] => None
  | x :: t => if p x then Some O else match find_first p t with Some k => Some (S k) | None => None end
  end.

(* pos = (eps > 0); thr2 = eps**2 *)
Definition rank_chop (q : list T) (pos : bool) (thr2 : T) : nat :=
  if oleb (sumT q) oz then 1                      (* np.linalg.norm(s) == 0 *)
  else if negb pos then length q                  (* eps <= 0 *)
  else
    let sc := tails q in
    let R0 := match find_first (fun v => oltb v thr2) sc with Some k => k | None => O end in   (* np.argmax(sc < eps**2) *)
    let R1 := if Nat.eqb R0 0 then 1 else R0 in                                             (* R if R > 0 else 1 *)
    if oleb thr2 (last sc oz) then length q else R1.                                         (* sc[-1] >= eps**2 *)

(* the pinned (unrepaired) comparison sc[-1] > eps**2, kept to state the refutation of the tie case *)
Definition rank_chop_pinned (q : list T) (pos : bool) (thr2 : T) : nat :=
  if oleb (sumT q) oz then 1 else if negb pos then length q
  else
    let sc := tails q in
    let R0 := match find_first (fun v => oltb v thr2) sc with Some k => k | None => O end in
    let R1 := if Nat.eqb R0 0 then 1 else R0 in
    if oltb thr2 (last sc oz) then length q else R1.

Definition discarded (q : list T) (r : nat) : T := sumT (skipn r q).
Definition kept (q : list T) (r : nat) : T := sumT (firstn r q).

(* to_tt / round_tt: the rank of one bond.  The code calls rank_chop(s, ep*norm(s)) with ep = eps/sqrt(dm1)
   (dm1 = d-1): sc < ep^2 * sum(s^2)  <=>  dm1 * sc < eps^2 * sum(s^2); both sides are scaled by dm1. *)
Definition bond_rank (dm1 : nat) (q : list T) (pos : bool) (eps2 : T) (rmax : nat) : nat :=
  Nat.min (rank_chop (map (omul (ofnat dm1)) q) pos (omul eps2 (sumT q))) rmax.

(* the sweep over the bonds, the singular values of every step given by an oracle stream *)
Fixpoint sweep_ranks (dm1 : nat) (qs : list (list T)) (pos : bool) (eps2 : T) (rmax : list nat) : list nat :=
  match qs, rmax with
  | q :: qt, rm :: rt => bond_rank dm1 q pos eps2 rm :: sweep_ranks dm1 qt pos eps2 rt
  | _, _ => []
  end.
Fixpoint sweep_discarded (qs : list (list T)) (rs : list nat) : T :=
  match qs, rs with
  | q :: qt, r :: rt => oadd (discarded q r) (sweep_discarded qt rt)
  | _, _ => oz
  end.
(* exact arithmetic: the squared norm of the next remainder is the kept energy of this step *)
Fixpoint energy_chain (qs : list (list T)) (rs : list nat) : Prop :=
  match qs, rs with
  | q :: ((q' :: _) as qt), r :: rt => sumT q' = kept q r /\ energy_chain qt rt
  | _, _ => True
  end.

(* ---- shape level of round_tt: ranks after the left-to-right QR sweep, spectrum lengths of the right-to-left SVD sweep ---- *)
(* lr_orthogonal: Q of the (r*n) x R[i+1] unfolding has min(r*n, R[i+1]) columns; ns = mode sizes (M*N for operators),
   rs = R[1..d] *)
Fixpoint qr_ranks (r : nat) (ns rs : list nat) : list nat :=
  match ns, rs with
  | n :: ((_ :: _) as nt), r1 :: rt => let r' := Nat.min (r * n) r1 in r' :: qr_ranks r' nt rt
  | _, _ => rs      (* the last core keeps its right rank *)
  end.
(* right-to-left sweep: at bond i the matrix is R[i] x (n_i * R[i+1]) with the CURRENT (already truncated) R[i+1];
   chosen = the ranks actually selected (oracle), most recent bond first.  Returns the lengths of the spectra. *)
Fixpoint svd_lengths (rev_ns rev_rs : list nat) (rnext : nat) (chosen : list nat) : list nat :=
  match rev_ns, rev_rs, chosen with
  | n :: nt, r :: rt, c :: ct => Nat.min r (n * rnext) :: svd_lengths nt rt c ct
  | _, _, _ => []
  end.

End RankChop.
