(* The swap schedule of torchtt.permute (torchtt/_extras.py): a bubble sort of the list `indices` (initially 0..d-1) by the key
   dims.index(.), repeated while a pass performed a swap; every swap is one supercore SVD at position i (C10).
     while inversions:
         inversions = False
         for i in range(d-1):
             i1 = indices[i]; i2 = indices[i+1]
             if dims.index(i1) > dims.index(i2): inversions = True; indices[i], indices[i+1] = i2, i1; <swap cores i, i+1>
   bpass carries the element at the cursor (the possibly just swapped-in one), as the in-place loop does. *)
From Coq Require Import List Arith Bool.
Import ListNotations.

Fixpoint index_of (x : nat) (l : list nat) : nat :=
  match l with [] => O | y :: t => if Nat.eqb y x then O else S (index_of x t) end.

Section Sched.
Variable key : nat -> nat.
(* one pass from position pos with x at the cursor: (new list, positions swapped in order) *)
Fixpoint bpass (x : nat) (l : list nat) (pos : nat) : list nat * list nat :=
  match l with
  | [] => ([x], [])
  | y :: t =>
      if Nat.ltb (key y) (key x)
      then let '(r, sw) := bpass x t (S pos) in (y :: r, pos :: sw)
      else let '(r, sw) := bpass y t (S pos) in (x :: r, sw)
  end.
Definition pass (l : list nat) : list nat * list nat :=
  match l with [] => ([], []) | x :: t => bpass x t O end.
(* the while loop; fuel exhaustion is an error value, excluded by the theorem *)
Fixpoint bloop (fuel : nat) (l : list nat) (acc : list nat) : option (list nat * list nat) :=
  match fuel with
  | O => None
  | S f => let '(l', sw) := pass l in
           match sw with [] => Some (l', acc) | _ => bloop f l' (acc ++ sw) end
  end.
(* number of inverted pairs *)
Fixpoint cnt_lt (x : nat) (l : list nat) : nat :=
  match l with [] => O | y :: t => (if Nat.ltb (key y) (key x) then 1 else 0) + cnt_lt x t end.
Fixpoint inv (l : list nat) : nat :=
  match l with [] => O | x :: t => cnt_lt x t + inv t end.
End Sched.

Definition permute_schedule (dims : list nat) : option (list nat * list nat) :=
  let d := length dims in
  bloop (fun x => index_of x dims) (d * d + 1) (seq 0 d) [].

(* ---- to_qtt on TT tensors with mode_size 2 (torchtt/_tt_base.py): every mode must be a power of two (qtt_ok; otherwise ShapeMismatch - the
   repaired code; the pinned code kept a mode 3 silently); a core whose mode is 2^k with k > 1 is split into k cores of mode 2, a core of mode
   1 or 2 is kept as it is.  Nat.log2 is the exponent for the powers of two (checked by the correspondence). ---- *)
Definition qtt_ok (ns : list nat) : bool := forallb (fun n => Nat.eqb (2 ^ Nat.log2 n) n) ns.
Definition qtt_modes (ns : list nat) : list nat :=
  flat_map (fun n => if Nat.ltb 1 (Nat.log2 n) then repeat 2 (Nat.log2 n) else [n]) ns.
(* what the call does: [0] = ShapeMismatch, 1 :: modes = the modes of the result *)
Definition qtt_call (ns : list nat) : list nat := if qtt_ok ns then 1 :: qtt_modes ns else [0].
