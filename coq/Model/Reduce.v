(* Value-level model of norm / dot / sum / bilinear_form / reduce_dims (C07, also used by C08). *)
From Coq Require Import List Arith Bool.
From TT Require Import RingSig SumN Mat Dense Core Arith MatOps.
Import ListNotations.

Section Reduce.
Context {R : Type} {RO : RingOps R}.
Open Scope R_scope.

Definition sl3 (c : core3 R) (i : nat) : mat R := fun p q => e3 c p i q.
Definition trm (A : mat R) : mat R := fun i j => A j i.
Definition cjm (A : mat R) : mat R := fun i j => rconj (A i j).

(* einsum('ab,aim,bin->mn', G, a, conj(b)): G' = sum_i  a_i^T G conj(b_i)   (dot, norm with autograd) *)
Fixpoint dot_loop (x y : tt R) (G : mat R) : R :=
  match x, y with
  | a :: xs, b :: ys =>
      dot_loop xs ys (fun m n => sum_n (nn a) (fun i =>
        mmul (r0 a) (trm (sl3 a i)) (mmul (r0 b) G (cjm (sl3 b i))) m n))
  | _, _ => G 0%nat 0%nat
  end.
Definition dot_full (x y : tt R) : R := dot_loop x y (fun _ _ => 1).
Definition norm2 (x : tt R) : R := dot_full x x.
(* TT matrices: einsum('ab,aijm,bijn->mn'): the same sweep over the merged mode *)
Definition norm2_4 (x : ttm R) : R := norm2 (flatM x).

(* sum over all modes: C = sum(cores[0],[0,1]); C = sum(einsum('i,ijk->jk',C,core),0); S = sum(C) *)
Fixpoint sum_loop (x : tt R) (C : nat -> R) (r : nat) : R :=
  match x with
  | [] => sum_n r C
  | c :: cs => sum_loop cs (fun k => sum_n (nn c) (fun j => sum_n (r0 c) (fun i => C i * e3 c i j k))) (r1 c)
  end.
Definition sum_all (x : tt R) : R :=
  match x with
  | [] => 0
  | c :: cs => sum_loop cs (fun q => sum_n (r0 c) (fun p => sum_n (nn c) (fun i => e3 c p i q))) (r1 c)
  end.
Definition sum_all4 (x : ttm R) : R := sum_all (flatM x).

(* ---- reduce_dims(exclude): absorb size-1 modes into a neighbour ---- *)
(* einsum('ijk,kl->ijl', left, m[:,0,:]) *)
Definition absorb_r (c m : core3 R) : core3 R :=
  mk3 (r0 c) (nn c) (r1 m) (fun p i q => sum_n (r1 c) (fun k => e3 c p i k * e3 m k 0%nat q)).
(* einsum('ij,jkl->ikl', m[:,0,:], right) *)
Definition absorb_l (m c : core3 R) : core3 R :=
  mk3 (r0 m) (nn c) (r1 c) (fun p i q => sum_n (r1 m) (fun j => e3 m p 0%nat j * e3 c j i q)).

Definition is_nil {A} (l : list A) : bool := match l with [] => true | _ => false end.

(* carry = a removed size-1 core waiting to be multiplied into the next core (self.cores[i+1] = ...);
   racc = cores_new, reversed *)
Fixpoint rd_loop (i : nat) (rest : tt R) (carry : option (core3 R)) (racc : tt R) (excl : list nat) : tt R :=
  match rest with
  | [] => rev racc
  | c0 :: cs =>
      let c := match carry with Some m => absorb_l m c0 | None => c0 end in
      if Nat.eqb (nn c) 1 && negb (memb i excl) then
        if (r1 c <? r0 c)%nat || is_nil cs then
          match racc with
          | l :: racc' => rd_loop (S i) cs None (absorb_r l c :: racc') excl
          | [] => if is_nil cs then [c] else rd_loop (S i) cs (Some c) [] excl
          end
        else rd_loop (S i) cs (Some c) racc excl
      else rd_loop (S i) cs None (c :: racc) excl
  end.
Definition reduce_dims (x : tt R) (excl : list nat) : tt R := rd_loop 0 x None [] excl.

(* sum(index): summed modes become keepdim sums, then reduce_dims keeps exactly the other modes *)
Definition sum_core (c : core3 R) : core3 R :=
  mk3 (r0 c) 1 (r1 c) (fun p _ q => sum_n (nn c) (fun i => e3 c p i q)).
Fixpoint sum_cores (i : nat) (x : tt R) (index : list nat) : tt R :=
  match x with
  | [] => []
  | c :: cs => (if memb i index then sum_core c else c) :: sum_cores (S i) cs index
  end.
Fixpoint others (i n : nat) (index : list nat) : list nat :=
  match n with O => [] | S n' => (if memb i index then [] else [i]) ++ others (S i) n' index end.
Definition sum_modes (x : tt R) (index : list nat) : tt R :=
  reduce_dims (sum_cores 0 x index) (others 0 (length x) index).

(* TT matrices: the same construction on the merged mode (a mode pair is removed iff both sizes are 1) *)
Definition sum_modes4 (x : ttm R) (index : list nat) : ttm R :=
  match keep_pos 0 (shapeM x) index with
  | [] => unflatM [1%nat] [1%nat] (sum_modes (flatM x) index)      (* everything summed: one 1x1x1x1 core is left *)
  | ms => unflatM ms (keep_pos 0 (shapeN x) index) (sum_modes (flatM x) index)
  end.

(* dot(a, b, axis): b is embedded into a tensor of the shape of a (identity cores on the modes that are
   not contracted), multiplied elementwise and summed over axis *)
Definition conj_core (c : core3 R) : core3 R := mk3 (r0 c) (nn c) (r1 c) (fun p i q => rconj (e3 c p i q)).
Fixpoint embed (i : nat) (ns : list nat) (b : tt R) (axis : list nat) (rl : nat) : tt R :=
  match ns with
  | [] => []
  | n :: nt =>
      if memb i axis then
        match b with
        | c :: bt => conj_core c :: embed (S i) nt bt axis (r1 c)
        | [] => []
        end
      else
        let rr := if memb (S i) axis then match b with c :: _ => r0 c | [] => rl end else rl in
        mk3 rl n rr (fun p _ q => delta p q) :: embed (S i) nt b axis rl
  end.
Definition dot_axis (a b : tt R) (axis : list nat) : tt R :=
  sum_modes (mul a (embed 0 (shape a) b axis 1)) axis.

(* bilinear_form_aux: T'(L,S,R) = sum_{l,s,r,m,n} T(l,s,r) conj(x(l,m,L)) A(s,m,n,S) y(r,n,R) *)
Fixpoint bilin_loop (x : tt R) (A : ttm R) (y : tt R) (T : nat -> nat -> nat -> R) : R :=
  match x, A, y with
  | a :: xs, c :: As, b :: ys =>
      bilin_loop xs As ys (fun L S R' =>
        sum_n (nm c) (fun n => sum_n (mm c) (fun m =>
          sum_n (r0 a) (fun l => sum_n (q0 c) (fun s => sum_n (r0 b) (fun r =>
            T l s r * rconj (e3 a l m L) * e4 c s m n S * e3 b r n R'))))))
  | _, _, _ => T 0%nat 0%nat 0%nat
  end.
Definition bilinear_form (x : tt R) (A : ttm R) (y : tt R) : R := bilin_loop x A y (fun _ _ _ => 1).

End Reduce.
