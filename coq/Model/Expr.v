(* Expression language over TT values: the executable interface between the harness and the model.
   `eval` mirrors the dispatch of the Python operators (kind tests, shape guards, which
   construction is used); `deval` is the dense specification of the same expression. *)
From Coq Require Import List Arith Bool ZArith.
From TT Require Import RingSig SumN Mat Dense Core Arith MatOps Reduce Struct Index.
Import ListNotations.

(* scalar operand kinds, as the Python dispatch sees them *)
Inductive skind := KInt | KFloat | KComplex | KBool | KNpF64 | KNpF32 | KNpI64 | KT0 | KT1.

Inductive opn :=
  | OAdd | OSub | OMul | ONeg | OPos | ORAdd | ORSub | ORMul | ODiv | OKron | OOnes | OZeros | ORank1
  | OMatmul | OTr | OEye | OForward
  | ODot | ONorm2 | OSum | OBilinear
  | OCat | OPad | OMprod | ODiag | OToTTM | OConj | OClone | OMeshgrid.

Section Expr.
Context {R : Type} {RO : RingOps R}.

Inductive val :=
  | VT (x : tt R) | VM (x : ttm R) | VD (d : dense R) | VS (k : skind) (s : R) | VNone | VErr (e : errc).

Inductive exp :=
  | ELit3 (cores : list (nat * nat * nat * list R))
  | ELit4 (cores : list (nat * nat * nat * nat * list R))
  | EDense (ns : list nat) (data : list R)
  | EScal (k : skind) (s : R)
  | ENone
  | EVar (n : nat)
  | EOp (o : opn) (args : list exp) (ia : list (list nat))
  | EGet (x : exp) (tuple : bool) (ix : list ixitem)
  | EMask (x : exp) (rows : list (list nat)).

Definition lit3 (cores : list (nat * nat * nat * list R)) : tt R :=
  map (fun c => match c with (a, n, b, data) => core_of_flat a n b data end) cores.
Definition lit4 (cores : list (nat * nat * nat * nat * list R)) : ttm R :=
  map (fun c => match c with (a, m, n, b, data) => core4_of_flat a m n b data end) cores.

Definition eqb_ln (a b : list nat) : bool :=
  Nat.eqb (length a) (length b) && forallb (fun p => Nat.eqb (fst p) (snd p)) (combine a b).

(* TT.__add__ / __sub__ / __mul__ on two TT tensors: equal shapes -> plain path, otherwise
   the broadcasting path with its guards *)
Definition tt_binop (plain bc : tt R -> tt R -> tt R) (x y : tt R) : val :=
  if eqb_ln (shape x) (shape y) then VT (plain x y)
  else if (length x <? length y)%nat then VErr EShape
  else if bcast_ok (shape x) y then VT (bc x y) else VErr EShape.

(* TT-matrix + - * : equal M and N required *)
Definition ttm_binop (f : ttm R -> ttm R -> ttm R) (x y : ttm R) : val :=
  if eqb_ln (shapeM x) (shapeM y) && eqb_ln (shapeN x) (shapeN y) then VM (f x y) else VErr EShape.

(* TT.__matmul__ *)
Definition matmul_dispatch (a b : val) : val :=
  match a, b with
  | VM A, VD X =>
      let d := length A in
      if (d <=? length (dshape X))%nat && eqb_ln (shapeN A) (skipn (length (dshape X) - d) (dshape X))
      then VD (dense_matvec A X) else VErr EShape
  | VM A, VT x => if eqb_ln (shapeN A) (shape x) then VT (matvec A x) else VErr EShape
  | VM A, VM B => if eqb_ln (shapeN A) (shapeM B) then VM (matmat A B) else VErr EShape
  | VT x, VM A => if eqb_ln (shape x) (shapeM A) then VT (vecmat x A) else VErr EShape
  | VT _, VT _ => VErr EArgs
  | _, _ => VErr EModel
  end.

(* LinearLayerTT.forward as repaired: the trailing dimensions of the input must be size_in (a singleton mode is not broadcast, a shorter input refused) *)
Definition forward_call (W : ttm R) (bias X : dense R) : val :=
  if (length W <=? length (dshape X))%nat && eqb_ln (shapeN W) (skipn (length (dshape X) - length W) (dshape X))
  then VD (forward W bias X) else VErr EShape.
Definition scalar_d (s : R) : val := VD (mkD [] (fun _ => s)).
(* a TT result that collapsed to a single 1x1x1 core is returned as a 0-d tensor *)
Definition squeeze_tt (x : tt R) : val :=
  match x with
  | [c] => if Nat.eqb (r0 c * nn c * r1 c) 1 then scalar_d (e3 c 0 0 0)%nat else VT x
  | _ => VT x
  end.
Definition squeeze_ttm (x : ttm R) : val :=
  match x with
  | [c] => if Nat.eqb (q0 c * mm c * nm c * q1 c) 1 then scalar_d (e4 c 0 0 0 0)%nat else VM x
  | _ => VM x
  end.
Definition all_lt (l : list nat) (n : nat) : bool := forallb (fun i => Nat.ltb i n) l.
(* `all(i in index for i in range(len(N)))`: only a sum over every mode is squeezed to a 0-d tensor *)
Definition covers (l : list nat) (n : nat) : bool := forallb (fun i => memb i l) (seq 0 n).

Definition apply_op (o : opn) (args : list val) (ia : list (list nat)) : val :=
  match o, args with
  | ODot, [VT a; VT b] =>
      match ia with
      | [] => if eqb_ln (shape a) (shape b) then scalar_d (dot_full a b) else VErr EShape
      | [axis] => if (length a <? length b)%nat then VErr EShape
                  else if covers axis (length a) then squeeze_tt (dot_axis a b axis) else VT (dot_axis a b axis)
      | _ => VErr EModel
      end
  | ODot, [VM _; _] | ODot, [_; VM _] => VErr ENotImpl
  | ONorm2, [VT x] => scalar_d (norm2 x)
  | ONorm2, [VM x] => scalar_d (norm2_4 x)
  | OSum, [VT x] =>
      match ia with
      | [] => scalar_d (sum_all x)
      | [index] => if all_lt index (length x)
                   then (if covers index (length x) then squeeze_tt (sum_modes x index) else VT (sum_modes x index))
                   else VErr EArgs
      | _ => VErr EModel
      end
  | OSum, [VM x] =>
      match ia with
      | [] => scalar_d (sum_all4 x)
      | index :: _ => if all_lt index (length x)
                   then (if covers index (length x) then squeeze_ttm (sum_modes4 x index) else VM (sum_modes4 x index))
                   else VErr EArgs
      end
  | OBilinear, [VT x; VM A; VT y] =>
      if eqb_ln (shape x) (shapeM A) && eqb_ln (shape y) (shapeN A) then scalar_d (bilinear_form x A y)
      else VErr EShape
  | OCat, VT x :: rest =>
      match ia with
      | [[dim]] =>
          let ts := fold_right (fun v acc => match v, acc with VT t, Some l => Some (t :: l) | _, _ => None end) (Some []) rest in
          match ts with
          | Some l => if (dim <? length x)%nat && forallb (fun t => Nat.eqb (length t) (length x) && eqb_ln (upd dim 0 (shape t)) (upd dim 0 (shape x))) l
                      then VT (cat_tt dim (x :: l)) else VErr EArgs
          | None => VErr EModel
          end
      | _ => VErr EModel
      end
  | OPad, [VT x; VS _ v] =>      (* ia = [kind; d] :: padding pairs *)
      let pd := map (fun p => (nth 0 p 0, nth 1 p 0)%nat) (tl ia) in
      if (length x <? length pd)%nat then VErr EArgs else VT (pad_tt x pd v)
  | OPad, [VM x; VS _ v] =>
      let pd := map (fun p => (nth 0 p 0, nth 1 p 0)%nat) (tl ia) in
      if (length x <? length pd)%nat then VErr EArgs else VM (pad_ttm x pd v)
  | OMprod, VT x :: mats =>
      match ia with
      | modes :: _ =>
          let ms := fold_right (fun km acc => match km, acc with
                      | (k, VD d), Some l => Some ((k, nth 0 (dshape d) 0%nat, fun i j => dget d [i; j]) :: l)
                      | _, _ => None end) (Some []) (combine modes mats) in
          match ms with Some l => VT (mprod_list x l) | None => VErr EModel end
      | _ => VErr EModel
      end
  | ODiag, [VT x] => VM (diag_tt x)
  | ODiag, [VM x] => VT (diag_ttm x)
  | OToTTM, [VT x] => VM (to_ttm x)
  | OConj, [VT x] => VT (conj_tt x)
  | OConj, [VM x] => VM (conj_ttm x)
  | OClone, [VT x] => VT x
  | OClone, [VM x] => VM x
  | OAdd, [VM x; VM y] => ttm_binop add4 x y
  | OSub, [VM x; VM y] => ttm_binop sub4 x y
  | OMul, [VM x; VM y] => ttm_binop mul4 x y
  | OAdd, [VM x; VS _ s] | ORAdd, [VM x; VS _ s] => VM (add_scalar4 x s)
  | OSub, [VM x; VS _ s] => VM (sub_scalar4 x s)
  | ORSub, [VM x; VS _ s] => VM (rsub_scalar4 x s)
  | OMul, [VM x; VS _ s] | ORMul, [VM x; VS _ s] => VM (mul_scalar4 x s)
  | ODiv, [VM x; VS _ sinv] => VM (div_scalar4 x sinv)
  | ONeg, [VM x] => VM (neg4 x)
  | OPos, [VM x] => VM x
  | OAdd, [VT _; VM _] | OAdd, [VM _; VT _] | OSub, [VT _; VM _] | OSub, [VM _; VT _]
  | OMul, [VT _; VM _] | OMul, [VM _; VT _] => VErr ETypes
  | OMatmul, [a; b] => matmul_dispatch a b
  | OForward, [VM W; VD bias; VD X] => forward_call W bias X
  | OTr, [VM x] => VM (transpose x)
  | OTr, [VT _] => VErr EArgs
  | OEye, [] => match ia with [ns] => VM (eye_ttm ns) | _ => VErr EModel end
  | OMul, [VT x; VD s] | ORMul, [VT x; VD s] =>        (* a 0-d tensor (e.g. the result of dot / sum) used as a scalar *)
      match dshape s with [] => VT (mul_scalar x (dget s [])) | _ => VErr EArgs end
  | OAdd, [VT x; VT y] => tt_binop add add_bcast x y
  | OAdd, [VT x; VS _ s] => VT (add_scalar x s)
  | ORAdd, [VT x; VS _ s] => VT (add_scalar x s)
  | OSub, [VT x; VT y] => tt_binop sub sub_bcast x y
  | OSub, [VT x; VS _ s] => VT (sub_scalar x s)
  | ORSub, [VT x; VS _ s] => VT (rsub_scalar x s)
  | OMul, [VT x; VT y] => tt_binop mul mul_bcast x y
  | OMul, [VT x; VS _ s] => VT (mul_scalar x s)
  | ORMul, [VT x; VS _ s] => VT (mul_scalar x s)
  | ODiv, [VT x; VS _ sinv] => VT (div_scalar x sinv)   (* the harness passes the inverse *)
  | ONeg, [VT x] => VT (neg x)
  | OPos, [VT x] => VT x
  | OKron, [VT x; VT y] => VT (kron_tt x y)
  | OKron, [VT x; VNone] => VT x
  | OKron, [VNone; VT x] => VT x                          (* None ** x, through __rpow__ *)
  | ORank1, _ :: _ =>      (* rank1TT(list of vectors | list of matrices): cores e[None, ..., None]; a mixed list is rejected by the constructor *)
      match fold_right (fun v acc => match v, acc with VD d, Some l => Some (d :: l) | _, _ => None end) (Some []) args with
      | Some ds =>
          if forallb (fun d => Nat.eqb (length (dshape d)) 1) ds
          then VT (rank1 (map (fun d => (nth 0 (dshape d) 0%nat, fun i => dget d [i])) ds))
          else if forallb (fun d => Nat.eqb (length (dshape d)) 2) ds
          then VM (map (fun d => mk4 1 (nth 0 (dshape d) 0%nat) (nth 1 (dshape d) 0%nat) 1 (fun _ i j _ => dget d [i; j])) ds)
          else VErr EArgs
      | None => VErr EModel
      end
  | OMeshgrid, _ :: _ =>   (* meshgrid(vectors)[i]: ones cores everywhere but the vector on axis i *)
      match ia with
      | [[i]] =>
          match fold_right (fun v acc => match v, acc with VD d, Some l => Some ((nth 0 (dshape d) 0%nat, fun i => dget d [i]) :: l) | _, _ => None end) (Some []) args with
          | Some vs => VT (rank1 (map (fun kv => if Nat.eqb (fst kv) i then snd kv else (fst (snd kv), fun _ => rI)) (combine (seq 0 (length vs)) vs)))
          | None => VErr EModel
          end
      | _ => VErr EModel
      end
  | OOnes, [] => match ia with
                 | [ns] => VT (ones_tt ns)
                 | [ms; ns] => VM (map (fun mn => mk4 1 (fst mn) (snd mn) 1 (fun _ _ _ _ => rI)) (combine ms ns))     (* ones([(m1,n1),..]) *)
                 | _ => VErr EModel end
  | OZeros, [] => match ia with
                  | [ns] => VT (zeros_tt ns)
                  | [ms; ns] => VM (map (fun mn => mk4 1 (fst mn) (snd mn) 1 (fun _ _ _ _ => rO)) (combine ms ns))
                  | _ => VErr EModel end
  | _, _ => VErr EModel
  end.

Fixpoint eval (env : list val) (e : exp) : val :=
  match e with
  | ELit3 cores => VT (lit3 cores)
  | ELit4 cores => VM (lit4 cores)
  | EDense ns data => VD (dense_of_flat ns data)
  | EScal k s => VS k s
  | ENone => VNone
  | EVar n => nth n env (VErr EModel)
  | EOp o args ia => apply_op o (map (eval env) args) ia
  | EGet x tuple ix =>
      let of_gres g := match g with GT y => VT y | GM y => VM y | GS v => scalar_d v | GE e => VErr e end in
      match eval env x with
      | VT t => of_gres (if tuple then getitem_tuple t ix
                         else match ix with [it] => getitem_single t it | _ => GE EModel end)
      | VM t => if tuple then of_gres (getitem_ttm t ix) else VErr EModel
      | _ => VErr EModel
      end
  | EMask x rows =>
      match eval env x with
      | VT t => VD (dense_of_flat [length rows] (apply_mask t rows))      (* one entry per index row, a single row included *)
      | _ => VErr EModel
      end
  end.

(* ---- dense specification of the same expressions ---- *)
Definition dapply_op (o : opn) (args : list val) (ia : list (list nat)) : val :=
  match o, args, ia with
  | OCat, VD a :: rest, [[dim]] =>
      VD (fold_left (fun acc v => match v with VD b => dcat dim acc b | _ => acc end) rest a)
  | OPad, [VD a; VS _ v], [0%nat; d] :: pds =>
      VD (dpad a (fill_pads d (map (fun p => (nth 0 p 0, nth 1 p 0)%nat) pds)) v)
  | OPad, [VD a; VS _ v], [1%nat; d] :: pds =>
      VD (dpad_op d a (fill_pads d (map (fun p => (nth 0 p 0, nth 1 p 0)%nat) pds)) v)
  | OMprod, VD a :: mats, modes :: _ =>
      VD (fold_left (fun acc km => match km with
                     | (k, VD m) => dmprod acc k (nth 0 (dshape m) 0%nat) (fun i j => dget m [i; j])
                     | _ => acc end) (combine modes mats) a)
  | ODiag, [VD a], [[0%nat]] => VD (ddiag_embed a)
  | ODiag, [VD a], [[1%nat; d]] => VD (ddiag_extract d a)
  | OToTTM, [VD a], _ => VD (dto_op a)
  | OConj, [VD a], _ => VD (dmap rconj a)
  | OClone, [VD a], _ => VD a
  | OMatmul, [VD A; VD x], [[d; 0]] => VD (dmatvec d A x)
  | OMatmul, [VD x; VD A], [[d; 1]] => VD (dvecmat d x A)
  | OMatmul, [VD A; VD B], [[d; 2]] => VD (dmatmat d A B)
  | OMatmul, [VD A; VD X], [[d; 3]] => VD (dmatvec_batch d A X)
  | OTr, [VD A], [[d]] => VD (dtranspose d A)
  | OForward, [VD W; VD bias; VD X], [[d]] => VD (dmap2 radd (dmatvec_batch d W X) bias)
  | OEye, [], [ns] => VD (deye ns)
  | ODot, [VD a; VD b], [] => VD (ddot a b)
  | ODot, [VD a; VD b], [axis] => VD (ddot_axis a b axis)
  | ONorm2, [VD a], _ => VD (ddot a a)
  | OSum, [VD a], [] => VD (dsum_all a)
  | OSum, [VD a], [index] => VD (dsum_modes a index)
  | OSum, [VD a], [_; dindex] => VD (dsum_modes a dindex)   (* operators: row and column mode of each summed pair *)
  | OBilinear, [VD x; VD A; VD y], _ => VD (dbilinear x A y)
  | _, _, _ =>
  match o, args with
  | OAdd, [VD a; VD b] => VD (dmap2 radd a b)
  | OAdd, [VD a; VS _ s] | ORAdd, [VD a; VS _ s] => VD (dmap (fun v => radd v s) a)
  | OSub, [VD a; VD b] => VD (dmap2 rsub a b)
  | OSub, [VD a; VS _ s] => VD (dmap (fun v => rsub v s) a)
  | ORSub, [VD a; VS _ s] => VD (dmap (fun v => rsub s v) a)
  | OMul, [VD a; VD b] => VD (dmap2 rmul a b)
  | OMul, [VD a; VS _ s] | ORMul, [VD a; VS _ s] => VD (dmap (fun v => rmul s v) a)
  | ODiv, [VD a; VS _ sinv] => VD (dmap (fun v => rmul sinv v) a)
  | ONeg, [VD a] => VD (dmap ropp a)
  | OPos, [VD a] => VD a
  | OKron, [VD a; VD b] => VD (douter a b)
  | OKron, [VD a; VNone] => VD a
  | OKron, [VNone; VD a] => VD a
  | ORank1, _ :: _ =>
      match fold_right (fun v acc => match v, acc with VD d, Some l => Some (d :: l) | _, _ => None end) (Some []) args with
      | Some ds =>
          if forallb (fun d => Nat.eqb (length (dshape d)) 1) ds
          then VD (mkD (map (fun d => nth 0 (dshape d) 0%nat) ds)
                       (fun idx => fold_right rmul rI (map (fun p => dget (fst p) [snd p]) (combine ds idx))))
          else if forallb (fun d => Nat.eqb (length (dshape d)) 2) ds
          then VD (mkD (map (fun d => nth 0 (dshape d) 0%nat) ds ++ map (fun d => nth 1 (dshape d) 0%nat) ds)
                       (fun idx => fold_right rmul rI (map (fun p => dget (fst p) [fst (snd p); snd (snd p)])
                                                            (combine ds (combine (firstn (length ds) idx) (skipn (length ds) idx))))))
          else VErr EArgs
      | None => VErr EModel
      end
  | OMeshgrid, _ :: _ =>
      match ia with
      | [[i]] =>
          match fold_right (fun v acc => match v, acc with VD d, Some l => Some (d :: l) | _, _ => None end) (Some []) args with
          | Some ds => VD (mkD (map (fun d => nth 0 (dshape d) 0%nat) ds) (fun idx => dget (nth i ds (mkD [] (fun _ => rO))) [nth i idx 0%nat]))
          | None => VErr EModel
          end
      | _ => VErr EModel
      end
  | OOnes, [] => match ia with [ns] => VD (dconst ns rI) | [ms; ns] => VD (dconst (ms ++ ns) rI) | _ => VErr EModel end
  | OZeros, [] => match ia with [ns] => VD (dconst ns rO) | [ms; ns] => VD (dconst (ms ++ ns) rO) | _ => VErr EModel end
  | _, _ => VErr EModel
  end end.

Definition to_denseM_l (x : ttm R) : dense R :=
  mkD (shapeM x ++ shapeN x)
      (fun idx => entry4_l x (firstn (length x) idx) (skipn (length x) idx)).

Fixpoint deval (env : list val) (e : exp) : val :=
  match e with
  | ELit3 cores => VD (to_dense_l (lit3 cores))
  | ELit4 cores => VD (to_denseM_l (lit4 cores))
  | EDense ns data => VD (dense_of_flat ns data)
  | EScal k s => VS k s
  | ENone => VNone
  | EVar n => nth n env (VErr EModel)
  | EOp o args ia => dapply_op o (map (deval env) args) ia
  | EGet x tuple ix =>
      match deval env x with
      | VD a => match dgetitem a ix with Some r => VD r | None => VErr EModel end
      | _ => VErr EModel
      end
  | EMask x rows =>
      match deval env x with
      | VD a => VD (dense_of_flat [length rows] (map (dget a) rows))
      | _ => VErr EModel
      end
  end.

(* ---- observations ---- *)
Inductive obs :=
  | OT (rk ns : list nat) (data : list R)
  | OM (rk ms ns : list nat) (data : list R)
  | OD (ns : list nat) (data : list R)
  | OS (s : R)
  | ONone_
  | OE (e : errc).

Definition observe (v : val) : obs :=
  match v with
  | VT x => OT (ranks x) (shape x) (full x)
  | VM x => OM (ranks4 x) (shapeM x) (shapeN x) (full4 x)
  | VD d => OD (dshape d) (dflat d)
  | VS _ s => OS s
  | VNone => ONone_
  | VErr e => OE e
  end.

Definition eqb_lr (a b : list R) : bool :=
  Nat.eqb (length a) (length b) && forallb (fun p => reqb (fst p) (snd p)) (combine a b).
Definition errc_eqb (a b : errc) : bool :=
  match a, b with
  | EShape, EShape | ERank, ERank | ETypes, ETypes | EArgs, EArgs | ENotImpl, ENotImpl
  | ETorch, ETorch | EPyType, EPyType | EPyUnbound, EPyUnbound | EPyAttr, EPyAttr
  | EPyIndex, EPyIndex | EPyValue, EPyValue | EModel, EModel => true
  | _, _ => false
  end.

(* result code: 0 = model and spec agree with the implementation's observation.
   bit 1: ranks differ, 2: shape differs, 4: model value differs, 8: kind / error class differs,
   16: spec shape differs, 32: spec value differs *)
Definition cmp_model (m : obs) (impl : obs) : nat :=
  match m, impl with
  | OT r1 n1 d1, OT r2 n2 d2 =>
      (if eqb_ln r1 r2 then 0 else 1) + (if eqb_ln n1 n2 then 0 else 2) + (if eqb_lr d1 d2 then 0 else 4)
  | OM r1 m1 n1 d1, OM r2 m2 n2 d2 =>
      (if eqb_ln r1 r2 then 0 else 1) + (if eqb_ln m1 m2 && eqb_ln n1 n2 then 0 else 2)
      + (if eqb_lr d1 d2 then 0 else 4)
  | OD n1 d1, OD n2 d2 => (if eqb_ln n1 n2 then 0 else 2) + (if eqb_lr d1 d2 then 0 else 4)
  | OS a, OS b => if reqb a b then 0 else 4
  | ONone_, ONone_ => 0
  | OE a, OE b => if errc_eqb a b then 0 else 8
  | _, _ => 8
  end%nat.
Definition cmp_spec (s : obs) (impl : obs) : nat :=
  match s, impl with
  | OD n1 d1, OT _ n2 d2 => (if eqb_ln n1 n2 then 0 else 16) + (if eqb_lr d1 d2 then 0 else 32)
  | OD n1 d1, OM _ m2 n2 d2 => (if eqb_ln n1 (m2 ++ n2) then 0 else 16) + (if eqb_lr d1 d2 then 0 else 32)
  | OD n1 d1, OD n2 d2 => (if eqb_ln n1 n2 then 0 else 16) + (if eqb_lr d1 d2 then 0 else 32)
  | OD [] [a], OS b | OS a, OS b => if reqb a b then 0 else 32
  | _, OE _ => 0        (* the implementation raised: nothing to compare the dense value with *)
  | _, _ => 16
  end%nat.

(* a history: each expression may refer to the results of the previous ones *)
Fixpoint run_hist (env : list val) (es : list exp) : list val :=
  match es with
  | [] => env
  | e :: t => run_hist (env ++ [eval env e]) t
  end.

Definition check_model (e : exp) (impl : obs) : nat := cmp_model (observe (eval [] e)) impl.
Definition check1 (e : exp) (impl : obs) : nat :=
  (cmp_model (observe (eval [] e)) impl + cmp_spec (observe (deval [] e)) impl)%nat.

End Expr.
Arguments val R : clear implicits.
Arguments exp R : clear implicits.
Arguments obs R : clear implicits.
