(* Shape level of the two-cursor merge / split loop of torchtt.reshape for TT tensors (torchtt/_extras.py, as repaired: input
   cores left over when the target shape is exhausted are absorbed, not dropped) (C10).
   c = mode size of the current (possibly merged / split-remainder) core, ins = mode sizes of the input cores not yet loaded,
   tg = target mode sizes not yet produced, acc = produced mode sizes (reversed). *)
From Coq Require Import List Arith Bool.
Import ListNotations.

Fixpoint reshape_loop (fuel c : nat) (ins tg acc : list nat) : option (list nat) :=
  match fuel with
  | O => None                                    (* out of fuel: excluded by reshape_shape *)
  | S f =>
      match tg with
      | [] => Some (rev acc)                     (* idx_shape == len(shape): leftover input cores (mode 1) are absorbed *)
      | t :: tgt =>
          if Nat.eqb (c mod t) 0 then
            if Nat.ltb 1 (c / t) then reshape_loop f (c / t) ins tgt (t :: acc)         (* split off a mode of size t *)
            else match ins with
                 | [] => Some (rev (c :: acc) ++ repeat 1 (length tgt))                 (* last core: the rest are ones cores *)
                 | n :: ins' => reshape_loop f n ins' tgt (c :: acc)                    (* take the core as it is, load the next *)
                 end
          else match ins with
               | [] => Some (rev acc ++ repeat 1 (length tgt))                          (* premature end (cannot happen when the products agree) *)
               | n :: ins' => reshape_loop f (c * n) ins' tg acc                        (* merge with the next core *)
               end
      end
  end.
Definition reshape_modes (ns tg : list nat) : option (list nat) :=
  match ns with
  | [] => None
  | c :: ins => reshape_loop (length ns + length tg + 1) c ins tg []
  end.
Definition prodl (l : list nat) : nat := fold_right Nat.mul 1 l.
