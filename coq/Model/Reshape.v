(* Shape level of the two-cursor merge / split loop of torchtt.reshape for TT tensors (torchtt/_extras.py, as repaired: input
   cores left over when the target shape is exhausted are absorbed, not dropped) (C10).
   c = mode size of the current (possibly merged / split-remainder) core, ins = mode sizes of the input cores not yet loaded,
   tg = target mode sizes not yet produced, acc = produced mode sizes (reversed). *)
From Coq Require Import List Arith Bool.
Import ListNotations.

Fixpoint reshape_loop (fuel c : nat) (ins tg acc : list nat) : option (list nat) :=
  match fuel with
  | O => None                                    (* out of fuel: excluded by reshape_shape *)
  | S f =>
      match tg with
      | [] => Some (rev acc)                     (* idx_shape == len(shape): leftover input cores (mode 1) are absorbed *)
      | t :: tgt =>
          if Nat.eqb (c mod t) 0 then
            if Nat.ltb 1 (c / t) then reshape_loop f (c / t) ins tgt (t :: acc)         (* split off a mode of size t *)
            else match ins with
                 | [] => Some (rev (c :: acc) ++ repeat 1 (length tgt))                 (* last core: the rest are ones cores *)
                 | n :: ins' => reshape_loop f n ins' tgt (c :: acc)                    (* take the core as it is, load the next *)
                 end
          else match ins with
               | [] => Some (rev acc ++ repeat 1 (length tgt))                          (* premature end (cannot happen when the products agree) *)
               | n :: ins' => reshape_loop f (c * n) ins' tg acc                        (* merge with the next core *)
               end
      end
  end.
Definition reshape_modes (ns tg : list nat) : option (list nat) :=
  match ns with
  | [] => None
  | c :: ins => reshape_loop (length ns + length tg + 1) c ins tg []
  end.
Definition prodl (l : list nat) : nat := fold_right Nat.mul 1 l.

(* ---- the same loop for TT matrices (torchtt/_extras.py, is_ttm branch): the cursor carries a (row, column) pair; a target pair is split off
   when BOTH sizes divide and at least one quotient exceeds 1, taken when both quotients are 1, otherwise the next core is merged in ---- *)
Fixpoint reshape_loop4 (fuel cm cn : nat) (ins tg acc : list (nat * nat)) : option (list (nat * nat)) :=
  match fuel with
  | O => None
  | S f =>
      match tg with
      | [] => Some (rev acc)
      | (tm, tn) :: tgt =>
          if Nat.eqb (cm mod tm) 0 && Nat.eqb (cn mod tn) 0 then
            if Nat.ltb 1 (cm / tm) || Nat.ltb 1 (cn / tn) then reshape_loop4 f (cm / tm) (cn / tn) ins tgt ((tm, tn) :: acc)
            else match ins with
                 | [] => Some (rev ((cm, cn) :: acc) ++ repeat (1, 1) (length tgt))
                 | (m, n) :: ins' => reshape_loop4 f m n ins' tgt ((cm, cn) :: acc)
                 end
          else match ins with
               | [] => Some (rev acc ++ repeat (1, 1) (length tgt))
               | (m, n) :: ins' => reshape_loop4 f (cm * m) (cn * n) ins' tg acc
               end
      end
  end.
Definition reshape_modes4 (ns tg : list (nat * nat)) : option (list (nat * nat)) :=
  match ns with
  | [] => None
  | (m, n) :: ins => reshape_loop4 (length ns + length tg + 1) m n ins tg []
  end.
