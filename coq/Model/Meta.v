(* Shape / effect level model of the Python TT object (C05, C06, C19): the object keeps REDUNDANT descriptions
   (cores, N, M, R, shape, is_ttm) exactly like torchtt.TT does, so that staleness is expressible.
   Every public entry point is a step on a pool of objects; data-dependent ranks come from an oracle argument. *)
From Coq Require Import List Arith Bool.
From TT Require Import Core.
Import ListNotations.

Inductive cshape := C3 (a n b : nat) | C4 (a m n b : nat).
Inductive shape_repr := ShT (l : list nat) | ShM (l : list (nat * nat)).

(* a core: its shape and the identity of the storage holding its data *)
Record obj := mkObj {
  ocores : list (cshape * nat);
  fttm : bool; fM : list nat; fN : list nat; fR : list nat; fshape : shape_repr
}.

Definition cs_left (c : cshape) : nat := match c with C3 a _ _ => a | C4 a _ _ _ => a end.
Definition cs_right (c : cshape) : nat := match c with C3 _ _ b => b | C4 _ _ _ b => b end.
Definition cs_n (c : cshape) : nat := match c with C3 _ n _ => n | C4 _ _ n _ => n end.
Definition cs_m (c : cshape) : nat := match c with C3 _ _ _ => 0 | C4 _ m _ _ => m end.
Definition is4 (c : cshape) : bool := match c with C4 _ _ _ _ => true | _ => false end.

(* TT.__init__(list of cores): rank chaining, 3-d / 4-d, boundary ranks, derived fields *)
Fixpoint chain_ok (r : nat) (cs : list cshape) : bool :=
  match cs with [] => true | c :: t => Nat.eqb (cs_left c) r && chain_ok (cs_right c) t end.
Definition derive (cs : list (cshape * nat)) : obj :=
  let sh := map fst cs in
  let ttm := match sh with c :: _ => is4 c | [] => false end in
  let ms := map cs_m sh in let ns := map cs_n sh in
  let rs := match sh with c :: _ => cs_left c :: map cs_right sh | [] => [1; 1] end in
  mkObj cs ttm (if ttm then ms else []) ns rs (if ttm then ShM (combine ms ns) else ShT ns).
Definition ctor (cs : list (cshape * nat)) : errc + obj :=
  let sh := map fst cs in
  match sh with
  | [] => inl EPyIndex
  | c0 :: _ =>
      if negb (chain_ok (cs_left c0) sh) then inl ERank
      else if negb (forallb is4 sh || forallb (fun c => negb (is4 c)) sh) then inl EArgs
      else if negb (Nat.eqb (cs_left c0) 1 && Nat.eqb (last (map cs_right sh) 0) 1) then inl EArgs
      else inr (derive cs)
  end.

(* the property: every clause of "structurally well formed" *)
Definition shape_eqb (a b : shape_repr) : bool :=
  match a, b with
  | ShT x, ShT y => (length x =? length y) && forallb (fun p => fst p =? snd p) (combine x y)
  | ShM x, ShM y => (length x =? length y) &&
      forallb (fun p => (fst (fst p) =? fst (snd p)) && (snd (fst p) =? snd (snd p))) (combine x y)
  | _, _ => false
  end.
Definition ln_eqb (a b : list nat) : bool := (length a =? length b) && forallb (fun p => fst p =? snd p) (combine a b).
Definition wf_obj (o : obj) : bool :=
  let sh := map fst (ocores o) in
  match sh with
  | [] => false
  | c0 :: _ =>
      (forallb is4 sh || forallb (fun c => negb (is4 c)) sh)
      && chain_ok 1 sh && Nat.eqb (last (map cs_right sh) 0) 1
      && Bool.eqb (fttm o) (is4 c0)
      && ln_eqb (fN o) (map cs_n sh)
      && ln_eqb (fM o) (if is4 c0 then map cs_m sh else [])
      && ln_eqb (fR o) (1 :: map cs_right sh)
      && shape_eqb (fshape o) (if is4 c0 then ShM (combine (map cs_m sh) (map cs_n sh)) else ShT (map cs_n sh))
  end.

(* ---- shape level of the operations (cores of the result), mirroring the constructions of the V-level models ---- *)
Definition same_modes (a b : cshape) : bool :=
  match a, b with
  | C3 _ n _, C3 _ n' _ => n =? n'
  | C4 _ m n _, C4 _ m' n' _ => (m =? m') && (n =? n')
  | _, _ => false
  end.
Fixpoint add_sh (first : bool) (x y : list cshape) : list cshape :=
  match x, y with
  | a :: xt, b :: yt =>
      let last := match xt with [] => true | _ => false end in
      let l := if first then 1 else cs_left a + cs_left b in
      let r := if last then 1 else cs_right a + cs_right b in
      (match a with C3 _ n _ => C3 l n r | C4 _ m n _ => C4 l m n r end) :: add_sh false xt yt
  | _, _ => []
  end.
Fixpoint mul_sh (x y : list cshape) : list cshape :=
  match x, y with
  | a :: xt, b :: yt =>
      (match a with C3 _ n _ => C3 (cs_left a * cs_left b) n (cs_right a * cs_right b)
                  | C4 _ m n _ => C4 (cs_left a * cs_left b) m n (cs_right a * cs_right b) end) :: mul_sh xt yt
  | _, _ => []
  end.
(* A @ x, A @ B, x @ A *)
Fixpoint matmul_sh (x y : list cshape) : list cshape :=
  match x, y with
  | a :: xt, b :: yt =>
      let l := cs_left a * cs_left b in let r := cs_right a * cs_right b in
      (match a, b with
       | C4 _ m _ _, C3 _ _ _ => C3 l m r
       | C4 _ m _ _, C4 _ _ n _ => C4 l m n r
       | C3 _ _ _, C4 _ _ n _ => C3 l n r
       | C3 _ n _, C3 _ _ _ => C3 l n r
       end) :: matmul_sh xt yt
  | _, _ => []
  end.
Definition inner_ok (a b : cshape) : bool :=
  match a, b with
  | C4 _ _ n _, C3 _ k _ => n =? k
  | C4 _ _ n _, C4 _ k _ _ => n =? k
  | C3 _ k _, C4 _ m _ _ => k =? m
  | C3 _ _ _, C3 _ _ _ => false
  end.
Definition tr_sh (c : cshape) : cshape := match c with C4 a m n b => C4 a n m b | c => c end.
Definition to_ttm_sh (c : cshape) : cshape := match c with C3 a n b => C4 a n 1 b | c => c end.
(* ranks replaced by data-dependent ones (rounding, TT-SVD): rs = interior ranks chosen *)
Fixpoint rerank (l : nat) (cs : list cshape) (rs : list nat) : list cshape :=
  match cs with
  | [] => []
  | c :: t =>
      let r := match t, rs with [], _ => 1 | _, r :: _ => r | _, [] => cs_right c end in
      (match c with C3 _ n _ => C3 l n r | C4 _ m n _ => C4 l m n r end) :: rerank r t (tl rs)
  end.
(* reduce_dims(exclude): which cores survive (shape level; ranks of the survivors: outer ranks of the merged groups) *)
Definition removable (i : nat) (c : cshape) (excl : list nat) : bool :=
  (match c with C3 _ n _ => n =? 1 | C4 _ m n _ => (m =? 1) && (n =? 1) end) && negb (existsb (Nat.eqb i) excl).
Fixpoint rd_sh (i : nat) (rest : list cshape) (carry : option nat (* left rank carried *)) (racc : list cshape) (excl : list nat)
  : list cshape :=
  match rest with
  | [] => rev racc
  | c0 :: cs =>
      let c := match carry, c0 with
               | Some l, C3 _ n b => C3 l n b | Some l, C4 _ m n b => C4 l m n b | None, _ => c0 end in
      if removable i c excl then
        if (cs_right c <? cs_left c) || (match cs with [] => true | _ => false end) then
          match racc with
          | C3 a n _ :: racc' => rd_sh (S i) cs None (C3 a n (cs_right c) :: racc') excl
          | C4 a m n _ :: racc' => rd_sh (S i) cs None (C4 a m n (cs_right c) :: racc') excl
          | [] => match cs with [] => [c] | _ => rd_sh (S i) cs (Some (cs_left c)) [] excl end
          end
        else rd_sh (S i) cs (Some (cs_left c)) racc excl
      else rd_sh (S i) cs None (c :: racc) excl
  end.

(* ---- the pool and the calls ---- *)
Record state := mkSt { pool : list obj; next_id : nat }.
Definition shapes (o : obj) : list cshape := map fst (ocores o).
Definition fresh (st : state) (sh : list cshape) : list (cshape * nat) :=
  combine sh (seq (next_id st) (length sh)).
Definition push (st : state) (sh : list cshape) : state :=
  match ctor (fresh st sh) with
  | inr o => mkSt (pool st ++ [o]) (next_id st + length sh)
  | inl _ => st
  end.
Definition all_same_modes (x y : list cshape) : bool :=
  (length x =? length y) && forallb (fun p => same_modes (fst p) (snd p)) (combine x y).

Inductive call :=
  | KAdd (i j : nat) | KMul (i j : nat) | KKron (i j : nat) | KMatmul (i j : nat)
  | KTranspose (i : nat) | KScalar (i : nat) | KClone (i : nat) | KToTTM (i : nat)
  | KRerank (i : nat) (rs : list nat)          (* round / any operation that keeps the modes and chooses new ranks *)
  | KNew (sh : list cshape)                     (* constructor from cores, TT-SVD, factories, solvers: any core list *)
  | KSetCore (i k : nat) (c : cshape)           (* in place *)
  | KReduce (i : nat) (excl : list nat).        (* in place *)

Definition upd_nth {A} (k : nat) (v : A) (l : list A) : list A := firstn k l ++ (match skipn k l with [] => [] | _ :: t => v :: t end).

Definition step (st : state) (c : call) : state :=
  let get i := nth_error (pool st) i in
  match c with
  | KAdd i j => match get i, get j with
                | Some x, Some y => if all_same_modes (shapes x) (shapes y) then push st (add_sh true (shapes x) (shapes y)) else st
                | _, _ => st end
  | KMul i j => match get i, get j with
                | Some x, Some y => if all_same_modes (shapes x) (shapes y) then push st (mul_sh (shapes x) (shapes y)) else st
                | _, _ => st end
  | KKron i j => match get i, get j with
                 | Some x, Some y => if Bool.eqb (fttm x) (fttm y) then push st (shapes x ++ shapes y) else st
                 | _, _ => st end
  | KMatmul i j => match get i, get j with
                   | Some x, Some y =>
                       if (length (shapes x) =? length (shapes y)) && forallb (fun p => inner_ok (fst p) (snd p)) (combine (shapes x) (shapes y))
                       then push st (matmul_sh (shapes x) (shapes y)) else st
                   | _, _ => st end
  | KTranspose i => match get i with Some x => if fttm x then push st (map tr_sh (shapes x)) else st | None => st end
  | KScalar i | KClone i => match get i with Some x => push st (shapes x) | None => st end
  | KToTTM i => match get i with Some x => if fttm x then st else push st (map to_ttm_sh (shapes x)) | None => st end
  | KRerank i rs => match get i with
                    | Some x => if forallb (fun r => 1 <=? r) rs && (length rs =? length (shapes x) - 1)
                                then push st (rerank 1 (shapes x) rs) else st
                    | None => st end
  | KNew sh => push st sh
  | KSetCore i k c =>
      match get i with
      | Some x =>
          match nth_error (shapes x) k with
          | Some old =>
              if (cs_left c =? cs_left old) && (cs_right c =? cs_right old) && Bool.eqb (is4 c) (is4 old) then
                (* self.cores[k] = core.clone(); N[k] (and M[k]) updated; shape refreshed (as repaired) *)
                let cs' := upd_nth k (c, next_id st) (ocores x) in
                let fN' := upd_nth k (cs_n c) (fN x) in
                let fM' := if fttm x then upd_nth k (cs_m c) (fM x) else fM x in
                let x' := mkObj cs' (fttm x) fM' fN' (fR x) (if fttm x then ShM (combine fM' fN') else ShT fN') in
                mkSt (upd_nth i x' (pool st)) (S (next_id st))
              else st
          | None => st
          end
      | None => st
      end
  | KReduce i excl =>
      match get i with
      | Some x =>
          let sh' := rd_sh 0 (shapes x) None [] excl in
          let cs' := fresh st sh' in
          let ms := map cs_m sh' in let ns := map cs_n sh' in
          let x' := mkObj cs' (fttm x) (if fttm x then ms else []) ns (1 :: map cs_right sh')
                          (if fttm x then ShM (combine ms ns) else ShT ns) in
          mkSt (upd_nth i x' (pool st)) (next_id st + length sh')
      | None => st
      end
  end.

Definition run (st : state) (cs : list call) : state := fold_left step cs st.
Definition init : state := mkSt [] 0.
Definition is_inplace_on (i : nat) (c : call) : bool :=
  match c with KSetCore j _ _ | KReduce j _ => i =? j | _ => false end.

(* flat encoding of a descriptor, for the correspondence run *)
Definition enc_obj (o : obj) : list nat :=
  [if fttm o then 1 else 0; length (fN o)] ++ fN o ++ fM o ++ fR o ++
  (match fshape o with ShT l => 0 :: l | ShM l => 1 :: flat_map (fun p => [fst p; snd p]) l end)
  ++ flat_map (fun c => match fst c with C3 a n b => [3; a; n; b] | C4 a m n b => [4; a; m; n; b] end) (ocores o).
Definition enc_state (st : state) : list nat := flat_map (fun o => let e := enc_obj o in length e :: e) (pool st).

(* ---- persistence and copies (C19) ---- *)
(* the dictionary written by save(): kind-dependent keys; cores with their contents (storage identities stand for
   bit-identical contents) *)
Record saved := mkSaved { s_ttm : bool; s_R : list nat; s_M : list nat; s_N : list nat; s_cores : list (cshape * nat) }.
Definition save (x : obj) : saved := mkSaved (fttm x) (fR x) (if fttm x then fM x else []) (fN x) (ocores x).
(* load(): TT(dct['cores']) - everything is re-derived from the cores only *)
Definition load (d : saved) : errc + obj := ctor (s_cores d).

(* clone(): new storages for every core *)
Definition clone_obj (st : state) (x : obj) : state := push st (shapes x).
Definition storages (o : obj) : list nat := map snd (ocores o).
Definition ids_below (st : state) : Prop := forall o, In o (pool st) -> forall id, In id (storages o) -> id < next_id st.
