(* A minimal ordered commutative semiring signature for the rank-selection / error-budget models:
   operations as a class, laws as a second class (instances: Z; the laws hold in every ordered field). *)
From Coq Require Import ZArith Bool Lia.

Class OrdOps (T : Type) := {
  oz : T; oone : T; oadd : T -> T -> T; omul : T -> T -> T; oleb : T -> T -> bool
}.
Definition oltb {T} `{OrdOps T} (a b : T) : bool := negb (oleb b a).
Definition ole {T} `{OrdOps T} (a b : T) : Prop := oleb a b = true.

Class OrdLaws (T : Type) `{OrdOps T} := {
  ole_refl : forall a, ole a a;
  ole_trans : forall a b c, ole a b -> ole b c -> ole a c;
  ole_total : forall a b, ole a b \/ ole b a;
  oadd_comm : forall a b, oadd a b = oadd b a;
  oadd_assoc : forall a b c, oadd a (oadd b c) = oadd (oadd a b) c;
  oadd_0_l : forall a, oadd oz a = a;
  oadd_mono : forall a b c, ole a b -> ole (oadd c a) (oadd c b);
  omul_comm : forall a b, omul a b = omul b a;
  omul_0_l : forall a, omul oz a = oz;
  omul_1_l : forall a, omul oone a = a;
  omul_add_distr_l : forall a b c, omul a (oadd b c) = oadd (omul a b) (omul a c);
  omul_mono : forall a b c, ole oz a -> ole b c -> ole (omul a b) (omul a c);
  omul_lt_mono : forall a b c, oltb oz a = true -> oltb b c = true -> oltb (omul a b) (omul a c) = true;
  ole_0_1 : ole oz oone
}.

#[export] Instance ZOrdOps : OrdOps Z := {| oz := 0%Z; oone := 1%Z; oadd := Z.add; omul := Z.mul; oleb := Z.leb |}.
Lemma Zle_total_b (a b : Z) : Z.leb a b = true \/ Z.leb b a = true.
Proof. destruct (Z.le_ge_cases a b); [left|right]; apply Z.leb_le; lia. Qed.
#[export] Instance ZOrdLaws : OrdLaws Z.
Proof.
  constructor; unfold ole, oltb; cbn; try exact Zle_total_b; intros; rewrite ?negb_true_iff, ?Z.leb_gt in *; rewrite ?Z.leb_le in *; try lia; try nia.
  all: try (destruct a; reflexivity).
Qed.

Fixpoint ofnat {T} `{OrdOps T} (n : nat) : T := match n with O => oz | S k => oadd oone (ofnat k) end.
