(* Dense arrays (the specification side): shape + total access function; torch-style operations. *)
From Coq Require Import List Arith Bool.
From TT Require Import RingSig SumN.
Import ListNotations.

Section Dense.
Context {R : Type} {RO : RingOps R}.
Open Scope R_scope.

Record dense := mkD { dshape : list nat; dget : list nat -> R }.

(* all multi-indices of a box, row-major *)
Fixpoint all_idx (ns : list nat) : list (list nat) :=
  match ns with
  | [] => [[]]
  | n :: t => let rest := all_idx t in flat_map (fun i => map (cons i) rest) (seq 0 n)
  end.

Definition dflat (d : dense) : list R := map (dget d) (all_idx (dshape d)).

(* row-major linear index *)
Fixpoint ravel_acc (acc : nat) (ns idx : list nat) : nat :=
  match ns, idx with
  | n :: nt, i :: it => ravel_acc (acc * n + i) nt it
  | _, _ => acc
  end.
Definition ravel (ns idx : list nat) : nat := ravel_acc 0 ns idx.
Definition dense_of_flat (ns : list nat) (data : list R) : dense :=
  mkD ns (fun idx => nth (ravel ns idx) data 0).
(* tabulate *)
Definition dtab (d : dense) : dense := dense_of_flat (dshape d) (dflat d).

(* torch broadcasting of b against a (len b <= len a; sizes equal or 1): index into b *)
Fixpoint bidx_al (na nb idx : list nat) : list nat :=
  match na, nb, idx with
  | n :: nt, m :: mt, i :: it => (if Nat.eqb m n then i else O) :: bidx_al nt mt it
  | _, _, _ => []
  end.
Definition bidx (na nb idx : list nat) : list nat :=
  let k := (length na - length nb)%nat in bidx_al (skipn k na) nb (skipn k idx).

Definition dmap2 (f : R -> R -> R) (a b : dense) : dense :=
  mkD (dshape a) (fun idx => f (dget a idx) (dget b (bidx (dshape a) (dshape b) idx))).
Definition dmap (f : R -> R) (a : dense) : dense := mkD (dshape a) (fun idx => f (dget a idx)).
Definition dconst (ns : list nat) (s : R) : dense := mkD ns (fun _ => s).
(* outer (Kronecker) product: shape a ++ shape b *)
Definition douter (a b : dense) : dense :=
  mkD (dshape a ++ dshape b)
      (fun idx => dget a (firstn (length (dshape a)) idx) * dget b (skipn (length (dshape a)) idx)).

(* ---- operator algebra on dense arrays of shape M1..Md x N1..Nd ---- *)
Definition dmatvec (d : nat) (A x : dense) : dense :=
  mkD (firstn d (dshape A))
      (fun ms => sum_idx (skipn d (dshape A)) (fun ns => dget A (ms ++ ns) * dget x ns)).
Definition dvecmat (d : nat) (x A : dense) : dense :=
  mkD (skipn d (dshape A))
      (fun ns => sum_idx (firstn d (dshape A)) (fun ms => dget x ms * dget A (ms ++ ns))).
Definition dmatmat (d : nat) (A B : dense) : dense :=
  mkD (firstn d (dshape A) ++ skipn d (dshape B))
      (fun idx => sum_idx (skipn d (dshape A))
         (fun ks => dget A (firstn d idx ++ ks) * dget B (ks ++ skipn d idx))).
(* A (M x N) applied along the last d axes of X (B x N): result B x M *)
Definition dmatvec_batch (d : nat) (A X : dense) : dense :=
  let nb := (length (dshape X) - d)%nat in
  mkD (firstn nb (dshape X) ++ firstn d (dshape A))
      (fun idx => sum_idx (skipn d (dshape A))
         (fun ns => dget A (skipn nb idx ++ ns) * dget X (firstn nb idx ++ ns))).
Definition dtranspose (d : nat) (A : dense) : dense :=
  mkD (skipn d (dshape A) ++ firstn d (dshape A))
      (fun idx => dget A (skipn (length (dshape A) - d) idx ++ firstn (length (dshape A) - d) idx)).
Definition deye (ns : list nat) : dense :=
  mkD (ns ++ ns) (fun idx => fold_right (fun ij acc => delta (fst ij) (snd ij) * acc) 1
                               (combine (firstn (length ns) idx) (skipn (length ns) idx))).

(* ---- reductions ---- *)
Definition memb (i : nat) (l : list nat) : bool := existsb (Nat.eqb i) l.
(* sum over the modes listed in index; the result is indexed by the remaining modes, in order *)
Fixpoint dsum_rec (i : nat) (ns index : list nat) (f : list nat -> R) : list nat -> R :=
  match ns with
  | [] => fun _ => f []
  | n :: nt =>
      if memb i index
      then fun idx' => sum_n n (fun j => dsum_rec (S i) nt index (fun t => f (j :: t)) idx')
      else fun idx' => match idx' with
                       | k :: kt => dsum_rec (S i) nt index (fun t => f (k :: t)) kt
                       | [] => 0
                       end
  end.
Fixpoint keep_pos {A} (i : nat) (l : list A) (index : list nat) : list A :=
  match l with [] => [] | a :: t => (if memb i index then [] else [a]) ++ keep_pos (S i) t index end.
Fixpoint take_pos {A} (i : nat) (l : list A) (index : list nat) : list A :=
  match l with [] => [] | a :: t => (if memb i index then [a] else []) ++ take_pos (S i) t index end.
Definition dsum_modes (a : dense) (index : list nat) : dense :=
  mkD (keep_pos 0 (dshape a) index) (dsum_rec 0 (dshape a) index (dget a)).
Definition dsum_all (a : dense) : dense := mkD [] (fun _ => sum_idx (dshape a) (dget a)).
Definition ddot (a b : dense) : dense :=
  mkD [] (fun _ => sum_idx (dshape a) (fun idx => dget a idx * rconj (dget b idx))).
(* contraction of the modes `axis` of a with all modes of b (conjugated) *)
Definition ddot_axis (a b : dense) (axis : list nat) : dense :=
  dsum_modes (mkD (dshape a) (fun idx => dget a idx * rconj (dget b (take_pos 0 idx axis)))) axis.
(* x^H A y with A of shape M x N *)
Definition dbilinear (x A y : dense) : dense :=
  mkD [] (fun _ => sum_idx (dshape x) (fun is_ => sum_idx (dshape y) (fun js =>
                     rconj (dget x is_) * dget A (is_ ++ js) * dget y js))).

End Dense.
Arguments dense R : clear implicits.
