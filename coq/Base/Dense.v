(* Dense arrays (the specification side): shape + total access function; torch-style operations. *)
From Coq Require Import List Arith Bool.
From TT Require Import RingSig SumN.
Import ListNotations.

Section Dense.
Context {R : Type} {RO : RingOps R}.
Open Scope R_scope.

Record dense := mkD { dshape : list nat; dget : list nat -> R }.

(* all multi-indices of a box, row-major *)
Fixpoint all_idx (ns : list nat) : list (list nat) :=
  match ns with
  | [] => [[]]
  | n :: t => let rest := all_idx t in flat_map (fun i => map (cons i) rest) (seq 0 n)
  end.

Definition dflat (d : dense) : list R := map (dget d) (all_idx (dshape d)).

(* row-major linear index *)
Fixpoint ravel_acc (acc : nat) (ns idx : list nat) : nat :=
  match ns, idx with
  | n :: nt, i :: it => ravel_acc (acc * n + i) nt it
  | _, _ => acc
  end.
Definition ravel (ns idx : list nat) : nat := ravel_acc 0 ns idx.
Definition dense_of_flat (ns : list nat) (data : list R) : dense :=
  mkD ns (fun idx => nth (ravel ns idx) data 0).
(* tabulate *)
Definition dtab (d : dense) : dense := dense_of_flat (dshape d) (dflat d).

(* torch broadcasting of b against a (len b <= len a; sizes equal or 1): index into b *)
Fixpoint bidx_al (na nb idx : list nat) : list nat :=
  match na, nb, idx with
  | n :: nt, m :: mt, i :: it => (if Nat.eqb m n then i else O) :: bidx_al nt mt it
  | _, _, _ => []
  end.
Definition bidx (na nb idx : list nat) : list nat :=
  let k := (length na - length nb)%nat in bidx_al (skipn k na) nb (skipn k idx).

Definition dmap2 (f : R -> R -> R) (a b : dense) : dense :=
  mkD (dshape a) (fun idx => f (dget a idx) (dget b (bidx (dshape a) (dshape b) idx))).
Definition dmap (f : R -> R) (a : dense) : dense := mkD (dshape a) (fun idx => f (dget a idx)).
Definition dconst (ns : list nat) (s : R) : dense := mkD ns (fun _ => s).
(* outer (Kronecker) product: shape a ++ shape b *)
Definition douter (a b : dense) : dense :=
  mkD (dshape a ++ dshape b)
      (fun idx => dget a (firstn (length (dshape a)) idx) * dget b (skipn (length (dshape a)) idx)).

(* ---- operator algebra on dense arrays of shape M1..Md x N1..Nd ---- *)
Definition dmatvec (d : nat) (A x : dense) : dense :=
  mkD (firstn d (dshape A))
      (fun ms => sum_idx (skipn d (dshape A)) (fun ns => dget A (ms ++ ns) * dget x ns)).
Definition dvecmat (d : nat) (x A : dense) : dense :=
  mkD (skipn d (dshape A))
      (fun ns => sum_idx (firstn d (dshape A)) (fun ms => dget x ms * dget A (ms ++ ns))).
Definition dmatmat (d : nat) (A B : dense) : dense :=
  mkD (firstn d (dshape A) ++ skipn d (dshape B))
      (fun idx => sum_idx (skipn d (dshape A))
         (fun ks => dget A (firstn d idx ++ ks) * dget B (ks ++ skipn d idx))).
(* A (M x N) applied along the last d axes of X (B x N): result B x M *)
Definition dmatvec_batch (d : nat) (A X : dense) : dense :=
  let nb := (length (dshape X) - d)%nat in
  mkD (firstn nb (dshape X) ++ firstn d (dshape A))
      (fun idx => sum_idx (skipn d (dshape A))
         (fun ns => dget A (skipn nb idx ++ ns) * dget X (firstn nb idx ++ ns))).
Definition dtranspose (d : nat) (A : dense) : dense :=
  mkD (skipn d (dshape A) ++ firstn d (dshape A))
      (fun idx => dget A (skipn (length (dshape A) - d) idx ++ firstn (length (dshape A) - d) idx)).
Definition deye (ns : list nat) : dense :=
  mkD (ns ++ ns) (fun idx => fold_right (fun ij acc => delta (fst ij) (snd ij) * acc) 1
                               (combine (firstn (length ns) idx) (skipn (length ns) idx))).

(* ---- reductions ---- *)
Definition memb (i : nat) (l : list nat) : bool := existsb (Nat.eqb i) l.
(* sum over the modes listed in index; the result is indexed by the remaining modes, in order *)
Fixpoint dsum_rec (i : nat) (ns index : list nat) (f : list nat -> R) : list nat -> R :=
  match ns with
  | [] => fun _ => f []
  | n :: nt =>
      if memb i index
      then fun idx' => sum_n n (fun j => dsum_rec (S i) nt index (fun t => f (j :: t)) idx')
      else fun idx' => match idx' with
                       | k :: kt => dsum_rec (S i) nt index (fun t => f (k :: t)) kt
                       | [] => 0
                       end
  end.
Fixpoint keep_pos {A} (i : nat) (l : list A) (index : list nat) : list A :=
  match l with [] => [] | a :: t => (if memb i index then [] else [a]) ++ keep_pos (S i) t index end.
Fixpoint take_pos {A} (i : nat) (l : list A) (index : list nat) : list A :=
  match l with [] => [] | a :: t => (if memb i index then [a] else []) ++ take_pos (S i) t index end.
Definition dsum_modes (a : dense) (index : list nat) : dense :=
  mkD (keep_pos 0 (dshape a) index) (dsum_rec 0 (dshape a) index (dget a)).
Definition dsum_all (a : dense) : dense := mkD [] (fun _ => sum_idx (dshape a) (dget a)).
Definition ddot (a b : dense) : dense :=
  mkD [] (fun _ => sum_idx (dshape a) (fun idx => dget a idx * rconj (dget b idx))).
(* contraction of the modes `axis` of a with all modes of b (conjugated) *)
Definition ddot_axis (a b : dense) (axis : list nat) : dense :=
  dsum_modes (mkD (dshape a) (fun idx => dget a idx * rconj (dget b (take_pos 0 idx axis)))) axis.
(* x^H A y with A of shape M x N *)
Definition dbilinear (x A y : dense) : dense :=
  mkD [] (fun _ => sum_idx (dshape x) (fun is_ => sum_idx (dshape y) (fun js =>
                     rconj (dget x is_) * dget A (is_ ++ js) * dget y js))).

(* ---- structural operations (C09) ---- *)
Fixpoint upd (k v : nat) (l : list nat) : list nat :=
  match l, k with
  | [], _ => []
  | _ :: t, O => v :: t
  | a :: t, S k' => a :: upd k' v t
  end.
(* torch.cat((a, b), dim) *)
Definition dcat (dim : nat) (a b : dense) : dense :=
  let na := nth dim (dshape a) 0%nat in
  mkD (upd dim (na + nth dim (dshape b) 0)%nat (dshape a))
      (fun idx => let i := nth dim idx 0%nat in
                  if (i <? na)%nat then dget a idx else dget b (upd dim (i - na)%nat idx)).
(* constant padding: padding = (before, after) for every mode *)
Fixpoint pad_shape (ns : list nat) (padding : list (nat * nat)) : list nat :=
  match ns, padding with
  | n :: nt, (b, a) :: pt => (b + n + a)%nat :: pad_shape nt pt
  | _, _ => []
  end.
Fixpoint in_block (ns : list nat) (padding : list (nat * nat)) (idx : list nat) : option (list nat) :=
  match ns, padding, idx with
  | n :: nt, (b, _) :: pt, i :: it =>
      if (b <=? i)%nat && (i <? b + n)%nat
      then match in_block nt pt it with Some t => Some ((i - b)%nat :: t) | None => None end
      else None
  | _, _, _ => Some []
  end.
Definition dpad (a : dense) (padding : list (nat * nat)) (value : R) : dense :=
  mkD (pad_shape (dshape a) padding)
      (fun idx => match in_block (dshape a) padding idx with Some i' => dget a i' | None => value end).
(* block-diagonal padding of an operator of shape M ++ N (d modes each): original block kept, value on the
   diagonal of the leading and of the trailing corner block, zero elsewhere *)
Fixpoint lead_diag (padding : list (nat * nat)) (is_ js : list nat) : bool :=
  match padding, is_, js with
  | (b, _) :: pt, i :: it, j :: jt => Nat.eqb i j && (i <? b)%nat && lead_diag pt it jt
  | _, _, _ => true
  end.
Fixpoint trail_diag (ms ns : list nat) (padding : list (nat * nat)) (is_ js : list nat) : bool :=
  match ms, ns, padding, is_, js with
  | m :: mt, n :: nt, (b, _) :: pt, i :: it, j :: jt =>
      (b + m <=? i)%nat && (b + n <=? j)%nat && Nat.eqb (i - (b + m)) (j - (b + n)) && trail_diag mt nt pt it jt
  | _, _, _, _, _ => true
  end.
Definition dpad_op (d : nat) (A : dense) (padding : list (nat * nat)) (value : R) : dense :=
  let ms := firstn d (dshape A) in let ns := skipn d (dshape A) in
  mkD (pad_shape ms padding ++ pad_shape ns padding)
      (fun idx => let is_ := firstn d idx in let js := skipn d idx in
         match in_block ms padding is_, in_block ns padding js with
         | Some i', Some j' => dget A (i' ++ j')
         | _, _ => if lead_diag padding is_ js || trail_diag ms ns padding is_ js then value else 0
         end).
(* diagonal embedding / extraction *)
Definition ddiag_embed (a : dense) : dense :=
  let d := length (dshape a) in
  mkD (dshape a ++ dshape a)
      (fun idx => dget a (firstn d idx) *
                  fold_right (fun ij acc => delta (fst ij) (snd ij) * acc) 1 (combine (firstn d idx) (skipn d idx))).
Definition ddiag_extract (d : nat) (A : dense) : dense :=
  mkD (map (fun mn => Nat.min (fst mn) (snd mn)) (combine (firstn d (dshape A)) (skipn d (dshape A))))
      (fun idx => dget A (idx ++ idx)).
(* mode product along mode k with the l x n_k matrix M *)
Definition dmprod (a : dense) (k l : nat) (M : nat -> nat -> R) : dense :=
  mkD (upd k l (dshape a))
      (fun idx => sum_n (nth k (dshape a) 0%nat) (fun j => M (nth k idx 0%nat) j * dget a (upd k j idx))).
(* tensor of shape N seen as an operator of shape N x 1...1 *)
Definition dto_op (a : dense) : dense :=
  mkD (dshape a ++ map (fun _ => 1%nat) (dshape a)) (fun idx => dget a (firstn (length (dshape a)) idx)).

End Dense.
Arguments dense R : clear implicits.
