(* Executable ring instances: Z (real integer data), Gaussian integers Z[i] (complex data). *)
From Coq Require Import ZArith Ring Lia QArith Qcanon.
From TT Require Import RingSig.

#[export] Instance ZOps : RingOps Z :=
  {| rO := 0%Z; rI := 1%Z; radd := Z.add; rmul := Z.mul; rsub := Z.sub; ropp := Z.opp;
     rconj := fun x => x; reqb := Z.eqb |}.

#[export] Instance ZLaws : RingLaws Z.
Proof.
  refine {| Rth := _ |}; cbn; intros; try reflexivity.
  - exact InitialRing.Zth.
  - apply Z.eqb_eq.
Qed.

(* Gaussian integers *)
Definition ZI := (Z * Z)%type.
Definition zi_add (a b : ZI) : ZI := (fst a + fst b, snd a + snd b)%Z.
Definition zi_mul (a b : ZI) : ZI := (fst a * fst b - snd a * snd b, fst a * snd b + snd a * fst b)%Z.
Definition zi_sub (a b : ZI) : ZI := (fst a - fst b, snd a - snd b)%Z.
Definition zi_opp (a : ZI) : ZI := (- fst a, - snd a)%Z.
Definition zi_conj (a : ZI) : ZI := (fst a, - snd a)%Z.
Definition zi_eqb (a b : ZI) : bool := (Z.eqb (fst a) (fst b) && Z.eqb (snd a) (snd b))%bool.

#[export] Instance ZIOps : RingOps ZI :=
  {| rO := (0, 0)%Z; rI := (1, 0)%Z; radd := zi_add; rmul := zi_mul; rsub := zi_sub; ropp := zi_opp;
     rconj := zi_conj; reqb := zi_eqb |}.

#[export] Instance ZILaws : RingLaws ZI.
Proof.
  refine {| Rth := _ |}; cbn.
  - constructor; intros; repeat match goal with x : ZI |- _ => destruct x end;
      unfold zi_add, zi_mul, zi_sub, zi_opp; cbn [fst snd]; f_equal; ring.
  - intros [a1 a2] [b1 b2]; unfold zi_conj, zi_add; cbn [fst snd]; f_equal; ring.
  - intros [a1 a2] [b1 b2]; unfold zi_conj, zi_mul; cbn [fst snd]; f_equal; ring.
  - intros [a1 a2]; unfold zi_conj; cbn [fst snd]; f_equal; ring.
  - reflexivity.
  - reflexivity.
  - intros [a1 a2] [b1 b2]. unfold zi_eqb; cbn [fst snd].
    rewrite Bool.andb_true_iff, !Z.eqb_eq. split; [intros [-> ->]; reflexivity|intros H; inversion H; auto].
Qed.

(* canonical rationals: scalar division, dyadic data *)
#[export] Instance QcOps : RingOps Qc :=
  {| rO := 0%Qc; rI := 1%Qc; radd := Qcplus; rmul := Qcmult; rsub := Qcminus; ropp := Qcopp;
     rconj := fun x => x; reqb := Qc_eq_bool |}.

#[export] Instance QcLaws : RingLaws Qc.
Proof.
  refine {| Rth := _ |}; cbn; intros; try reflexivity.
  - exact Qcrt.
  - split.
    + apply Qc_eq_bool_correct.
    + intros ->. unfold Qc_eq_bool. destruct (Qc_eq_dec b b); [reflexivity|congruence].
Qed.

Definition qz (n : Z) : Qc := Q2Qc (inject_Z n).
Definition qf (n : Z) (d : positive) : Qc := Q2Qc (n # d).
