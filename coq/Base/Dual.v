(* Dual numbers over a commutative ring: a + b*eps with eps^2 = 0.  They form a commutative ring with involution, so every
   ring-generic theorem of this development holds for them; the eps-component of a result is the directional derivative of
   the (polynomial) expression in the direction given by the eps-components of the inputs (forward-mode AD). *)
From Coq Require Import Ring ZArith Bool.
From TT Require Import RingSig Instances.

Record dual (R : Type) := mkDual { pr : R; tg : R }.
Arguments mkDual {R}. Arguments pr {R}. Arguments tg {R}.

Section Dual.
Context {R : Type} {RO : RingOps R}.
Open Scope R_scope.

#[export] Instance DualOps : RingOps (dual R) := {|
  rO := mkDual 0 0; rI := mkDual 1 0;
  radd := fun a b => mkDual (pr a + pr b) (tg a + tg b);
  rmul := fun a b => mkDual (pr a * pr b) (pr a * tg b + tg a * pr b);
  rsub := fun a b => mkDual (pr a - pr b) (tg a - tg b);
  ropp := fun a => mkDual (- pr a) (- tg a);
  rconj := fun a => mkDual (rconj (pr a)) (rconj (tg a));
  reqb := fun a b => reqb (pr a) (pr b) && reqb (tg a) (tg b) |}.

Context {RL : RingLaws R}.
Add Ring Rd : Rth.

#[export] Instance DualLaws : RingLaws (dual R).
Proof.
  refine {| Rth := _ |}.
  - constructor; intros; repeat match goal with x : dual R |- _ => destruct x end; cbn; f_equal; ring.
  - intros [a a'] [b b']; cbn. rewrite !conj_add. reflexivity.
  - intros [a a'] [b b']; cbn. rewrite !conj_add, !conj_mul. reflexivity.
  - intros [a a']; cbn. rewrite !conj_inv. reflexivity.
  - cbn. rewrite conj_0. reflexivity.
  - cbn. rewrite conj_1, conj_0. reflexivity.
  - intros [a a'] [b b']; cbn. rewrite andb_true_iff, !reqb_eq. split; [intros [-> ->]; reflexivity|intros H; inversion H; auto].
Qed.

(* the rules of differentiation, read off the ring operations *)
Lemma tg_add (a b : dual R) : tg (a + b) = tg a + tg b. Proof. reflexivity. Qed.
Lemma tg_mul (a b : dual R) : tg (a * b) = pr a * tg b + tg a * pr b. Proof. reflexivity. Qed.
Lemma pr_add (a b : dual R) : pr (a + b) = pr a + pr b. Proof. reflexivity. Qed.
Lemma pr_mul (a b : dual R) : pr (a * b) = pr a * pr b. Proof. reflexivity. Qed.
End Dual.
