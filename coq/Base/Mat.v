(* Matrices as functions with explicit inner dimensions; chains of matrices
   (the semantic object behind every TT entry); block / Kronecker / sum-pushing lemmas. *)
From Coq Require Import List Arith Lia Ring Bool.
From TT Require Import RingSig SumN.
Import ListNotations.

Notation mat R := (nat -> nat -> R) (only parsing).
Notation sl R := (nat * (nat -> nat -> R))%type (only parsing).

Section MatDefs.
Context {R : Type} {RO : RingOps R}.
Open Scope R_scope.

Definition mmul (k : nat) (A B : mat R) : mat R := fun i j => sum_n k (fun l => A i l * B l j).
Definition Id : mat R := fun i j => delta i j.

(* a chain element: (number of columns, matrix) *)
Fixpoint chainM (l : list (sl R)) : mat R :=
  match l with [] => Id | (k, A) :: t => mmul k A (chainM t) end.

(* number of columns of the whole chain, given the number of rows *)
Fixpoint lastk (r : nat) (l : list (sl R)) : nat :=
  match l with [] => r | (k, _) :: t => lastk k t end.

(* pad(A, right/bottom) + pad(B, left/top): A is ra x ka; B's block starts at row offr, col offc *)
Definition osum (ra ka offr offc : nat) (A B : mat R) : mat R := fun i j =>
  (if (i <? ra)%nat && (j <? ka)%nat then A i j else 0)
  + (if (offr <=? i)%nat && (offc <=? j)%nat then B (i - offr)%nat (j - offc)%nat else 0).

(* Kronecker product with row-major merged indices; B is rb x kb *)
Definition kron (rb kb : nat) (A B : mat R) : mat R := fun i j =>
  A (i / rb)%nat (j / kb)%nat * B (i mod rb)%nat (j mod kb)%nat.

(* block-diagonal chain: middle positions of a TT sum *)
Fixpoint dsumL (ra : nat) (la lb : list (sl R)) : list (sl R) :=
  match la, lb with
  | (ka, A) :: ta, (kb, B) :: tb => ((ka + kb)%nat, osum ra ka ra ka A B) :: dsumL ka ta tb
  | _, _ => []
  end.

Fixpoint kronL (rb : nat) (la lb : list (sl R)) : list (sl R) :=
  match la, lb with
  | (ka, A) :: ta, (kb, B) :: tb => ((ka * kb)%nat, kron rb kb A B) :: kronL kb ta tb
  | _, _ => []
  end.

(* pointwise equality of chains on their index boxes *)
Fixpoint meq (r : nat) (l l' : list (sl R)) : Prop :=
  match l, l' with
  | [], [] => True
  | (k, A) :: t, (k', B) :: t' =>
      k = k' /\ (forall i j, (i < r)%nat -> (j < k)%nat -> A i j = B i j) /\ meq k t t'
  | _, _ => False
  end.

(* family of chains indexed by a multi-index: element k is (cols, fun j => matrix) *)
Definition fsl := (nat * nat * (nat -> nat -> nat -> R))%type.
Fixpoint pick (fs : list fsl) (js : list nat) : list (sl R) :=
  match fs, js with
  | (k, _, F) :: t, j :: js' => (k, F j) :: pick t js'
  | _, _ => []
  end.
Definition summed (fs : list fsl) : list (sl R) :=
  map (fun x : fsl => let '(k, n, F) := x in (k, fun a b => sum_n n (fun j => F j a b))) fs.
Definition counts (fs : list fsl) : list nat := map (fun x : fsl => snd (fst x)) fs.

Definition conjL (l : list (sl R)) : list (sl R) := map (fun x : sl R => (fst x, fun a b => rconj (snd x a b))) l.

End MatDefs.

Section MatLemmas.
Context {R : Type} {RO : RingOps R} {RL : RingLaws R}.
Add Ring Rr2 : Rth.
Open Scope R_scope.

Lemma mmul_ext k A A' B B' i j :
  (forall l, (l < k)%nat -> A i l = A' i l) -> (forall l, (l < k)%nat -> B l j = B' l j) ->
  mmul k A B i j = mmul k A' B' i j.
Proof. intros H1 H2. unfold mmul. apply sum_n_ext. intros l Hl. rewrite H1, H2; auto. Qed.

Lemma mmul_assoc k l A B C i j :
  mmul l (mmul k A B) C i j = mmul k A (mmul l B C) i j.
Proof.
  unfold mmul.
  erewrite sum_n_ext. 2:{ intros x _. rewrite <- sum_n_scal_r. reflexivity. }
  rewrite sum_n_swap. apply sum_n_ext. intros x _.
  rewrite <- sum_n_scal_l. apply sum_n_ext. intros y _. ring.
Qed.

Lemma mmul_Id_r k A i j : (j < k)%nat -> mmul k A Id i j = A i j.
Proof. intros H. unfold mmul, Id. apply (sum_n_delta_r k j (fun l => A i l)); assumption. Qed.

Lemma mmul_Id_l k B i j : (i < k)%nat -> mmul k Id B i j = B i j.
Proof. intros H. unfold mmul, Id. apply (sum_n_delta_l k i (fun l => B l j)); assumption. Qed.

Lemma chainM_ext l : forall l' r i j, meq r l l' -> (i < r)%nat -> chainM l i j = chainM l' i j.
Proof.
  induction l as [|[k A] t IH]; intros [|[k' B] t'] r i j H Hi; simpl in H; try contradiction.
  - reflexivity.
  - destruct H as [<- [HA Ht]]. simpl. apply mmul_ext.
    + intros l Hl. apply HA; assumption.
    + intros l Hl. apply (IH t' k); assumption.
Qed.

Lemma meq_refl (l : list (sl R)) : forall r, meq r l l.
Proof. induction l as [|[k A] t IH]; intros r; simpl; auto. Qed.

Lemma chainM_app l1 : forall l2 r i j, (i < r)%nat ->
  chainM (l1 ++ l2) i j = mmul (lastk r l1) (chainM l1) (chainM l2) i j.
Proof.
  induction l1 as [|[k A] t IH]; intros l2 r i j Hi; simpl.
  - rewrite mmul_Id_l by assumption. reflexivity.
  - rewrite mmul_assoc. apply mmul_ext; [reflexivity|].
    intros l Hl. apply IH. assumption.
Qed.

Lemma chainM_single k A i j : (j < k)%nat -> chainM [(k, A)] i j = A i j.
Proof. intros H. simpl. apply mmul_Id_r; assumption. Qed.

(* ---- block diagonal ---- *)
Lemma dsumL_chain la : forall lb ra rb i j, length la = length lb ->
  (i < ra + rb)%nat ->
  chainM (dsumL ra la lb) i j =
    osum ra (lastk ra la) ra (lastk ra la) (chainM la) (chainM lb) i j.
Proof.
  induction la as [|[ka A] ta IH]; intros [|[kb B] tb] ra rb i j Hl Hi; simpl in Hl; try discriminate.
  - simpl. unfold osum, Id, delta.
    destruct (Nat.ltb_spec i ra), (Nat.ltb_spec j ra), (Nat.leb_spec ra i), (Nat.leb_spec ra j);
      try lia; cbn [andb]; destruct (Nat.eqb_spec i j); destruct (Nat.eqb_spec (i - ra) (j - ra));
      try lia; ring.
  - cbn [dsumL chainM lastk]. unfold mmul.
    rewrite (sum_n_ext _ _ (fun l => osum ra ka ra ka A B i l *
               osum ka (lastk ka ta) ka (lastk ka ta) (chainM ta) (chainM tb) l j)).
    2:{ intros l Hl'. f_equal. apply (IH tb ka kb); [lia|assumption]. }
    rewrite sum_n_app. unfold osum.
    destruct (Nat.ltb_spec i ra) as [Hi1|Hi1]; destruct (Nat.leb_spec ra i) as [Hi2|Hi2]; try lia; cbn [andb].
    + (* upper block *)
      rewrite (sum_n_zero' kb).
      2:{ intros l Hl'. destruct (Nat.ltb_spec (ka + l) ka); try lia. cbn [andb]. ring. }
      destruct (Nat.ltb_spec j (lastk ka ta)) as [Hj|Hj]; destruct (Nat.leb_spec (lastk ka ta) j) as [Hj2|Hj2]; try lia; cbn [andb].
      * rewrite (sum_n_ext ka _ (fun l => A i l * chainM ta l j)); [ring|].
        intros l Hl'. destruct (Nat.ltb_spec l ka); try lia. destruct (Nat.leb_spec ka l); try lia. cbn [andb]. ring.
      * rewrite (sum_n_zero' ka); [ring|].
        intros l Hl'. destruct (Nat.ltb_spec l ka); try lia. destruct (Nat.leb_spec ka l); try lia. cbn [andb]. ring.
    + (* lower block *)
      rewrite (sum_n_zero' ka).
      2:{ intros l Hl'. destruct (Nat.leb_spec ka l); try lia. ring. }
      destruct (Nat.ltb_spec j (lastk ka ta)) as [Hj|Hj]; destruct (Nat.leb_spec (lastk ka ta) j) as [Hj2|Hj2]; try lia; cbn [andb].
      * rewrite (sum_n_zero' kb); [ring|].
        intros l Hl'. destruct (Nat.ltb_spec (ka + l) ka); try lia. destruct (Nat.leb_spec ka (ka + l)); try lia. cbn [andb]. ring.
      * rewrite (sum_n_ext kb _ (fun l => B (i - ra)%nat l * chainM tb l (j - lastk ka ta)%nat)); [ring|].
        intros l Hl'. destruct (Nat.ltb_spec (ka + l) ka); try lia. destruct (Nat.leb_spec ka (ka + l)); try lia. cbn [andb].
        replace (ka + l - ka)%nat with l by lia. ring.
Qed.

(* ---- Kronecker ---- *)
Lemma kron_mmul a2 b1 b2 b3 A A' B B' i j :
  mmul (a2 * b2) (kron b1 b2 A B) (kron b2 b3 A' B') i j
  = kron b1 b3 (mmul a2 A A') (mmul b2 B B') i j.
Proof.
  destruct b2 as [|b2'].
  - rewrite Nat.mul_0_r. unfold mmul, kron. simpl. ring.
  - set (b2 := S b2'). assert (Hb : (0 < b2)%nat) by (unfold b2; lia). clearbody b2.
    unfold mmul, kron. rewrite sum_n_prod.
    rewrite <- sum_n_scal_r. apply sum_n_ext. intros x _.
    rewrite <- sum_n_scal_l. apply sum_n_ext. intros y Hy.
    replace ((x * b2 + y) / b2)%nat with x.
    2:{ rewrite Nat.div_add_l by lia. rewrite Nat.div_small by lia. lia. }
    replace ((x * b2 + y) mod b2)%nat with y.
    2:{ rewrite Nat.add_comm, Nat.mod_add by lia. rewrite Nat.mod_small; lia. }
    ring.
Qed.

Lemma kron_Id rb i j : (0 < rb)%nat -> kron rb rb Id Id i j = Id i j.
Proof.
  intros H. unfold kron, Id, delta.
  destruct (Nat.eqb_spec i j) as [->|Hne].
  - rewrite !Nat.eqb_refl. ring.
  - destruct (Nat.eqb_spec (i / rb) (j / rb)) as [E1|E1]; [|ring].
    destruct (Nat.eqb_spec (i mod rb) (j mod rb)) as [E2|E2]; [|ring].
    exfalso. apply Hne.
    rewrite (Nat.div_mod i rb) by lia. rewrite (Nat.div_mod j rb) by lia. rewrite E1, E2. reflexivity.
Qed.

Lemma kronL_chain la : forall lb rb i j, length la = length lb -> (0 < rb)%nat ->
  chainM (kronL rb la lb) i j = kron rb (lastk rb lb) (chainM la) (chainM lb) i j.
Proof.
  induction la as [|[ka A] ta IH]; intros [|[kb B] tb] rb i j Hl Hr; simpl in Hl; try discriminate.
  - simpl. rewrite kron_Id by assumption. reflexivity.
  - cbn [kronL chainM lastk].
    destruct kb as [|kb'].
    + rewrite Nat.mul_0_r. unfold mmul, kron. simpl. ring.
    + rewrite <- kron_mmul. apply mmul_ext; [reflexivity|].
      intros l _. apply (IH tb); [lia|lia].
Qed.

(* ---- pushing sums through a chain ---- *)
Lemma chainM_sum_push fs : forall i j,
  chainM (summed fs) i j = sum_idx (counts fs) (fun js => chainM (pick fs js) i j).
Proof.
  induction fs as [|[[k n] F] t IH]; intros i j; simpl.
  - reflexivity.
  - unfold mmul.
    rewrite (sum_n_ext k _ (fun l => sum_n n (fun jj => F jj i l * sum_idx (counts t) (fun js => chainM (pick t js) l j)))).
    2:{ intros l _. rewrite IH. rewrite sum_n_scal_r. reflexivity. }
    rewrite sum_n_swap. apply sum_n_ext. intros jj _.
    cbn [pick chainM]. unfold mmul.
    rewrite (sum_idx_sum_n_swap (counts t) k (fun l js => F jj i l * chainM (pick t js) l j)).
    apply sum_n_ext. intros l _. rewrite sum_idx_scal_l. reflexivity.
Qed.

(* ---- scaling one element ---- *)
Lemma chainM_scale_head c k A t i j :
  chainM ((k, fun a b => c * A a b) :: t) i j = c * chainM ((k, A) :: t) i j.
Proof.
  simpl. unfold mmul. rewrite <- sum_n_scal_l. apply sum_n_ext. intros l _. ring.
Qed.

(* ---- conjugation ---- *)
Lemma chainM_conj l : forall i j, chainM (conjL l) i j = rconj (chainM l i j).
Proof.
  induction l as [|[k A] t IH]; intros i j; simpl.
  - unfold Id, delta. destruct (Nat.eqb i j); [rewrite conj_1|rewrite conj_0]; reflexivity.
  - unfold mmul. rewrite sum_n_conj. apply sum_n_ext. intros l _. rewrite conj_mul, IH. reflexivity.
Qed.

End MatLemmas.
