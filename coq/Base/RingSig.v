(* Ring signature used by every model file: operations as a class (plain record),
   laws as a second class.  No axioms: instances are supplied for Z, Z[i], Qc, dual numbers. *)
From Coq Require Import Ring ZArith.

Class RingOps (R : Type) := {
  rO : R; rI : R;
  radd : R -> R -> R; rmul : R -> R -> R; rsub : R -> R -> R; ropp : R -> R;
  rconj : R -> R;
  reqb : R -> R -> bool
}.

Declare Scope R_scope.
Delimit Scope R_scope with R.
Notation "0" := rO : R_scope.
Notation "1" := rI : R_scope.
Infix "+" := radd : R_scope.
Infix "*" := rmul : R_scope.
Infix "-" := rsub : R_scope.
Notation "- x" := (ropp x) : R_scope.

Class RingLaws (R : Type) {RO : RingOps R} := {
  Rth : ring_theory rO rI radd rmul rsub ropp (@eq R);
  conj_add : forall a b, rconj (radd a b) = radd (rconj a) (rconj b);
  conj_mul : forall a b, rconj (rmul a b) = rmul (rconj a) (rconj b);
  conj_inv : forall a, rconj (rconj a) = a;
  conj_0 : rconj rO = rO;
  conj_1 : rconj rI = rI;
  reqb_eq : forall a b, reqb a b = true <-> a = b
}.
