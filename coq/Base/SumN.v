(* Finite sums over nat ranges and over multi-index boxes, in an arbitrary commutative ring. *)
From Coq Require Import List Arith Lia Ring Bool.
From TT Require Import RingSig.
Import ListNotations.

Section SumDefs.
Context {R : Type} {RO : RingOps R}.
Open Scope R_scope.

Fixpoint sum_n (n : nat) (f : nat -> R) : R :=
  match n with O => 0 | S k => sum_n k f + f k end.

(* sum over the box [0,n1) x ... x [0,nd), row-major *)
Fixpoint sum_idx (ns : list nat) (f : list nat -> R) : R :=
  match ns with
  | [] => f []
  | n :: t => sum_n n (fun j => sum_idx t (fun js => f (j :: js)))
  end.

Definition delta (i j : nat) : R := if Nat.eqb i j then 1 else 0.
End SumDefs.

Section SumLemmas.
Context {R : Type} {RO : RingOps R} {RL : RingLaws R}.
Add Ring Rr : Rth.
Open Scope R_scope.

Lemma sum_n_ext n f g : (forall i, (i < n)%nat -> f i = g i) -> sum_n n f = sum_n n g.
Proof. induction n; simpl; intros H; [reflexivity|]. rewrite IHn, H; auto. Qed.

Lemma sum_n_zero n : sum_n n (fun _ => 0) = 0.
Proof. induction n; simpl; [reflexivity|]. rewrite IHn. ring. Qed.

Lemma sum_n_zero' n f : (forall i, (i < n)%nat -> f i = 0) -> sum_n n f = 0.
Proof. intros H. rewrite (sum_n_ext n f (fun _ => 0)) by exact H. apply sum_n_zero. Qed.

Lemma sum_n_add n f g : sum_n n (fun i => f i + g i) = sum_n n f + sum_n n g.
Proof. induction n; simpl; [ring|]. rewrite IHn. ring. Qed.

Lemma sum_n_sub n f g : sum_n n (fun i => f i - g i) = sum_n n f - sum_n n g.
Proof. induction n; simpl; [ring|]. rewrite IHn. ring. Qed.

Lemma sum_n_opp n f : sum_n n (fun i => - f i) = - sum_n n f.
Proof. induction n; simpl; [ring|]. rewrite IHn. ring. Qed.

Lemma sum_n_scal_l n c f : sum_n n (fun i => c * f i) = c * sum_n n f.
Proof. induction n; simpl; [ring|]. rewrite IHn. ring. Qed.

Lemma sum_n_scal_r n c f : sum_n n (fun i => f i * c) = sum_n n f * c.
Proof. induction n; simpl; [ring|]. rewrite IHn. ring. Qed.

Lemma sum_n_swap m n (f : nat -> nat -> R) :
  sum_n m (fun i => sum_n n (fun j => f i j)) = sum_n n (fun j => sum_n m (fun i => f i j)).
Proof.
  induction m; simpl.
  - rewrite sum_n_zero. reflexivity.
  - rewrite IHm. rewrite <- sum_n_add. reflexivity.
Qed.

Lemma sum_n_app m n f : sum_n (m + n) f = sum_n m f + sum_n n (fun j => f (m + j)%nat).
Proof.
  induction n; simpl.
  - rewrite Nat.add_0_r. ring.
  - rewrite Nat.add_succ_r. simpl. rewrite IHn. ring.
Qed.

Lemma sum_n_1 f : sum_n 1 f = f O.
Proof. simpl. ring. Qed.

Lemma sum_n_prod a b f :
  sum_n (a * b) f = sum_n a (fun i => sum_n b (fun j => f (i * b + j)%nat)).
Proof.
  induction a; simpl; [reflexivity|].
  rewrite Nat.add_comm, sum_n_app, IHa. reflexivity.
Qed.

Lemma sum_n_if_lt n a f g : (a <= n)%nat ->
  sum_n n (fun l => if (l <? a)%nat then f l else g l)
  = sum_n a f + sum_n (n - a) (fun l => g (a + l)%nat).
Proof.
  intros H. replace n with (a + (n - a))%nat at 1 by lia. rewrite sum_n_app. f_equal.
  - apply sum_n_ext. intros i Hi. apply Nat.ltb_lt in Hi. rewrite Hi. reflexivity.
  - apply sum_n_ext. intros i Hi.
    assert (E : (a + i <? a)%nat = false) by (apply Nat.ltb_ge; lia). rewrite E. reflexivity.
Qed.

(* Kronecker delta picks one term *)
Lemma sum_n_delta_l n i f : (i < n)%nat -> sum_n n (fun l => delta i l * f l) = f i.
Proof.
  unfold delta. induction n; intros H; [lia|]. simpl.
  destruct (Nat.eq_dec i n) as [->|Hne].
  - rewrite Nat.eqb_refl. rewrite sum_n_zero'; [ring|].
    intros j Hj. assert (E : Nat.eqb n j = false) by (apply Nat.eqb_neq; lia). rewrite E. ring.
  - assert (E : Nat.eqb i n = false) by (apply Nat.eqb_neq; lia). rewrite E.
    rewrite IHn by lia. ring.
Qed.

Lemma sum_n_delta_r n i f : (i < n)%nat -> sum_n n (fun l => f l * delta l i) = f i.
Proof.
  intros H. rewrite (sum_n_ext n _ (fun l => delta i l * f l)).
  - apply sum_n_delta_l; assumption.
  - intros l _. unfold delta. rewrite (Nat.eqb_sym l i). ring.
Qed.

Lemma sum_n_delta_out n i f : (n <= i)%nat -> sum_n n (fun l => delta i l * f l) = 0.
Proof.
  intros H. apply sum_n_zero'. intros l Hl. unfold delta.
  assert (E : Nat.eqb i l = false) by (apply Nat.eqb_neq; lia). rewrite E. ring.
Qed.

Lemma sum_n_conj n f : rconj (sum_n n f) = sum_n n (fun i => rconj (f i)).
Proof. induction n; simpl; [apply conj_0|]. rewrite conj_add, IHn. reflexivity. Qed.

(* multi-index sums *)
Lemma sum_idx_ext ns : forall f g,
  (forall js, length js = length ns -> Forall2 lt js ns -> f js = g js) -> sum_idx ns f = sum_idx ns g.
Proof.
  induction ns as [|n t IH]; intros f g H; simpl.
  - apply H; constructor.
  - apply sum_n_ext. intros j Hj. apply IH. intros js Hl HF. apply H; simpl; auto.
Qed.

Lemma sum_idx_zero ns : sum_idx ns (fun _ => 0) = 0.
Proof. induction ns; simpl; [reflexivity|]. apply sum_n_zero'. intros; apply IHns. Qed.

Lemma sum_idx_add ns : forall f g, sum_idx ns (fun js => f js + g js) = sum_idx ns f + sum_idx ns g.
Proof.
  induction ns as [|n t IH]; intros f g; simpl; [reflexivity|].
  rewrite <- sum_n_add. apply sum_n_ext. intros j _. apply IH.
Qed.

Lemma sum_idx_scal_l ns : forall c f, sum_idx ns (fun js => c * f js) = c * sum_idx ns f.
Proof.
  induction ns as [|n t IH]; intros c f; simpl; [reflexivity|].
  rewrite <- sum_n_scal_l. apply sum_n_ext. intros j _. apply IH.
Qed.

Lemma sum_idx_scal_r ns : forall c f, sum_idx ns (fun js => f js * c) = sum_idx ns f * c.
Proof.
  induction ns as [|n t IH]; intros c f; simpl; [reflexivity|].
  rewrite <- sum_n_scal_r. apply sum_n_ext. intros j _. apply IH.
Qed.

Lemma sum_idx_sum_n_swap ns : forall k (f : nat -> list nat -> R),
  sum_idx ns (fun js => sum_n k (fun l => f l js)) = sum_n k (fun l => sum_idx ns (f l)).
Proof.
  induction ns as [|n t IH]; intros k f; simpl; [reflexivity|].
  rewrite sum_n_swap. apply sum_n_ext. intros j _.
  rewrite <- IH. reflexivity.
Qed.

Lemma sum_idx_app ms : forall ns f,
  sum_idx (ms ++ ns) f = sum_idx ms (fun is_ => sum_idx ns (fun js => f (is_ ++ js))).
Proof.
  induction ms as [|m t IH]; intros ns f; simpl; [reflexivity|].
  apply sum_n_ext. intros j _. rewrite IH. reflexivity.
Qed.

Lemma sum_idx_conj ns : forall f, rconj (sum_idx ns f) = sum_idx ns (fun js => rconj (f js)).
Proof.
  induction ns as [|n t IH]; intros f; simpl; [reflexivity|].
  rewrite sum_n_conj. apply sum_n_ext. intros j _. apply IH.
Qed.

End SumLemmas.
