(* Meaning of the numpy idioms that the translator of torchtt/_decomposition.py:rank_chop (harness/translate.py) emits, on the SQUARED singular values
   q_i = |s_i|^2 (np.abs(s)**2), thr2 = eps**2 and pos = (eps > 0):  cumsum, [::-1], argmax of a boolean vector, x[-1], x.size. *)
From Coq Require Import List Arith Bool.
From TT Require Import OrdRing RankChop.
Import ListNotations.
Section Prims.
Context {T : Type} {OO : OrdOps T}.
Fixpoint cumsum_from (acc : T) (l : list T) : list T := match l with [] => [] | x :: t => oadd acc x :: cumsum_from (oadd acc x) t end.
Definition np_cumsum (l : list T) : list T := cumsum_from oz l.
Definition np_rev (l : list T) : list T := rev l.
Fixpoint np_argmax (b : list bool) : nat := match b with [] => O | true :: _ => O | false :: t => match np_argmax t with O => if existsb (fun x => x) t then 1 else O | S k => S (S k) end end.
Definition np_last (l : list T) : T := last l oz.
Definition np_lt_vec (l : list T) (c : T) : list bool := map (fun v => oltb v c) l.
(* np.max(np.abs(s)) == 0.0 *)
Definition np_all_zero (l : list T) : bool := forallb (fun v => oleb v oz) l.
End Prims.
