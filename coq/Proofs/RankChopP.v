(* Proofs for Model/RankChop.v: the rank selected by rank_chop discards at most the allowed energy (ties included),
   never more singular values than necessary, and the per-bond allowances of the TT-SVD sweep add up to eps^2 ||A||^2.
   Everything holds in any ordered commutative semiring (OrdLaws): Z, Q, R. *)
From Coq Require Import List Arith Lia Bool ZArith.
From TT Require Import OrdRing RankChop.
Import ListNotations.

Section RankChopP.
Context {T : Type} {OO : OrdOps T} {OL : OrdLaws T}.

Definition nn (l : list T) : Prop := Forall (ole oz) l.
Lemma Forall2_refl_le (l : list nat) : Forall2 le l l.
Proof. induction l; constructor; auto. Qed.

Lemma oadd_0_r a : oadd a oz = a. Proof. rewrite oadd_comm. apply oadd_0_l. Qed.
Lemma omul_0_r a : omul a oz = oz. Proof. rewrite omul_comm. apply omul_0_l. Qed.
Lemma oadd_mono2 a b c d : ole a b -> ole c d -> ole (oadd a c) (oadd b d).
Proof.
  intros H1 H2. apply (ole_trans _ (oadd a d)); [apply oadd_mono; assumption|].
  rewrite (oadd_comm a d), (oadd_comm b d). apply oadd_mono; assumption.
Qed.
Lemma oadd_nn a b : ole oz a -> ole oz b -> ole oz (oadd a b).
Proof. intros Ha Hb. rewrite <- (oadd_0_l oz). apply oadd_mono2; assumption. Qed.
Lemma ole_add_r a b : ole oz b -> ole a (oadd b a).
Proof. intros Hb. rewrite <- (oadd_0_l a) at 1. rewrite (oadd_comm oz a), (oadd_comm b a). apply oadd_mono. assumption. Qed.
Lemma omul_nn a b : ole oz a -> ole oz b -> ole oz (omul a b).
Proof. intros Ha Hb. rewrite <- (omul_0_r a). apply omul_mono; assumption. Qed.
Lemma ofnat_nn n : ole oz (ofnat n).
Proof. induction n; simpl; [apply ole_refl|]. apply oadd_nn; [apply ole_0_1|assumption]. Qed.
Lemma oltb_false a b : oltb a b = false <-> ole b a.
Proof. unfold oltb, ole. destruct (oleb b a); simpl; split; congruence. Qed.
Lemma oltb_true_le a b : oltb a b = true -> ole a b.
Proof. unfold oltb. intros H. destruct (ole_total a b) as [H1|H1]; [assumption|]. unfold ole in H1. rewrite H1 in H. discriminate. Qed.

Lemma sumT_nn l : nn l -> ole oz (sumT l).
Proof. induction 1; simpl; [apply ole_refl|]. apply oadd_nn; assumption. Qed.
Lemma nn_skipn l : forall k, nn l -> nn (skipn k l).
Proof. induction l; intros [|k] H; simpl; auto. inversion H; subst. apply IHl. assumption. Qed.
Lemma skip_mono l : forall k, nn l -> ole (sumT (skipn (S k) l)) (sumT (skipn k l)).
Proof.
  induction l as [|x t IH]; intros k H; [destruct k; apply ole_refl|].
  inversion H; subst. destruct k as [|k].
  - simpl. apply ole_add_r. assumption.
  - apply (IH k). assumption.
Qed.
Lemma skip_le_total l : forall k, nn l -> ole (sumT (skipn k l)) (sumT l).
Proof.
  intros k H. induction k; [apply ole_refl|]. eapply ole_trans; [apply skip_mono; assumption|assumption].
Qed.
Lemma kept_le l : forall r, nn l -> ole (kept l r) (sumT l).
Proof.
  induction l as [|x t IH]; intros [|r] H; unfold kept; simpl; try apply ole_refl.
  - apply (sumT_nn (x :: t)). assumption.
  - inversion H; subst. apply oadd_mono. apply IH. assumption.
Qed.
Lemma tails_length (l : list T) : length (tails l) = length l.
Proof. induction l; simpl; auto. Qed.
Lemma tails_nth l : forall k d, (k < length l)%nat -> nth k (tails l) d = sumT (skipn k l).
Proof. induction l as [|x t IH]; intros [|k] d H; simpl in *; try lia; auto. apply IH. lia. Qed.
Lemma last_nth_own (m : list T) : forall d, last m d = nth (length m - 1) m d.
Proof.
  induction m as [|a m IH]; intros d; [reflexivity|].
  destruct m as [|b m']; [reflexivity|].
  change (last (a :: b :: m') d) with (last (b :: m') d). rewrite IH. simpl. rewrite Nat.sub_0_r. reflexivity.
Qed.
Lemma tails_last l d : l <> [] -> last (tails l) d = sumT (skipn (length l - 1) l).
Proof.
  intros H. rewrite last_nth_own, tails_length. apply tails_nth. destruct l; [congruence|simpl; lia].
Qed.

Lemma find_first_some p (l : list T) : forall k d, find_first p l = Some k ->
  (k < length l)%nat /\ p (nth k l d) = true /\ forall j, (j < k)%nat -> p (nth j l d) = false.
Proof.
  induction l as [|x t IH]; intros k d H; simpl in H; [discriminate|].
  destruct (p x) eqn:E.
  - inversion H; subst. simpl. repeat split; auto; try lia.
  - destruct (find_first p t) as [k'|] eqn:F; [|discriminate]. inversion H; subst.
    destruct (IH k' d eq_refl) as [H1 [H2 H3]]. simpl. repeat split; auto; try lia.
    intros [|j] Hj; [assumption|apply H3; lia].
Qed.
Lemma find_first_none p (l : list T) : forall d, find_first p l = None -> forall j, (j < length l)%nat -> p (nth j l d) = false.
Proof.
  induction l as [|x t IH]; intros d H j Hj; simpl in *; [lia|].
  destruct (p x) eqn:E; [discriminate|]. destruct (find_first p t) eqn:F; [discriminate|].
  destruct j; [assumption|apply IH; auto; lia].
Qed.

(* ---- rank_chop ---- *)
Theorem rank_chop_range q pos thr2 : q <> [] -> (1 <= rank_chop q pos thr2 <= length q)%nat.
Proof.
  intros Hq. assert (Hl : (1 <= length q)%nat) by (destruct q; [congruence|simpl; lia]).
  unfold rank_chop. destruct (oleb (sumT q) oz); [lia|]. destruct (negb pos); [lia|].
  destruct (oleb thr2 (last (tails q) oz)); [lia|].
  destruct (find_first (fun v => oltb v thr2) (tails q)) as [k|] eqn:F; [|simpl; lia].
  destruct (find_first_some _ _ _ oz F) as [H1 _]. rewrite tails_length in H1.
  destruct (Nat.eqb_spec k 0); lia.
Qed.

(* the discarded energy never exceeds the threshold - ties included *)
Theorem rank_chop_tail q pos thr2 : q <> [] -> nn q -> ole oz thr2 ->
  ole (discarded q (rank_chop q pos thr2)) thr2.
Proof.
  intros Hq Hn Ht. unfold rank_chop, discarded.
  destruct (oleb (sumT q) oz) eqn:Ez.
  - eapply ole_trans; [apply skip_le_total; assumption|]. eapply ole_trans; [exact Ez|exact Ht].
  - destruct (negb pos).
    + rewrite skipn_all. exact Ht.
    + destruct (oleb thr2 (last (tails q) oz)) eqn:El.
      * rewrite skipn_all. exact Ht.
      * destruct (find_first (fun v => oltb v thr2) (tails q)) as [k|] eqn:F.
        -- destruct (find_first_some _ _ _ oz F) as [H1 [H2 _]]. rewrite tails_length in H1.
           rewrite tails_nth in H2 by assumption. apply oltb_true_le in H2.
           destruct (Nat.eqb_spec k 0) as [->|Hk]; [|assumption].
           eapply ole_trans; [apply skip_mono; assumption|assumption].
        -- exfalso. pose proof (find_first_none _ _ oz F (length q - 1)) as H.
           rewrite tails_length in H. specialize (H ltac:(destruct q; [congruence|simpl; lia])).
           rewrite tails_nth in H by (destruct q; [congruence|simpl; lia]).
           apply oltb_false in H. rewrite tails_last in El by assumption. unfold ole in H. congruence.
Qed.

(* no singular value is discarded without need: one rank less would exceed (or meet) the threshold *)
Theorem rank_chop_minimal q thr2 : q <> [] -> oleb (sumT q) oz = false ->
  let r := rank_chop q true thr2 in r = 1%nat \/ ole thr2 (discarded q (r - 1)).
Proof.
  intros Hq Ez. cbn zeta. unfold rank_chop, discarded. rewrite Ez. cbn [negb].
  destruct (oleb thr2 (last (tails q) oz)) eqn:El.
  - right. rewrite tails_last in El by assumption. exact El.
  - destruct (find_first (fun v => oltb v thr2) (tails q)) as [k|] eqn:F; [|left; reflexivity].
    destruct (find_first_some _ _ _ oz F) as [H1 [_ H3]]. rewrite tails_length in H1.
    destruct (Nat.eqb_spec k 0) as [->|Hk]; [left; reflexivity|].
    right. specialize (H3 (k - 1)%nat ltac:(lia)). rewrite tails_nth in H3 by lia.
    apply oltb_false in H3. exact H3.
Qed.

(* zero vector: rank 1 (the zero-norm branch) *)
Theorem rank_chop_zero q pos thr2 : ole (sumT q) oz -> rank_chop q pos thr2 = 1%nat.
Proof. intros H. unfold rank_chop. rewrite H. reflexivity. Qed.

(* ---- the sweep: per-bond allowance and total budget ---- *)
Lemma sumT_scale c l : sumT (map (omul c) l) = omul c (sumT l).
Proof. induction l; simpl; [rewrite omul_0_r; reflexivity|]. rewrite IHl, omul_add_distr_l. reflexivity. Qed.
Lemma nn_scale c l : ole oz c -> nn l -> nn (map (omul c) l).
Proof. intros Hc H. induction H; simpl; constructor; auto. apply omul_nn; assumption. Qed.
Lemma discarded_scale c l r : discarded (map (omul c) l) r = omul c (discarded l r).
Proof. unfold discarded. rewrite skipn_map. apply sumT_scale. Qed.

(* one bond: (d-1) * discarded <= eps^2 * ||remainder||^2, i.e. discarded <= (eps/sqrt(d-1))^2 ||remainder||^2 *)
Theorem bond_allowance dm1 q pos eps2 : q <> [] -> nn q -> ole oz eps2 ->
  let r := rank_chop (map (omul (ofnat dm1)) q) pos (omul eps2 (sumT q)) in
  ole (omul (ofnat dm1) (discarded q r)) (omul eps2 (sumT q)).
Proof.
  intros Hq Hn He. cbn zeta. rewrite <- discarded_scale. apply rank_chop_tail.
  - destruct q; [congruence|discriminate].
  - apply nn_scale; [apply ofnat_nn|assumption].
  - apply omul_nn; [assumption|apply sumT_nn; assumption].
Qed.

Lemma ofnat_S_mul n x : omul (ofnat (S n)) x = oadd x (omul (ofnat n) x).
Proof. simpl. rewrite (omul_comm (oadd oone (ofnat n)) x), omul_add_distr_l, (omul_comm x oone), omul_1_l, (omul_comm x). reflexivity. Qed.

Definition unbounded_ranks dm1 pos eps2 (qs : list (list T)) (rs : list nat) : Prop :=
  Forall2 (fun q r => r = rank_chop (map (omul (ofnat dm1)) q) pos (omul eps2 (sumT q))) qs rs.

(* the whole sweep: with every bond inside its allowance and the remainder norms given by the kept energies,
   (d-1) * (total discarded energy) <= (#bonds) * eps^2 * ||A||^2;  for #bonds = d-1 this is  total <= eps^2 ||A||^2 *)
Theorem sweep_budget dm1 pos eps2 (qs : list (list T)) : forall rs q1 qt, qs = q1 :: qt ->
  Forall (fun q => q <> [] /\ nn q) qs -> ole oz eps2 ->
  unbounded_ranks dm1 pos eps2 qs rs -> energy_chain qs rs ->
  ole (omul (ofnat dm1) (sweep_discarded qs rs)) (omul (ofnat (length qs)) (omul eps2 (sumT q1))).
Proof.
  induction qs as [|q qs' IH]; intros rs q1 qt E HF He HU HE; [discriminate|].
  inversion E; subst q1 qt; clear E. inversion HU as [|? r ? rt Hr HU']; subst.
  inversion HF as [|? ? [Hq Hn] HF']; subst.
  cbn [sweep_discarded length]. rewrite omul_add_distr_l, ofnat_S_mul.
  apply oadd_mono2.
  - apply bond_allowance; assumption.
  - destruct qs' as [|q2 qs2].
    + inversion HU'; subst. cbn [sweep_discarded length ofnat]. rewrite omul_0_r, omul_0_l. apply ole_refl.
    + cbn [energy_chain] in HE. destruct HE as [HE1 HE2].
      eapply ole_trans; [apply (IH rt q2 qs2 eq_refl); assumption|].
      apply omul_mono; [apply ofnat_nn|]. apply omul_mono; [assumption|].
      rewrite HE1. apply kept_le. assumption.
Qed.

(* ---- rounding never raises a rank ---- *)
Lemma qr_ranks_le ns : forall r rs, Forall2 le (qr_ranks r ns rs) rs.
Proof.
  induction ns as [|n nt IH]; intros r rs.
  - destruct rs; simpl; [constructor|]. apply Forall2_refl_le.
  - destruct nt as [|n2 nt'].
    + simpl. destruct rs; apply Forall2_refl_le.
    + destruct rs as [|r1 rt]; [constructor|].
      change (qr_ranks r (n :: n2 :: nt') (r1 :: rt)) with (Nat.min (r * n) r1 :: qr_ranks (Nat.min (r * n) r1) (n2 :: nt') rt).
      constructor; [lia|apply IH].
Qed.
Theorem bond_rank_le dm1 (q : list T) pos eps2 rmax : q <> [] ->
  (1 <= bond_rank dm1 q pos eps2 rmax \/ rmax = 0)%nat /\ (bond_rank dm1 q pos eps2 rmax <= length q)%nat
  /\ (bond_rank dm1 q pos eps2 rmax <= rmax)%nat.
Proof.
  intros Hq. unfold bond_rank.
  pose proof (rank_chop_range (map (omul (ofnat dm1)) q) pos (omul eps2 (sumT q))) as H.
  rewrite map_length in H. specialize (H ltac:(destruct q; [congruence|discriminate])). lia.
Qed.

(* ---- the rank decision is invariant under a common positive rescaling of the squared singular values and of the squared threshold:
   rank_chop works relative to the largest singular value (s / smax, eps / smax), which changes nothing in exact arithmetic ---- *)
Lemma oleb_scale (c a b : T) : oltb oz c = true -> oleb (omul c a) (omul c b) = oleb a b.
Proof.
  intros Hc. destruct (oleb a b) eqn:E.
  - apply omul_mono; [|exact E]. unfold oltb in Hc. apply negb_true_iff in Hc.
    destruct (ole_total oz c) as [H|H]; [exact H|]. unfold ole in H. congruence.
  - assert (Hlt : oltb b a = true) by (unfold oltb; rewrite E; reflexivity).
    pose proof (omul_lt_mono c b a Hc Hlt) as H. unfold oltb in H. apply negb_true_iff in H. exact H.
Qed.
Lemma oltb_scale (c a b : T) : oltb oz c = true -> oltb (omul c a) (omul c b) = oltb a b.
Proof. intros Hc. unfold oltb. rewrite oleb_scale by assumption. reflexivity. Qed.
Lemma tails_scale (c : T) (q : list T) : tails (map (omul c) q) = map (omul c) (tails q).
Proof.
  induction q as [|x t IH]; [reflexivity|].
  change (tails (map (omul c) (x :: t))) with (sumT (map (omul c) (x :: t)) :: tails (map (omul c) t)).
  rewrite sumT_scale, IH. reflexivity.
Qed.
Lemma find_first_map (f : T -> T) (p : T -> bool) (l : list T) : find_first p (map f l) = find_first (fun v => p (f v)) l.
Proof. induction l as [|x t IH]; [reflexivity|]. cbn [map find_first]. rewrite IH. reflexivity. Qed.
Lemma find_first_ext (p p' : T -> bool) (l : list T) : (forall v, p v = p' v) -> find_first p l = find_first p' l.
Proof. intros H. induction l as [|x t IH]; [reflexivity|]. cbn [find_first]. rewrite H, IH. reflexivity. Qed.
Lemma last_map_scale (c : T) (l : list T) : last (map (omul c) l) oz = omul c (last l oz).
Proof.
  induction l as [|x t IH]; [cbn; rewrite omul_0_r; reflexivity|].
  destruct t as [|y t']; [reflexivity|]. exact IH.
Qed.
Theorem rank_chop_scale (c : T) (q : list T) (pos : bool) (thr2 : T) : oltb oz c = true ->
  rank_chop (map (omul c) q) pos (omul c thr2) = rank_chop q pos thr2.
Proof.
  intros Hc. unfold rank_chop.
  pose proof (oleb_scale c (sumT q) oz Hc) as E0. rewrite omul_0_r in E0.
  rewrite sumT_scale, E0.
  rewrite map_length, tails_scale, find_first_map, last_map_scale, oleb_scale by assumption.
  rewrite (find_first_ext (fun v => oltb (omul c v) (omul c thr2)) (fun v => oltb v thr2)) by (intros v; apply oltb_scale; assumption).
  reflexivity.
Qed.
(* max|s| == 0  <=>  the energy is zero, for squares (q_i >= 0) *)
Lemma all_zero_sum (q : list T) : nn q -> forallb (fun v => oleb v oz) q = oleb (sumT q) oz.
Proof.
  induction q as [|x t IH]; intros Hq; [cbn; symmetry; apply ole_refl|].
  inversion Hq as [|? ? Hx Ht]; subst. cbn [forallb sumT]. rewrite (IH Ht).
  assert (Hs : ole oz (sumT t)) by (apply sumT_nn; assumption).
  assert (H0r : forall a, oadd a oz = a) by (intros a; rewrite oadd_comm; apply oadd_0_l).
  destruct (oleb x oz) eqn:Ex; cbn [andb].
  - destruct (oleb (sumT t) oz) eqn:Et.
    + symmetry. pose proof (oadd_mono _ _ x Et) as H1. rewrite H0r in H1. eapply ole_trans; [exact H1|exact Ex].
    + symmetry. apply not_true_is_false. intros H.
      pose proof (ole_add_r (sumT t) x Hx) as H3.
      pose proof (ole_trans _ _ _ H3 H) as H5. unfold ole in H5. congruence.
  - symmetry. apply not_true_is_false. intros H.
    pose proof (ole_add_r x (sumT t) Hs) as H3. rewrite oadd_comm in H3.
    pose proof (ole_trans _ _ _ H3 H) as H5. unfold ole in H5. congruence.
Qed.

End RankChopP.

(* the pinned comparison (sc[-1] > eps**2) violated the bound at a tie: s = [1,1,1,1], eps = 1 *)
Example rank_chop_pinned_tail_refuted :
  exists (q : list Z) thr2, q <> [] /\ Forall (ole oz) q /\ ole oz thr2 /\
    oleb (discarded q (rank_chop_pinned q true thr2)) thr2 = false.
Proof.
  exists [1;1;1;1]%Z, 1%Z. split; [discriminate|]. split; [repeat constructor|]. split; reflexivity.
Qed.
(* non-vacuity: the repaired rule on the same input keeps all four singular values *)
Example rank_chop_tie_example : rank_chop [1;1;1;1]%Z true 1%Z = 4%nat /\ rank_chop [4;1;1;0]%Z true 2%Z = 2%nat.
Proof. split; reflexivity. Qed.
