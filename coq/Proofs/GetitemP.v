(* x[index] for a full tuple of integers (negative allowed) and slices (with steps): the result holds exactly the entries that the
   same index expression selects from the dense array, in the same positions (C08).  None and Ellipsis entries are covered by the
   correspondence run, not by this theorem. *)
From Coq Require Import List Arith Lia Ring Bool ZArith.
From TT Require Import RingSig SumN Mat Dense Core CoreP Arith ArithP MatOps Reduce Struct StructP ReduceDimsP Index.
Import ListNotations.

Section GetitemP.
Context {R : Type} {RO : RingOps R} {RL : RingLaws R}.
Add Ring Rr18 : Rth.
Open Scope R_scope.

Definition is_slice (i : ixitem) : bool := match i with ISlice _ _ _ => true | _ => false end.

(* the per-mode maps of a tuple of ints / slices, when every item is valid for its mode *)
Fixpoint item_fs (ns : list nat) (ix : list ixitem) : option (list modemap) :=
  match ns, ix with
  | [], [] => Some []
  | n :: nt, IInt z :: t =>
      match norm_int n z, item_fs nt t with Some j, Some l => Some ((1%nat, fun _ => Some j) :: l) | _, _ => None end
  | n :: nt, ISlice a b s :: t =>
      match slice_pos n a b s, item_fs nt t with
      | Some (st, sp, len), Some l => Some ((len, fun k => Some (st + k * sp)%nat) :: l)
      | _, _ => None
      end
  | _, _ => None
  end.
Fixpoint slice_positions (i : nat) (ix : list ixitem) : list nat :=
  match ix with [] => [] | it :: t => (if is_slice it then [i] else []) ++ slice_positions (S i) t end.

Lemma item_fs_length ns : forall ix fs, item_fs ns ix = Some fs -> length fs = length ns /\ length ix = length ns.
Proof.
  induction ns as [|n nt IH]; intros [|it t] fs H; simpl in H; try discriminate.
  - inversion H. split; reflexivity.
  - destruct it as [z|a b s| |]; try discriminate.
    + destruct (norm_int n z); [|discriminate]. destruct (item_fs nt t) as [l|] eqn:E; [|discriminate].
      inversion H. destruct (IH t l E). simpl. split; lia.
    + destruct (slice_pos n a b s) as [[[st sp] len]|]; [|discriminate]. destruct (item_fs nt t) as [l|] eqn:E; [|discriminate].
      inversion H. destruct (IH t l E). simpl. split; lia.
Qed.

(* the slicing loop on a tuple of valid ints / slices: the cores are the remapped cores of x, the excluded positions the slices *)
Lemma gi_loop_int_slice ix : forall (x racc : tt R) i excl fs, item_fs (shape x) ix = Some fs ->
  gi_loop ix x racc i excl = inr (rev racc ++ remaps fs x, excl ++ slice_positions i ix).
Proof.
  induction ix as [|it t IH]; intros x racc i excl fs H.
  - destruct x; simpl in H; [|discriminate]. inversion H. simpl. rewrite !app_nil_r. reflexivity.
  - destruct x as [|c cs]; [simpl in H; discriminate|]. cbn [shape map item_fs] in H. fold (shape cs) in H.
    destruct it as [z|a b s| |]; try discriminate.
    + destruct (norm_int (nn c) z) as [j|] eqn:En; [|discriminate]. destruct (item_fs (shape cs) t) as [l|] eqn:E; [|discriminate].
      inversion H; subst fs. cbn [gi_loop]. rewrite En. rewrite (IH cs _ (S i) excl l E).
      cbn [rev remaps slice_positions is_slice app]. rewrite <- app_assoc. reflexivity.
    + destruct (slice_pos (nn c) a b s) as [[[st sp] len]|] eqn:Es; [|discriminate]. destruct (item_fs (shape cs) t) as [l|] eqn:E; [|discriminate].
      inversion H; subst fs. cbn [gi_loop]. rewrite Es. rewrite (IH cs _ (S i) (excl ++ [i]) l E).
      cbn [rev remaps slice_positions is_slice app]. rewrite <- !app_assoc. reflexivity.
Qed.

Lemma memb_slice_positions j : forall ix i, memb j (slice_positions i ix) =
  (i <=? j)%nat && (j <? i + length ix)%nat && is_slice (nth (j - i) ix IEll).
Proof.
  induction ix as [|it t IH]; intros i.
  - simpl. destruct (i <=? j)%nat; simpl; [|reflexivity]. destruct (j <? i + 0)%nat eqn:E; [apply Nat.ltb_lt in E|]; try reflexivity.
    destruct (j - i)%nat; reflexivity.
  - cbn [slice_positions length]. unfold memb in *. rewrite existsb_app. rewrite IH.
    destruct (Nat.eq_dec j i) as [->|Hne].
    + rewrite Nat.sub_diag. cbn [nth].
      destruct (Nat.leb_spec (S i) i); [lia|]. cbn [andb]. rewrite orb_false_r.
      destruct (Nat.leb_spec i i); [|lia]. destruct (Nat.ltb_spec i (i + S (length t))); [|lia]. cbn [andb].
      destruct (is_slice it); simpl; [rewrite Nat.eqb_refl; reflexivity|reflexivity].
    + assert (E0 : existsb (Nat.eqb j) (if is_slice it then [i] else []) = false).
      { destruct (is_slice it); [|reflexivity]. simpl. destruct (Nat.eqb_spec j i); [congruence|reflexivity]. }
      rewrite E0. cbn [orb].
      destruct (Nat.leb_spec (S i) j), (Nat.leb_spec i j), (Nat.ltb_spec j (S i + length t)), (Nat.ltb_spec j (i + S (length t))); try lia; cbn [andb]; try reflexivity.
      replace (j - i)%nat with (S (j - S i)) by lia. reflexivity.
Qed.

(* which cores survive reduce_dims, and the index it reads, on the remapped cores *)
Lemma fullidx_items ix : forall (x : tt R) i excl fs idx' shp g,
  item_fs (shape x) ix = Some fs -> dgi ix (shape x) = Some (shp, g) ->
  (forall j, (i <= j < i + length ix)%nat -> memb j excl = is_slice (nth (j - i) ix IEll)) ->
  length idx' = length shp ->
  nkept i (remaps fs x) excl = length shp /\
  map_idx fs (fullidx i (remaps fs x) excl idx') = Some (g idx').
Proof.
  induction ix as [|it t IH]; intros x i excl fs idx' shp g Hf Hd He Hl.
  - destruct x; simpl in Hf; [|discriminate]. inversion Hf; subst fs. simpl in Hd. inversion Hd; subst shp g.
    simpl in Hl. destruct idx'; [|discriminate]. split; reflexivity.
  - destruct x as [|c cs]; [simpl in Hf; discriminate|]. cbn [shape map item_fs dgi] in Hf, Hd. fold (shape cs) in Hf, Hd.
    assert (Hi : memb i excl = is_slice it).
    { rewrite (He i) by (simpl; lia). rewrite Nat.sub_diag. reflexivity. }
    assert (Hrest : forall j, (S i <= j < S i + length t)%nat -> memb j excl = is_slice (nth (j - S i) t IEll)).
    { intros j Hj. rewrite (He j) by (simpl; lia). replace (j - i)%nat with (S (j - S i)) by lia. reflexivity. }
    destruct it as [z|a b s| |]; try discriminate.
    + destruct (norm_int (nn c) z) as [j0|] eqn:En; [|discriminate].
      destruct (item_fs (shape cs) t) as [l|] eqn:E; [|discriminate]. inversion Hf; subst fs.
      destruct (dgi t (shape cs)) as [[shp' g']|] eqn:Ed; [|discriminate]. inversion Hd; subst shp g.
      cbn [remaps fullidx nkept map_idx]. unfold keptb. cbn [nn remap_core]. rewrite Hi. cbn [is_slice negb andb Nat.eqb].
      destruct (IH cs (S i) excl l idx' shp' g' E Ed Hrest Hl) as [H1 H2]. rewrite H1, H2. split; reflexivity.
    + destruct (slice_pos (nn c) a b s) as [[[st sp] len]|] eqn:Es; [|discriminate].
      destruct (item_fs (shape cs) t) as [l|] eqn:E; [|discriminate]. inversion Hf; subst fs.
      destruct (dgi t (shape cs)) as [[shp' g']|] eqn:Ed; [|discriminate]. inversion Hd; subst shp g.
      cbn [remaps fullidx nkept map_idx]. unfold keptb. cbn [nn remap_core]. rewrite Hi. cbn [is_slice negb]. rewrite andb_false_r. cbn [negb].
      destruct idx' as [|k kt]; [simpl in Hl; discriminate|]. simpl in Hl.
      destruct (IH cs (S i) excl l kt shp' g' E Ed Hrest ltac:(lia)) as [H1 H2]. cbn [hd tl]. rewrite H1, H2. split; reflexivity.
Qed.

Lemma no_ell_expand d ix : forallb (fun it => negb (is_ell it)) ix = true -> expand_ell d ix = ix /\ filter is_ell ix = [].
Proof.
  intros H. split.
  - unfold expand_ell. destruct ix as [|it t]; [reflexivity|].
    assert (Hh : is_ell it = false) by (simpl in H; apply andb_true_iff in H; destruct H as [H _]; apply negb_true_iff; exact H).
    destruct it; try discriminate; cbn zeta;
      (destruct (rev _) as [|l rt] eqn:Er; [reflexivity|];
       assert (Hl : is_ell l = false);
       [ assert (Hin : In l (rev (_ :: t))) by (rewrite Er; left; reflexivity);
         apply in_rev in Hin; rewrite forallb_forall in H; apply negb_true_iff; apply H; exact Hin
       | destruct l; try discriminate; reflexivity ]).
  - induction ix as [|it t IH]; [reflexivity|]. simpl in H. apply andb_true_iff in H. destruct H as [H1 H2].
    simpl. apply negb_true_iff in H1. rewrite H1. apply IH. exact H2.
Qed.

Lemma dexpand_no_ell k ix : forallb (fun it => negb (is_ell it)) ix = true -> dexpand k ix = ix.
Proof.
  induction ix as [|it t IH]; intros H; [reflexivity|]. simpl in H. apply andb_true_iff in H. destruct H as [H1 H2].
  destruct it; simpl in *; try discriminate; rewrite IH by assumption; reflexivity.
Qed.

Lemma slice_positions_nil ix : forall i, slice_positions i ix = [] -> existsb is_slice ix = false.
Proof.
  induction ix as [|it t IH]; intros i H; [reflexivity|]. simpl in H. simpl. destruct (is_slice it); [discriminate|]. simpl. apply (IH (S i)). exact H.
Qed.
Lemma fullidx_length_own (x : tt R) : forall i excl idx, length (fullidx i x excl idx) = length x.
Proof. induction x as [|c cs IH]; intros i excl idx; simpl; [reflexivity|]. destruct (keptb i c excl); simpl; rewrite IH; reflexivity. Qed.

(* x[tuple of ints and slices], at least one slice: a TT tensor whose entries are those the dense index expression selects *)
Theorem getitem_int_slice_full (x : tt R) ix fs shp g :
  x <> [] -> item_fs (shape x) ix = Some fs -> dgi ix (shape x) = Some (shp, g) -> existsb is_slice ix = true ->
  exists y, getitem_tuple x ix = GT y /\
            forall idx', length idx' = length shp -> entry y idx' = entry x (g idx').
Proof.
  intros Hne Hf Hd Hs.
  assert (Hnoell : forallb (fun it => negb (is_ell it)) ix = true).
  { clear - Hf. revert ix fs Hf. generalize (shape x). induction l as [|n nt IH]; intros [|it t] fs H; simpl in H; try discriminate; [reflexivity|].
    destruct it; try discriminate; simpl.
    - destruct (norm_int n z); [|discriminate]. destruct (item_fs nt t) eqn:E; [|discriminate]. eapply IH; eauto.
    - destruct (slice_pos n a b s) as [[[? ?] ?]|]; [|discriminate]. destruct (item_fs nt t) eqn:E; [|discriminate]. eapply IH; eauto. }
  destruct (no_ell_expand (length x) ix Hnoell) as [He Hfl].
  destruct (item_fs_length _ _ _ Hf) as [Hlf Hli]. unfold shape in Hlf, Hli. rewrite map_length in Hlf, Hli.
  unfold getitem_tuple. rewrite Hfl. cbn [length Nat.ltb Nat.leb]. rewrite He.
  rewrite (gi_loop_int_slice ix x [] 0 [] fs Hf). cbn [rev app].
  destruct (remaps fs x) as [|c0 ct] eqn:Er.
  { exfalso. apply (f_equal (@length _)) in Er. rewrite remaps_length in Er by lia. simpl in Er. destruct x; [congruence|simpl in *; lia]. }
  rewrite <- Er.
  destruct (slice_positions 0 ix) as [|p0 pt] eqn:Ep.
  { exfalso. rewrite (slice_positions_nil ix 0%nat Ep) in Hs. discriminate. }
  rewrite <- Ep. eexists. split; [reflexivity|].
  intros idx' Hl.
  assert (Hm : forall j, (0 <= j < 0 + length ix)%nat -> memb j (slice_positions 0 ix) = is_slice (nth (j - 0) ix IEll)).
  { intros j Hj. rewrite memb_slice_positions. destruct (Nat.leb_spec 0 j), (Nat.ltb_spec j (0 + length ix)); try lia. reflexivity. }
  destruct (fullidx_items ix x 0 (slice_positions 0 ix) fs idx' shp g Hf Hd Hm Hl) as [H1 H2].
  assert (Hshp : (0 < length shp)%nat).
  { clear - Hd Hs. revert shp g Hd. generalize (shape x). induction ix as [|it t IH]; intros ns shp g Hd; [discriminate|].
    simpl in Hs. destruct it as [z|a b s| |]; simpl in Hd.
    - destruct ns as [|n nt]; [discriminate|]. destruct (norm_int n z); [|discriminate].
      destruct (dgi t nt) as [[shp' g']|] eqn:E; [|discriminate]. inversion Hd; subst. eapply IH; eauto.
    - destruct ns as [|n nt]; [discriminate|]. destruct (slice_pos n a b s) as [[[? ?] ?]|]; [|discriminate].
      destruct (dgi t nt) as [[shp' g']|]; [|discriminate]. inversion Hd. simpl. lia.
    - destruct (dgi t ns) as [[shp' g']|]; [|discriminate]. inversion Hd. simpl. lia.
    - discriminate. }
  rewrite reduce_dims_full by (rewrite H1; lia).
  rewrite remaps_entry by (rewrite ?fullidx_length_own, ?remaps_length; lia).
  rewrite H2. reflexivity.
Qed.

(* x[i1, ..., id] with integers only: the scalar the dense index expression selects *)
Lemma slice_positions_none ix : forall i, existsb is_slice ix = false -> slice_positions i ix = [].
Proof.
  induction ix as [|it t IH]; intros i H; [reflexivity|]. simpl in H. apply orb_false_iff in H. destruct H as [H1 H2].
  simpl. rewrite H1. simpl. apply IH. exact H2.
Qed.
Lemma no_slice_nth ix : existsb is_slice ix = false -> forall k, is_slice (nth k ix IEll) = false.
Proof.
  induction ix as [|it t IH]; intros H k; [destruct k; reflexivity|]. simpl in H. apply orb_false_iff in H. destruct H as [H1 H2].
  destruct k; simpl; [exact H1|apply IH; exact H2].
Qed.
Lemma dgi_all_int ix : forall ns shp g, dgi ix ns = Some (shp, g) -> existsb is_slice ix = false ->
  forallb (fun it => negb (is_none it)) ix = true -> length ix = length ns -> shp = [].
Proof.
  induction ix as [|it t IH]; intros ns shp g Hd Hs Hn Hl.
  - destruct ns; [|discriminate]. simpl in Hd. inversion Hd. reflexivity.
  - simpl in Hs. apply orb_false_iff in Hs. destruct Hs as [Hs1 Hs2]. simpl in Hn. apply andb_true_iff in Hn. destruct Hn as [Hn1 Hn2].
    destruct it as [z|a b s| |]; try discriminate.
    destruct ns as [|n nt]; [discriminate|]. simpl in Hd. destruct (norm_int n z); [|discriminate].
    destruct (dgi t nt) as [[shp' g']|] eqn:E; [|discriminate]. inversion Hd; subst. simpl in Hl. eapply IH; eauto.
Qed.
Lemma fullidx_none_kept (x : tt R) : forall i excl idx, nkept i x excl = 0%nat -> fullidx i x excl idx = repeat O (length x).
Proof.
  induction x as [|c cs IH]; intros i excl idx H; [reflexivity|]. cbn [nkept] in H. cbn [fullidx length repeat].
  destruct (keptb i c excl); [simpl in H; lia|]. simpl in H. rewrite IH by exact H. reflexivity.
Qed.
Lemma item_fs_no_none ns : forall ix fs, item_fs ns ix = Some fs -> forallb (fun it => negb (is_none it)) ix = true.
Proof.
  induction ns as [|n nt IH]; intros [|it t] fs H; simpl in H; try discriminate; [reflexivity|].
  destruct it as [z|a b s| |]; try discriminate; simpl.
  - destruct (norm_int n z); [|discriminate]. destruct (item_fs nt t) eqn:E; [|discriminate]. eapply IH; eauto.
  - destruct (slice_pos n a b s) as [[[? ?] ?]|]; [|discriminate]. destruct (item_fs nt t) eqn:E; [|discriminate]. eapply IH; eauto.
Qed.
Lemma item_fs_no_ell ns : forall ix fs, item_fs ns ix = Some fs -> forallb (fun it => negb (is_ell it)) ix = true.
Proof.
  induction ns as [|n nt IH]; intros [|it t] fs H; simpl in H; try discriminate; [reflexivity|].
  destruct it as [z|a b s| |]; try discriminate; simpl.
  - destruct (norm_int n z); [|discriminate]. destruct (item_fs nt t) eqn:E; [|discriminate]. eapply IH; eauto.
  - destruct (slice_pos n a b s) as [[[? ?] ?]|]; [|discriminate]. destruct (item_fs nt t) eqn:E; [|discriminate]. eapply IH; eauto.
Qed.

Theorem getitem_all_int (x : tt R) ix fs shp g :
  wf x -> item_fs (shape x) ix = Some fs -> dgi ix (shape x) = Some (shp, g) -> existsb is_slice ix = false ->
  shp = [] /\ getitem_tuple x ix = GS (entry x (g [])).
Proof.
  intros Hwf Hf Hd Hs. pose proof Hwf as [Hne Hch].
  pose proof (item_fs_no_ell _ _ _ Hf) as Hnoell. pose proof (item_fs_no_none _ _ _ Hf) as Hnonone.
  destruct (no_ell_expand (length x) ix Hnoell) as [He Hfl].
  destruct (item_fs_length _ _ _ Hf) as [Hlf Hli]. unfold shape in Hlf, Hli. rewrite map_length in Hlf, Hli.
  assert (Hshp : shp = []).
  { apply (dgi_all_int ix (shape x) shp g Hd Hs Hnonone). unfold shape. rewrite map_length. exact Hli. }
  split; [exact Hshp|]. subst shp.
  unfold getitem_tuple. rewrite Hfl. cbn [length Nat.ltb Nat.leb]. rewrite He.
  rewrite (gi_loop_int_slice ix x [] 0 [] fs Hf). cbn [rev app]. rewrite (slice_positions_none ix 0%nat Hs).
  assert (Hm : forall j, (0 <= j < 0 + length ix)%nat -> memb j (@nil nat) = is_slice (nth (j - 0) ix IEll)).
  { intros j _. rewrite (no_slice_nth ix Hs). reflexivity. }
  destruct (fullidx_items ix x 0 [] fs [] [] g Hf Hd Hm eq_refl) as [H1 H2]. cbn [length] in H1.
  assert (Hwr : wf (remaps fs x)) by (apply remaps_wf; [lia|exact Hwf]).
  destruct (reduce_dims_none_kept (remaps fs x) [] Hwr H1) as [c [Hc1 [Hc2 Hc3]]].
  destruct (remaps fs x) as [|c0 ct] eqn:Er.
  { exfalso. destruct Hwr as [Hn _]. congruence. }
  rewrite <- Er in *. rewrite Hc1. f_equal. rewrite Hc3.
  rewrite (fullidx_none_kept (remaps fs x) 0%nat [] [] H1) in H2.
  rewrite remaps_entry by (rewrite ?repeat_length, ?remaps_length; lia).
  rewrite H2. reflexivity.
Qed.

(* Ellipsis: a leading or trailing `...` is exactly the tuple with the missing full slices written out, so the composite theorem
   above applies to the expanded tuple *)
Lemma filter_ell_none (t : list ixitem) : forallb (fun it => negb (is_ell it)) t = true -> filter is_ell t = [].
Proof.
  induction t as [|it t IH]; intros H; [reflexivity|]. simpl in H. apply andb_true_iff in H. destruct H as [H1 H2].
  simpl. apply negb_true_iff in H1. rewrite H1. apply IH. exact H2.
Qed.
Lemma no_ell_repeat k (t : list ixitem) : forallb (fun it => negb (is_ell it)) t = true ->
  forallb (fun it => negb (is_ell it)) (repeat full_slice k ++ t) = true.
Proof. intros H. rewrite forallb_app, H, andb_true_r. induction k; simpl; auto. Qed.
Lemma no_ell_repeat_r k (t : list ixitem) : forallb (fun it => negb (is_ell it)) t = true ->
  forallb (fun it => negb (is_ell it)) (t ++ repeat full_slice k) = true.
Proof. intros H. rewrite forallb_app, H. simpl. induction k; simpl; auto. Qed.

Theorem getitem_leading_ellipsis (x : tt R) (t : list ixitem) : forallb (fun it => negb (is_ell it)) t = true ->
  getitem_tuple x (IEll :: t) =
  getitem_tuple x (repeat full_slice (length x + 1 + length (filter is_none t) - S (length t)) ++ t).
Proof.
  intros H. unfold getitem_tuple at 1. cbn [filter is_ell]. rewrite (filter_ell_none t H). cbn [length Nat.ltb Nat.leb].
  unfold expand_ell at 1. cbn [filter is_none length].
  set (k := (length x + 1 + length (filter is_none t) - S (length t))%nat).
  pose proof (no_ell_repeat k t H) as Hn.
  unfold getitem_tuple. destruct (no_ell_expand (length x) _ Hn) as [He Hf]. rewrite Hf, He. reflexivity.
Qed.

Theorem getitem_trailing_ellipsis (x : tt R) (t : list ixitem) it0 : forallb (fun it => negb (is_ell it)) (it0 :: t) = true ->
  getitem_tuple x ((it0 :: t) ++ [IEll]) =
  getitem_tuple x ((it0 :: t) ++ repeat full_slice (length x + 1 + length (filter is_none (it0 :: t)) - S (S (length t)))).
Proof.
  intros H. set (u := it0 :: t) in *.
  assert (Hfe : filter is_ell (u ++ [IEll]) = [IEll]) by (rewrite filter_app, (filter_ell_none u H); reflexivity).
  assert (Hfn : filter is_none (u ++ [IEll]) = filter is_none u) by (rewrite filter_app; cbn [filter is_none]; apply app_nil_r).
  unfold getitem_tuple at 1. rewrite Hfe. cbn [length Nat.ltb Nat.leb].
  assert (Hex : expand_ell (length x) (u ++ [IEll]) = u ++ repeat full_slice (length x + 1 + length (filter is_none u) - S (S (length t)))).
  { unfold expand_ell. rewrite Hfn.
    assert (Hl : length (u ++ [IEll]) = S (S (length t))) by (rewrite app_length; unfold u; cbn [length]; lia).
    rewrite Hl.
    assert (Hh : is_ell it0 = false) by (unfold u in H; simpl in H; apply andb_true_iff in H; destruct H as [H1 _]; apply negb_true_iff; exact H1).
    unfold u at 1. cbn [app]. destruct it0; try discriminate; fold u;
      (change (_ :: t ++ [IEll]) with (u ++ [IEll]); rewrite rev_app_distr; cbn [rev app]; rewrite rev_involutive; reflexivity). }
  rewrite Hex.
  set (k := (length x + 1 + length (filter is_none u) - S (S (length t)))%nat).
  pose proof (no_ell_repeat_r k u H) as Hn.
  unfold getitem_tuple. destruct (no_ell_expand (length x) _ Hn) as [He Hf]. rewrite Hf, He. reflexivity.
Qed.

End GetitemP.
