(* The interface ("frame") decomposition of a tensor train around one core - the identity every local problem of ALS / AMEn / DMRG
   is built on (C11, C12, C13; also the meaning of set_core, C05):
     x[i_1..i_d] = sum_{p < r_(k-1)} sum_{q < r_k}  L_k(i_1..i_(k-1))[p] * G_k[p, i_k, q] * R_k(i_(k+1)..i_d)[q]
   with L_k the product of the slices to the left (row 0) and R_k the product of those to the right (column 0); hence x depends
   linearly on each single core, with the other cores as coefficients. *)
From Coq Require Import List Arith Lia Ring Bool.
From TT Require Import RingSig SumN Mat Dense Core CoreP Arith ArithP ReduceDimsP.
Import ListNotations.

Section FrameP.
Context {R : Type} {RO : RingOps R} {RL : RingLaws R}.
Add Ring Rr11f : Rth.
Open Scope R_scope.

Arguments chainM : simpl never.

Fixpoint setc (k : nat) (c : core3 R) (x : tt R) : tt R :=
  match k, x with
  | O, _ :: t => c :: t
  | S k', a :: t => a :: setc k' c t
  | _, [] => []
  end.
Definition phiL (x : tt R) (idx : list nat) (k p : nat) : R := chainM (slices (firstn k x) (firstn k idx)) 0%nat p.
Definition phiR (x : tt R) (idx : list nat) (k q : nat) : R := chainM (slices (skipn (S k) x) (skipn (S k) idx)) q 0%nat.

Lemma frame_chain : forall k (x : tt R) idx c r p0, nth_error x k = Some c -> length idx = length x -> chained r x -> (p0 < r)%nat ->
  chainM (slices x idx) p0 0%nat =
    sum_n (r0 c) (fun p => sum_n (r1 c) (fun q =>
      chainM (slices (firstn k x) (firstn k idx)) p0 p * e3 c p (nth k idx 0%nat) q * chainM (slices (skipn (S k) x) (skipn (S k) idx)) q 0%nat)).
Proof.
  induction k as [|k IH]; intros x idx c r p0 Hc Hi Hch Hp.
  - destruct x as [|a t]; [discriminate|]. inversion Hc; subst a. destruct idx as [|i it]; [discriminate|].
    cbn [firstn skipn slices nth]. destruct Hch as [Hr Hch]. rewrite chainM_cons.
    change (chainM (@nil (sl R)) p0) with (fun p => delta (R:=R) p0 p).
    rewrite (sum_n_ext (r0 c) _ (fun p => delta p0 p * sum_n (r1 c) (fun q => e3 c p i q * chainM (slices t it) q 0%nat))).
    2:{ intros p _. rewrite <- sum_n_scal_l. apply sum_n_ext. intros q _. ring. }
    rewrite Hr. rewrite (sum_n_delta_l r p0 (fun p => sum_n (r1 c) (fun q => e3 c p i q * chainM (slices t it) q 0%nat))) by exact Hp.
    reflexivity.
  - destruct x as [|a t]; [discriminate|]. cbn [nth_error] in Hc. destruct idx as [|i it]; [discriminate|].
    destruct Hch as [Hr Hch]. simpl in Hi.
    change (skipn (S (S k)) (a :: t)) with (skipn (S k) t). change (skipn (S (S k)) (i :: it)) with (skipn (S k) it).
    cbn [firstn slices nth]. rewrite chainM_cons.
    rewrite (sum_n_ext (r1 a) _ (fun l => e3 a p0 i l * sum_n (r0 c) (fun p => sum_n (r1 c) (fun q =>
        chainM (slices (firstn k t) (firstn k it)) l p * e3 c p (nth k it 0%nat) q * chainM (slices (skipn (S k) t) (skipn (S k) it)) q 0%nat)))).
    2:{ intros l Hl. rewrite (IH t it c (r1 a) l Hc) by (auto; lia). reflexivity. }
    rewrite (sum_n_ext (r1 a) _ (fun l => sum_n (r0 c) (fun p => e3 a p0 i l * sum_n (r1 c) (fun q =>
        chainM (slices (firstn k t) (firstn k it)) l p * e3 c p (nth k it 0%nat) q * chainM (slices (skipn (S k) t) (skipn (S k) it)) q 0%nat)))).
    2:{ intros l _. rewrite sum_n_scal_l. reflexivity. }
    rewrite sum_n_swap. apply sum_n_ext. intros p _.
    rewrite (sum_n_ext (r1 a) _ (fun l => sum_n (r1 c) (fun q => e3 a p0 i l * (chainM (slices (firstn k t) (firstn k it)) l p * e3 c p (nth k it 0%nat) q *
        chainM (slices (skipn (S k) t) (skipn (S k) it)) q 0%nat)))).
    2:{ intros l _. rewrite sum_n_scal_l. reflexivity. }
    rewrite sum_n_swap. apply sum_n_ext. intros q _.
    rewrite chainM_cons.
    rewrite <- sum_n_scal_r. rewrite <- sum_n_scal_r. apply sum_n_ext. intros l _. ring.
Qed.

(* the frame decomposition of every entry around core k *)
Theorem entry_frame k (x : tt R) idx c : wf x -> nth_error x k = Some c -> length idx = length x ->
  entry x idx = sum_n (r0 c) (fun p => sum_n (r1 c) (fun q => phiL x idx k p * e3 c p (nth k idx 0%nat) q * phiR x idx k q)).
Proof. intros [_ Hch] Hc Hi. unfold entry, phiL, phiR. apply (frame_chain k x idx c 1%nat 0%nat); auto. Qed.

(* replacing core k leaves both interfaces as they are *)
Lemma firstn_setc : forall k c (x : tt R), firstn k (setc k c x) = firstn k x.
Proof. induction k as [|k IH]; intros c [|a t]; cbn [setc firstn]; auto. rewrite IH. reflexivity. Qed.
Lemma skipn_setc : forall k c (x : tt R), skipn (S k) (setc k c x) = skipn (S k) x.
Proof. induction k as [|k IH]; intros c [|a t]; cbn [setc skipn]; auto. apply IH. Qed.
Lemma nth_setc : forall k c (x : tt R), (k < length x)%nat -> nth_error (setc k c x) k = Some c.
Proof. induction k as [|k IH]; intros c [|a t] H; simpl in *; try lia; auto. apply IH. lia. Qed.
Lemma setc_length : forall k c (x : tt R), length (setc k c x) = length x.
Proof. induction k as [|k IH]; intros c [|a t]; cbn [setc length]; auto. Qed.
Lemma setc_chained : forall k c c' (x : tt R) r, nth_error x k = Some c' -> r0 c = r0 c' -> r1 c = r1 c' -> chained r x -> chained r (setc k c x).
Proof.
  induction k as [|k IH]; intros c c' [|a t] r Hc H0 H1 Hch; try discriminate.
  - inversion Hc; subst a. destruct Hch as [Hr Hch]. cbn [setc chained]. split; [congruence|]. rewrite H1. exact Hch.
  - cbn [nth_error] in Hc. destruct Hch as [Hr Hch]. cbn [setc chained]. split; [exact Hr|]. apply (IH c c'); assumption.
Qed.

(* x as a function of its k-th core: the same interfaces, the new core in the middle *)
Theorem entry_setc k (x : tt R) idx c c' : wf x -> nth_error x k = Some c' -> r0 c = r0 c' -> r1 c = r1 c' -> length idx = length x ->
  entry (setc k c x) idx = sum_n (r0 c) (fun p => sum_n (r1 c) (fun q => phiL x idx k p * e3 c p (nth k idx 0%nat) q * phiR x idx k q)).
Proof.
  intros [Hne Hch] Hc H0 H1 Hi.
  assert (Hk : (k < length x)%nat) by (apply nth_error_Some; congruence).
  rewrite (entry_frame k (setc k c x) idx c).
  - unfold phiL, phiR. rewrite firstn_setc, skipn_setc. reflexivity.
  - split; [destruct x; [congruence|destruct k; discriminate]|apply (setc_chained k c c'); assumption].
  - apply nth_setc. exact Hk.
  - rewrite setc_length. exact Hi.
Qed.

(* linearity in the core: sums and scalar multiples of cores give sums and multiples of the tensor *)
Definition cadd (a b : core3 R) : core3 R := mk3 (r0 a) (nn a) (r1 a) (fun p i q => e3 a p i q + e3 b p i q).
Definition cscale (s : R) (a : core3 R) : core3 R := mk3 (r0 a) (nn a) (r1 a) (fun p i q => s * e3 a p i q).
Theorem entry_setc_add k (x : tt R) idx c1 c2 c' : wf x -> nth_error x k = Some c' ->
  r0 c1 = r0 c' -> r1 c1 = r1 c' -> r0 c2 = r0 c' -> r1 c2 = r1 c' -> length idx = length x ->
  entry (setc k (cadd c1 c2) x) idx = entry (setc k c1 x) idx + entry (setc k c2 x) idx.
Proof.
  intros Hx Hc A0 A1 B0 B1 Hi.
  rewrite (entry_setc k x idx (cadd c1 c2) c'), (entry_setc k x idx c1 c'), (entry_setc k x idx c2 c') by assumption.
  cbn [cadd r0 r1 e3]. replace (r0 c2) with (r0 c1) by congruence. replace (r1 c2) with (r1 c1) by congruence.
  rewrite <- sum_n_add. apply sum_n_ext. intros p _. rewrite <- sum_n_add. apply sum_n_ext. intros q _. ring.
Qed.
Theorem entry_setc_scale k (x : tt R) idx s c c' : wf x -> nth_error x k = Some c' -> r0 c = r0 c' -> r1 c = r1 c' -> length idx = length x ->
  entry (setc k (cscale s c) x) idx = s * entry (setc k c x) idx.
Proof.
  intros Hx Hc A0 A1 Hi.
  rewrite (entry_setc k x idx (cscale s c) c'), (entry_setc k x idx c c') by assumption.
  cbn [cscale r0 r1 e3]. rewrite <- sum_n_scal_l. apply sum_n_ext. intros p _. rewrite <- sum_n_scal_l. apply sum_n_ext. intros q _. ring.
Qed.

End FrameP.
