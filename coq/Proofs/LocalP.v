(* The local operator of the alternating solvers IS the Galerkin projection of A on the frame of the current train (C12, C11, C13):
   B[(l,m,L),(r,n,R)] = sum_{s,S} PhiL(l,s,r) A_k(s,m,n,S) PhiR(L,S,R)  equals  < F e_(l,m,L), A F e_(r,n,R) >, where F e is the train
   with a unit core at position k - for every order, position, mode sizes (rectangular included) and rank profile. *)
From Coq Require Import List Arith Lia Ring Bool.
From TT Require Import RingSig SumN Mat Dense Core CoreP Arith ArithP MatOps MatOpsP Reduce ReduceP BilinearP Local Struct StructP.
Import ListNotations.

Section LocalP.
Context {R : Type} {RO : RingOps R} {RL : RingLaws R}.
Add Ring Rr50 : Rth.
Open Scope R_scope.
Arguments chainM : simpl never.

Lemma bilin_cons (a : core3 R) xs (c : core4 R) As (b : core3 R) ys T :
  bilin_loop (a :: xs) (c :: As) (b :: ys) T = bilin_loop xs As ys (phi_fwd T a c b).
Proof. reflexivity. Qed.

Lemma bilin_app (x1 : tt R) : forall (A1 : ttm R) (y1 : tt R) x2 A2 y2 T, length A1 = length x1 -> length y1 = length x1 ->
  bilin_loop (x1 ++ x2) (A1 ++ A2) (y1 ++ y2) T = bilin_loop x2 A2 y2 (phiF x1 A1 y1 T).
Proof.
  induction x1 as [|a xs IH]; intros [|c As] [|b ys] x2 A2 y2 T H1 H2; simpl in H1, H2; try discriminate; [reflexivity|].
  cbn [app phiF]. rewrite bilin_cons. apply IH; lia.
Qed.

(* the eight-fold sum behind one step, read from the left or from the right *)
Lemma phi_fwd_bck_dual (T P : nat -> nat -> nat -> R) (a : core3 R) (c : core4 R) (b : core3 R) :
  sum_n (r1 a) (fun L => sum_n (q1 c) (fun S => sum_n (r1 b) (fun R' => phi_fwd T a c b L S R' * P L S R')))
  = sum_n (r0 a) (fun l => sum_n (q0 c) (fun s => sum_n (r0 b) (fun r => T l s r * phi_bck P a c b l s r))).
Proof.
  set (g := fun (I J K : list nat) =>
     let L := nth 0 I 0%nat in let S := nth 1 I 0%nat in let R' := nth 2 I 0%nat in
     let n := nth 0 J 0%nat in let m := nth 1 J 0%nat in
     let l := nth 0 K 0%nat in let s := nth 1 K 0%nat in let r := nth 2 K 0%nat in
     T l s r * rconj (e3 a l m L) * e4 c s m n S * e3 b r n R' * P L S R').
  transitivity (sum_idx [r1 a; q1 c; r1 b] (fun I => sum_idx [nm c; mm c] (fun J => sum_idx [r0 a; q0 c; r0 b] (fun K => g I J K)))).
  { cbn [sum_idx nth]. apply sum_n_ext. intros L _. apply sum_n_ext. intros S _. apply sum_n_ext. intros R' _.
    unfold phi_fwd. do 5 (rewrite <- sum_n_scal_r; apply sum_n_ext; intros ? _). unfold g. cbn [nth]. reflexivity. }
  transitivity (sum_idx [r0 a; q0 c; r0 b] (fun K => sum_idx [nm c; mm c] (fun J => sum_idx [r1 a; q1 c; r1 b] (fun I => g I J K)))).
  { rewrite (sum_idx_ext [r1 a; q1 c; r1 b] _ (fun I => sum_idx [r0 a; q0 c; r0 b] (fun K => sum_idx [nm c; mm c] (fun J => g I J K))))
      by (intros I _ _; apply sum_idx_swap).
    rewrite sum_idx_swap. apply sum_idx_ext. intros K _ _. apply sum_idx_swap. }
  cbn [sum_idx nth]. apply sum_n_ext. intros l _. apply sum_n_ext. intros s _. apply sum_n_ext. intros r _.
  unfold phi_bck. do 5 (rewrite <- sum_n_scal_l; apply sum_n_ext; intros ? _). unfold g. cbn [nth]. ring.
Qed.

(* the rest of the sweep, seen from the right: a linear functional of the running interface tensor, given by the backward recursion *)
Lemma bilin_bck (x : tt R) : forall (A : ttm R) (y : tt R) T ra rs rb,
  length A = length x -> length y = length x -> chained ra x -> chained4 rs A -> chained rb y ->
  bilin_loop x A y T = sum_n ra (fun l => sum_n rs (fun s => sum_n rb (fun r => T l s r * phiB x A y l s r))).
Proof.
  induction x as [|a xs IH]; intros [|c As] [|b ys] T ra rs rb HlA Hly Hx HA Hy; simpl in HlA, Hly; try discriminate.
  - simpl in Hx, HA, Hy. subst. cbn [bilin_loop phiB]. rewrite !sum_n_1. unfold ones3. ring.
  - destruct Hx as [Ea Hx], HA as [Ec HA], Hy as [Eb Hy]. rewrite bilin_cons.
    rewrite (IH As ys _ (r1 a) (q1 c) (r1 b)) by (auto; lia).
    cbn [phiB]. subst ra rs rb. apply phi_fwd_bck_dual.
Qed.

(* one step with unit cores on both sides picks one entry pair of the operator core *)
Lemma conj_delta i j : rconj (@delta R RO i j) = delta i j.
Proof. unfold delta. destruct (Nat.eqb i j); [apply conj_1|apply conj_0]. Qed.

Lemma phi_fwd_units (T : nat -> nat -> nat -> R) (c : core4 R) ra rb l0 m0 L0 r0' n0 R0 L S R' :
  (l0 < ra)%nat -> (r0' < ra)%nat -> (m0 < mm c)%nat -> (n0 < nm c)%nat ->
  phi_fwd T (unit3 ra (mm c) rb l0 m0 L0) c (unit3 ra (nm c) rb r0' n0 R0) L S R'
  = delta L0 L * delta R0 R' * sum_n (q0 c) (fun s => T l0 s r0' * e4 c s m0 n0 S).
Proof.
  intros Hl Hr Hm Hn. unfold phi_fwd, unit3. cbn [r0 e3].
  (* n *)
  rewrite (sum_n_ext (nm c) _ (fun n => delta n0 n * (delta L0 L * delta R0 R' * sum_n (q0 c) (fun s => T l0 s r0' * e4 c s m0 n S)))).
  2:{ intros n _.
      rewrite (sum_n_ext (mm c) _ (fun m => delta m0 m * (delta n0 n * (delta L0 L * delta R0 R' * sum_n (q0 c) (fun s => T l0 s r0' * e4 c s m n S))))).
      2:{ intros m _.
          rewrite (sum_n_ext ra _ (fun l => delta l0 l * (delta m0 m * (delta n0 n * (delta L0 L * delta R0 R' * sum_n (q0 c) (fun s => T l s r0' * e4 c s m n S)))))).
          2:{ intros l _.
              rewrite (sum_n_ext (q0 c) _ (fun s => (delta l0 l * delta m0 m * delta L0 L * delta n0 n * delta R0 R') * (T l s r0' * e4 c s m n S))).
              - rewrite sum_n_scal_l. ring.
              - intros s _.
                rewrite (sum_n_ext ra _ (fun r => delta r0' r * (T l s r * (delta l0 l * delta m0 m * delta L0 L) * e4 c s m n S * (delta n0 n * delta R0 R')))).
                + rewrite sum_n_delta_l by exact Hr. ring.
                + intros r _. rewrite !conj_mul, !conj_delta. ring. }
          rewrite sum_n_delta_l by exact Hl. reflexivity. }
      rewrite sum_n_delta_l by exact Hm. reflexivity. }
  rewrite sum_n_delta_l by exact Hn. reflexivity.
Qed.

(* THE GALERKIN IDENTITY: the entry ((l,m,L),(r,n,R)) of the local operator at position k is the bilinear form of A on the two trains that
   carry a unit core at position k and the cores of the current iterate elsewhere *)
Theorem local_mat_galerkin (pre post : tt R) (Apre Apost : ttm R) (ck : core4 R) ra rb l0 m0 L0 r0' n0 R0 :
  length Apre = length pre -> length Apost = length post ->
  (l0 < ra)%nat -> (r0' < ra)%nat -> (L0 < rb)%nat -> (R0 < rb)%nat -> (m0 < mm ck)%nat -> (n0 < nm ck)%nat ->
  chained rb post -> chained4 (q1 ck) Apost ->
  bilinear_form (pre ++ unit3 ra (mm ck) rb l0 m0 L0 :: post) (Apre ++ ck :: Apost) (pre ++ unit3 ra (nm ck) rb r0' n0 R0 :: post)
  = local_mat (phiF pre Apre pre ones3) ck (phiB post Apost post) l0 m0 L0 r0' n0 R0.
Proof.
  intros HlA HlB Hl Hr HL HR Hm Hn Hpost HApost.
  unfold bilinear_form. change (fun _ _ _ : nat => 1) with (@ones3 R RO).
  rewrite bilin_app by (auto; lia). rewrite bilin_cons.
  rewrite (bilin_bck post Apost post _ rb (q1 ck) rb) by (auto; lia).
  rewrite (sum_n_ext rb _ (fun L => delta L0 L * sum_n (q1 ck) (fun S =>
             sum_n (q0 ck) (fun s => phiF pre Apre pre ones3 l0 s r0' * e4 ck s m0 n0 S) * phiB post Apost post L S R0))).
  2:{ intros L _. rewrite <- sum_n_scal_l. apply sum_n_ext. intros S _.
      rewrite (sum_n_ext rb _ (fun R' => delta R0 R' * (delta L0 L * sum_n (q0 ck) (fun s => phiF pre Apre pre ones3 l0 s r0' * e4 ck s m0 n0 S) * phiB post Apost post L S R'))).
      - rewrite sum_n_delta_l by exact HR. ring.
      - intros R' _. rewrite (phi_fwd_units _ ck ra rb l0 m0 L0 r0' n0 R0 L S R' Hl Hr Hm Hn). ring. }
  rewrite sum_n_delta_l by exact HL.
  unfold local_mat. rewrite sum_n_swap. apply sum_n_ext. intros S _. rewrite <- sum_n_scal_r. apply sum_n_ext. intros s _. ring.
Qed.

(* ... hence, with bilinear_full, the local operator entry is  sum_{is, js} conj(F e1 [is]) A[is, js] F e2 [js]  over the dense objects *)
Corollary local_mat_dense (pre post : tt R) (Apre Apost : ttm R) (ck : core4 R) ra rb l0 m0 L0 r0' n0 R0 :
  length Apre = length pre -> length Apost = length post ->
  (l0 < ra)%nat -> (r0' < ra)%nat -> (L0 < rb)%nat -> (R0 < rb)%nat -> (m0 < mm ck)%nat -> (n0 < nm ck)%nat ->
  wf (pre ++ unit3 ra (mm ck) rb l0 m0 L0 :: post) -> wf4 (Apre ++ ck :: Apost) -> wf (pre ++ unit3 ra (nm ck) rb r0' n0 R0 :: post) ->
  chained rb post -> chained4 (q1 ck) Apost ->
  local_mat (phiF pre Apre pre ones3) ck (phiB post Apost post) l0 m0 L0 r0' n0 R0
  = sum_idx (shapeM (Apre ++ ck :: Apost)) (fun is_ => sum_idx (shapeN (Apre ++ ck :: Apost)) (fun js =>
      rconj (entry (pre ++ unit3 ra (mm ck) rb l0 m0 L0 :: post) is_) * entry4 (Apre ++ ck :: Apost) is_ js
      * entry (pre ++ unit3 ra (nm ck) rb r0' n0 R0 :: post) js)).
Proof.
  intros HlA HlB Hl Hr HL HR Hm Hn W1 W2 W3 Hpost HApost.
  rewrite <- (local_mat_galerkin pre post Apre Apost ck ra rb l0 m0 L0 r0' n0 R0) by assumption.
  apply bilinear_full; try assumption; rewrite !app_length; simpl; lia.
Qed.

End LocalP.

(* ---- the division (C13): the divisor acts as the DIAGONAL operator diag(y); its local operator at any position is the projection of the
   entrywise product with y on the frame of the current quotient ---- *)
Section DivisionLocal.
Context {R : Type} {RO : RingOps R} {RL : RingLaws R}.
Add Ring Rr51 : Rth.
Open Scope R_scope.

Lemma diag_tt_chained4 (y : tt R) : forall r, chained r y -> chained4 r (diag_tt y).
Proof. induction y as [|c t IH]; intros r H; simpl in *; [exact H|]. destruct H as [H1 H2]. split; [exact H1|apply IH; exact H2]. Qed.
Lemma diag_tt_shapes (y : tt R) : shapeM (diag_tt y) = shape y /\ shapeN (diag_tt y) = shape y.
Proof. induction y as [|c t [IH1 IH2]]; [split; reflexivity|]. cbn [diag_tt map shapeM shapeN shape] in *. fold (diag_tt t). unfold shapeM, shapeN, shape in *. simpl. rewrite IH1, IH2. split; reflexivity. Qed.

Lemma sum_idx_deltas ns : forall is_ (f : list nat -> R), Forall2 lt is_ ns ->
  sum_idx ns (fun js => deltas is_ js * f js) = f is_.
Proof.
  induction ns as [|n t IH]; intros is_ f H; inversion H; subst; cbn [sum_idx deltas].
  - ring.
  - rewrite (sum_n_ext n _ (fun j => delta x j * sum_idx t (fun js => deltas l js * f (j :: js)))).
    + rewrite sum_n_delta_l by assumption. apply (IH l (fun js => f (x :: js))). assumption.
    + intros j _. rewrite <- sum_idx_scal_l. apply sum_idx_ext. intros js _ _. ring.
Qed.

Theorem division_local_dense (pre post ypre ypost : tt R) (yk : core3 R) ra rb l0 m0 L0 r0' n0 R0 :
  length ypre = length pre -> length ypost = length post ->
  (l0 < ra)%nat -> (r0' < ra)%nat -> (L0 < rb)%nat -> (R0 < rb)%nat -> (m0 < nn yk)%nat -> (n0 < nn yk)%nat ->
  wf (pre ++ unit3 ra (nn yk) rb l0 m0 L0 :: post) -> wf (ypre ++ yk :: ypost) -> wf (pre ++ unit3 ra (nn yk) rb r0' n0 R0 :: post) ->
  chained rb post -> chained (r1 yk) ypost ->
  local_mat (phiF pre (diag_tt ypre) pre ones3) (diag_core yk) (phiB post (diag_tt ypost) post) l0 m0 L0 r0' n0 R0
  = sum_idx (shape (ypre ++ yk :: ypost)) (fun is_ =>
      rconj (entry (pre ++ unit3 ra (nn yk) rb l0 m0 L0 :: post) is_) * entry (ypre ++ yk :: ypost) is_
      * entry (pre ++ unit3 ra (nn yk) rb r0' n0 R0 :: post) is_).
Proof.
  intros H1 H2 Hl Hr HL HR Hm Hn W1 Wy W3 Hpost Hyp.
  assert (HD : diag_tt (ypre ++ yk :: ypost) = diag_tt ypre ++ diag_core yk :: diag_tt ypost) by (unfold diag_tt; rewrite map_app; reflexivity).
  pose proof (local_mat_dense pre post (diag_tt ypre) (diag_tt ypost) (diag_core yk) ra rb l0 m0 L0 r0' n0 R0) as HG.
  cbn [diag_core mm nm q1] in HG.
  rewrite HG; clear HG; try assumption; try (unfold diag_tt; rewrite map_length; assumption).
  2:{ rewrite <- HD. destruct Wy as [Wn Wc]. split; [unfold diag_tt; destruct (ypre ++ yk :: ypost); [congruence|discriminate]|apply diag_tt_chained4; exact Wc]. }
  2:{ apply diag_tt_chained4. exact Hyp. }
  rewrite <- HD. destruct (diag_tt_shapes (ypre ++ yk :: ypost)) as [S1 S2]. rewrite S1, S2.
  apply sum_idx_ext. intros is_ Hli HFi.
  rewrite (sum_idx_ext (shape (ypre ++ yk :: ypost)) _ (fun js => deltas is_ js *
      (rconj (entry (pre ++ unit3 ra (nn yk) rb l0 m0 L0 :: post) is_) * entry (ypre ++ yk :: ypost) is_ * entry (pre ++ unit3 ra (nn yk) rb r0' n0 R0 :: post) js))).
  - rewrite sum_idx_deltas by exact HFi. reflexivity.
  - intros js Hlj _. rewrite diag_tt_full by (unfold shape in *; rewrite map_length in *; assumption). ring.
Qed.
End DivisionLocal.
