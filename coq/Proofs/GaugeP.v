(* Truncation in orthogonal gauges (C02 rounding sweep, C11-C13 supercore truncations): if the cores to the left of a core have orthonormal
   left unfoldings and those to its right orthonormal right unfoldings, replacing that core by ANY other core changes the tensor by exactly
   the Frobenius distance of the two cores. *)
From Coq Require Import List Arith Lia Ring Bool.
From TT Require Import RingSig SumN Mat Dense Core CoreP FrobP Arith ArithP Reduce ReduceP ReduceDimsP BilinearP OrthP.
Import ListNotations.

Section GaugeP.
Context {R : Type} {RO : RingOps R} {RL : RingLaws R}.
Add Ring Rr16g : Rth.
Open Scope R_scope.
Arguments chainM : simpl never.

(* the interface vectors of a right-orthogonal suffix are orthonormal *)
Lemma right_interface_orthonormal (post : tt R) r q q' : chained r post -> Forall right_orth post -> (q < r)%nat -> (q' < r)%nat ->
  sum_idx (shape post) (fun iq => chainM (slices post iq) q 0%nat * rconj (chainM (slices post iq) q' 0%nat)) = delta q q'.
Proof.
  intros Hch Hall Hq Hq'.
  pose proof (chained_linked post r Hch) as Hl. pose proof (chained_endrank post r Hch) as He.
  destruct (linked_rev post r Hl) as [Hlr Her]. rewrite He in Hlr, Her.
  rewrite <- (sum_idx_rev (shape post)).
  rewrite (sum_idx_ext (rev (shape post)) _ (fun idx => rconj (chainM (slices (rev_tt post) idx) 0%nat q') * chainM (slices (rev_tt post) idx) 0%nat q)).
  2:{ intros idx Hlen _. rewrite rev_length in Hlen. unfold shape in Hlen. rewrite map_length in Hlen.
      rewrite <- (rev_involutive idx) at 3 4.
      rewrite !(rev_chain post (rev idx) r) by (rewrite ?rev_length; auto; lia). ring. }
  rewrite <- rev_tt_shape.
  assert (Hro : Forall left_orth (rev_tt post)).
  { unfold rev_tt. apply Forall_forall. intros a Ha. apply in_map_iff in Ha. destruct Ha as [b [<- Hb]].
    apply in_rev in Hb. rewrite Forall_forall in Hall. apply Hall. exact Hb. }
  rewrite (interface_orthonormal (rev_tt post) q' q Hlr Hro) by (rewrite Her; assumption).
  unfold delta. rewrite Nat.eqb_sym. reflexivity.
Qed.

Lemma right_isometry (post : tt R) r (v w : nat -> R) : chained r post -> Forall right_orth post ->
  sum_idx (shape post) (fun iq => sum_n r (fun q => v q * chainM (slices post iq) q 0%nat) * rconj (sum_n r (fun q' => w q' * chainM (slices post iq) q' 0%nat)))
  = sum_n r (fun q => v q * rconj (w q)).
Proof.
  intros Hch Hall.
  rewrite (sum_idx_ext (shape post) _ (fun iq => sum_n r (fun q => sum_n r (fun q' =>
      (v q * rconj (w q')) * (chainM (slices post iq) q 0%nat * rconj (chainM (slices post iq) q' 0%nat)))))).
  2:{ intros iq _ _. rewrite sum_n_conj. rewrite <- sum_n_scal_r. apply sum_n_ext. intros q _.
      rewrite <- sum_n_scal_l. apply sum_n_ext. intros q' _. rewrite conj_mul. ring. }
  rewrite sum_idx_sum_n_swap. apply sum_n_ext. intros q Hq.
  rewrite sum_idx_sum_n_swap.
  rewrite (sum_n_ext r _ (fun q' => delta q q' * (v q * rconj (w q')))).
  2:{ intros q' Hq'. rewrite sum_idx_scal_l. rewrite (right_interface_orthonormal post r q q' Hch Hall Hq Hq'). ring. }
  rewrite sum_n_delta_l by exact Hq. reflexivity.
Qed.

Lemma entry_middle (pre post : tt R) (c : core3 R) ip i iq : length ip = length pre ->
  entry (pre ++ c :: post) (ip ++ i :: iq) =
    sum_n (endrank 1 pre) (fun p => chainM (slices pre ip) 0%nat p * sum_n (r1 c) (fun q => e3 c p i q * chainM (slices post iq) q 0%nat)).
Proof.
  intros Hl. unfold entry. rewrite slices_app2 by exact Hl. cbn [slices].
  rewrite (chainM_app _ _ 1%nat) by lia. rewrite lastk_slices by exact Hl. unfold mmul.
  apply sum_n_ext. intros p _. rewrite chainM_cons. reflexivity.
Qed.

(* the squared norm of a train in mixed gauge is the squared norm of its centre core *)
Theorem norm2_centre_core (pre post : tt R) (c : core3 R) : linked 1 pre -> Forall left_orth pre -> chained (r1 c) post -> Forall right_orth post ->
  sum_idx (shape (pre ++ c :: post)) (fun idx => entry (pre ++ c :: post) idx * rconj (entry (pre ++ c :: post) idx))
  = sum_n (nn c) (fun i => sum_n (endrank 1 pre) (fun p => sum_n (r1 c) (fun q => e3 c p i q * rconj (e3 c p i q)))).
Proof.
  intros Hl Hall Hch Hallr.
  unfold shape. rewrite map_app. cbn [map]. fold (shape pre) (shape post).
  rewrite sum_idx_app. cbn [sum_idx].
  (* sum over ip first: the left isometry, for every (i, iq) *)
  rewrite (sum_idx_ext (shape pre) _ (fun ip => sum_n (nn c) (fun i => sum_idx (shape post) (fun iq =>
      sum_n (endrank 1 pre) (fun p => chainM (slices pre ip) 0%nat p * sum_n (r1 c) (fun q => e3 c p i q * chainM (slices post iq) q 0%nat)) *
      rconj (sum_n (endrank 1 pre) (fun p => chainM (slices pre ip) 0%nat p * sum_n (r1 c) (fun q => e3 c p i q * chainM (slices post iq) q 0%nat))))))).
  2:{ intros ip Hlen _. unfold shape in Hlen. rewrite map_length in Hlen. apply sum_n_ext. intros i _. apply sum_idx_ext. intros iq _ _.
      rewrite !entry_middle by exact Hlen. reflexivity. }
  rewrite sum_idx_sum_n_swap.
  rewrite (sum_n_ext (nn c) _ (fun i => sum_idx (shape post) (fun iq => sum_n (endrank 1 pre) (fun p =>
      sum_n (r1 c) (fun q => e3 c p i q * chainM (slices post iq) q 0%nat) * rconj (sum_n (r1 c) (fun q => e3 c p i q * chainM (slices post iq) q 0%nat)))))).
  2:{ intros i _. rewrite sum_idx_swap. apply sum_idx_ext. intros iq _ _.
      apply (interface_isometry pre (fun p => sum_n (r1 c) (fun q => e3 c p i q * chainM (slices post iq) q 0%nat))
                                    (fun p => sum_n (r1 c) (fun q => e3 c p i q * chainM (slices post iq) q 0%nat)) Hl Hall). }
  (* then over iq: the right isometry, for every (p, i) *)
  apply sum_n_ext. intros i _. rewrite sum_idx_sum_n_swap. apply sum_n_ext. intros p _.
  apply (right_isometry post (r1 c) (fun q => e3 c p i q) (fun q => e3 c p i q) Hch Hallr).
Qed.

(* replacing the centre core by any other core of the same shape: the tensor moves by exactly the distance of the two cores *)
Definition csub3 (a b : core3 R) : core3 R := mk3 (r0 a) (nn a) (r1 a) (fun p i q => e3 a p i q - e3 b p i q).
Theorem centre_core_error (pre post : tt R) (c c' : core3 R) :
  linked 1 pre -> Forall left_orth pre -> chained (r1 c) post -> Forall right_orth post -> r1 c' = r1 c -> nn c' = nn c ->
  sum_idx (shape (pre ++ c :: post)) (fun idx => (entry (pre ++ c :: post) idx - entry (pre ++ c' :: post) idx) *
                                                 rconj (entry (pre ++ c :: post) idx - entry (pre ++ c' :: post) idx))
  = sum_n (nn c) (fun i => sum_n (endrank 1 pre) (fun p => sum_n (r1 c) (fun q => (e3 c p i q - e3 c' p i q) * rconj (e3 c p i q - e3 c' p i q)))).
Proof.
  intros Hl Hall Hch Hallr Hr Hn.
  pose proof (norm2_centre_core pre post (csub3 c c') Hl Hall) as HN. cbn [csub3 r1 nn e3] in HN. rewrite <- HN by assumption. clear HN.
  assert (Hs : shape (pre ++ csub3 c c' :: post) = shape (pre ++ c :: post))
    by (unfold shape; rewrite !map_app; reflexivity).
  rewrite Hs. apply sum_idx_ext. intros idx Hlen _.
  assert (E : entry (pre ++ csub3 c c' :: post) idx
              = entry (pre ++ c :: post) idx - entry (pre ++ c' :: post) idx).
  { unfold shape in Hlen. rewrite map_length, app_length in Hlen. cbn [length] in Hlen.
    assert (Hsp : idx = firstn (length pre) idx ++ nth (length pre) idx 0%nat :: skipn (S (length pre)) idx).
    { rewrite <- (firstn_skipn (length pre) idx) at 1. f_equal.
      assert (Hk : (length pre < length idx)%nat) by lia.
      clear - Hk. revert idx Hk. generalize (length pre). induction n as [|n IH]; intros [|a t] H; simpl in H; try lia; [reflexivity|].
      cbn [skipn nth]. apply IH. lia. }
    rewrite Hsp.
    assert (Hip : length (firstn (length pre) idx) = length pre) by (rewrite firstn_length; lia).
    rewrite !entry_middle by exact Hip. cbn [csub3 r1 e3]. rewrite Hr.
    rewrite <- sum_n_sub. apply sum_n_ext. intros p _.
    set (Lp := chainM (slices pre (firstn (length pre) idx)) 0%nat p).
    transitivity (Lp * (sum_n (r1 c) (fun q => e3 c p (nth (length pre) idx 0%nat) q * chainM (slices post (skipn (S (length pre)) idx)) q 0%nat)
                        - sum_n (r1 c) (fun q => e3 c' p (nth (length pre) idx 0%nat) q * chainM (slices post (skipn (S (length pre)) idx)) q 0%nat))); [|ring].
    f_equal. rewrite <- sum_n_sub. apply sum_n_ext. intros q _. ring. }
  rewrite E. reflexivity.
Qed.

End GaugeP.
