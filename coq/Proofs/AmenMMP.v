(* The local step of the operator-operator AMEn product (amen_mm, C11): the core it assigns is the projection of the DENSE product A B on the frame of
   the approximation X - entry (r, m, n, R) is  sum_{is, js} conj(E[is, js]) (A B)[is, js]  with E the TT matrix that carries a unit core at position k.
   Proved by reduction to the matrix-vector case on the column slices: the column multi-index js is a spectator, summed in the interface recursions. *)
From Coq Require Import List Arith Lia Ring Bool.
From TT Require Import RingSig SumN Mat Dense Core CoreP Arith ArithP MatOps MatOpsP Reduce ReduceP BilinearP Local Struct StructP ReduceDimsP FrameP LocalP StationaryP.
Import ListNotations.

Section AmenMMP.
Context {R : Type} {RO : RingOps R} {RL : RingLaws R}.
Add Ring Rr80 : Rth.
Open Scope R_scope.
Arguments chainM : simpl never.

(* ---- linearity of the interface recursions in the running interface ---- *)
Lemma phi_fwd_sum k (T : nat -> nat -> nat -> nat -> R) a c b L S R' :
  phi_fwd (fun l s r => sum_n k (fun n => T n l s r)) a c b L S R' = sum_n k (fun n => phi_fwd (T n) a c b L S R').
Proof.
  unfold phi_fwd.
  transitivity (sum_n (nm c) (fun n0 => sum_n k (fun n => sum_n (mm c) (fun m => sum_n (r0 a) (fun l => sum_n (q0 c) (fun s => sum_n (r0 b) (fun r =>
     T n l s r * rconj (e3 a l m L) * e4 c s m n0 S * e3 b r n0 R'))))))).
  - apply sum_n_ext. intros n0 _.
    transitivity (sum_n (mm c) (fun m => sum_n k (fun n => sum_n (r0 a) (fun l => sum_n (q0 c) (fun s => sum_n (r0 b) (fun r =>
       T n l s r * rconj (e3 a l m L) * e4 c s m n0 S * e3 b r n0 R')))))); [|apply sum_n_swap].
    apply sum_n_ext. intros m _.
    transitivity (sum_n (r0 a) (fun l => sum_n k (fun n => sum_n (q0 c) (fun s => sum_n (r0 b) (fun r =>
       T n l s r * rconj (e3 a l m L) * e4 c s m n0 S * e3 b r n0 R'))))); [|apply sum_n_swap].
    apply sum_n_ext. intros l _.
    transitivity (sum_n (q0 c) (fun s => sum_n k (fun n => sum_n (r0 b) (fun r =>
       T n l s r * rconj (e3 a l m L) * e4 c s m n0 S * e3 b r n0 R')))); [|apply sum_n_swap].
    apply sum_n_ext. intros s _.
    transitivity (sum_n (r0 b) (fun r => sum_n k (fun n => T n l s r * rconj (e3 a l m L) * e4 c s m n0 S * e3 b r n0 R'))); [|apply sum_n_swap].
    apply sum_n_ext. intros r _. rewrite <- !sum_n_scal_r. reflexivity.
  - apply sum_n_swap.
Qed.
Lemma phi_bck_sum k (P : nat -> nat -> nat -> nat -> R) a c b l s r :
  phi_bck (fun L S R' => sum_n k (fun n => P n L S R')) a c b l s r = sum_n k (fun n => phi_bck (P n) a c b l s r).
Proof.
  unfold phi_bck.
  transitivity (sum_n (nm c) (fun n0 => sum_n k (fun n => sum_n (mm c) (fun m => sum_n (r1 a) (fun L => sum_n (q1 c) (fun S => sum_n (r1 b) (fun R' =>
     P n L S R' * rconj (e3 a l m L) * e4 c s m n0 S * e3 b r n0 R'))))))).
  - apply sum_n_ext. intros n0 _.
    transitivity (sum_n (mm c) (fun m => sum_n k (fun n => sum_n (r1 a) (fun L => sum_n (q1 c) (fun S => sum_n (r1 b) (fun R' =>
       P n L S R' * rconj (e3 a l m L) * e4 c s m n0 S * e3 b r n0 R')))))); [|apply sum_n_swap].
    apply sum_n_ext. intros m _.
    transitivity (sum_n (r1 a) (fun L => sum_n k (fun n => sum_n (q1 c) (fun S => sum_n (r1 b) (fun R' =>
       P n L S R' * rconj (e3 a l m L) * e4 c s m n0 S * e3 b r n0 R'))))); [|apply sum_n_swap].
    apply sum_n_ext. intros L _.
    transitivity (sum_n (q1 c) (fun S => sum_n k (fun n => sum_n (r1 b) (fun R' =>
       P n L S R' * rconj (e3 a l m L) * e4 c s m n0 S * e3 b r n0 R')))); [|apply sum_n_swap].
    apply sum_n_ext. intros S _.
    transitivity (sum_n (r1 b) (fun R' => sum_n k (fun n => P n L S R' * rconj (e3 a l m L) * e4 c s m n0 S * e3 b r n0 R'))); [|apply sum_n_swap].
    apply sum_n_ext. intros R' _. rewrite <- !sum_n_scal_r. reflexivity.
  - apply sum_n_swap.
Qed.

Lemma phi_fwd_ext (T T' : nat -> nat -> nat -> R) a c b : (forall l s r, T l s r = T' l s r) -> forall L S R', phi_fwd T a c b L S R' = phi_fwd T' a c b L S R'.
Proof. intros H L S R'. unfold phi_fwd. do 5 (apply sum_n_ext; intros ? _). rewrite H. reflexivity. Qed.
Lemma phi_bck_ext (P P' : nat -> nat -> nat -> R) a c b : (forall l s r, P l s r = P' l s r) -> forall l s r, phi_bck P a c b l s r = phi_bck P' a c b l s r.
Proof. intros H l s r. unfold phi_bck. do 5 (apply sum_n_ext; intros ? _). rewrite H. reflexivity. Qed.
Lemma phiF_ext (x : tt R) : forall (A : ttm R) (y : tt R) T T', (forall l s r, T l s r = T' l s r) -> forall l s r, phiF x A y T l s r = phiF x A y T' l s r.
Proof.
  induction x as [|a xs IH]; intros [|c As] [|b ys] T T' H l s r; cbn [phiF]; try apply H.
  apply IH. intros. apply phi_fwd_ext. exact H.
Qed.

Lemma phiF_sum (x : tt R) : forall (A : ttm R) (y : tt R) k (T : nat -> nat -> nat -> nat -> R) l s r,
  phiF x A y (fun l s r => sum_n k (fun n => T n l s r)) l s r = sum_n k (fun n => phiF x A y (T n) l s r).
Proof.
  induction x as [|a xs IH]; intros [|c As] [|b ys] k T l s r; cbn [phiF]; try reflexivity.
  rewrite <- IH. apply phiF_ext. intros. apply phi_fwd_sum.
Qed.
Lemma phiF_sum_idx ns : forall (x : tt R) (A : ttm R) (y : tt R) (T : list nat -> nat -> nat -> nat -> R) l s r,
  phiF x A y (fun l s r => sum_idx ns (fun js => T js l s r)) l s r = sum_idx ns (fun js => phiF x A y (T js) l s r).
Proof.
  induction ns as [|n t IH]; intros x A y T l s r; cbn [sum_idx]; [reflexivity|].
  rewrite (phiF_sum x A y n (fun j l s r => sum_idx t (fun js => T (j :: js) l s r))).
  apply sum_n_ext. intros j _. apply (IH x A y (fun js => T (j :: js))).
Qed.

Lemma phi_bck_sum_idx ns : forall (P : list nat -> nat -> nat -> nat -> R) a c b l s r,
  phi_bck (fun L S R' => sum_idx ns (fun js => P js L S R')) a c b l s r = sum_idx ns (fun js => phi_bck (P js) a c b l s r).
Proof.
  induction ns as [|n t IH]; intros P a c b l s r; cbn [sum_idx]; [reflexivity|].
  rewrite (phi_bck_sum n (fun j L S R' => sum_idx t (fun js => P (j :: js) L S R'))).
  apply sum_n_ext. intros j _. apply (IH (fun js => P (j :: js))).
Qed.

(* ---- the interface recursions of the operator-operator product are the sums over the column multi-index of those of the column slices ---- *)
Lemma phiF4_cols (x : ttm R) : forall (A B : ttm R) T l s r, length A = length x -> length B = length x ->
  phiF4 x A B T l s r = sum_idx (shapeN B) (fun js => phiF (cols x js) A (cols B js) T l s r).
Proof.
  induction x as [|y xs IH]; intros [|a As] [|b Bs] T l s r HA HB; simpl in HA, HB; try discriminate; [reflexivity|].
  cbn [phiF4 shapeN map sum_idx]. fold (shapeN Bs).
  rewrite (IH As Bs _ l s r) by lia.
  rewrite (sum_idx_ext (shapeN Bs) _ (fun jt => sum_n (nm b) (fun n => phiF (cols xs jt) As (cols Bs jt) (phi_fwd T (colcore y n) a (colcore b n)) l s r))).
  - rewrite sum_idx_sum_n_swap. apply sum_n_ext. intros n _. apply sum_idx_ext. intros jt _ _. reflexivity.
  - intros jt _ _. unfold phi_fwd4.
    apply (phiF_sum (cols xs jt) As (cols Bs jt) (nm b) (fun n => phi_fwd T (colcore y n) a (colcore b n))).
Qed.
Lemma phiB4_cols (x : ttm R) : forall (A B : ttm R) l s r, length A = length x -> length B = length x ->
  phiB4 x A B l s r = sum_idx (shapeN B) (fun js => phiB (cols x js) A (cols B js) l s r).
Proof.
  induction x as [|y xs IH]; intros [|a As] [|b Bs] l s r HA HB; simpl in HA, HB; try discriminate; [reflexivity|].
  cbn [phiB4 shapeN map sum_idx]. fold (shapeN Bs). unfold phi_bck4.
  apply sum_n_ext. intros n _.
  rewrite (phi_bck_ext (phiB4 xs As Bs) (fun L S R' => sum_idx (shapeN Bs) (fun jt => phiB (cols xs jt) As (cols Bs jt) L S R')))
    by (intros; apply IH; lia).
  rewrite (phi_bck_sum_idx (shapeN Bs) (fun jt => phiB (cols xs jt) As (cols Bs jt))).
  apply sum_idx_ext. intros jt _ _. reflexivity.
Qed.

(* ---- the local product is linear in each interface ---- *)
Lemma lp_extL (PL PL' PR : nat -> nat -> nat -> R) c g l m L : (forall l s r, PL l s r = PL' l s r) ->
  e3 (local_product PL c PR g) l m L = e3 (local_product PL' c PR g) l m L.
Proof. intros H. cbn [local_product e3]. unfold local_mat. do 3 (apply sum_n_ext; intros ? _). f_equal. do 2 (apply sum_n_ext; intros ? _). rewrite H. reflexivity. Qed.
Lemma lp_extR (PL PR PR' : nat -> nat -> nat -> R) c g l m L : (forall l s r, PR l s r = PR' l s r) ->
  e3 (local_product PL c PR g) l m L = e3 (local_product PL c PR' g) l m L.
Proof. intros H. cbn [local_product e3]. unfold local_mat. do 3 (apply sum_n_ext; intros ? _). f_equal. do 2 (apply sum_n_ext; intros ? _). rewrite H. reflexivity. Qed.

Lemma lp_sumL k (PL : nat -> nat -> nat -> nat -> R) c PR g l m L :
  e3 (local_product (fun l s r => sum_n k (fun j => PL j l s r)) c PR g) l m L = sum_n k (fun j => e3 (local_product (PL j) c PR g) l m L).
Proof.
  cbn [local_product e3]. unfold local_mat.
  transitivity (sum_n (r0 g) (fun r => sum_n k (fun j => sum_n (nm c) (fun n => sum_n (r1 g) (fun R' =>
     sum_n (q0 c) (fun s => sum_n (q1 c) (fun S => PL j l s r * e4 c s m n S * PR L S R')) * e3 g r n R'))))); [|apply sum_n_swap].
  apply sum_n_ext. intros r _.
  transitivity (sum_n (nm c) (fun n => sum_n k (fun j => sum_n (r1 g) (fun R' =>
     sum_n (q0 c) (fun s => sum_n (q1 c) (fun S => PL j l s r * e4 c s m n S * PR L S R')) * e3 g r n R')))); [|apply sum_n_swap].
  apply sum_n_ext. intros n _.
  transitivity (sum_n (r1 g) (fun R' => sum_n k (fun j =>
     sum_n (q0 c) (fun s => sum_n (q1 c) (fun S => PL j l s r * e4 c s m n S * PR L S R')) * e3 g r n R'))); [|apply sum_n_swap].
  apply sum_n_ext. intros R' _. rewrite sum_n_scal_r. f_equal.
  transitivity (sum_n (q0 c) (fun s => sum_n k (fun j => sum_n (q1 c) (fun S => PL j l s r * e4 c s m n S * PR L S R')))); [|apply sum_n_swap].
  apply sum_n_ext. intros s _.
  transitivity (sum_n (q1 c) (fun S => sum_n k (fun j => PL j l s r * e4 c s m n S * PR L S R'))); [|apply sum_n_swap].
  apply sum_n_ext. intros S _. rewrite <- !sum_n_scal_r. reflexivity.
Qed.
Lemma lp_sumR k PL c (PR : nat -> nat -> nat -> nat -> R) g l m L :
  e3 (local_product PL c (fun l s r => sum_n k (fun j => PR j l s r)) g) l m L = sum_n k (fun j => e3 (local_product PL c (PR j) g) l m L).
Proof.
  cbn [local_product e3]. unfold local_mat.
  transitivity (sum_n (r0 g) (fun r => sum_n k (fun j => sum_n (nm c) (fun n => sum_n (r1 g) (fun R' =>
     sum_n (q0 c) (fun s => sum_n (q1 c) (fun S => PL l s r * e4 c s m n S * PR j L S R')) * e3 g r n R'))))); [|apply sum_n_swap].
  apply sum_n_ext. intros r _.
  transitivity (sum_n (nm c) (fun n => sum_n k (fun j => sum_n (r1 g) (fun R' =>
     sum_n (q0 c) (fun s => sum_n (q1 c) (fun S => PL l s r * e4 c s m n S * PR j L S R')) * e3 g r n R')))); [|apply sum_n_swap].
  apply sum_n_ext. intros n _.
  transitivity (sum_n (r1 g) (fun R' => sum_n k (fun j =>
     sum_n (q0 c) (fun s => sum_n (q1 c) (fun S => PL l s r * e4 c s m n S * PR j L S R')) * e3 g r n R'))); [|apply sum_n_swap].
  apply sum_n_ext. intros R' _. rewrite sum_n_scal_r. f_equal.
  transitivity (sum_n (q0 c) (fun s => sum_n k (fun j => sum_n (q1 c) (fun S => PL l s r * e4 c s m n S * PR j L S R')))); [|apply sum_n_swap].
  apply sum_n_ext. intros s _.
  transitivity (sum_n (q1 c) (fun S => sum_n k (fun j => PL l s r * e4 c s m n S * PR j L S R'))); [|apply sum_n_swap].
  apply sum_n_ext. intros S _. rewrite <- sum_n_scal_l. reflexivity.
Qed.
Lemma lp_sumL_idx ns : forall (PL : list nat -> nat -> nat -> nat -> R) c PR g l m L,
  e3 (local_product (fun l s r => sum_idx ns (fun js => PL js l s r)) c PR g) l m L = sum_idx ns (fun js => e3 (local_product (PL js) c PR g) l m L).
Proof.
  induction ns as [|n t IH]; intros PL c PR g l m L; cbn [sum_idx]; [reflexivity|].
  rewrite (lp_sumL n (fun j l s r => sum_idx t (fun js => PL (j :: js) l s r))). apply sum_n_ext. intros j _. apply (IH (fun js => PL (j :: js))).
Qed.
Lemma lp_sumR_idx ns : forall PL c (PR : list nat -> nat -> nat -> nat -> R) g l m L,
  e3 (local_product PL c (fun l s r => sum_idx ns (fun js => PR js l s r)) g) l m L = sum_idx ns (fun js => e3 (local_product PL c (PR js) g) l m L).
Proof.
  induction ns as [|n t IH]; intros PL c PR g l m L; cbn [sum_idx]; [reflexivity|].
  rewrite (lp_sumR n PL c (fun j l s r => sum_idx t (fun js => PR (j :: js) l s r))). apply sum_n_ext. intros j _. apply (IH PL c (fun js => PR (j :: js))).
Qed.

(* ---- column slices ---- *)
Lemma cols_length (x : ttm R) : forall js, length js = length x -> length (cols x js) = length x.
Proof. induction x as [|c ct IH]; intros [|j jt] H; simpl in *; try discriminate; auto. Qed.
Lemma cols_chained (x : ttm R) : forall js r, length js = length x -> chained4 r x -> chained r (cols x js).
Proof.
  induction x as [|c ct IH]; intros [|j jt] r H Hc; simpl in H; try discriminate; [exact Hc|].
  cbn [cols chained]. destruct Hc as [H0 Hc]. split; [exact H0|]. apply IH; [lia|exact Hc].
Qed.
Lemma cols_app (x1 : ttm R) : forall js1 c x2 j js2, length js1 = length x1 ->
  cols (x1 ++ c :: x2) (js1 ++ j :: js2) = cols x1 js1 ++ colcore c j :: cols x2 js2.
Proof. induction x1 as [|a t IH]; intros [|j1 jt] c x2 j js2 H; simpl in H; try discriminate; [reflexivity|]. cbn [app cols]. rewrite IH by lia. reflexivity. Qed.
Lemma slices_cols (x : ttm R) : forall is_ js, length js = length x -> slices (cols x js) is_ = slices4 x is_ js.
Proof.
  induction x as [|c ct IH]; intros [|i it] [|j jt] H; simpl in H; try discriminate; try reflexivity.
  cbn [cols slices slices4 colcore r1 e3]. rewrite IH by lia. reflexivity.
Qed.
Lemma entry4_cols (x : ttm R) is_ js : length js = length x -> entry4 x is_ js = entry (cols x js) is_.
Proof. intros H. unfold entry4, entry. rewrite slices_cols by exact H. reflexivity. Qed.

Definition unit4 (ra M N rb r m n R0 : nat) : core4 R := mk4 ra M N rb (fun p i j q => delta r p * delta m i * delta n j * delta R0 q).

(* THE LOCAL STEP OF amen_mm IS THE PROJECTED DENSE PRODUCT: entry (r, m, n, R) of local_AB with the interfaces of (X, A, B) is the inner product of the
   frame element of X (unit core (r, m, R) at position k, column index n there) with the dense product A B, column multi-index by column multi-index *)
Theorem local_AB_galerkin (Xpre Xpost Apre Apost Bpre Bpost : ttm R) (ck bk : core4 R) ra rb r m n R0 :
  length Apre = length Xpre -> length Bpre = length Xpre -> length Apost = length Xpost -> length Bpost = length Xpost ->
  (r < ra)%nat -> (R0 < rb)%nat -> (m < mm ck)%nat -> (n < nm bk)%nat -> mm bk = nm ck ->
  wf4 (Xpre ++ unit4 ra (mm ck) (nm bk) rb r m n R0 :: Xpost) -> wf4 (Apre ++ ck :: Apost) -> wf4 (Bpre ++ bk :: Bpost) ->
  e4 (local_AB (phiF4 Xpre Apre Bpre ones3) ck bk (phiB4 Xpost Apost Bpost) ra rb) r m n R0
  = sum_idx (shapeN Bpre) (fun js1 => sum_idx (shapeN Bpost) (fun js2 =>
      sum_idx (shapeM (Apre ++ ck :: Apost)) (fun is_ => sum_idx (shapeN (Apre ++ ck :: Apost)) (fun ks =>
        rconj (entry (cols Xpre js1 ++ unit3 ra (mm ck) rb r m R0 :: cols Xpost js2) is_) * entry4 (Apre ++ ck :: Apost) is_ ks
        * entry4 (Bpre ++ bk :: Bpost) ks (js1 ++ n :: js2))))).
Proof.
  intros HA1 HB1 HA2 HB2 Hr HR Hm Hn Hk WX WA WB.
  cbn [local_AB e4].
  rewrite (lp_extL _ (fun l s r0_ => sum_idx (shapeN Bpre) (fun js => phiF (cols Xpre js) Apre (cols Bpre js) ones3 l s r0_)))
    by (intros; apply phiF4_cols; lia).
  rewrite (lp_extR _ _ (fun l s r0_ => sum_idx (shapeN Bpost) (fun js => phiB (cols Xpost js) Apost (cols Bpost js) l s r0_)))
    by (intros; apply phiB4_cols; lia).
  rewrite (lp_sumL_idx (shapeN Bpre) (fun js l s r0_ => phiF (cols Xpre js) Apre (cols Bpre js) ones3 l s r0_)).
  apply sum_idx_ext. intros js1 Hl1 _. unfold shapeN in Hl1. rewrite map_length in Hl1.
  rewrite (lp_sumR_idx (shapeN Bpost) _ ck (fun js l s r0_ => phiB (cols Xpost js) Apost (cols Bpost js) l s r0_)).
  apply sum_idx_ext. intros js2 Hl2 _. unfold shapeN in Hl2. rewrite map_length in Hl2.
  assert (Lx1 : length (cols Xpre js1) = length Xpre) by (apply cols_length; lia).
  assert (Lx2 : length (cols Xpost js2) = length Xpost) by (apply cols_length; lia).
  assert (Lb1 : length (cols Bpre js1) = length Xpre) by (rewrite cols_length; lia).
  assert (Lb2 : length (cols Bpost js2) = length Xpost) by (rewrite cols_length; lia).
  rewrite (local_product_galerkin (cols Xpre js1) (cols Xpost js2) (cols Bpre js1) (cols Bpost js2) Apre Apost ck (colcore bk n) ra rb r m R0);
    try lia; try assumption.
  - apply sum_idx_ext. intros is_ _ _. apply sum_idx_ext. intros ks _ _.
    rewrite (entry4_cols (Bpre ++ bk :: Bpost) ks (js1 ++ n :: js2)) by (rewrite !app_length; simpl; lia).
    rewrite (cols_app Bpre js1 bk Bpost n js2) by lia. reflexivity.
  - (* the frame element is well formed *)
    destruct WX as [_ Hc]. split; [destruct (cols Xpre js1); discriminate|].
    apply (chained_mid (cols Xpre js1) 1%nat (colcore (unit4 ra (mm ck) (nm bk) rb r m n R0) n) (unit3 ra (mm ck) rb r m R0)); [reflexivity|reflexivity|].
    rewrite <- (cols_app Xpre js1 _ Xpost n js2) by lia.
    apply cols_chained; [rewrite !app_length; simpl; lia|exact Hc].
  - destruct WB as [_ Hc]. split; [destruct (cols Bpre js1); discriminate|].
    rewrite <- (cols_app Bpre js1 bk Bpost n js2) by lia.
    apply cols_chained; [rewrite !app_length; simpl; lia|exact Hc].
Qed.

End AmenMMP.
