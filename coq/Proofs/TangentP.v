(* What the block train of _delta2cores represents (C16): entry by entry, the tangent train built from the deltas is the sum over the
   positions k of the train  l_0 .. l_{k-1}  delta_k  r_{k+1} .. r_{d-1}  - for every order >= 2, all mode sizes and rank profiles. *)
From Coq Require Import List Arith Lia Ring Bool.
From TT Require Import RingSig SumN Mat Dense Core CoreP Arith ArithP Tangent.
Import ListNotations.

Section TangentP.
Context {R : Type} {RO : RingOps R} {RL : RingLaws R}.
Add Ring Rr40 : Rth.
Open Scope R_scope.

Arguments chainM : simpl never.

Lemma tcompat_lengths (l : tt R) : forall r s, tcompat l r s -> length r = length l /\ length s = length l.
Proof.
  induction l as [|lc lt IH]; intros [|rc rt] [|sc st] H; simpl in H; try contradiction; [split; reflexivity|].
  destruct H as [_ [_ H]]. destruct (IH rt st H). simpl. split; lia.
Qed.

Lemma tail_cores_cons (lc l2 rc rn sc s2 : core3 R) lt' rt' st' :
  tail_cores (lc :: l2 :: lt') (rc :: rn :: rt') (sc :: s2 :: st') = tcore_mid rc sc lc :: tail_cores (l2 :: lt') (rn :: rt') (s2 :: st').
Proof. reflexivity. Qed.

(* the suffix of the block train, read from a row of the upper block (the r cores) or of the lower block (delta now or later) *)
Lemma tail_inv (l : tt R) : forall r s idx, tcompat l r s -> length idx = length l -> l <> [] ->
  (forall p, (p < r0 (hd dflt3 r))%nat ->
      chainM (slices (tail_cores l r s) idx) p 0%nat = chainM (slices r idx) p 0%nat) /\
  (forall p, chainM (slices (tail_cores l r s) idx) (r0 (hd dflt3 r) + p)%nat 0%nat = tsum l r s idx p).
Proof.
  induction l as [|lc lt IH]; intros r s idx Hc Hl Hne; [congruence|].
  destruct r as [|rc rt]; [simpl in Hc; destruct s; contradiction|].
  destruct s as [|sc st]; [simpl in Hc; contradiction|].
  destruct idx as [|i it]; [discriminate|]. simpl in Hl.
  cbn [tcompat] in Hc. destruct Hc as [Hs1 [Hnext Hc']]. cbn [hd].
  destruct lt as [|l2 lt'].
  - (* last core *)
    destruct rt as [|? ?]; [|simpl in Hc'; destruct st; contradiction].
    destruct st as [|? ?]; [|simpl in Hc'; contradiction].
    destruct it; [|discriminate].
    cbn [tail_cores slices tcore_last r1 e3 tsum]. split.
    + intros p Hp. rewrite !chainM_cons. apply sum_n_ext. intros q _.
      destruct (Nat.ltb_spec p (r0 rc)); [reflexivity|lia].
    + intros p. rewrite !chainM_cons. rewrite Hs1.
      rewrite (sum_n_ext (r1 rc) _ (fun q => e3 sc p i q * chainM [] q 0%nat)).
      * ring.
      * intros q _. destruct (Nat.ltb_spec (r0 rc + p) (r0 rc)); [lia|]. replace (r0 rc + p - r0 rc)%nat with p by lia. reflexivity.
  - (* interior core *)
    destruct rt as [|rn rt']; [simpl in Hc'; destruct st; contradiction|].
    destruct st as [|s2 st']; [simpl in Hc'; contradiction|].
    destruct Hnext as [Hr Hlr].
    destruct (IH (rn :: rt') (s2 :: st') it Hc' ltac:(lia) ltac:(discriminate)) as [IHa IHb]. cbn [hd] in IHa, IHb.
    rewrite tail_cores_cons. set (T := tail_cores (l2 :: lt') (rn :: rt') (s2 :: st')) in *.
    change (slices (tcore_mid rc sc lc :: T) (i :: it)) with
      ((r1 (tcore_mid rc sc lc), fun a b => e3 (tcore_mid rc sc lc) a i b) :: slices T it).
    cbn [tcore_mid r1 e3]. split.
    + intros p Hp. rewrite chainM_cons. rewrite sum_n_app.
      rewrite (sum_n_ext (r1 rc) _ (fun q => e3 rc p i q * chainM (slices (rn :: rt') it) q 0%nat)).
      2:{ intros q Hq. destruct (Nat.ltb_spec p (r0 rc)); [|lia]. destruct (Nat.ltb_spec q (r1 rc)); [|lia].
          rewrite IHa by lia. reflexivity. }
      rewrite (sum_n_zero' (r1 rc) (fun j => _ * chainM (slices T it) (r1 rc + j)%nat 0%nat)).
      2:{ intros q Hq. destruct (Nat.ltb_spec p (r0 rc)); [|lia]. destruct (Nat.ltb_spec (r1 rc + q) (r1 rc)); [lia|]. ring. }
      change (slices (rc :: rn :: rt') (i :: it)) with ((r1 rc, fun a b => e3 rc a i b) :: slices (rn :: rt') it).
      rewrite chainM_cons. ring.
    + intros p. rewrite chainM_cons. rewrite sum_n_app.
      rewrite (sum_n_ext (r1 rc) _ (fun q => e3 sc p i q * chainM (slices (rn :: rt') it) q 0%nat)).
      2:{ intros q Hq. destruct (Nat.ltb_spec (r0 rc + p) (r0 rc)); [lia|]. replace (r0 rc + p - r0 rc)%nat with p by lia.
          destruct (Nat.ltb_spec q (r1 sc)); [|lia]. rewrite IHa by lia. reflexivity. }
      rewrite (sum_n_ext (r1 rc) (fun j => _ * chainM (slices T it) (r1 rc + j)%nat 0%nat) (fun q => e3 lc p i q * tsum (l2 :: lt') (rn :: rt') (s2 :: st') it q)).
      2:{ intros q Hq. destruct (Nat.ltb_spec (r0 rc + p) (r0 rc)); [lia|]. replace (r0 rc + p - r0 rc)%nat with p by lia.
          destruct (Nat.ltb_spec (r1 rc + q) (r1 sc)); [lia|]. replace (r1 rc + q - r1 sc)%nat with q by lia.
          rewrite Hr. rewrite IHb. reflexivity. }
      cbn [tsum]. rewrite chainM_cons. rewrite Hs1. replace (r1 lc) with (r1 rc) by lia. reflexivity.
Qed.

(* THE BLOCK STRUCTURE: the train returned by _delta2cores *)
Theorem tangent_entry (l r s : tt R) idx : tcompat l r s -> length idx = length l -> (2 <= length l)%nat ->
  entry (tangent l r s) idx = tsum l r s idx 0%nat.
Proof.
  intros Hc Hl Hd.
  destruct l as [|lc lt]; [simpl in Hd; lia|]. destruct lt as [|l2 lt']; [simpl in Hd; lia|].
  destruct r as [|rc rt]; [simpl in Hc; destruct s; contradiction|].
  destruct s as [|sc st]; [simpl in Hc; contradiction|].
  destruct idx as [|i it]; [discriminate|]. simpl in Hl.
  cbn [tcompat] in Hc. destruct Hc as [Hs1 [Hnext Hc']].
  destruct rt as [|rn rt']; [simpl in Hc'; destruct st; contradiction|].
  destruct st as [|s2 st']; [simpl in Hc'; contradiction|].
  destruct Hnext as [Hr Hlr].
  destruct (tail_inv (l2 :: lt') (rn :: rt') (s2 :: st') it Hc' ltac:(simpl; lia) ltac:(discriminate)) as [IHa IHb]. cbn [hd] in IHa, IHb.
  unfold entry. cbn [tangent]. set (T := tail_cores (l2 :: lt') (rn :: rt') (s2 :: st')) in *.
  change (slices (tcore_first sc lc :: T) (i :: it)) with
    ((r1 (tcore_first sc lc), fun a b => e3 (tcore_first sc lc) a i b) :: slices T it).
  cbn [tcore_first r1 e3]. rewrite chainM_cons. rewrite sum_n_app.
  rewrite (sum_n_ext (r1 sc) _ (fun q => e3 sc 0%nat i q * chainM (slices (rn :: rt') it) q 0%nat)).
  2:{ intros q Hq. destruct (Nat.ltb_spec q (r1 sc)); [|lia]. rewrite IHa by lia. reflexivity. }
  rewrite (sum_n_ext (r1 lc) (fun j => _ * chainM (slices T it) (r1 sc + j)%nat 0%nat) (fun q => e3 lc 0%nat i q * tsum (l2 :: lt') (rn :: rt') (s2 :: st') it q)).
  2:{ intros q Hq. destruct (Nat.ltb_spec (r1 sc + q) (r1 sc)); [lia|]. replace (r1 sc + q - r1 sc)%nat with q by lia.
      replace (r1 sc) with (r0 rn) by lia. rewrite IHb. reflexivity. }
  cbn [tsum]. rewrite chainM_cons. reflexivity.
Qed.

(* ... and tsum is the sum over the position of the varied core *)
Lemma sum_n_S_first n (f : nat -> R) : sum_n (S n) f = f 0%nat + sum_n n (fun k => f (S k)).
Proof. change (S n) with (1 + n)%nat. rewrite sum_n_app. rewrite sum_n_1. reflexivity. Qed.

Lemma tsum_terms (l : tt R) : forall r s idx p, length r = length l -> length s = length l -> length idx = length l ->
  tsum l r s idx p = sum_n (length l) (fun k => tterm l r s idx k p 0%nat).
Proof.
  induction l as [|lc lt IH]; intros r s idx p Hr Hs Hi; [reflexivity|].
  destruct r as [|rc rt]; [discriminate|]. destruct s as [|sc st]; [discriminate|]. destruct idx as [|i it]; [discriminate|].
  simpl in Hr, Hs, Hi. cbn [length]. rewrite sum_n_S_first. cbn [tsum]. f_equal.
  rewrite (sum_n_ext (length lt) _ (fun k => sum_n (r1 lc) (fun q => e3 lc p i q * tterm lt rt st it k q 0%nat))).
  2:{ intros k _. unfold tterm. cbn [firstn nth skipn slices app]. rewrite chainM_cons. reflexivity. }
  rewrite sum_n_swap.
  destruct lt as [|l2 lt'].
  - simpl. rewrite sum_n_zero. reflexivity.
  - apply sum_n_ext. intros q _. rewrite sum_n_scal_l. rewrite (IH rt st it q) by lia. reflexivity.
Qed.

Theorem tangent_entry_sum (l r s : tt R) idx : tcompat l r s -> length idx = length l -> (2 <= length l)%nat ->
  entry (tangent l r s) idx = sum_n (length l) (fun k => tterm l r s idx k 0%nat 0%nat).
Proof.
  intros Hc Hl Hd. rewrite (tangent_entry l r s idx Hc Hl Hd). destruct (tcompat_lengths l r s Hc) as [H1 H2].
  apply tsum_terms; assumption.
Qed.

End TangentP.

(* ---- the gauge of the deltas: for k < d-1 the delta is orthogonal to the (orthonormal) left unfolding of l_k - the defining condition
   of the tangent-space parametrisation, which is what makes the representation unique and the map a projection ---- *)
Section Gauge.
Context {R : Type} {RO : RingOps R} {RL : RingLaws R}.
Add Ring Rr41 : Rth.
Open Scope R_scope.

(* l^T l = I on the left unfolding (the code is real: einsum without conjugation) *)
Definition orthT (l : core3 R) : Prop := forall a b, (a < r1 l)%nat -> (b < r1 l)%nat ->
  sum_n (r0 l) (fun r => sum_n (nn l) (fun i => e3 l r i a * e3 l r i b)) = delta a b.

Lemma pl_step_alt (L : mat R) (l z : core3 R) q S :
  pl_step L l z q S = sum_n (r0 l) (fun r => sum_n (nn l) (fun i => e3 l r i q * sum_n (r0 z) (fun s => L r s * e3 z s i S))).
Proof.
  unfold pl_step. apply sum_n_ext. intros r _. rewrite sum_n_swap. apply sum_n_ext. intros i _.
  rewrite <- sum_n_scal_l. apply sum_n_ext. intros s _. ring.
Qed.

Lemma sum2_scal n m (c : nat -> R) (g : nat -> nat -> R) :
  sum_n n (fun i => c i * sum_n m (fun S => g i S)) = sum_n m (fun S => sum_n n (fun i => c i * g i S)).
Proof.
  rewrite (sum_n_ext n _ (fun i => sum_n m (fun S => c i * g i S))) by (intros i _; rewrite sum_n_scal_l; reflexivity).
  apply sum_n_swap.
Qed.

Theorem delta_mid_gauge (L : mat R) (l z : core3 R) (Rm : mat R) a p : orthT l -> nn z = nn l -> (a < r1 l)%nat ->
  sum_n (r0 l) (fun r => sum_n (nn l) (fun i => e3 l r i a * e3 (delta_mid L l z Rm) r i p)) = 0.
Proof.
  intros Ho Hn Ha. unfold delta_mid. cbn [e3].
  set (t1 := fun r i S => sum_n (r0 z) (fun s => L r s * e3 z s i S)).
  set (G := pl_step L l z).
  set (h := fun r i S => t1 r i S - sum_n (r1 l) (fun q => e3 l r i q * G q S)).
  change (sum_n (r0 l) (fun r => sum_n (nn l) (fun i => e3 l r i a * sum_n (r1 z) (fun S => h r i S * Rm p S))) = 0).
  (* the sum over S goes outside *)
  rewrite (sum_n_ext (r0 l) _ (fun r => sum_n (r1 z) (fun S => sum_n (nn l) (fun i => e3 l r i a * (h r i S * Rm p S)))))
    by (intros r _; apply sum2_scal).
  rewrite sum_n_swap. apply sum_n_zero'. intros S _.
  rewrite (sum_n_ext (r0 l) _ (fun r => sum_n (nn l) (fun i => e3 l r i a * h r i S) * Rm p S)).
  2:{ intros r _. rewrite <- sum_n_scal_r. apply sum_n_ext. intros i _. ring. }
  rewrite sum_n_scal_r.
  assert (H0 : sum_n (r0 l) (fun r => sum_n (nn l) (fun i => e3 l r i a * h r i S)) = 0).
  { unfold h.
    rewrite (sum_n_ext (r0 l) _ (fun r => sum_n (nn l) (fun i => e3 l r i a * t1 r i S)
                                       - sum_n (r1 l) (fun q => sum_n (nn l) (fun i => e3 l r i a * e3 l r i q) * G q S))).
    2:{ intros r _.
        rewrite (sum_n_ext (nn l) _ (fun i => e3 l r i a * t1 r i S - e3 l r i a * sum_n (r1 l) (fun q => e3 l r i q * G q S)))
          by (intros i _; ring).
        rewrite sum_n_sub. f_equal. rewrite sum2_scal. apply sum_n_ext. intros q _.
        rewrite <- sum_n_scal_r. apply sum_n_ext. intros i _. ring. }
    rewrite sum_n_sub.
    replace (sum_n (r0 l) (fun r => sum_n (nn l) (fun i => e3 l r i a * t1 r i S))) with (G a S)
      by (unfold G, t1; apply pl_step_alt).
    rewrite sum_n_swap.
    rewrite (sum_n_ext (r1 l) _ (fun q => delta a q * G q S)).
    2:{ intros q Hq. rewrite sum_n_scal_r. rewrite (Ho a q Ha Hq). reflexivity. }
    rewrite sum_n_delta_l by exact Ha. ring. }
  rewrite H0. ring.
Qed.
End Gauge.
