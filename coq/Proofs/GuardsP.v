(* Proofs about the guard prefix of the modelled dispatch (Model/Expr.v, Model/Meta.v): incompatible operands are
   answered with an error value, never with a TT object or a number (C18). *)
From Coq Require Import List Arith Lia Bool.
From TT Require Import RingSig SumN Mat Dense Core Arith MatOps Reduce Struct Index Meta Expr.
Import ListNotations.

Section GuardsP.
Context {R : Type} {RO : RingOps R}.

Definition is_err (v : val R) : Prop := exists e, v = VErr e.

(* + - * on two TT tensors whose shapes are neither equal nor broadcastable (trailing alignment, size-1 expansion) *)
Theorem tt_binop_rejects (plain bc : tt R -> tt R -> tt R) x y :
  eqb_ln (shape x) (shape y) = false -> bcast_ok (shape x) y = false -> tt_binop plain bc x y = VErr EShape.
Proof.
  intros H1 H2. unfold tt_binop. rewrite H1. destruct (length x <? length y)%nat; [reflexivity|]. rewrite H2. reflexivity.
Qed.
(* + - * on two TT matrices: row and column modes must be equal *)
Theorem ttm_binop_rejects (f : ttm R -> ttm R -> ttm R) x y :
  eqb_ln (shapeM x) (shapeM y) && eqb_ln (shapeN x) (shapeN y) = false -> ttm_binop f x y = VErr EShape.
Proof. intros H. unfold ttm_binop. rewrite H. reflexivity. Qed.
(* a TT tensor combined with a TT matrix *)
Theorem kind_mismatch_rejects (x : tt R) (A : ttm R) ia :
  apply_op OAdd [VT x; VM A] ia = VErr ETypes /\ apply_op OAdd [VM A; VT x] ia = VErr ETypes /\
  apply_op OSub [VT x; VM A] ia = VErr ETypes /\ apply_op OSub [VM A; VT x] ia = VErr ETypes /\
  apply_op OMul [VT x; VM A] ia = VErr ETypes /\ apply_op OMul [VM A; VT x] ia = VErr ETypes.
Proof. repeat split; reflexivity. Qed.
(* @ : inner modes must agree in each of the four branches; TT @ TT is not defined *)
Theorem matmul_rejects (A B : ttm R) (x y : tt R) (X : dense R) :
  (eqb_ln (shapeN A) (shape x) = false -> matmul_dispatch (VM A) (VT x) = VErr EShape) /\
  (eqb_ln (shapeN A) (shapeM B) = false -> matmul_dispatch (VM A) (VM B) = VErr EShape) /\
  (eqb_ln (shape x) (shapeM A) = false -> matmul_dispatch (VT x) (VM A) = VErr EShape) /\
  ((length A <=? length (dshape X))%nat && eqb_ln (shapeN A) (skipn (length (dshape X) - length A) (dshape X)) = false ->
     matmul_dispatch (VM A) (VD X) = VErr EShape) /\
  matmul_dispatch (VT x) (VT y) = VErr EArgs.
Proof.
  repeat split; try reflexivity; intros H; unfold matmul_dispatch; rewrite H; reflexivity.
Qed.
(* the TT layer: an input whose trailing dimensions are not size_in is refused; otherwise the call is the modelled forward (C20) *)
Theorem forward_rejects (W : ttm R) (bias X : dense R) ia :
  (length W <=? length (dshape X))%nat && eqb_ln (shapeN W) (skipn (length (dshape X) - length W) (dshape X)) = false ->
  apply_op OForward [VM W; VD bias; VD X] ia = VErr EShape.
Proof. intros H. unfold apply_op, forward_call. rewrite H. reflexivity. Qed.
Theorem forward_accepts (W : ttm R) (bias X : dense R) ia :
  (length W <=? length (dshape X))%nat && eqb_ln (shapeN W) (skipn (length (dshape X) - length W) (dshape X)) = true ->
  apply_op OForward [VM W; VD bias; VD X] ia = VD (forward W bias X).
Proof. intros H. unfold apply_op, forward_call. rewrite H. reflexivity. Qed.
(* sum(index) with an axis outside 0..d-1 *)
Theorem sum_rejects (x : tt R) index : all_lt index (length x) = false -> apply_op OSum [VT x] [index] = VErr EArgs.
Proof. intros H. unfold apply_op. rewrite H. reflexivity. Qed.
Theorem sum_ttm_rejects (x : ttm R) index rest : all_lt index (length x) = false -> apply_op OSum [VM x] (index :: rest) = VErr EArgs.
Proof. intros H. unfold apply_op. rewrite H. reflexivity. Qed.
(* dot / bilinear_form *)
Theorem dot_rejects (a b : tt R) : eqb_ln (shape a) (shape b) = false -> apply_op ODot [VT a; VT b] [] = VErr EShape.
Proof. intros H. unfold apply_op. rewrite H. reflexivity. Qed.
Theorem dot_axis_rejects (a b : tt R) axis : (length a <? length b)%nat = true -> apply_op ODot [VT a; VT b] [axis] = VErr EShape.
Proof. intros H. unfold apply_op. rewrite H. reflexivity. Qed.
Theorem bilinear_rejects (x y : tt R) (A : ttm R) ia :
  eqb_ln (shape x) (shapeM A) && eqb_ln (shape y) (shapeN A) = false -> apply_op OBilinear [VT x; VM A; VT y] ia = VErr EShape.
Proof. intros H. unfold apply_op. rewrite H. reflexivity. Qed.
(* pad with more paddings than modes *)
Theorem pad_rejects (x : tt R) k v hd_ pds : (length x <? length pds)%nat = true ->
  apply_op OPad [VT x; VS k v] (hd_ :: pds) = VErr EArgs.
Proof. intros H. unfold apply_op. cbn [tl]. rewrite map_length, H. reflexivity. Qed.

(* cat: axis out of range, an operand of another order, or mode sizes differing off the axis *)
Theorem cat_rejects (x : tt R) (l : list (tt R)) dim :
  (dim <? length x)%nat && forallb (fun t => Nat.eqb (length t) (length x) && eqb_ln (upd dim 0 (shape t)) (upd dim 0 (shape x))) l = false ->
  apply_op OCat (VT x :: map (@VT R) l) [[dim]] = VErr EArgs.
Proof.
  intros H. unfold apply_op.
  assert (E : fold_right (fun v acc => match v, acc with VT t, Some l0 => Some (t :: l0) | _, _ => None end) (Some []) (map (@VT R) l) = Some l).
  { clear. induction l as [|t l IH]; cbn [map fold_right]; [reflexivity|]. rewrite IH. reflexivity. }
  rewrite E, H. reflexivity.
Qed.
(* pad of a TT matrix with more paddings than modes *)
Theorem pad_ttm_rejects (x : ttm R) k v hd_ pds : (length x <? length pds)%nat = true ->
  apply_op OPad [VM x; VS k v] (hd_ :: pds) = VErr EArgs.
Proof. intros H. unfold apply_op. cbn [tl]. rewrite map_length, H. reflexivity. Qed.
(* .t() of a TT tensor *)
Theorem transpose_tt_rejects (x : tt R) ia : apply_op OTr [VT x] ia = VErr EArgs.
Proof. reflexivity. Qed.
(* x * t for a torch tensor t with more than one dimension-less element (only 0-d / one-element tensors are scalars) *)
Theorem mul_tensor_rejects (x : tt R) (t : dense R) ia : dshape t <> [] ->
  apply_op OMul [VT x; VD t] ia = VErr EArgs /\ apply_op ORMul [VT x; VD t] ia = VErr EArgs.
Proof. intros H. unfold apply_op. destruct (dshape t); [congruence|]. split; reflexivity. Qed.
(* dot with a TT matrix operand is not implemented *)
Theorem dot_ttm_rejects (A : ttm R) (v : val R) ia :
  apply_op ODot [VM A; v] ia = VErr ENotImpl /\ (forall x : tt R, apply_op ODot [VT x; VM A] ia = VErr ENotImpl).
Proof. split; [destruct v; reflexivity|intros x; reflexivity]. Qed.
(* indexing: two Ellipsis; an int or slice given bare to a tensor of order > 1; a bare None *)
Theorem getitem_rejects (x : tt R) ix :
  ((1 <? length (filter is_ell ix))%nat = true -> getitem_tuple x ix = GE ENotImpl) /\
  (forall c1 c2 t it, x = c1 :: c2 :: t -> it <> IEll -> getitem_single x it = GE EArgs).
Proof.
  split.
  - intros H. unfold getitem_tuple. rewrite H. reflexivity.
  - intros c1 c2 t it Hx Hit. subst x. destruct it; try reflexivity. congruence.
Qed.

End GuardsP.

(* the constructor from a core list: broken chaining, mixed 3-d / 4-d cores, boundary ranks other than 1, empty list *)
Theorem ctor_rejects cs :
  (map fst cs = [] -> ctor cs = inl EPyIndex) /\
  (forall c0 t, map fst cs = c0 :: t -> chain_ok (cs_left c0) (c0 :: t) = false -> ctor cs = inl ERank) /\
  (forall c0 t, map fst cs = c0 :: t -> chain_ok (cs_left c0) (c0 :: t) = true ->
     forallb is4 (c0 :: t) || forallb (fun c => negb (is4 c)) (c0 :: t) = false -> ctor cs = inl EArgs) /\
  (forall c0 t, map fst cs = c0 :: t -> chain_ok (cs_left c0) (c0 :: t) = true ->
     forallb is4 (c0 :: t) || forallb (fun c => negb (is4 c)) (c0 :: t) = true ->
     Nat.eqb (cs_left c0) 1 && Nat.eqb (last (map cs_right (c0 :: t)) 0) 1 = false -> ctor cs = inl EArgs).
Proof.
  unfold ctor. repeat split.
  - intros H. rewrite H. reflexivity.
  - intros c0 t H H1. rewrite H, H1. reflexivity.
  - intros c0 t H H1 H2. rewrite H, H1, H2. reflexivity.
  - intros c0 t H H1 H2 H3. rewrite H, H1, H2, H3. reflexivity.
Qed.
(* and whatever it accepts is well formed: no ill-formed object is ever returned (ctor_wf, C05) *)
