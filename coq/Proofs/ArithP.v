(* Proofs for Model/Arith.v: TT arithmetic = dense arithmetic, for every order, mode-size list,
   rank profile and entry values in any commutative ring. *)
From Coq Require Import List Arith Lia Ring Bool.
From TT Require Import RingSig SumN Mat Core CoreP Arith.
Import ListNotations.

Section ArithP.
Context {R : Type} {RO : RingOps R} {RL : RingLaws R}.
Add Ring Rr4 : Rth.
Open Scope R_scope.

Ltac ltb_tac :=
  repeat match goal with
  | |- context [(?a <? ?b)%nat] => destruct (Nat.ltb_spec a b); try lia
  | |- context [(?a <=? ?b)%nat] => destruct (Nat.leb_spec a b); try lia
  end; rewrite ?Nat.sub_0_r.

Arguments chainM : simpl never.

Lemma chainM_cons k A (t : list (sl R)) i j :
  chainM ((k, A) :: t) i j = sum_n k (fun l => A i l * chainM t l j).
Proof. reflexivity. Qed.

(* ---------- addition ---------- *)
Lemma add_rec_tail (x : tt R) : forall y idx ra rb,
  x <> [] -> length y = length x -> length idx = length x ->
  chained ra x -> chained rb y ->
  forall p, (p < ra + rb)%nat ->
  chainM (slices (add_rec false x y) idx) p O =
    if (p <? ra)%nat then chainM (slices x idx) p O else chainM (slices y idx) (p - ra)%nat O.
Proof.
  induction x as [|a xs IH]; intros y idx ra rb Hne Hly Hli Hcx Hcy p Hp; [congruence|].
  destruct y as [|b ys]; [discriminate|]. destruct idx as [|i is_]; [discriminate|].
  simpl in Hcx, Hcy. destruct Hcx as [Ha Hcx], Hcy as [Hb Hcy].
  destruct xs as [|a2 xs'].
  - destruct ys; [|discriminate]. destruct is_; [|discriminate].
    simpl in Hcx, Hcy. cbn [add_rec slices]. cbn [r1 add_core].
    rewrite Hcx, Hcy. rewrite !chainM_single by lia. cbn [e3 add_core].
    rewrite Ha, Hcx. ltb_tac; cbn [andb]; ring.
  - destruct ys as [|b2 ys']; [discriminate|].
    cbn [add_rec slices]. rewrite !chainM_cons. cbn [r1 add_core].
    change (add_core false (match xs' with [] => true | _ => false end) a2 b2 :: add_rec false xs' ys')
      with (add_rec false (a2 :: xs') (b2 :: ys')).
    destruct is_ as [|i2 is']; [discriminate|].
    rewrite (sum_n_ext _ _ (fun l => e3 (add_core false false a b) p i l *
        (if (l <? r1 a)%nat then chainM (slices (a2 :: xs') (i2 :: is')) l O
         else chainM (slices (b2 :: ys') (i2 :: is')) (l - r1 a)%nat O))).
    2:{ intros l Hl. f_equal. apply (IH (b2 :: ys') (i2 :: is') (r1 a) (r1 b)); simpl in *; try congruence; try lia; auto. }
    rewrite sum_n_app.
    rewrite (sum_n_ext (r1 a) _ (fun l => (if (p <? ra)%nat then e3 a p i l else 0)
                                          * chainM (slices (a2 :: xs') (i2 :: is')) l O)).
    2:{ intros l Hl. cbn [e3 add_core]. rewrite Ha. ltb_tac; cbn [andb]; ring. }
    rewrite (sum_n_ext (r1 b) _ (fun l => (if (p <? ra)%nat then 0 else e3 b (p - ra)%nat i l)
                                          * chainM (slices (b2 :: ys') (i2 :: is')) l O)).
    2:{ intros l Hl. cbn [e3 add_core]. rewrite Ha. replace (r1 a + l - r1 a)%nat with l by lia.
        ltb_tac; cbn [andb]; ring. }
    destruct (p <? ra)%nat.
    + rewrite (sum_n_zero' (r1 b)) by (intros; ring). cbn [slices]. ring.
    + rewrite (sum_n_zero' (r1 a)) by (intros; ring). cbn [slices]. ring.
Qed.

Theorem add_full (x y : tt R) idx :
  wf x -> wf y -> length y = length x -> length idx = length x ->
  entry (add x y) idx = entry x idx + entry y idx.
Proof.
  intros [Hnx Hcx] [Hny Hcy] Hlen Hli.
  destruct x as [|a xs]; [congruence|]. destruct y as [|b ys]; [congruence|].
  destruct idx as [|i is_]; [discriminate|].
  simpl in Hcx, Hcy. destruct Hcx as [Ha Hcx], Hcy as [Hb Hcy].
  unfold entry, add.
  destruct xs as [|a2 xs'].
  - destruct ys; [|discriminate]. destruct is_; [|discriminate].
    simpl in Hcx, Hcy. cbn [add_rec slices]. cbn [r1 add_core].
    rewrite Hcx, Hcy. rewrite !chainM_single by lia. cbn [e3 add_core].
    rewrite Ha, Hcx. cbn. ring.
  - destruct ys as [|b2 ys']; [discriminate|].
    cbn [add_rec slices]. rewrite !chainM_cons. cbn [r1 add_core].
    change (add_core false (match xs' with [] => true | _ => false end) a2 b2 :: add_rec false xs' ys')
      with (add_rec false (a2 :: xs') (b2 :: ys')).
    destruct is_ as [|i2 is']; [discriminate|].
    rewrite (sum_n_ext _ _ (fun l => e3 (add_core true false a b) O i l *
        (if (l <? r1 a)%nat then chainM (slices (a2 :: xs') (i2 :: is')) l O
         else chainM (slices (b2 :: ys') (i2 :: is')) (l - r1 a)%nat O))).
    2:{ intros l Hl. f_equal. apply (add_rec_tail (a2 :: xs') (b2 :: ys') (i2 :: is') (r1 a) (r1 b));
        simpl in *; try congruence; try lia; auto. }
    rewrite sum_n_app. f_equal.
    + apply sum_n_ext. intros l Hl. cbn [e3 add_core]. rewrite Ha. ltb_tac. cbn. ring.
    + apply sum_n_ext. intros l Hl. cbn [e3 add_core]. rewrite Ha. ltb_tac. cbn.
      replace (r1 a + l - r1 a)%nat with l by lia. ring.
Qed.

(* shapes and ranks of a sum *)
Lemma add_rec_length (x : tt R) : forall y f, length y = length x -> length (add_rec f x y) = length x.
Proof. induction x as [|a xs IH]; intros [|b ys] f H; simpl in *; try discriminate; auto. Qed.

Lemma add_rec_shape (x : tt R) : forall y f, length y = length x -> shape (add_rec f x y) = shape x.
Proof.
  induction x as [|a xs IH]; intros [|b ys] f H; simpl in *; try discriminate; auto.
  f_equal. apply IH. lia.
Qed.
Theorem add_shape (x y : tt R) : length y = length x -> shape (add x y) = shape x.
Proof. apply add_rec_shape. Qed.

Lemma add_rec_chained (x : tt R) : forall y ra rb (f : bool),
  length y = length x -> x <> [] -> chained ra x -> chained rb y ->
  chained (if f then 1%nat else (ra + rb)%nat) (add_rec f x y).
Proof.
  induction x as [|a xs IH]; intros [|b ys] ra rb f Hl Hne Hx Hy; simpl in *; try discriminate; try congruence.
  destruct Hx as [Ha Hx], Hy as [Hb Hy]. split.
  - destruct f; congruence.
  - destruct xs as [|a2 xs'].
    + destruct ys; [|discriminate]. simpl. reflexivity.
    + apply (IH ys (r1 a) (r1 b) false); auto. discriminate.
Qed.
Theorem add_wf (x y : tt R) : wf x -> wf y -> length y = length x -> wf (add x y).
Proof.
  intros [Hnx Hcx] [Hny Hcy] Hl. split.
  - destruct x, y; simpl in *; try congruence; discriminate.
  - apply (add_rec_chained x y 1%nat 1%nat true); auto.
Qed.

(* ---------- scaling / negating the first core ---------- *)
Theorem scal_first_full s (x : tt R) idx : x <> [] -> length idx = length x ->
  entry (scal_first s x) idx = s * entry x idx.
Proof.
  intros Hne Hl. destruct x as [|c cs]; [congruence|]. destruct idx as [|i is_]; [discriminate|].
  unfold entry. cbn [scal_first slices]. rewrite !chainM_cons. cbn [r1 scal_core e3].
  rewrite <- sum_n_scal_l. apply sum_n_ext. intros l _. ring.
Qed.

Theorem neg_full (x : tt R) idx : x <> [] -> length idx = length x ->
  entry (neg x) idx = - entry x idx.
Proof.
  intros Hne Hl. destruct x as [|c cs]; [congruence|]. destruct idx as [|i is_]; [discriminate|].
  unfold entry, neg. cbn [neg_first slices]. rewrite !chainM_cons. cbn [r1 neg_core e3].
  rewrite <- sum_n_opp. apply sum_n_ext. intros l _. ring.
Qed.

Lemma neg_first_wf (x : tt R) : wf x -> wf (neg_first x).
Proof. intros [Hn Hc]. destruct x as [|c cs]; [congruence|]. split; [discriminate|]. exact Hc. Qed.
Lemma neg_first_length (x : tt R) : length (neg_first x) = length x.
Proof. destruct x; reflexivity. Qed.
Lemma scal_first_wf s (x : tt R) : wf x -> wf (scal_first s x).
Proof. intros [Hn Hc]. destruct x as [|c cs]; [congruence|]. split; [discriminate|]. exact Hc. Qed.

Theorem sub_full (x y : tt R) idx :
  wf x -> wf y -> length y = length x -> length idx = length x ->
  entry (sub x y) idx = entry x idx - entry y idx.
Proof.
  intros Hx Hy Hl Hi. unfold sub.
  rewrite add_full; auto using neg_first_wf; [|rewrite neg_first_length; auto].
  change (neg_first y) with (neg y). rewrite neg_full; [ring| |congruence].
  destruct Hy; auto.
Qed.

(* ---------- constants and scalar operands ---------- *)
Lemma const_rec_chain s ns : forall idx, length idx = length ns ->
  chainM (slices (const_rec s ns) idx) O O = match ns with [] => 1 | _ => s end.
Proof.
  revert s. induction ns as [|n t IH]; intros s [|i is_] H; simpl in H; try discriminate.
  - reflexivity.
  - cbn [const_rec slices]. rewrite chainM_cons. cbn [r1 const_core e3]. rewrite sum_n_1.
    rewrite IH by lia. destruct t; ring.
Qed.
Theorem const_full s ns idx : ns <> [] -> length idx = length ns -> entry (const_tt s ns) idx = s.
Proof. intros Hne Hl. unfold entry, const_tt. rewrite const_rec_chain by auto. destruct ns; congruence. Qed.

Lemma const_rec_chained s ns : chained 1 (const_rec s ns).
Proof. revert s. induction ns; intros s; simpl; auto. Qed.
Lemma const_wf s ns : ns <> [] -> wf (const_tt s ns).
Proof. intros H. split; [destruct ns; [congruence|discriminate]|apply const_rec_chained]. Qed.
Lemma const_rec_length s ns : length (const_rec s ns) = length ns.
Proof. revert s. induction ns; intros; simpl; auto. Qed.

Theorem add_scalar_full (x : tt R) s idx : wf x -> length idx = length x ->
  entry (add_scalar x s) idx = entry x idx + s.
Proof.
  intros Hx Hl. unfold add_scalar.
  assert (Hs : shape x <> []) by (destruct Hx as [Hn _]; destruct x; [congruence|discriminate]).
  rewrite add_full; auto using const_wf.
  - rewrite const_full; auto. unfold shape. rewrite map_length. exact Hl.
  - unfold const_tt. rewrite const_rec_length. apply map_length.
Qed.
Theorem sub_scalar_full (x : tt R) s idx : wf x -> length idx = length x ->
  entry (sub_scalar x s) idx = entry x idx - s.
Proof.
  intros Hx Hl. unfold sub_scalar.
  assert (Hs : shape x <> []) by (destruct Hx as [Hn _]; destruct x; [congruence|discriminate]).
  rewrite add_full; auto using const_wf.
  - rewrite const_full; auto; [ring|]. unfold shape. rewrite map_length. exact Hl.
  - unfold const_tt. rewrite const_rec_length. apply map_length.
Qed.


(* ---------- broadcasting ---------- *)
Fixpoint bcast_idx_al (ns : list nat) (y : tt R) (idx : list nat) : list nat :=
  match ns, y, idx with
  | n :: nt, c :: ct, i :: it => (if Nat.eqb (nn c) n then i else O) :: bcast_idx_al nt ct it
  | _, _, _ => []
  end.
Definition bcast_idx (ns : list nat) (y : tt R) (idx : list nat) : list nat :=
  let k := (length ns - length y)%nat in bcast_idx_al (skipn k ns) y (skipn k idx).

Lemma expand_aligned_slices ns : forall (y : tt R) idx,
  length y = length ns -> length idx = length ns ->
  slices (expand_aligned ns y) idx = slices y (bcast_idx_al ns y idx).
Proof.
  induction ns as [|n nt IH]; intros [|c ct] [|i it] Hy Hi; simpl in *; try discriminate; auto.
  rewrite IH by lia. destruct (Nat.eqb (nn c) n); reflexivity.
Qed.

Lemma const_prefix_chain ns : forall (y : tt R) idx1 idx2, length idx1 = length ns ->
  chainM (slices (const_rec 1 ns ++ y) (idx1 ++ idx2)) O O = chainM (slices y idx2) O O.
Proof.
  induction ns as [|n t IH]; intros y [|i it] idx2 H; simpl in H; try discriminate.
  - reflexivity.
  - cbn [const_rec app slices]. rewrite chainM_cons. cbn [r1 const_core e3]. rewrite sum_n_1.
    rewrite IH by lia. ring.
Qed.

Lemma expand_aligned_chained ns : forall (y : tt R) r, length y = length ns ->
  chained r y -> chained r (expand_aligned ns y).
Proof.
  induction ns as [|n nt IH]; intros [|c ct] r Hl Hc; simpl in *; try discriminate; auto.
  destruct Hc as [H0 Hc]. destruct (Nat.eqb (nn c) n); simpl; split; auto.
Qed.
Lemma chained_app_const ns : forall (z : tt R), chained 1 z -> chained 1 (const_rec 1 ns ++ z).
Proof. induction ns; intros z Hz; simpl; auto. Qed.
Lemma expand_aligned_length ns : forall (y : tt R), length y = length ns -> length (expand_aligned ns y) = length ns.
Proof. induction ns; intros [|c ct] H; simpl in *; try discriminate; auto. Qed.

Lemma expand_length ns (y : tt R) : (length y <= length ns)%nat -> length (expand ns y) = length ns.
Proof.
  intros H. unfold expand, const_tt. rewrite app_length, const_rec_length, firstn_length.
  rewrite expand_aligned_length by (rewrite skipn_length; lia). rewrite skipn_length. lia.
Qed.
Lemma expand_wf ns (y : tt R) : wf y -> (length y <= length ns)%nat -> wf (expand ns y).
Proof.
  intros [Hn Hc] Hl. split.
  - intros E. apply (f_equal (@length _)) in E. rewrite expand_length in E by assumption.
    simpl in E. destruct y; [congruence|]. simpl in Hl. lia.
  - unfold expand, const_tt. apply chained_app_const. apply expand_aligned_chained; auto.
    rewrite skipn_length. lia.
Qed.

Theorem expand_full ns (y : tt R) idx : wf y -> (length y <= length ns)%nat -> length idx = length ns ->
  entry (expand ns y) idx = entry y (bcast_idx ns y idx).
Proof.
  intros Hy Hl Hi. unfold entry, expand, bcast_idx, const_tt.
  set (k := (length ns - length y)%nat).
  rewrite <- (firstn_skipn k idx) at 1.
  rewrite const_prefix_chain by (rewrite !firstn_length; lia).
  rewrite expand_aligned_slices; auto; rewrite !skipn_length; lia.
Qed.

Theorem add_bcast_full (x y : tt R) idx : wf x -> wf y -> bcast_ok (shape x) y = true ->
  length idx = length x ->
  entry (add_bcast x y) idx = entry x idx + entry y (bcast_idx (shape x) y idx).
Proof.
  intros Hx Hy Hb Hi. unfold add_bcast, bcast_ok in *. apply andb_true_iff in Hb. destruct Hb as [Hb _].
  apply Nat.leb_le in Hb. assert (Hs : length (shape x) = length x) by apply map_length.
  rewrite add_full; auto.
  - rewrite expand_full; auto; congruence.
  - apply expand_wf; auto.
  - rewrite expand_length; auto.
Qed.

Theorem sub_bcast_full (x y : tt R) idx : wf x -> wf y -> bcast_ok (shape x) y = true ->
  length idx = length x ->
  entry (sub_bcast x y) idx = entry x idx - entry y (bcast_idx (shape x) y idx).
Proof.
  intros Hx Hy Hb Hi. unfold sub_bcast, bcast_ok in *. apply andb_true_iff in Hb. destruct Hb as [Hb _].
  apply Nat.leb_le in Hb. assert (Hs : length (shape x) = length x) by apply map_length.
  assert (He : wf (expand (shape x) y)) by (apply expand_wf; auto).
  rewrite add_full; auto using neg_first_wf.
  - change (neg_first (expand (shape x) y)) with (neg (expand (shape x) y)).
    rewrite neg_full; [|destruct He; auto|rewrite expand_length; auto; congruence].
    rewrite expand_full; auto; [ring|congruence].
  - rewrite neg_first_length, expand_length; auto.
Qed.

Theorem rsub_scalar_full (x : tt R) s idx : wf x -> length idx = length x ->
  entry (rsub_scalar x s) idx = s - entry x idx.
Proof.
  intros Hx Hi. unfold rsub_scalar.
  assert (Hs : shape x <> []) by (destruct Hx as [Hn _]; destruct x; [congruence|discriminate]).
  assert (Hw : wf (sub_scalar x s)).
  { unfold sub_scalar. apply add_wf; auto using const_wf. unfold const_tt.
    rewrite const_rec_length. apply map_length. }
  change (neg_first (sub_scalar x s)) with (neg (sub_scalar x s)).
  rewrite neg_full; [|destruct Hw; auto|].
  - rewrite sub_scalar_full; auto. ring.
  - unfold sub_scalar, add. rewrite add_rec_length; auto. unfold const_tt. rewrite const_rec_length. apply map_length.
Qed.

(* ---------- elementwise product ---------- *)
Lemma mul_slices (x : tt R) : forall (y : tt R) idx rb, length y = length x -> length idx = length x ->
  chained rb y -> slices (mul x y) idx = kronL rb (slices x idx) (slices y idx).
Proof.
  induction x as [|a xs IH]; intros [|b ys] [|i it] rb Hy Hi Hc; simpl in *; try discriminate; auto.
  destruct Hc as [H0 Hc]. rewrite (IH ys it (r1 b)) by (auto; lia). subst rb. reflexivity.
Qed.

Theorem mul_full (x y : tt R) idx : wf x -> wf y -> length y = length x -> length idx = length x ->
  entry (mul x y) idx = entry x idx * entry y idx.
Proof.
  intros [Hnx Hcx] [Hny Hcy] Hl Hi. unfold entry.
  rewrite (mul_slices x y idx 1%nat) by auto.
  rewrite kronL_chain; [|rewrite !slices_length; congruence|lia].
  rewrite (chained_lastk y 1%nat idx) by (auto; congruence).
  unfold kron. reflexivity.
Qed.

Lemma mul_shape (x : tt R) : forall y : tt R, length y = length x -> shape (mul x y) = shape x.
Proof. induction x as [|a xs IH]; intros [|b ys] H; simpl in *; try discriminate; auto. f_equal. apply IH. lia. Qed.
Lemma mul_chained (x : tt R) : forall (y : tt R) ra rb, length y = length x ->
  chained ra x -> chained rb y -> chained (ra * rb) (mul x y).
Proof.
  induction x as [|a xs IH]; intros [|b ys] ra rb Hl Hx Hy; simpl in *; try discriminate.
  - subst. reflexivity.
  - destruct Hx as [Ha Hx], Hy as [Hb Hy]. split; [subst; reflexivity|]. apply IH; auto.
Qed.
Theorem mul_wf (x y : tt R) : wf x -> wf y -> length y = length x -> wf (mul x y).
Proof.
  intros [Hnx Hcx] [Hny Hcy] Hl. split.
  - destruct x, y; simpl in *; try congruence; discriminate.
  - apply (mul_chained x y 1%nat 1%nat); auto.
Qed.
(* ranks multiply *)
Theorem mul_ranks (x : tt R) : forall y : tt R, length y = length x ->
  map r1 (mul x y) = map (fun ab => (fst ab * snd ab)%nat) (combine (map r1 x) (map r1 y)).
Proof. induction x as [|a xs IH]; intros [|b ys] H; simpl in *; try discriminate; auto. f_equal. apply IH. lia. Qed.

Theorem mul_bcast_full (x y : tt R) idx : wf x -> wf y -> bcast_ok (shape x) y = true ->
  length idx = length x ->
  entry (mul_bcast x y) idx = entry x idx * entry y (bcast_idx (shape x) y idx).
Proof.
  intros Hx Hy Hb Hi. unfold mul_bcast, bcast_ok in *. apply andb_true_iff in Hb. destruct Hb as [Hb _].
  apply Nat.leb_le in Hb. assert (Hs : length (shape x) = length x) by apply map_length.
  rewrite mul_full; auto.
  - rewrite expand_full; auto; congruence.
  - apply expand_wf; auto.
  - rewrite expand_length; auto.
Qed.

(* ---------- scalar multiplication, zeros / ones ---------- *)
Lemma unit_chain (v : R) ns : forall idx, length idx = length ns ->
  chainM (slices (map (fun n => mk3 1 n 1 (fun _ _ _ => v)) ns) idx) O O =
  fold_right (fun _ acc => v * acc) 1 ns.
Proof.
  induction ns as [|n t IH]; intros [|i it] H; simpl in H; try discriminate.
  - reflexivity.
  - cbn [map slices fold_right]. rewrite chainM_cons. cbn [r1 e3]. rewrite sum_n_1. rewrite IH by lia. reflexivity.
Qed.
Theorem zeros_full ns idx : ns <> [] -> length idx = length ns -> entry (zeros_tt ns) idx = 0.
Proof.
  intros Hn Hl. unfold entry, zeros_tt. rewrite unit_chain by auto.
  destruct ns; [congruence|]. simpl. ring.
Qed.
Theorem ones_full ns idx : length idx = length ns -> entry (ones_tt ns) idx = 1.
Proof.
  intros Hl. unfold entry, ones_tt. rewrite unit_chain by auto.
  clear Hl. induction ns; simpl; [reflexivity|]. rewrite IHns. ring.
Qed.

Theorem mul_scalar_full (x : tt R) s idx : wf x -> length idx = length x ->
  entry (mul_scalar x s) idx = s * entry x idx.
Proof.
  intros [Hn Hc] Hl. unfold mul_scalar. destruct (reqb s 0) eqn:E.
  - apply reqb_eq in E. subst s. rewrite zeros_full.
    + ring.
    + destruct x; [congruence|discriminate].
    + unfold shape. rewrite map_length. exact Hl.
  - apply scal_first_full; auto.
Qed.

Theorem div_scalar_full (x : tt R) s sinv idx : x <> [] -> length idx = length x -> s * sinv = 1 ->
  s * entry (div_scalar x sinv) idx = entry x idx.
Proof.
  intros Hn Hl Hs. unfold div_scalar. rewrite scal_first_full by auto.
  transitivity ((s * sinv) * entry x idx); [ring|]. rewrite Hs. ring.
Qed.

(* ---------- Kronecker product x ** y ---------- *)
Lemma slices_app (x : tt R) : forall (y : tt R) i j, length i = length x ->
  slices (x ++ y) (i ++ j) = slices x i ++ slices y j.
Proof. induction x as [|c cs IH]; intros y [|a it] j H; simpl in *; try discriminate; auto. rewrite IH by lia. reflexivity. Qed.

Theorem kron_full (x y : tt R) i j : wf x -> length i = length x ->
  entry (kron_tt x y) (i ++ j) = entry x i * entry y j.
Proof.
  intros [Hn Hc] Hl. unfold entry, kron_tt. rewrite slices_app by auto.
  rewrite (chainM_app _ _ 1%nat) by lia. rewrite (chained_lastk x 1%nat i) by auto.
  unfold mmul. rewrite sum_n_1. reflexivity.
Qed.
Lemma chained_app (x : tt R) : forall (y : tt R) r, chained r x -> chained 1 y -> chained r (x ++ y).
Proof. induction x as [|c cs IH]; intros y r Hx Hy; simpl in *; [subst; auto|]. destruct Hx; split; auto. Qed.
Theorem kron_wf (x y : tt R) : wf x -> wf y -> wf (kron_tt x y).
Proof.
  intros [Hnx Hcx] [Hny Hcy]. split; [destruct x; [congruence|discriminate]|].
  apply chained_app; auto.
Qed.

(* ---------- rank-one tensors ---------- *)
Theorem rank1_full (vs : list (nat * (nat -> R))) : forall idx, length idx = length vs ->
  entry (rank1 vs) idx = fold_right (fun vi acc => snd (fst vi) (snd vi) * acc) 1 (combine vs idx).
Proof.
  unfold entry. induction vs as [|[n v] t IH]; intros [|i it] H; simpl in H; try discriminate.
  - reflexivity.
  - cbn [rank1 map slices combine fold_right fst snd]. rewrite chainM_cons. cbn [r1 vec_core e3]. rewrite sum_n_1.
    unfold rank1 in IH. rewrite IH by lia. reflexivity.
Qed.

End ArithP.
