(* C10: the swap schedule of permute terminates, performs exactly as many swaps as there are inversions, and ends with the modes
   in the requested order. *)
From Coq Require Import List Arith Lia Bool Permutation Sorted.
From TT Require Import Permute.
Import ListNotations.

Section SchedP.
Variable key : nat -> nat.

Lemma bpass_perm : forall l x pos, Permutation (x :: l) (fst (bpass key x l pos)).
Proof.
  induction l as [|y t IH]; intros x pos; cbn [bpass fst]; [apply Permutation_refl|].
  destruct (Nat.ltb (key y) (key x)).
  - specialize (IH x (S pos)). destruct (bpass key x t (S pos)) as [r sw]. cbn [fst] in *.
    eapply Permutation_trans; [apply perm_swap|]. apply perm_skip. exact IH.
  - specialize (IH y (S pos)). destruct (bpass key y t (S pos)) as [r sw]. cbn [fst] in *. apply perm_skip. exact IH.
Qed.
Lemma cnt_lt_perm x l l' : Permutation l l' -> cnt_lt key x l = cnt_lt key x l'.
Proof. induction 1; cbn [cnt_lt]; lia. Qed.

(* each swap removes exactly one inversion *)
Lemma bpass_inv : forall l x pos, inv key (fst (bpass key x l pos)) + length (snd (bpass key x l pos)) = inv key (x :: l).
Proof.
  induction l as [|y t IH]; intros x pos; cbn [bpass]; [reflexivity|].
  destruct (Nat.ltb_spec (key y) (key x)) as [Hlt|Hge].
  - specialize (IH x (S pos)). pose proof (bpass_perm t x (S pos)) as Hp.
    destruct (bpass key x t (S pos)) as [r sw]. cbn [fst snd length] in *.
    cbn [inv cnt_lt] in *. rewrite <- (cnt_lt_perm y _ _ Hp). cbn [cnt_lt].
    destruct (Nat.ltb_spec (key y) (key x)); [|lia]. destruct (Nat.ltb_spec (key x) (key y)); [lia|]. lia.
  - specialize (IH y (S pos)). pose proof (bpass_perm t y (S pos)) as Hp.
    destruct (bpass key y t (S pos)) as [r sw]. cbn [fst snd length] in *.
    cbn [inv cnt_lt] in *. rewrite <- (cnt_lt_perm x _ _ Hp). cbn [cnt_lt].
    destruct (Nat.ltb_spec (key y) (key x)); [lia|]. lia.
Qed.

(* positions recorded are within the list and increasing from pos *)
Lemma bpass_positions : forall l x pos, Forall (fun p => pos <= p < pos + length l) (snd (bpass key x l pos)).
Proof.
  induction l as [|y t IH]; intros x pos; cbn [bpass snd]; [constructor|].
  destruct (Nat.ltb (key y) (key x)).
  - specialize (IH x (S pos)). destruct (bpass key x t (S pos)) as [r sw]. cbn [snd length] in *.
    constructor; [lia|]. eapply Forall_impl; [|exact IH]. cbn. intros; lia.
  - specialize (IH y (S pos)). destruct (bpass key y t (S pos)) as [r sw]. cbn [snd length] in *.
    eapply Forall_impl; [|exact IH]. cbn. intros; lia.
Qed.

Definition ksorted (l : list nat) : Prop := Sorted (fun a b => key a <= key b) l.
(* a pass without swaps leaves the list unchanged and certifies that it is sorted by key *)
Lemma bpass_noswap : forall l x pos, snd (bpass key x l pos) = [] -> fst (bpass key x l pos) = x :: l /\ ksorted (x :: l).
Proof.
  induction l as [|y t IH]; intros x pos H; cbn [bpass] in *.
  - split; [reflexivity|]. repeat constructor.
  - destruct (Nat.ltb_spec (key y) (key x)) as [Hlt|Hge].
    + destruct (bpass key x t (S pos)) as [r sw]. cbn [snd] in H. discriminate.
    + specialize (IH y (S pos)). destruct (bpass key y t (S pos)) as [r sw]. cbn [fst snd] in *.
      destruct (IH H) as [E S]. subst r. split; [reflexivity|]. constructor; [exact S|]. constructor. exact Hge.
Qed.

Lemma sorted_inv0 l : ksorted l -> inv key l = 0.
Proof.
  intros S. apply Sorted_StronglySorted in S; [|intros x y z; lia].
  induction S as [|a t St IH Fa]; cbn [inv]; [reflexivity|]. rewrite IH.
  assert (cnt_lt key a t = 0); [|lia].
  clear -Fa. induction Fa as [|y t Hy Ft IHt]; cbn [cnt_lt]; [reflexivity|].
  destruct (Nat.ltb_spec (key y) (key a)); lia.
Qed.

Theorem bloop_spec : forall fuel l acc, inv key l < fuel ->
  exists l' sw, bloop key fuel l acc = Some (l', acc ++ sw) /\ Permutation l l' /\ ksorted l' /\ length sw = inv key l.
Proof.
  induction fuel as [|f IH]; intros l acc Hf; [lia|].
  cbn [bloop]. destruct l as [|x t].
  - cbn [pass]. exists [], []. rewrite app_nil_r. repeat split; auto. constructor.
  - cbn [pass]. pose proof (bpass_inv t x 0) as Hi. pose proof (bpass_perm t x 0) as Hp. pose proof (bpass_noswap t x 0) as Hn.
    destruct (bpass key x t 0) as [r sw] eqn:Eb. cbn [fst snd] in *.
    destruct sw as [|s sw'].
    + destruct (Hn eq_refl) as [E S]. subst r. exists (x :: t), []. rewrite app_nil_r. cbn [length] in Hi.
      repeat split; auto. cbn [length]. rewrite sorted_inv0; auto.
    + cbn [length] in Hi.
      destruct (IH r (acc ++ s :: sw')) as (l' & sw2 & E & P & S & L); [lia|].
      exists l', ((s :: sw') ++ sw2). rewrite E. rewrite app_assoc. repeat split; auto.
      * eapply Permutation_trans; eassumption.
      * rewrite app_length. cbn [length]. lia.
Qed.
(* every recorded swap position is a bond of the train: p + 1 < d *)
Theorem bloop_positions : forall fuel l acc l' out, bloop key fuel l acc = Some (l', out) ->
  Forall (fun p => p + 1 < length l) acc -> Forall (fun p => p + 1 < length l) out.
Proof.
  induction fuel as [|f IH]; intros l acc l' out H Ha; [discriminate|].
  cbn [bloop] in H. destruct l as [|x t].
  - cbn [pass] in H. inversion H; subst. exact Ha.
  - cbn [pass] in H. pose proof (bpass_positions t x 0) as Hpos. pose proof (bpass_perm t x 0) as Hp.
    destruct (bpass key x t 0) as [r sw]. cbn [fst snd] in *.
    destruct sw as [|s sw'].
    + inversion H; subst. exact Ha.
    + assert (Hl : length r = length (x :: t)) by (symmetry; apply Permutation_length; exact Hp).
      specialize (IH r (acc ++ s :: sw') l' out H). rewrite Hl in IH. apply IH.
      apply Forall_app. split; [exact Ha|]. eapply Forall_impl; [|exact Hpos]. cbn [length]. intros; lia.
Qed.
End SchedP.

(* ---- the result is the requested order ---- *)
Lemma index_of_nth (l : list nat) : NoDup l -> forall i, i < length l -> index_of (nth i l 0) l = i.
Proof.
  induction l as [|y t IH]; intros Hnd i Hi; simpl in Hi; [lia|].
  inversion Hnd as [|? ? Hnin Hnd']; subst. destruct i as [|i]; cbn [nth index_of].
  - rewrite Nat.eqb_refl. reflexivity.
  - destruct (Nat.eqb_spec y (nth i t 0)) as [E|_].
    + exfalso. apply Hnin. rewrite E. apply nth_In. lia.
    + rewrite IH by (auto; lia). reflexivity.
Qed.
Lemma index_of_inj (l : list nat) x y : In x l -> In y l -> index_of x l = index_of y l -> x = y.
Proof.
  induction l as [|z t IH]; intros Hx Hy H; [contradiction|]. cbn [index_of] in H.
  destruct (Nat.eqb_spec z x) as [E1|N1]; destruct (Nat.eqb_spec z y) as [E2|N2]; try congruence; try discriminate.
  apply IH; [destruct Hx; [congruence|assumption]|destruct Hy; [congruence|assumption]|lia].
Qed.

(* two key-sorted lists with the same elements and an injective key coincide *)
Lemma sorted_perm_unique (key : nat -> nat) : forall l l', Permutation l l' -> NoDup l ->
  (forall x y, In x l -> In y l -> key x = key y -> x = y) ->
  ksorted key l -> ksorted key l' -> l = l'.
Proof.
  induction l as [|a t IH]; intros l' P Hnd Hinj S S'.
  - apply Permutation_nil in P. subst. reflexivity.
  - destruct l' as [|b t']; [apply Permutation_sym, Permutation_nil in P; discriminate|].
    assert (Hab : a = b).
    { apply Sorted_StronglySorted in S; [|intros x y z; lia]. apply Sorted_StronglySorted in S'; [|intros x y z; lia].
      inversion S as [|? ? _ Fa]; subst. inversion S' as [|? ? _ Fb]; subst.
      assert (Hb : In b (a :: t)) by (eapply Permutation_in; [apply Permutation_sym; exact P|left; reflexivity]).
      assert (Ha : In a (b :: t')) by (eapply Permutation_in; [exact P|left; reflexivity]).
      destruct Hb as [Hb|Hb]; [assumption|]. destruct Ha as [Ha|Ha]; [congruence|].
      rewrite Forall_forall in Fa, Fb. pose proof (Fa b Hb). pose proof (Fb a Ha).
      apply Hinj; [left; reflexivity|right; assumption|lia]. }
    subst b. f_equal. apply Permutation_cons_inv in P.
    inversion Hnd; subst. inversion S; subst. inversion S'; subst.
    apply IH; auto. intros x y Hx Hy. apply Hinj; right; assumption.
Qed.

Lemma skipn_nth_cons (k : nat) : forall (l : list nat) d, k < length l -> skipn k l = nth k l d :: skipn (S k) l.
Proof. induction k as [|k IH]; intros [|a t] d H; simpl in H; try lia; [reflexivity|]. cbn [skipn nth]. apply IH. lia. Qed.

Lemma dims_ksorted (dims : list nat) : NoDup dims -> ksorted (fun x => index_of x dims) dims.
Proof.
  intros Hnd. unfold ksorted.
  assert (H : forall k, k <= length dims -> Sorted (fun a b => index_of a dims <= index_of b dims) (skipn k dims)).
  { intros k. remember (length dims - k) as m eqn:Em. revert k Em. induction m as [|m IH]; intros k Em Hk.
    - rewrite skipn_all2 by lia. constructor.
    - assert (Hlt : k < length dims) by lia.
      rewrite (skipn_nth_cons k dims 0) by exact Hlt. constructor; [apply IH; lia|].
      destruct (Nat.eq_dec (S k) (length dims)) as [E|N].
      + rewrite skipn_all2 by lia. constructor.
      + rewrite (skipn_nth_cons (S k) dims 0) by lia. constructor. rewrite !index_of_nth by (auto; lia). lia. }
  apply (H 0). lia.
Qed.

(* torchtt.permute(x, dims): for every permutation dims of 0..d-1 the loop terminates, the number of supercore SVDs equals the number
   of inversions, every swap position is a valid bond, and the final order of the modes is dims *)
Theorem permute_schedule_spec (dims : list nat) : Permutation (seq 0 (length dims)) dims ->
  exists sw, permute_schedule dims = Some (dims, sw) /\
             length sw = inv (fun x => index_of x dims) (seq 0 (length dims)) /\
             Forall (fun p => p + 1 < length dims) sw.
Proof.
  intros P. unfold permute_schedule. set (d := length dims). set (key := fun x => index_of x dims).
  assert (Hnd : NoDup dims) by (eapply Permutation_NoDup; [exact P|apply seq_NoDup]).
  destruct (bloop_spec key (d * d + 1) (seq 0 d) []) as (l' & sw & E & P' & S & L).
  { assert (Hb : forall l, inv key l <= length l * length l).
    { induction l as [|x t IHl]; cbn [inv length]; [lia|].
      assert (cnt_lt key x t <= length t) by (clear; induction t as [|y t IHt]; cbn [cnt_lt length]; [lia|]; destruct (Nat.ltb (key y) (key x)); lia).
      nia. }
    specialize (Hb (seq 0 d)). rewrite seq_length in Hb. lia. }
  exists sw. cbn [app] in E. split; [|split; [exact L|]].
  2:{ pose proof (bloop_positions key _ _ _ _ _ E (Forall_nil _)) as Hpos. rewrite seq_length in Hpos. exact Hpos. }
  rewrite E. f_equal. f_equal.
  apply (sorted_perm_unique key).
  - eapply Permutation_trans; [apply Permutation_sym; exact P'|exact P].
  - eapply Permutation_NoDup; [exact P'|apply seq_NoDup].
  - intros x y Hx Hy. apply index_of_inj; (eapply Permutation_in; [|eassumption]); eapply Permutation_trans; try (apply Permutation_sym; exact P'); exact P.
  - exact S.
  - apply dims_ksorted. exact Hnd.
Qed.

(* ---- to_qtt: a tensor whose modes are 2^k_i (k_i >= 1) gets exactly sum k_i modes of size 2, and the number of entries is kept ---- *)
Lemma qtt_modes_pow2 (ks : list nat) : Forall (fun k => 1 <= k) ks ->
  qtt_modes (map (fun k => 2 ^ k) ks) = repeat 2 (fold_right Nat.add 0 ks).
Proof.
  induction ks as [|k t IH]; intros H; [reflexivity|]. inversion H as [|? ? Hk Ht]; subst.
  cbn [map qtt_modes flat_map fold_right]. fold (qtt_modes (map (fun k => 2 ^ k) t)). rewrite IH by assumption.
  rewrite Nat.log2_pow2 by lia. rewrite repeat_app.
  destruct (Nat.ltb_spec 1 k) as [H1|H1]; [reflexivity|].
  assert (k = 1) by lia. subst k. reflexivity.
Qed.
Lemma prod_repeat2 k : fold_right Nat.mul 1 (repeat 2 k) = 2 ^ k.
Proof. induction k as [|k IH]; cbn [repeat fold_right]; [reflexivity|]. rewrite IH. cbn [Nat.pow]. lia. Qed.
Theorem qtt_modes_spec (ks : list nat) : Forall (fun k => 1 <= k) ks ->
  qtt_modes (map (fun k => 2 ^ k) ks) = repeat 2 (fold_right Nat.add 0 ks) /\
  fold_right Nat.mul 1 (qtt_modes (map (fun k => 2 ^ k) ks)) = fold_right Nat.mul 1 (map (fun k => 2 ^ k) ks).
Proof.
  intros H. split; [apply qtt_modes_pow2; exact H|]. rewrite qtt_modes_pow2 by exact H. rewrite prod_repeat2.
  clear H. induction ks as [|k t IH]; cbn [map fold_right]; [reflexivity|]. rewrite Nat.pow_add_r, IH. reflexivity.
Qed.
