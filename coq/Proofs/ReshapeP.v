(* The reshape loop terminates and produces exactly the requested mode sizes whenever the element counts agree (C10). *)
From Coq Require Import List Arith Lia Bool.
From TT Require Import Reshape.
Import ListNotations.

Definition allpos (l : list nat) : Prop := Forall (fun n => 1 <= n) l.

Lemma prodl_pos l : allpos l -> 1 <= prodl l.
Proof. induction 1; simpl; [lia|]. unfold prodl in *. simpl. nia. Qed.
Lemma prod1_ones l : allpos l -> prodl l = 1 -> l = repeat 1 (length l).
Proof.
  induction 1 as [|a l Ha Hl IH]; intros H; [reflexivity|]. unfold prodl in *. simpl in *.
  pose proof (prodl_pos l Hl) as Hp. unfold prodl in Hp.
  assert (a = 1 /\ fold_right Nat.mul 1 l = 1) by nia. destruct H0 as [-> H1]. rewrite <- IH by assumption. reflexivity.
Qed.

Lemma reshape_loop_spec : forall fuel c ins tg acc,
  length ins + length tg < fuel -> 1 <= c -> allpos ins -> allpos tg ->
  c * prodl ins = prodl tg ->
  reshape_loop fuel c ins tg acc = Some (rev acc ++ tg).
Proof.
  induction fuel as [|f IH]; intros c ins tg acc Hf Hc Hi Ht Hp; [lia|].
  cbn [reshape_loop]. destruct tg as [|t tgt].
  - rewrite app_nil_r. reflexivity.
  - inversion Ht as [|? ? Ht1 Ht2]; subst.
    assert (Hpt : prodl (t :: tgt) = t * prodl tgt) by reflexivity. rewrite Hpt in Hp.
    pose proof (prodl_pos tgt Ht2) as Hptp. pose proof (prodl_pos ins Hi) as Hpip.
    destruct (Nat.eqb_spec (c mod t) 0) as [Hm|Hm].
    + apply Nat.mod_divide in Hm; [|lia]. destruct Hm as [k Hk].
      assert (Hdiv : c / t = k) by (subst c; apply Nat.div_mul; lia).
      rewrite Hdiv. destruct (Nat.ltb_spec 1 k) as [Hk1|Hk1].
      * (* split *)
        rewrite (IH k ins tgt (t :: acc));
          [simpl; rewrite <- app_assoc; reflexivity | simpl in *; lia | lia | assumption | assumption | subst c; nia].
      * assert (k = 1) by nia. subst k. assert (c = t) by lia. subst c.
        destruct ins as [|n ins'].
        -- (* last input core *)
           unfold prodl in Hp at 1. simpl in Hp. assert (Hone : prodl tgt = 1) by nia.
           rewrite <- (prod1_ones tgt Ht2 Hone). simpl. rewrite <- app_assoc. reflexivity.
        -- inversion Hi as [|? ? Hn Hi']; subst.
           assert (Hpi : prodl (n :: ins') = n * prodl ins') by reflexivity. rewrite Hpi in Hp.
           rewrite (IH n ins' tgt (t :: acc));
             [simpl; rewrite <- app_assoc; reflexivity | simpl in *; lia | lia | assumption | assumption | nia].
    + destruct ins as [|n ins'].
      * exfalso. apply Hm. unfold prodl in Hp at 1. simpl in Hp. rewrite Nat.mul_1_r in Hp. subst c.
        rewrite Nat.mul_comm. apply Nat.mod_mul. lia.
      * inversion Hi as [|? ? Hn Hi']; subst.
        assert (Hpi : prodl (n :: ins') = n * prodl ins') by reflexivity. rewrite Hpi in Hp.
        rewrite (IH (c * n) ins' (t :: tgt) acc);
          [reflexivity | simpl in *; lia | nia | assumption | assumption | rewrite Hpt; nia].
Qed.

(* for every list of input modes and every target shape with the same number of elements (singleton modes anywhere, any ordered
   factorisation / merging): the loop terminates within its fuel and returns exactly the requested mode sizes *)
Theorem reshape_shape ns tg : ns <> [] -> allpos ns -> allpos tg -> prodl ns = prodl tg ->
  reshape_modes ns tg = Some tg.
Proof.
  intros Hne Hn Ht Hp. unfold reshape_modes. destruct ns as [|c ins]; [congruence|].
  inversion Hn; subst. rewrite (reshape_loop_spec _ c ins tg []); auto; simpl; lia.
Qed.
